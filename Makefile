# Builds libxcm straight from /repo's working tree (no libtool, no install) into
# sanitizer-instrumented objects under /verif/build/<variant>/, plus the shim and
# the conformance harnesses.  Every check calls `make -C /verif -j16 <target>`
# first, so a changed source in /repo is always recompiled (-MMD dependencies).

REPO    ?= /repo
V       ?= /verif
VARIANT ?= asan
BROOT   ?= $(V)/build
B       := $(BROOT)/$(VARIANT)

CC := gcc
ifeq ($(VARIANT),asan)
SAN := -fsanitize=address,undefined -fno-sanitize-recover=undefined -fno-omit-frame-pointer
endif
ifeq ($(VARIANT),tsan)
SAN := -fsanitize=thread -fno-omit-frame-pointer
endif
ifeq ($(VARIANT),plain)
SAN :=
endif

INC := -I$(REPO)/include -I$(REPO)/common -I$(REPO)/libxcm/core \
       -I$(REPO)/libxcm/tp/common -I$(REPO)/libxcm/tp/ux -I$(REPO)/libxcm/tp/tcp \
       -I$(REPO)/libxcm/tp/dns -I$(REPO)/libxcm/tp/tls -I$(REPO)/libxcm/ctl \
       -I$(REPO)/libxcmctl -I$(REPO)/tools/common -I$(V)/gen -I$(V)/shim -I$(V)/harness

CFLAGS := -std=gnu99 -O1 -g $(SAN) -D_POSIX_C_SOURCE=200809L -D_BSD_SOURCE \
          -D_DEFAULT_SOURCE -D_GNU_SOURCE -DHAVE_CONFIG_H -DXCM_VERIF \
          -DSYSCONFDIR='"/etc"' -w $(INC) -MMD -MP

LIB_SRC := $(REPO)/common/slist.c $(REPO)/common/util.c $(REPO)/common/common_ctl.c \
           $(wildcard $(REPO)/libxcm/core/*.c) \
           $(wildcard $(REPO)/libxcm/tp/common/*.c) \
           $(REPO)/libxcm/tp/dns/xcm_dns.c $(REPO)/libxcm/tp/dns/xcm_dns_cares.c \
           $(wildcard $(REPO)/libxcm/tp/tcp/*.c) \
           $(wildcard $(REPO)/libxcm/tp/ux/*.c) \
           $(wildcard $(REPO)/libxcm/tp/tls/*.c) \
           $(wildcard $(REPO)/libxcm/ctl/*.c)
LIB_OBJ := $(patsubst $(REPO)/%.c,$(B)/repo/%.o,$(LIB_SRC))

CTLCLI_SRC := $(REPO)/libxcmctl/xcmc.c
CTLCLI_OBJ := $(patsubst $(REPO)/%.c,$(B)/repo/%.o,$(CTLCLI_SRC))

RELAY_SRC := $(wildcard $(REPO)/tools/xcmrelay/*.c) $(REPO)/tools/common/attr.c
RELAY_OBJ := $(patsubst $(REPO)/%.c,$(B)/repo/%.o,$(RELAY_SRC))
REPO_UTIL_OBJ :=

SHIM_OBJ := $(B)/shim/shim.o
CARES_STUB_OBJ := $(B)/shim/cares_stub.o

LDLIBS_REAL := -lcares -lssl -lcrypto -lpthread -lm
LDLIBS_STUB := -lssl -lcrypto -lpthread -lm

# symbols of libc intercepted at link time in library + harness objects
WRAP_SYMS := send recv connect accept4 socket close bind listen epoll_create1 \
             epoll_ctl eventfd timerfd_create poll fopen open unlink \
             setsockopt getsockopt epoll_wait ppoll select nanosleep usleep sleep \
             read write readv writev recvmsg sendmsg recvfrom sendto epoll_pwait pselect clock_nanosleep getaddrinfo
# internal seams: calls across translation units inside libxcm
WRAP_TP := xcm_tp_socket_send xcm_tp_socket_receive xcm_tp_socket_finish
WRAP := $(foreach s,$(WRAP_SYMS) $(WRAP_TP),-Wl,--wrap=$(s))

HARNESSES := conn_exec addr_exec maps_exec attr_exec tconn_exec life_exec \
             ctl_exec tlsmx_exec creds_exec relay_exec thr_exec
BIN := $(patsubst %,$(B)/bin/%,$(HARNESSES))

.PHONY: all lib clean
all: lib

lib: $(LIB_OBJ)

$(B)/repo/%.o: $(REPO)/%.c
	@mkdir -p $(dir $@)
	@$(CC) $(CFLAGS) -c $< -o $@

$(B)/shim/%.o: $(V)/shim/%.c
	@mkdir -p $(dir $@)
	@$(CC) $(CFLAGS) -c $< -o $@

$(B)/harness/%.o: $(V)/harness/%.c
	@mkdir -p $(dir $@)
	@$(CC) $(CFLAGS) -c $< -o $@

# ---- harness link rules -------------------------------------------------
# conn_exec additionally observes what btls asks of OpenSSL (references from libxcm's objects only)
WRAP_SSL := -Wl,--wrap=SSL_read -Wl,--wrap=SSL_write -Wl,--wrap=SSL_get_error
$(B)/bin/conn_exec: $(B)/harness/conn_exec.o $(SHIM_OBJ) $(LIB_OBJ)
	@mkdir -p $(dir $@)
	@$(CC) $(SAN) -o $@ $^ $(WRAP) $(WRAP_SSL) $(LDLIBS_REAL)

$(B)/bin/est_exec: $(B)/harness/est_exec.o $(SHIM_OBJ) $(LIB_OBJ)
	@mkdir -p $(dir $@)
	@$(CC) $(SAN) -o $@ $^ $(WRAP) $(LDLIBS_REAL)

# xpoll_exec: the real xpoll.c / active_fd.c driven directly; epoll_ctl observed at link time by the harness itself
$(B)/bin/xpoll_exec: $(B)/harness/xpoll_exec.o $(LIB_OBJ)
	@mkdir -p $(dir $@)
	@$(CC) $(SAN) -o $@ $^ -Wl,--wrap=epoll_ctl $(LDLIBS_REAL)

# mbuf_exec: the real mbuf.h (message buffer and wire encoding of tcp / tls) driven directly
$(B)/bin/mbuf_exec: $(B)/harness/mbuf_exec.o $(LIB_OBJ)
	@mkdir -p $(dir $@)
	@$(CC) $(SAN) -o $@ $^ $(LDLIBS_REAL)

# timer_exec: the real timer_mgr.c over the real xpoll.c in real time; timerfd_settime observed at link time
$(B)/bin/timer_exec: $(B)/harness/timer_exec.o $(LIB_OBJ)
	@mkdir -p $(dir $@)
	@$(CC) $(SAN) -o $@ $^ -Wl,--wrap=timerfd_settime $(LDLIBS_REAL)

$(B)/bin/addr_exec: $(B)/harness/addr_exec.o $(LIB_OBJ)
	@mkdir -p $(dir $@)
	@$(CC) $(SAN) -o $@ $^ $(LDLIBS_REAL)

$(B)/bin/maps_exec: $(B)/harness/maps_exec.o $(LIB_OBJ)
	@mkdir -p $(dir $@)
	@$(CC) $(SAN) -o $@ $^ $(LDLIBS_REAL)

$(B)/bin/attr_exec: $(B)/harness/attr_exec.o $(SHIM_OBJ) $(LIB_OBJ)
	@mkdir -p $(dir $@)
	@$(CC) $(SAN) -o $@ $^ $(WRAP) $(LDLIBS_REAL)

# tconn_exec: own shim (connect redirection, virtual clock, wait watch) instead of shim.o,
# scripted resolver instead of -lcares
TCONN_WRAP_SYMS := socket connect bind close poll ppoll select epoll_wait nanosleep usleep sleep \
                   clock_gettime timerfd_create timerfd_settime
TCONN_WRAP := $(foreach s,$(TCONN_WRAP_SYMS),-Wl,--wrap=$(s))
# xcm_dns_cares.c evaluates c-ares' ARES_GETSOCK_WRITABLE(mask, 15) = 1 << 31 on every update (benign, inside the
# system header's macro); with -fno-sanitize-recover a runtime suppression cannot apply, so this harness - the only
# one that resolves names - links its own copy of that one object without the shift-base check
$(B)/tconn/xcm_dns_cares.o: $(REPO)/libxcm/tp/dns/xcm_dns_cares.c
	@mkdir -p $(dir $@)
	@$(CC) $(CFLAGS) -fno-sanitize=shift-base -c $< -o $@
-include $(wildcard $(B)/tconn/*.d)
TCONN_LIB_OBJ := $(filter-out %/xcm_dns_cares.o,$(LIB_OBJ)) $(B)/tconn/xcm_dns_cares.o
$(B)/bin/tconn_exec: $(B)/harness/tconn_exec.o $(B)/shim/shim_tconn.o $(CARES_STUB_OBJ) $(TCONN_LIB_OBJ)
	@mkdir -p $(dir $@)
	@$(CC) $(SAN) -o $@ $^ $(TCONN_WRAP) $(LDLIBS_STUB)

# C08: own shim (shim/shim_life.c) with its own interposition list; shim.o is not linked
LIFE_WRAP := $(foreach s,send recv connect accept4 socket close bind listen epoll_create1 epoll_ctl eventfd \
             timerfd_create timerfd_settime fopen fread fclose open unlink setsockopt getsockopt shutdown dup dup2 fcntl,\
             -Wl,--wrap=$(s))
$(B)/bin/life_exec: $(B)/harness/life_exec.o $(B)/shim/shim_life.o $(LIB_OBJ)
	@mkdir -p $(dir $@)
	@$(CC) $(SAN) -o $@ $^ $(LIFE_WRAP) $(LDLIBS_REAL)

$(B)/bin/ctl_exec: $(B)/harness/ctl_exec.o $(SHIM_OBJ) $(LIB_OBJ) $(CTLCLI_OBJ)
	@mkdir -p $(dir $@)
	@$(CC) $(SAN) -o $@ $^ $(WRAP) $(LDLIBS_REAL)

$(B)/bin/tlsmx_exec: $(B)/harness/tlsmx_exec.o $(SHIM_OBJ) $(LIB_OBJ)
	@mkdir -p $(dir $@)
	@$(CC) $(SAN) -o $@ $^ $(WRAP) $(LDLIBS_REAL)

# creds_exec has its own interposition (shim/shim_creds.c): credential-file accesses, SSL_CTX life, ctx_store seam
WRAP_CREDS := $(foreach s,stat lstat fopen open SSL_CTX_new SSL_CTX_free SSL_CTX_up_ref SSL_new \
                ctx_store_get_ctx ctx_store_put,-Wl,--wrap=$(s))
$(B)/bin/creds_exec: $(B)/harness/creds_exec.o $(B)/shim/shim_creds.o $(LIB_OBJ)
	@mkdir -p $(dir $@)
	@$(CC) $(SAN) -o $@ $^ $(WRAP_CREDS) $(LDLIBS_REAL)

# threads harness: no shim (the interposition tables are not thread-safe); use VARIANT=tsan
$(B)/bin/thr_exec: $(B)/harness/thr_exec.o $(LIB_OBJ)
	@mkdir -p $(dir $@)
	@$(CC) $(SAN) -o $@ $^ -Wl,--wrap=close $(LDLIBS_REAL)

# relay: the tool itself built from the working tree, and the two-endpoint driver
$(B)/bin/xcmrelay: $(RELAY_OBJ) $(REPO_UTIL_OBJ) $(LIB_OBJ)
	@mkdir -p $(dir $@)
	@$(CC) $(SAN) -o $@ $^ $(LDLIBS_REAL) -levent

$(B)/bin/relay_exec: $(B)/harness/relay_exec.o $(LIB_OBJ)
	@mkdir -p $(dir $@)
	@$(CC) $(SAN) -o $@ $^ $(LDLIBS_REAL)

# second relay binary: the same tool with small kernel buffers on its TCP sockets (shim/shim_relay.c, C20_SNDBUF/C20_RCVBUF)
$(B)/bin/xcmrelay_sb: $(RELAY_OBJ) $(REPO_UTIL_OBJ) $(B)/shim/shim_relay.o $(LIB_OBJ)
	@mkdir -p $(dir $@)
	@$(CC) $(SAN) -o $@ $^ -Wl,--wrap=socket $(LDLIBS_REAL) -levent

clean:
	rm -rf $(BROOT)

-include $(LIB_OBJ:.o=.d) $(wildcard $(B)/shim/*.d) $(wildcard $(B)/harness/*.d) \
         $(CTLCLI_OBJ:.o=.d) $(RELAY_OBJ:.o=.d)
