"""C19 - attribute maps are finite maps; attribute paths are canonical.

Pipeline per run (DESIGN 3.5 / 3.6 / 4.9):
  1. build harness/maps_exec from /repo's working tree (ASan + UBSan)
  2. TLC on spec/AttrMap.tla (bounded: 3 keys, 2 maps, 5 types): finite-map laws as invariants / step
     properties; every distinct state (quick) or transition (thorough) is emitted as a replay path
     TLC on spec/AttrPath.tla: the path grammar as an automaton; print/parse laws; every string over the
     symbol alphabet up to a bound is emitted as a test vector
  3. direction 1: the emitted paths / strings are run by maps_exec against the real xcm_attr_map_* API and
     attr_path_*; everything observable is recorded after every operation
     direction 2: seeded random long operation sequences (large key universes, big / empty / odd values)
     and random / long / deep path strings are run the same way
  4. TLC validates every recorded line against spec/AttrMapTrace.tla resp. spec/AttrPathTrace.tla
     (the expected observations come from the specification's own state)
  5. mismatches (@V lines) -> VIOLATION unless listed in known_findings.json; @N counters -> notes

Tags: C19.map  C19.alias  C19.bytes  C19.path_roundtrip  C19.path_accepts  C19.path_rejects  C19.crash
"""
import concurrent.futures
import glob
import json
import os
import random
import re
import subprocess
import time
import zlib

import vlib
from vlib import InternalError

TIERS = {
    # map_cfgs: (name, value set, depth, emission, max paths)
    "quick": dict(
        map_cfgs=[("small3t", "small", 3, "transition", 12000), ("small4s", "small", 4, "state", 7000)],
        map_random=500, map_random_big=6,
        path_cfgs=[("full", "{97, 48, 55, 46, 91, 93, 95, 45, 43, 32, 37}", 5),
                   ("core", "{97, 48, 49, 46, 91, 93}", 6)],
        path_rel_every=10, path_random=20000, nbatch=8),
    "thorough": dict(
        map_cfgs=[("small4t", "small", 4, "transition", 150000), ("large3t", "large", 3, "transition", 60000),
                  ("small5s", "small", 5, "state", 110000)],
        map_random=20000, map_random_big=150,
        path_cfgs=[("full", "{97, 48, 55, 46, 91, 93, 95, 45, 43, 32, 37}", 5),
                   ("core", "{97, 48, 49, 46, 91, 93}", 8)],
        path_rel_every=5, path_random=400000, nbatch=16),
}

ASAN_ENV = {
    "ASAN_OPTIONS": "detect_leaks=0:abort_on_error=0:detect_stack_use_after_return=1:handle_abort=0:"
                    "allocator_may_return_null=0:exitcode=3",
    "UBSAN_OPTIONS": "print_stacktrace=0:halt_on_error=1",
}

JAVA_TRACE = "-Xmx4g -Xss128m -Dtlc2.tool.queue.IStateQueue=StateDeque"
JAVA_MC = "-Xmx8g -Xss64m"


# =========================================================== model checking ====
def write_cfg(name, lines):
    d = vlib.BUILD + "/cfg"
    os.makedirs(d, exist_ok=True)
    path = "%s/c19_%s_%d.cfg" % (d, name, os.getpid())
    with open(path, "w") as f:
        f.write("\n".join(lines) + "\n")
    return path


def run_tlc(spec, cfg, workers, tag, java, env=None, timeout=1500):
    e = {"JAVA_TOOL_OPTIONS": java}
    if env:
        e.update(env)
    r = vlib.tlc(spec, cfg, workers=workers, extra="-noGenerateSpecTE", env=e, timeout=timeout,
                 metadir="%s/c19.%s.%d" % (vlib.TLCDIR, tag, os.getpid()))
    return r


def mc_map(name, valset, depth, emit):
    """bounded AttrMap model: laws + replay paths"""
    inv = ["TypeOK", "LawSize", "LawEqual", "LawTyped", "LawAlgebra"] + (["EmitState"] if emit == "state" else [])
    lines = ["SPECIFICATION Spec", "CONSTANTS", '  Keys = {"k1", "k2", "k3"}', '  ValSet = "%s"' % valset,
             "  MaxOps = %d" % depth, '  EmitPaths = "%s"' % emit, "VIEW view", "INVARIANTS " + " ".join(inv),
             "PROPERTY StepLaws"]
    if emit == "transition":
        lines.append("ACTION_CONSTRAINT Emit")
    lines.append("CHECK_DEADLOCK FALSE")
    cfg = write_cfg("map_" + name, lines)
    # one worker: breadth-first order is then deterministic, so is the set of emitted paths
    r = run_tlc("AttrMap", cfg, 1, "map_" + name, JAVA_MC)
    os.unlink(cfg)
    if r["error"]:
        raise InternalError("TLC failed on AttrMap/%s:\n%s" % (name, r["error"]))
    paths = []
    for m in re.finditer(r'<<"@P", "(.*)">>', r["out"]):
        try:
            paths.append(json.loads(m.group(1).replace('\\"', '"')))
        except ValueError:
            raise InternalError("unparsable @P line from AttrMap/%s" % name)
    return r, paths


def mc_path(name, alphabet, maxlen):
    """bounded AttrPath model: laws + test vectors"""
    lines = ["SPECIFICATION Spec", "CONSTANTS", "  Alphabet = %s" % alphabet, "  MaxLen = %d" % maxlen,
             "  EmitVec = TRUE", "INVARIANTS LawFold LawRoundTrip LawFixedPoint LawShape EmitS",
             "PROPERTY DeadStaysDead", "CHECK_DEADLOCK FALSE"]
    cfg = write_cfg("path_" + name, lines)
    r = run_tlc("AttrPath", cfg, vlib.NCPU, "path_" + name, JAVA_MC)
    os.unlink(cfg)
    if r["error"]:
        raise InternalError("TLC failed on AttrPath/%s:\n%s" % (name, r["error"]))
    vecs = []
    for m in re.finditer(r'<<"@S", "(.*)">>', r["out"]):
        try:
            vecs.append(json.loads(m.group(1).replace('\\"', '"')))
        except ValueError:
            raise InternalError("unparsable @S line from AttrPath/%s" % name)
    return r, vecs


def maximal_paths(paths):
    """drop paths that are a proper prefix of another one (the longer one checks every step of the shorter)"""
    ks = sorted(set(json.dumps(p) for p in paths))
    ps = sorted(json.loads(k) for k in ks)
    out = []
    for i, p in enumerate(ps):
        if i + 1 < len(ps) and ps[i + 1][:len(p)] == p:
            continue
        out.append(p)
    return out


# ============================================================== map scripts ====
def hx(b):
    return b.hex() if b else "-"


# concrete names for the model's k1, k2, k3 (name classes: plain, prefixes of each other, case, empty and
# odd bytes, very long, dotted like real attribute names, high bytes, with path syntax)
NAME_TRIPLES = [
    (b"a", b"b", b"c"),
    (b"k", b"kk", b"kkk"),
    (b"Key", b"key", b"KEY"),
    (b"", b" ", b"\x01"),
    (b"x" * 255 + b"1", b"x" * 255 + b"2", b"x" * 254),
    (b"tls.cert", b"tls.cert_file", b"tls"),
    (b"\xff\xfe", b"\xff", b"\xfe\xff"),
    (b"a.b[0]", b"a.b[1]", b"a.b"),
    (b"n" * 4000, b"n" * 3999, b"m" * 4000),
]


def path_to_script(p, xid, adder):
    tr = NAME_TRIPLES[xid % len(NAME_TRIPLES)]
    lines = ["X %d 1 %d" % (xid, adder)]
    for i, nm in enumerate(tr):
        lines.append("K k%d %s" % (i + 1, hx(nm)))
    for st in p:
        op = st[0]
        if op == "add":
            lines.append("add %s %s %s" % (st[1], st[2], st[4]))
        elif op == "del":
            lines.append("del %s %s" % (st[1], st[2]))
        elif op == "addall":
            lines.append("addall %s %s" % (st[1], st[2]))
        elif op in ("create", "clone", "destroy"):
            lines.append(op)
        else:
            raise InternalError("unknown step %r in a path from TLC" % (st,))
    lines.append("E")
    return lines


def gen_names(rnd, n):
    """n distinct names drawn from the name classes"""
    names = []
    seen = set()

    def put(b):
        if b not in seen and b"\x00" not in b and len(names) < n:
            seen.add(b)
            names.append(b)
    classes = ["num", "prefix", "case", "long", "odd", "dotted", "empty"]
    i = 0
    while len(names) < n:
        c = rnd.choice(classes) if n > 3 else classes[i % len(classes)]
        i += 1
        if c == "num":
            put(b"n%d" % rnd.randrange(10 * n + 10))
        elif c == "prefix":
            base = rnd.choice([b"p", b"tcp.", b"xcm"])
            put(base * rnd.randint(1, 6))
            put(base * rnd.randint(1, 6) + b"x")
        elif c == "case":
            w = rnd.choice([b"attr", b"Name", b"xcm.Service"])
            put(rnd.choice([w.lower(), w.upper(), w.swapcase(), w]))
        elif c == "long":
            put(bytes([rnd.choice(b"LMN")]) * rnd.choice([63, 64, 255, 256, 1000, 5000]) + b"%d" % rnd.randrange(50))
        elif c == "odd":
            put(bytes(rnd.randint(1, 255) for _ in range(rnd.randint(1, 12))))
        elif c == "dotted":
            put(b".".join(rnd.choice([b"tls", b"peer", b"cert", b"san", b"dns[0]", b"dns[12]", b"x"])
                          for _ in range(rnd.randint(1, 5))))
        elif c == "empty":
            put(b"")
    return names


INT_EDGE = [0, 1, -1, 2, 255, 256, 65535, 2 ** 31 - 1, -2 ** 31, 2 ** 32, 2 ** 63 - 1, -2 ** 63, -2 ** 63 + 1]
DBL_EDGE = ["0000000000000000", "8000000000000000", "3ff0000000000000", "7ff0000000000000", "fff0000000000000",
            "7ff8000000000000", "7ff8000000000001", "0000000000000001", "7fefffffffffffff", "400921fb54442d18"]
STR_LEN = [0, 1, 1, 2, 3, 7, 8, 64, 255, 256, 1000, 5000]
BIN_LEN = [0, 0, 1, 1, 2, 8, 16, 255, 4096, 4097, 10000, 70000]


def gen_token(rnd):
    t = rnd.randrange(5)
    if t == 0:
        return "b:%d" % rnd.randrange(2)
    if t == 1:
        return "i:%d" % (rnd.choice(INT_EDGE) if rnd.random() < 0.6 else rnd.randrange(-2 ** 63, 2 ** 63))
    if t == 2:
        return "d:%s" % (rnd.choice(DBL_EDGE) if rnd.random() < 0.6 else "%016x" % rnd.getrandbits(64))
    if t == 3:
        ln = rnd.choice(STR_LEN)
        # the first min(len, 4) bytes of the value encode the seed (base 255): distinct tokens, distinct bytes
        return "s:%d:%d" % (ln, rnd.randrange(min(255 ** min(ln, 4), 10 ** 6)) if ln else 0)
    if rnd.random() < 0.15:
        return "z:%d" % rnd.choice([1, 8, 4096])
    ln = rnd.choice(BIN_LEN)
    # seed >= 1 (base 256 in the first bytes): never the all-zero value that z:<len> denotes
    return "x:%d:%d" % (ln, rnd.randrange(1, min(256 ** min(ln, 4), 10 ** 6)) if ln else 0)


def gen_exec(rnd, xid, big):
    """one seeded random execution; big: key universe of a few hundred names, difference observations"""
    if big:
        nkeys = rnd.choice([60, 150, 300, 400])
        depth = rnd.randint(150, 400)
    else:
        nkeys = rnd.choice([1, 2, 3, 3, 4, 6, 8])
        depth = rnd.randint(40, 200)
    names = gen_names(rnd, nkeys)
    ids = ["k%d" % i for i in range(len(names))]
    lines = ["X %d %d %d" % (xid, 0 if big else 1, rnd.randrange(3))]
    for i, nm in zip(ids, names):
        lines.append("K %s %s" % (i, hx(nm)))
    pool = [gen_token(rnd) for _ in range(rnd.randint(2, 12))]
    bup = False
    hot = ids if not big else rnd.sample(ids, 12)
    for _ in range(depth):
        maps = ["a", "b"] if bup else ["a"]
        x = rnd.random()
        if x < 0.55:
            tok = rnd.choice(pool) if rnd.random() < 0.7 else gen_token(rnd)
            k = rnd.choice(hot) if rnd.random() < 0.5 else rnd.choice(ids)
            lines.append("add %s %s %s" % (rnd.choice(maps), k, tok))
        elif x < 0.75:
            k = rnd.choice(hot) if rnd.random() < 0.6 else rnd.choice(ids)
            lines.append("del %s %s" % (rnd.choice(maps), k))
        elif x < 0.87:
            if bup:
                lines.append("addall %s %s" % (rnd.choice(maps), rnd.choice(maps)))
            else:
                lines.append(rnd.choice(["clone", "clone", "create"]))
                bup = True
        elif x < 0.92 and bup:
            lines.append("destroy")
            bup = False
        else:
            lines.append("addall a a")
    lines.append("E")
    return lines


def nontrivial_exec(lines):
    """an execution is non-trivial if it re-adds a key, deletes, clones, merges or destroys"""
    seen = set()
    for ln in lines:
        w = ln.split()
        if w[0] in ("del", "clone", "addall", "destroy"):
            return True
        if w[0] == "add":
            if (w[1], w[2]) in seen:
                return True
            seen.add((w[1], w[2]))
    return False


# ============================================================= path vectors ====
KEYCHARS = [c for c in range(1, 256) if c not in (46, 91, 93)]


def rand_key(rnd):
    n = rnd.choice([1, 1, 2, 3, 5, 8, 20])
    if rnd.random() < 0.7:
        return bytes(rnd.choice(b"abcxyz_-09 AZ") for _ in range(n))
    return bytes(rnd.choice(KEYCHARS) for _ in range(n))


def rand_index(rnd):
    x = rnd.random()
    if x < 0.5:
        return b"%d" % rnd.choice([0, 1, 7, 10, 63, 64, 255, 65535, 2 ** 31 - 1, 2 ** 31, 2 ** 32])
    if x < 0.7:
        return b"0" * rnd.randint(1, 6) + b"%d" % rnd.randrange(1000)
    if x < 0.85:
        return b"%d" % rnd.choice([10 ** 17, 10 ** 18 - 1, 10 ** 18, 2 ** 63 - 2, 2 ** 63 - 1, 2 ** 63, 2 ** 64 - 1, 2 ** 64,
                                   10 ** 30])
    return bytes(rnd.choice(b"0123456789") for _ in range(rnd.randint(1, 25)))


def rand_valid(rnd, ncomp):
    s = rand_key(rnd)
    for _ in range(ncomp - 1):
        s += (b"." + rand_key(rnd)) if rnd.random() < 0.6 else (b"[" + rand_index(rnd) + b"]")
    return s


MUT = [b".", b"[", b"]", b" ", b"+", b"-", b"0", b"a", b"\t", b"\n", b"\xff", b"[]", b"..", b"][", b"[-1]", b"[ 1]",
       b"[+1]", b"[1 ]", b"[0x1]", b"[1e3]", b"[1.0]", b"[\xff]"]


def mutate(rnd, s):
    for _ in range(rnd.randint(1, 3)):
        x = rnd.random()
        pos = rnd.randint(0, len(s))
        if x < 0.45:
            s = s[:pos] + rnd.choice(MUT) + s[pos:]
        elif x < 0.7 and s:
            pos = min(pos, len(s) - 1)
            s = s[:pos] + s[pos + 1:]
        elif x < 0.9 and s:
            pos = min(pos, len(s) - 1)
            s = s[:pos] + rnd.choice(MUT) + s[pos + 1:]
        else:
            s = s[:pos]
    return s


def fixed_vectors():
    """long (around and beyond the name limit) and deep (around and beyond 64 components) classes, index edges"""
    v = []
    for n in (254, 255, 256, 257, 300, 1000, 5000, 70000):
        v.append(b"x" * n)
        v.append((b"ab." * n)[:n - 1] + b"z")
        v.append(b"a[" + b"0" * (n - 4) + b"1]")
        v.append(b"a" * (n - 3) + b"[0]")
        v.append(b"a" * (n - 2) + b"[0")
    for n in (1, 2, 32, 63, 64, 65, 66, 85, 100, 127, 128):
        v.append(b"a" + b".a" * (n - 1))
        v.append(b"a" + b"[0]" * (n - 1))
        v.append(b"k" + b".b[1]" * ((n - 1) // 2) + (b".c" if (n - 1) % 2 else b""))
        v.append(b"ab" + b".cd" * (n - 1))
    for d in ("9" * 17, "9" * 18, "1" + "0" * 18, str(2 ** 63 - 2), str(2 ** 63 - 1), str(2 ** 63), str(2 ** 64 - 1),
              str(2 ** 64), "9" * 40, "0" * 200 + "7", "0" * 250):
        v.append(b"a[" + d.encode() + b"]")
        v.append(b"a[" + d.encode() + b"].b")
    for s in (b"tls.peer.cert.san.dns[0]", b"tls.peer.cert.san.dirs[1].cn", b"xcm.type", b"a[0][1][2]", b"a..b", b"a.",
              b".a", b"a[", b"a[]", b"a]", b"[0]", b"[0].a", b".a.b", b"a[0]b", b"a[0].", b"a[0]]", b"a[[0]]",
              b"a[-0]", b"a[+0]", b"a[ 0]", b"a[0 ]", b"a[\t\n\v\f\r 5]", b"a[ +5]", b"a[+ 5]", b"a[--5]", b"a[5",
              b"a[0x10]", b"a b", b"\x01", b"\xff.\xfe[3]", b" ", b"a.b c.d", b"-", b"+", b"0", b"0[0]"):
        v.append(s)
    return v


def rand_vector(rnd):
    x = rnd.random()
    if x < 0.35:
        return rand_valid(rnd, rnd.choice([1, 2, 2, 3, 4, 6, 10]))
    if x < 0.75:
        return mutate(rnd, rand_valid(rnd, rnd.choice([1, 2, 3, 4, 6])))
    if x < 0.85:
        return bytes(rnd.choice(b"a0.[]- +") for _ in range(rnd.randint(0, 14)))
    if x < 0.93:
        return bytes(rnd.randint(1, 255) for _ in range(rnd.randint(0, 30)))
    if x < 0.97:
        # near the length limit
        s = rand_valid(rnd, rnd.choice([3, 10, 30]))
        pad = rnd.choice([250, 254, 255, 256, 260]) - len(s)
        return (b"p" * max(pad, 0)) + s
    # many components, possibly within the length limit
    return rand_valid(rnd, rnd.choice([40, 60, 63, 64, 65, 70, 90]))


# ================================================================ execution ====
def run_harness(binary, mode, items, tag, suffix):
    """items: list of line lists; split over NCPU processes.  Returns list of (input file, trace file)."""
    d = "%s/%s" % (vlib.RUN, tag)
    os.makedirs(d, exist_ok=True)
    nproc = max(1, min(vlib.NCPU, len(items)))
    chunks = [[] for _ in range(nproc)]
    for i, it in enumerate(items):
        chunks[i % nproc].append(it)
    e = dict(os.environ)
    e.update(ASAN_ENV)
    procs = []
    for i, ch in enumerate(chunks):
        ip = "%s/%s%d.in" % (d, suffix, i)
        with open(ip, "w") as f:
            for it in ch:
                f.write("\n".join(it) + "\n")
        tp = "%s/%s%d.ndjson" % (d, suffix, i)
        lp = open("%s/%s%d.log" % (d, suffix, i), "w")
        procs.append((subprocess.Popen(["timeout", "1500", binary, mode, ip, tp], stdout=lp, stderr=subprocess.STDOUT,
                                       env=e), ip, tp, lp))
    res = []
    for p, ip, tp, lp in procs:
        rc = p.wait()
        lp.close()
        if rc != 0:
            raise InternalError("maps_exec %s failed (exit %d) on %s:\n%s" % (mode, rc, ip, open(lp.name).read()[-2000:]))
        res.append((ip, tp))
    return res


def count_lines(path):
    n = 0
    with open(path, "rb") as f:
        for _ in f:
            n += 1
    return n


def parse_notes(out):
    m = re.search(r'<<\s*"@N",\s*\[(.*?)\]\s*>>', out, re.S)
    if not m:
        return {}
    return {k: int(v) for k, v in re.findall(r'(\w+) \|-> (\d+)', m.group(1))}


def validate(spec, trace):
    n = count_lines(trace)
    if n == 0:
        return [], {}, 0
    r = run_tlc(spec, spec + ".cfg", 1, "tv_" + os.path.basename(trace), JAVA_TRACE, env={"TRACE": trace})
    if r["error"] or r["violated"] or r["distinct"] != n + 1 or "Postcondition" in r["out"]:
        raise InternalError("trace validation (%s) did not consume %s (%d lines, %d states):\n%s" % (
            spec, trace, n, r["distinct"], (r["error"] or r["out"])[-3000:]))
    nt = parse_notes(r["out"])
    # the counter line would otherwise be taken for the tail of the last @V tuple
    v = vlib.parse_v_lines(re.sub(r'<<\s*"@N",\s*\[.*?\]\s*>>', "\nEnd of notes\n", r["out"], flags=re.S))
    for x in v:
        x["trace"] = trace
    return v, nt, n


def validate_all(jobs):
    """jobs: list of (spec, trace).  Runs the TLC validations concurrently."""
    allv = {"AttrMapTrace": [], "AttrPathTrace": []}
    notes = {}
    lines = {"AttrMapTrace": 0, "AttrPathTrace": 0}
    with concurrent.futures.ThreadPoolExecutor(max_workers=max(4, vlib.NCPU - 2)) as ex:
        futs = [(spec, ex.submit(validate, spec, tr)) for spec, tr in jobs]
        for spec, f in futs:
            v, nt, n = f.result()
            allv[spec].extend(v)
            lines[spec] += n
            for k, c in nt.items():
                notes[k] = notes.get(k, 0) + c
    return allv, notes, lines


def concat(files, out):
    with open(out, "wb") as o:
        for t in files:
            with open(t, "rb") as f:
                while True:
                    b = f.read(1 << 20)
                    if not b:
                        break
                    o.write(b)
    return out


def batches(traces, d, prefix, nbatch):
    nb = max(1, min(nbatch, len(traces)))
    res = []
    for b in range(nb):
        part = traces[b::nb]
        if part:
            res.append(concat(part, "%s/%s_batch%d.ndjson" % (d, prefix, b)))
    return res


# ================================================================= verdicts ====
def crash_sig(detail):
    s = re.sub(r"\d+", "N", detail)
    return s[:120]


def vec_line(vid, root, s):
    return "%d %d %s" % (vid, root, hx(s))


def check(pid, tier, seed):
    t0 = time.time()
    T = TIERS[tier]
    rnd = random.Random(seed)
    binary = vlib.build(["maps_exec"])[0]
    tag = "%s_%s" % (pid, tier)
    d = vlib.fresh_dir("%s/%s" % (vlib.RUN, tag))
    for old in glob.glob("%s/%s_*" % (vlib.REPLAYS, pid)):      # replay files of earlier runs of this check
        os.unlink(old)
    notes = []
    violations = []
    known = []
    timing = {}

    # ---- 2. model checking (all configurations concurrently) --------------------
    t1 = time.time()
    with concurrent.futures.ThreadPoolExecutor(max_workers=8) as ex:
        fm = [(c, ex.submit(mc_map, c[0], c[1], c[2], c[3])) for c in T["map_cfgs"]]
        fp = [(c, ex.submit(mc_path, c[0], c[1], c[2])) for c in T["path_cfgs"]]
        map_res = [(c, f.result()) for c, f in fm]
        path_res = [(c, f.result()) for c, f in fp]
    timing["model_checking_s"] = round(time.time() - t1, 1)
    states = transitions = 0
    mc_summary = {}
    for c, (r, paths) in map_res + path_res:
        nm = ("AttrMap/" if len(c) == 5 else "AttrPath/") + c[0]
        states += r["distinct"]
        transitions += r["generated"]
        mc_summary[nm] = dict(distinct=r["distinct"], generated=r["generated"], depth=r["depth"], wall=round(r["wall"], 1),
                              emitted=len(paths))
        if r["violated"] or r["deadlock"]:
            rp = vlib.save_replay(pid, "tlc_%s.txt" % nm.replace("/", "_"), r["out"][-20000:])
            violations.append(("design", "TLC: %s violated in %s (a law of the specification itself fails)" % (
                ",".join(r["violated"]), nm), rp))
        if r["distinct"] < 500 or not paths:
            raise InternalError("%s explored only %d states / emitted %d cases (vacuous)" % (nm, r["distinct"], len(paths)))

    # ---- 3a. map scripts ----------------------------------------------------------
    scripts = []
    origin = {}
    xid = 0
    opcount = {}
    npaths = 0
    for c, (r, paths) in map_res:
        mp = maximal_paths(paths)
        if len(mp) > c[4]:
            mp = rnd.sample(mp, c[4])
        for p in mp:
            if not p:
                continue
            xid += 1
            for st in p:
                opcount[st[0]] = opcount.get(st[0], 0) + 1
            scripts.append(path_to_script(p, xid, xid % 3))
            origin[xid] = "path:" + c[0]
            npaths += 1
    missing = [o for o in ("add", "del", "create", "clone", "addall", "destroy") if not opcount.get(o)]
    if missing:
        raise InternalError("the replay paths never take the action(s) %s (vacuous)" % ",".join(missing))
    nrand = T["map_random"]
    for i in range(nrand + T["map_random_big"]):
        xid += 1
        scripts.append(gen_exec(rnd, xid, big=(i >= nrand)))
        origin[xid] = "random_big" if i >= nrand else "random"
    script_of = {int(s[0].split()[1]): s for s in scripts}

    # ---- 3b. path vectors ---------------------------------------------------------
    vectors = []       # (id, root, bytes)
    vorigin = {}
    cls_count = {}
    seen = set()
    vid = 0
    for c, (r, vecs) in path_res:
        for j, v in enumerate(vecs):
            s = bytes(v["s"])
            cls_count[v["cls"]] = cls_count.get(v["cls"], 0) + 1
            if s in seen:
                continue
            seen.add(s)
            vid += 1
            vectors.append((vid, 1, s))
            vorigin[vid] = "tlc:" + c[0]
            if j % T["path_rel_every"] == 0:
                vid += 1
                vectors.append((vid, 0, s))
                vorigin[vid] = "tlc:" + c[0]
    ntlc_vec = len(vectors)
    for k in ("valid", "invalid", "lenient"):
        if not cls_count.get(k):
            raise InternalError("AttrPath generated no string of class %s (vacuous)" % k)
    for s in fixed_vectors():
        for root in (1, 0):
            vid += 1
            vectors.append((vid, root, s))
            vorigin[vid] = "fixed"
    for i in range(T["path_random"]):
        vid += 1
        vectors.append((vid, 1 if i % 6 else 0, rand_vector(rnd)))
        vorigin[vid] = "random"
    vec_of = {v[0]: v for v in vectors}

    # ---- 4. execute on the real code ------------------------------------------------
    t1 = time.time()
    with concurrent.futures.ThreadPoolExecutor(max_workers=2) as ex:
        f1 = ex.submit(run_harness, binary, "map", scripts, tag, "m")
        f2 = ex.submit(run_harness, binary, "path", [[vec_line(*v)] for v in vectors], tag, "p")
        mtr = f1.result()
        ptr = f2.result()
    timing["harness_s"] = round(time.time() - t1, 1)

    # ---- 5. TLC validates what was recorded ----------------------------------------------
    t1 = time.time()
    jobs = [("AttrMapTrace", b) for b in batches([t for _, t in mtr], d, "map", T["nbatch"])] + \
           [("AttrPathTrace", b) for b in batches([t for _, t in ptr], d, "path", T["nbatch"])]
    allv, ncount, nlines = validate_all(jobs)
    timing["trace_validation_s"] = round(time.time() - t1, 1)
    nexec = len(scripts)
    nvec = len(vectors)
    done_vec = ncount.get("accepted", 0) + ncount.get("rejected", 0) + ncount.get("crashed", 0)
    if done_vec != nvec:
        raise InternalError("%d path vectors were generated but %d were validated" % (nvec, done_vec))
    if nlines["AttrMapTrace"] < nexec:
        raise InternalError("%d map executions but only %d trace lines" % (nexec, nlines["AttrMapTrace"]))
    if not ncount.get("accepted") or not ncount.get("rejected"):
        raise InternalError("the path vectors never exercised both acceptance and rejection (vacuous)")

    # ---- 6. verdicts ---------------------------------------------------------------------
    groups = {}     # signature -> list of (size, kind, id, v)
    seenx = set()
    for v in allv["AttrMapTrace"]:
        if v["x"] in seenx:     # only the first mismatch of an execution
            continue
        seenx.add(v["x"])
        what = v["detail"].split(",")[0].strip().strip('"')
        sig = (v["tag"], "map", crash_sig(v["detail"]) if v["tag"] == "C19.crash" else re.sub(r"^[ab]\.", "", what))
        groups.setdefault(sig, []).append((v["n"], "map", v["x"], v))
    for v in allv["AttrPathTrace"]:
        what = v["detail"].split(",")[0].strip().strip('"')
        sig = (v["tag"], "path", crash_sig(v["detail"]) if v["tag"] == "C19.crash" else what)
        groups.setdefault(sig, []).append((len(vec_of[v["x"]][2]), "path", v["x"], v))
    viol_summary = []
    for sig, members in sorted(groups.items()):
        members.sort(key=lambda m: (m[0], m[2]))
        size, kind, ident, v = members[0]
        tagv = sig[0]
        if not tagv.startswith(pid + "."):
            notes.append("%d mismatches tagged %s (not a C19 tag)" % (len(members), tagv))
            continue
        f = vlib.match_finding(pid, {"tag": tagv, "kind": kind, "what": sig[2], "detail": v["detail"]})
        if f:
            known.append("property=%s %s (%d cases, e.g. %s)" % (pid, f["what"], len(members), describe(kind, ident, script_of, vec_of, v["n"])))
            continue
        rp = write_replay(pid, kind, ident, v, script_of, vec_of, members, sig)
        # reported only if the stored case fails again when run on its own (DESIGN 6.3)
        if not replay_file(pid, binary, rp, "confirm_%s" % tag, quiet=True):
            notes.append("%s %s (%d cases) did not repeat when its smallest case was re-run alone: not reported" % (
                tagv, kind, len(members)))
            os.unlink(rp)
            continue
        desc = "%s %s: %s; %d failing case(s), smallest: %s" % (tagv, kind, v["detail"][:200], len(members),
                                                               describe(kind, ident, script_of, vec_of, v["n"]))
        violations.append(("conformance", desc, rp))
        viol_summary.append(dict(tag=tagv, kind=kind, cases=len(members), smallest=describe(kind, ident, script_of, vec_of, v["n"]),
                                 detail=v["detail"][:300], origin=(origin if kind == "map" else vorigin).get(ident)))

    # ---- 7. evidence ------------------------------------------------------------------------
    note_counts = {k: c for k, c in ncount.items() if k.startswith("note_") and c}
    for k, c in sorted(note_counts.items()):
        notes.append("NOTE %s: %d vectors (not demanded by the statement, DESIGN 7.1)" % (k[5:], c))
    nt_exec = sum(1 for s in scripts if nontrivial_exec(s))
    nt_vec = len(set(v[2] for v in vectors if any(c in v[2] for c in b".[]") or len(v[2]) > 255))
    samples = [{"replay_path_script": scripts[0]}, {"random_script_head": scripts[npaths][:12]},
               {"path_vectors": [dict(id=v[0], root=v[1], s=v[2][:60].decode("latin1")) for v in
                                 vectors[5:8] + vectors[ntlc_vec:ntlc_vec + 3] + vectors[-3:]]}]
    if viol_summary:
        samples.append({"first_violation": viol_summary[0]})
    cov = dict(states=states, transitions=transitions,
               traces_validated_against_impl=nexec + nvec,
               evaluations=nlines["AttrMapTrace"] + nlines["AttrPathTrace"],
               distinct_nontrivial=nt_exec + nt_vec,
               rule="map: one replay path per %s of the bounded AttrMap model (maximal under prefix) + seeded random "
                    "executions, every observable of both maps compared by TLC after every operation; non-trivial = the "
                    "execution re-adds a key, deletes, clones, merges or destroys.  path: every string TLC generates from "
                    "the AttrPath automaton + fixed long/deep classes + seeded random strings, each parsed, printed, "
                    "re-parsed and compared by TLC; non-trivial = distinct strings with a separator/bracket or over the "
                    "length limit" % "/".join(sorted(set(c[3] for c in T["map_cfgs"]))),
               samples=samples, model_configurations=mc_summary,
               map_replay_paths=npaths, map_random_executions=nrand, map_random_big_universe=T["map_random_big"],
               map_trace_lines=nlines["AttrMapTrace"], map_path_operations=opcount,
               path_vectors_from_tlc=ntlc_vec, path_vectors_fixed=len(fixed_vectors()) * 2, path_vectors_random=T["path_random"],
               path_vector_classes_generated_by_tlc=cls_count,
               path_vector_counters={k: c for k, c in ncount.items() if not k.startswith("note_")},
               notes=notes, violations_found=viol_summary, known_findings=known, timing=timing, exhaustive=False)
    vlib.write_evidence(pid, tier, seed, "model_checking", cov, time.time() - t0, violations=len(violations),
                        assumptions=["value tokens and key ids are turned into bytes by the harness only (dictionary, no model of a map)",
                                     "glibc/ASan malloc(0) returns a unique non-NULL pointer (zero-length binary values)",
                                     "documented path syntax as read in DESIGN 7.1; 255 = ATTR_PATH_NAME_MAX is the length limit",
                                     "TLC and the Json/IOUtils community modules are trusted"])
    return violations, known


def script_prefix(s, n):
    """the execution cut after its n-th operation (the first mismatch is at step n)"""
    head = [l for l in s if l.startswith(("X", "K"))]
    ops = [l for l in s if not l.startswith(("X", "K", "E"))]
    return head + ops[:max(n, 1)] + ["E"]


def describe(kind, ident, script_of, vec_of, n=0):
    if kind == "map":
        s = script_prefix(script_of[ident], n) if n else script_of[ident]
        ops = [l for l in s if not l.startswith(("X", "K", "E"))]
        names = [l.split()[2] for l in s if l.startswith("K")]
        return "script of %d operations (%s%s) on %d names" % (len(ops), "; ".join(ops[:8]), " ..." if len(ops) > 8 else "",
                                                               len(names))
    v = vec_of[ident]
    s = v[2]
    txt = s[:70].decode("latin1").encode("unicode_escape").decode()
    return 'string of %d characters "%s%s" (root=%d)' % (len(s), txt, "..." if len(s) > 70 else "", v[1])


def write_replay(pid, kind, ident, v, script_of, vec_of, members, sig):
    head = "# %s %s: %s\n# %d failing case(s) in this run; this is the smallest\n# replay: bin/check %s --replay <this file>\n" % (
        v["tag"], kind, " ".join(v["detail"].split())[:400], len(members), pid)
    # file name from the signature of the violation, not from the (run dependent) case number
    h = "%08x" % (zlib.crc32(repr(sig).encode()) & 0xffffffff)
    if kind == "map":
        body = "\n".join(script_prefix(script_of[ident], v["n"])) + "\n"
        return vlib.save_replay(pid, "%s_map_%s.script" % (v["tag"].split(".")[1], h), head + body)
    vv = vec_of[ident]
    body = "# string: %r\nV %s\n" % (vv[2][:300], vec_line(*vv))
    return vlib.save_replay(pid, "%s_path_%s.vec" % (v["tag"].split(".")[1], h), head + body)


def replay(pid, path):
    binary = vlib.build(["maps_exec"])[0]
    return replay_file(pid, binary, path, "replay_%s" % pid)


def replay_file(pid, binary, path, tag, quiet=False):
    lines = [l.rstrip("\n") for l in open(path) if l.strip() and not l.startswith("#")]
    if not lines:
        raise InternalError("empty replay file")
    vlib.fresh_dir("%s/%s" % (vlib.RUN, tag))
    if lines[0].startswith("V "):
        res = run_harness(binary, "path", [[l[2:]] for l in lines], tag, "p")
        spec = "AttrPathTrace"
    elif lines[0].startswith("X "):
        res = run_harness(binary, "map", [lines], tag, "m")
        spec = "AttrMapTrace"
    else:
        raise InternalError("not a C19 replay file (first line must start with 'X ' or 'V ')")
    vl = []
    for _, tr in res:
        v, nt, n = validate(spec, tr)
        vl.extend(v)
    if not quiet:
        for v in vl:
            print("MISMATCH", v["tag"], "case", v["x"], "step", v["n"], v["detail"])
    return [v for v in vl if v["tag"].startswith(pid + ".")]
