"""Common orchestration helpers for /verif/bin/check (python3 stdlib only)."""
import json
import os
import random
import re
import shutil
import subprocess
import sys
import time

V = "/verif"
# Registered commands always use /repo and /verif/build.  For experiments (seeded mutants in a scratch copy of the
# sources) VERIF_REPO / VERIF_BUILD redirect the build; evidence then goes under the scratch build directory.
REPO = os.environ.get("VERIF_REPO", "/repo")
BUILD = os.environ.get("VERIF_BUILD", V + "/build")
SCRATCH = REPO != "/repo" or BUILD != V + "/build"
SPEC = V + "/spec"
RUN = BUILD + "/run"
TLCDIR = BUILD + "/tlc"
EVID = (BUILD + "/evidence") if SCRATCH else (V + "/evidence")
REPLAYS = EVID + "/replays"

NCPU = min(16, os.cpu_count() or 4)


class InternalError(Exception):
    pass


def sh(cmd, timeout=None, env=None, cwd=None, check=False):
    e = dict(os.environ)
    if env:
        e.update(env)
    p = subprocess.run(cmd, shell=isinstance(cmd, str), stdout=subprocess.PIPE, stderr=subprocess.STDOUT,
                       timeout=timeout, env=e, cwd=cwd, text=True, errors="replace")
    if check and p.returncode != 0:
        raise InternalError("command failed (%d): %s\n%s" % (p.returncode, cmd, p.stdout[-4000:]))
    return p.returncode, p.stdout


def build(targets, variant="asan"):
    """(Re)build harness binaries from /repo's current working tree."""
    t = " ".join("%s/%s/bin/%s" % (BUILD, variant, x) for x in targets)
    rc, out = sh("make -C %s -j%d VARIANT=%s REPO=%s BROOT=%s %s" % (V, NCPU, variant, REPO, BUILD, t), timeout=900)
    if rc != 0:
        raise InternalError("build failed:\n" + out[-6000:])
    return ["%s/%s/bin/%s" % (BUILD, variant, x) for x in targets]


def fresh_dir(path):
    shutil.rmtree(path, ignore_errors=True)
    os.makedirs(path, exist_ok=True)
    return path


# ---------------------------------------------------------------- TLC ------
TLC_NOISE = re.compile(r"^(Picked up|TLC2|Running|Parsing|Semantic|Starting|Computing|Finished comp|Implied|"
                       r"Progress|Linting|Warning: Please run|\(Use the|$)")


def tlc(spec, cfg, workers=NCPU, metadir=None, extra="", env=None, timeout=3000, heap="8g", dfs=False, out_path=None):
    """Run TLC; returns dict(rc, out, states, distinct, depth, violated, error).
    out_path: TLC's output goes to that file (millions of printed behaviours must not pass through memory); "out" is then
    only what the statistics and verdicts are read from: the lines that are not printed behaviours, at most 2 MB of them."""
    md = metadir or (TLCDIR + "/%s.%d" % (os.path.basename(cfg), os.getpid()))
    shutil.rmtree(md, ignore_errors=True)
    e = {}
    jtmp = md + ".tmp"       # TLC unpacks its standard modules into java.io.tmpdir and leaves them there
    os.makedirs(jtmp, exist_ok=True)
    opts = "-Xmx%s -Djava.io.tmpdir=%s" % (heap, jtmp)
    if dfs:
        opts += " -Dtlc2.tool.queue.IStateQueue=StateDeque"
    e["JAVA_TOOL_OPTIONS"] = opts
    if env:
        e.update(env)
    cmd = "timeout %d tlc -noGenerateSpecTE -workers %s -metadir %s %s -config %s %s.tla" % (timeout, workers, md, extra, cfg, spec)
    t0 = time.time()
    if out_path:
        rc, _ = sh(cmd + " > %s 2>&1" % out_path, env=e, cwd=SPEC, timeout=timeout + 60)
        keep, size = [], 0
        with open(out_path, errors="replace") as f:
            for line in f:
                if line.startswith('<<"@') or line.startswith('"@'):
                    continue
                keep.append(line)
                size += len(line)
                if size > 2000000:          # a long counterexample: the verdict lines come first, the statistics last
                    keep = keep[:2000] + keep[-2000:]
                    size = sum(len(x) for x in keep)
        out = "".join(keep)
    else:
        rc, out = sh(cmd, env=e, cwd=SPEC, timeout=timeout + 60)
    shutil.rmtree(md, ignore_errors=True)
    shutil.rmtree(jtmp, ignore_errors=True)
    r = {"rc": rc, "out": out, "wall": time.time() - t0}
    m = re.search(r"(\d+) states generated, (\d+) distinct states found", out)
    r["generated"] = int(m.group(1)) if m else 0
    r["distinct"] = int(m.group(2)) if m else 0
    m = re.search(r"The depth of the complete state graph search is (\d+)", out)
    r["depth"] = int(m.group(1)) if m else 0
    r["violated"] = re.findall(r"Error: Invariant (\S+) is violated", out) + \
        re.findall(r"Error: Action property (\S+) is violated", out) + \
        re.findall(r"Error: Temporal property (\S+) was violated", out) + \
        (["temporal"] if "Temporal properties were violated" in out else [])
    r["deadlock"] = "Deadlock reached" in out
    r["error"] = None
    if rc not in (0, 12, 13) and not r["violated"] and not r["deadlock"]:
        # 12 = safety violation, 13 = liveness violation
        r["error"] = "\n".join(l for l in out.splitlines() if not TLC_NOISE.match(l))[-3000:]
    return r


def tlc_coverage(out):
    """Parse -coverage output: action name -> (taken, generated)."""
    cov = {}
    for m in re.finditer(r"^<(\w+) line \d+, col \d+ to line \d+, col \d+ of module \w+(?: \([\d ]+\))?>: (\d+):(\d+)", out, re.M):
        n, a, b = m.group(1), int(m.group(2)), int(m.group(3))
        x = cov.get(n, (0, 0))
        cov[n] = (x[0] + a, x[1] + b)
    return cov


def parse_v_lines(out):
    """@V tuples printed by the trace specifications -> list of dicts."""
    res = []
    # PrintT output may be wrapped over several lines: join everything between << "@V" ... >>
    txt = out
    for m in re.finditer(r'<<\s*"@V",(.*?)>>(?=\s*(?:<<\s*"@V"|\n[A-Za-z0-9 ]|\Z))', txt, re.S):
        body = " ".join(m.group(1).split())
        mm = re.match(r'\s*(-?\d+),\s*(-?\d+),\s*"([^"]+)",\s*(.*)$', body)
        if mm:
            res.append({"x": int(mm.group(1)), "n": int(mm.group(2)), "tag": mm.group(3), "detail": mm.group(4)[:300]})
    return res


# ------------------------------------------------------------ evidence -----
def write_evidence(pid, tier, seed, level, coverage, wall, violations=0, assumptions=None):
    os.makedirs(EVID, exist_ok=True)
    ev = {"property_id": pid, "tier": tier, "seed": int(seed), "level": level, "coverage": coverage,
          "assumptions": assumptions or [], "wall_s": round(wall, 2), "violations": int(violations)}
    tmp = "%s/%s.json.tmp" % (EVID, pid)
    with open(tmp, "w") as f:
        json.dump(ev, f, indent=1, sort_keys=True)
        f.write("\n")
    os.replace(tmp, "%s/%s.json" % (EVID, pid))


# ------------------------------------------------------- known findings ----
def load_findings():
    try:
        with open(V + "/known_findings.json") as f:
            return json.load(f)
    except FileNotFoundError:
        return {"findings": [], "fixed": []}


def match_finding(pid, sig):
    """sig: dict describing a violation (tag, transport, history class ...).  A finding matches only if every
    key of its 'match' dict equals the violation's."""
    for f in load_findings().get("findings", []):
        if f.get("property") != pid:
            continue
        ok = True
        for k, v in f.get("match", {}).items():
            if k.endswith("_prefix"):
                ok = ok and str(sig.get(k[:-7], "")).startswith(str(v))
            elif isinstance(v, list):
                ok = ok and sig.get(k) in v
            else:
                ok = ok and str(sig.get(k)) == str(v)
        if ok:
            return f
    return None


def save_replay(pid, name, content):
    os.makedirs(REPLAYS, exist_ok=True)
    path = "%s/%s_%s" % (REPLAYS, pid, name)
    with open(path, "w") as f:
        f.write(content)
    return path


def seed_from_env(default=1):
    try:
        return int(os.environ.get("VERIF_SEED", default))
    except ValueError:
        return default
