"""C11 - attribute values take effect and are inherited as documented.

Pipeline per run:
  1. build harness/attr_exec from /repo's working tree (ASan/UBSan, linked with the shim)
  2. TLC on spec/AttrMC.tla (Mode "life"), one run per transport: behaviours of one connection
       create (xcm_connect_a / xcm_server_a + xcm_accept_a, each with an attribute map) - writes of the five TCP
       options, of xcm.blocking (attribute and xcm_set_blocking) and of creation-only attributes while the TCP
       handshake is pending / when established / after the peer closed - establishment - peer close
     with the invariants InForce, NoKernBeforeFd, Inherit, CreationOnlyKeeps; every distinct state (thorough:
     every transition) gives one replay path
  3. harness/attr_exec replays the paths on real sockets.  A connect is held "in progress" without faking any
     result: the listener's backlog is set to 0 and its single slot taken by one filler connection, so the
     victim's SYN is dropped; accepting the filler lets the retransmitted SYN through.  After every step the
     harness records xcm_attr_get of the options, getsockopt(SO_KEEPALIVE, TCP_KEEPIDLE, TCP_KEEPINTVL,
     TCP_KEEPCNT, TCP_USER_TIMEOUT) on the connection's descriptor (found through the shim), xcm_is_blocking,
     getsockname / the peer's xcm.remote_addr, and the TLS settings of the socket and of its server socket
  4. TLC replays the same step functions of spec/Attr.tla over the recorded lines (spec/AttrTrace.tla)
  5. the write vectors of C10's enumeration that concern this property (writes that must be accepted, and
     writes of creation-only attributes after creation) are executed and validated the same way
C11.* tags are violations; C10.* tags and NOTE.* go to the evidence only.
"""
import collections
import json
import random
import time

import attr_common as ac
import vlib
from vlib import InternalError

PID = "C11"

TIERS = {
    "quick": dict(max_sets=2, max_steps=6, emit="transition", per_tp=420, chunks=12, timeout=300,
                  vec_groups=[["tcp", "ux"], ["tls", "btcp"], ["utls", "btls"]]),
    "thorough": dict(max_sets=3, max_steps=7, emit="transition", per_tp=6000, chunks=16, timeout=1500,
                     vec_groups=[["tcp", "ux", "uxf"], ["tls"], ["btls", "btcp"], ["utls", "utlsx", "tcp6"]]),
}


def step_text(st):
    op = st[0]
    if op == "c":
        return "xcm_connect_a(%s map %s)" % ("TCP handshake held pending," if st[1] else "", json.dumps(st[2]))
    if op == "S":
        return "xcm_server_a(map %s)" % json.dumps(st[1])
    if op == "A":
        return "xcm_accept_a(map %s)" % json.dumps(st[1])
    if op == "t":
        return "xcm_attr_set(%s = %s)" % (st[1], st[2])
    if op == "T":
        return "xcm_attr_set(server socket, %s = %s)" % (st[1], st[2])
    if op == "o":
        return "xcm_attr_set(creation-only %s = %s)" % (st[1], st[2])
    if op == "b":
        return "xcm_set_blocking(%s)" % st[1]
    return {"e": "TCP handshake completes", "p": "peer closes"}.get(op, op)


def path_text(tp, p):
    return "%s: %s" % (tp, "; ".join(step_text(s) for s in p))


def select_paths(paths, limit, rnd):
    """quick tier: a sample that keeps every kind of behaviour: the paths are put into buckets by (how the socket
    comes about, which actions occur, which attribute is written while the connect is held) and drawn bucket by
    bucket"""
    if limit is None or len(paths) <= limit:
        return paths
    buckets = collections.OrderedDict()
    for p in paths:
        ops = [s[0] for s in p]
        held = ops[0] == "c" and p[0][1] == 1
        written = tuple(sorted(set(s[1] for s in p if s[0] in ("t", "o", "T"))))
        buckets.setdefault((ops[0], held, tuple(sorted(set(ops))), written if held else ()), []).append(p)
    for b in buckets.values():
        rnd.shuffle(b)
    keys = list(buckets)
    rnd.shuffle(keys)
    # behaviours that write while the connect is held and those that go through accept first
    keys.sort(key=lambda k: (not (k[1] and ("t" in k[2] or "o" in k[2])), "A" not in k[2]))
    sel = []
    while len(sel) < limit:
        took = False
        for k in keys:
            if buckets[k] and len(sel) < limit:
                sel.append(buckets[k].pop())
                took = True
        if not took:
            break
    return sel


def classify_path(m, tp, p, line_no):
    """class key: tag / the step the mismatch belongs to / phase"""
    # the recorded line number n of the first mismatch is not in the @V tuple; the sub index tells what was compared
    ops = "".join(s[0] for s in p)
    held = p and p[0][0] == "c" and p[0][1] == 1
    what = {10: "attr_value", 11: "kernel_option", 12: "blocking", 13: "source_addr", 14: "tls_setting", 15: "reported_vs_kernel", 20: "peer_names"}.get(m["n"], "outcome%d" % m["n"])
    when = "held" if held else ("accept" if "A" in ops else "server" if ops.startswith("S") else "connect")
    return "%s/%s/%s" % (m["tag"], what, when)


def check(pid, tier, seed):
    t0 = time.time()
    if tier not in TIERS:
        tier = "quick"
    T = TIERS[tier]
    rnd = random.Random(seed)
    ac.clean_java_tmp()
    binary = vlib.build(["attr_exec"])[0]
    ac.ensure_creds()
    types = ac.table_types()
    violations, known = [], []

    # ---- 2. behaviours --------------------------------------------------------------------------
    jobs = list(ac.LIFE_TPS)
    res = ac.parallel(jobs, lambda tp: ac.enumerate_paths(tp, T["max_sets"], T["max_steps"], T["emit"], tp), workers=4)
    states = transitions = 0
    mc_summary, all_paths = {}, []
    for tp, (r, paths) in zip(jobs, res):
        states += r["distinct"]
        transitions += r["generated"]
        mp = ac.maximal_paths(paths)
        mc_summary[tp] = dict(distinct=r["distinct"], generated=r["generated"], depth=r["depth"], paths=len(mp), wall=round(r["wall"], 1))
        if r["violated"]:
            rp = vlib.save_replay(pid, "tlc_life_%s.txt" % tp, r["out_tail"])
            violations.append(("design", "TLC: %s of the attribute life model violated for %s" % (",".join(r["violated"]), tp), rp))
            continue
        if r["distinct"] < (200 if tp in ("tcp", "btcp", "tls", "btls", "utls") else 20) or not mp:
            raise InternalError("life model of %s explored only %d states (vacuous)" % (tp, r["distinct"]))
        # every action of the life model must occur in the behaviours of a TCP-based transport
        ops = set(st[0] for p in mp for st in p)
        need = set("cSAtTobep") if tp in ("tcp", "btcp", "tls", "btls", "utls") else set("cSAtbp")
        if not need <= ops:
            raise InternalError("life model of %s never takes the actions %s (vacuous)" % (tp, sorted(need - ops)))
        for p in select_paths(mp, T["per_tp"], rnd):
            all_paths.append((tp, p))
    if violations:
        vlib.write_evidence(pid, tier, seed, "model_checking", dict(states=states, transitions=transitions, traces_validated_against_impl=0,
                            samples=[], evaluations=0, distinct_nontrivial=0, rule="TLC found an invariant of the life model violated",
                            model_configurations=mc_summary), time.time() - t0, len(violations))
        return violations, known

    # ---- 3./4. replay and validation -------------------------------------------------------------
    d = vlib.fresh_dir("%s/%s_%s_paths" % (vlib.RUN, pid, tier))
    rnd.shuffle(all_paths)
    byx = {}
    items = []
    for i, (tp, p) in enumerate(all_paths):
        x = i + 1
        byx[x] = (tp, p)
        items.append((x, ac.path_script(p, x, tp)))
    nch = max(1, min(T["chunks"], len(items) // 20 or 1))
    chunks = [items[i::nch] for i in range(nch)]

    def job(i):
        trace, n, cr = ac.run_path_chunk(binary, chunks[i], "%s/p%d" % (d, i), T["timeout"])
        vl, stat, r = ac.validate(trace, n)
        return vl, stat, cr, n, r["distinct"]

    pm, pstats, pcrashes, plines, tv_states = [], collections.Counter(), [], 0, 0
    for vl, stat, cr, n, ds in ac.parallel(range(nch), job):
        pm.extend(vl)
        pstats.update(stat)
        pcrashes.extend(cr)
        plines += n
        tv_states += ds
    if pstats.get("paths", 0) < 50 or pstats.get("pset", 0) < 50 or pstats.get("pest", 0) < 10 or pstats.get("pacc", 0) < 10 or \
            pstats.get("pkern", 0) < 50:
        raise InternalError("vacuous replay: %s" % dict(pstats))
    if pstats.get("inc", 0) > len(items) // 5:
        raise InternalError("%d of %d paths were inconclusive (the environment did not settle)" % (pstats["inc"], len(items)))

    # first mismatch of each path only (later ones may be consequences)
    classes, notes, other = {}, collections.Counter(), collections.Counter()
    seen = set()
    for m in pm:
        tag = m["tag"]
        if tag == "INTERNAL":
            raise InternalError("the machinery could not interpret a path result: %s / %s" % (json.dumps(m)[:300], byx.get(m["id"])))
        if tag.startswith("NOTE."):
            notes[tag] += 1
            continue
        if not tag.startswith(pid + "."):
            other[tag] += 1
            continue
        if m["id"] in seen:
            continue
        seen.add(m["id"])
        tp, p = byx[m["id"]]
        classes.setdefault(classify_path(m, tp, p, 0), []).append((len(p), tp not in ("tcp", "tls"), m["id"], m))
    preports = []
    for key in sorted(classes):
        its = sorted(classes[key], key=lambda x: x[:3])
        ids = [x[2] for x in its[:5]]
        first = its[0][3]
        tp, p = byx[first["id"]]
        text = "%s after [%s]; expected %s, observed %s" % (first["tag"], path_text(tp, p), json.dumps(first["x"])[:120], json.dumps(first["o"])[:160])
        preports.append(dict(key=key, tag=first["tag"], family=key.split("/")[1], detail=key.split("/")[2], count=len(its), ids=ids, text=text))

    for rep in preports:
        sig = {"tag": rep["tag"], "family": rep["family"], "detail": rep["detail"], "class": rep["key"]}
        f = vlib.match_finding(pid, sig)
        if f:
            k = "property=%s %s (%d replayed behaviours)" % (pid, f["what"], rep["count"])
            if not any(f["what"] in x for x in known):
                known.append(k)
            continue
        body = ["# %s" % rep["text"], "# class %s: %d behaviours with this first mismatch; shortest below" % (rep["key"], rep["count"]),
                "# replay: bin/check %s --replay <this file>" % pid]
        for x in rep["ids"]:
            tp, p = byx[x]
            body += ac.path_script(p, x, tp)
        name = "path_" + rep["key"].replace(pid + ".", "").replace("/", "_") + ".path"
        rp = vlib.save_replay(pid, name, "\n".join(body) + "\n")
        violations.append(("conformance", "%s [%d behaviours, class %s]" % (rep["text"], rep["count"], rep["key"]), rp))

    # ---- 5. write vectors that concern this property -----------------------------------------------
    vjobs = [(g, "c%d" % i) for i, g in enumerate(T["vec_groups"])]
    vres = ac.parallel(vjobs, lambda j: ac.enumerate_vectors(j[0], [], True, j[1]), workers=len(vjobs))
    vecs = []
    for (g, _), (r, vs) in zip(vjobs, vres):
        if r["violated"]:
            rp = vlib.save_replay(pid, "tlc_vec_%s.txt" % "_".join(g), r["out_tail"])
            violations.append(("design", "TLC: law %s of Attr.tla violated for transports %s" % (",".join(r["violated"]), g), rp))
        states += r["distinct"]
        transitions += r["generated"]
        # creation-only / read-only refusals and the writes that must work (whose value must read back)
        vecs += [v for v in vs if v["op"] == "s" and v["lc"] == "ok" and v["x"] in ("EACCES", "ok", "good")]
    vres2 = ac.execute_vectors(binary, vecs, "%s_%s_vec" % (pid, tier), rnd, T["chunks"], T["timeout"])
    vst = vres2["stats"]
    if vst.get("sok", 0) < 20 or vst.get("srej", 0) < 100:
        raise InternalError("vacuous vector run: %s" % vst)
    vreports, vnotes, vother = ac.group_mismatches(vres2["mismatches"], vres2["byid"], pid, types, ac.describe_vec)
    for rep in vreports:
        sig = {"tag": rep["tag"], "family": rep["family"], "detail": rep["detail"], "class": rep["key"]}
        f = vlib.match_finding(pid, sig)
        if f:
            k = "property=%s %s (%d recorded calls, e.g. %s)" % (pid, f["what"], rep["count"], ac.vec_text(vres2["byid"][rep["ids"][0]][0]))
            if not any(f["what"] in x for x in known):
                known.append(k)
            continue
        name = rep["key"].replace(pid + ".", "").replace("/", "_").replace(" ", "_").replace(".", "_").strip("_") + ".vec"
        rp = vlib.save_replay(pid, name, ac.replay_body(pid, rep, vres2["byid"]))
        violations.append(("conformance", "%s [%d calls, class %s]" % (rep["text"], rep["count"], rep["key"]), rp))

    # ---- 5b. options in force on connections that come out of a multi-address connect (name with both families) -----
    import check_c13
    tviol, tstats = check_c13.c11_part(pid, tier, seed)
    violations += tviol

    # ---- 6. evidence ---------------------------------------------------------------------------------
    held = sum(1 for tp, p in all_paths if p[0][0] == "c" and p[0][1] == 1)
    samples = [{"path": "\n".join(ac.path_script(p, i + 1, tp)), "meaning": path_text(tp, p)} for i, (tp, p) in
               list(enumerate(all_paths))[:: max(1, len(all_paths) // 4)][:4]]
    for rep in (preports + vreports)[:4]:
        samples.append({"mismatch": rep["text"][:400], "count": rep["count"]})
    for k, v in vnotes.items():
        notes[k] += v
    for k, v in vother.items():
        other[k] += v
    cov = dict(states=states, transitions=transitions,
               traces_validated_against_impl=pstats.get("paths", 0) - pstats.get("inc", 0) + len(vecs) - len(vres2["skipped"]),
               samples=samples, evaluations=pstats.get("p", 0) + vst.get("s", 0),
               distinct_nontrivial=held + pstats.get("pacc", 0) + vst.get("srej", 0),
               rule="a replayed behaviour is one connection taken through the model's steps on real sockets, every step compared by TLC "
                    "with the step functions of Attr.tla; non-trivial = the connect is held pending while attributes are written, or the "
                    "socket comes from xcm_accept_a; write vectors: non-trivial = must be refused",
               model_configurations=mc_summary, behaviours_replayed=pstats.get("paths", 0), behaviours_with_held_connect=held,
               steps_compared=pstats.get("p", 0), writes_in_behaviours=pstats.get("pset", 0), establishments_after_hold=pstats.get("pest", 0),
               accepts=pstats.get("pacc", 0), steps_with_kernel_options_read=pstats.get("pkern", 0), inconclusive_behaviours=pstats.get("inc", 0),
               crashes=len(pcrashes) + len(vres2["crashes"]), write_vectors=len(vecs), write_vectors_accepted=vst.get("sok", 0),
               write_vectors_refused=vst.get("srej", 0), vectors_not_executed=len(vres2["skipped"]),
               trace_validation_states=tv_states + vres2["tv_states"],
               multi_address_connect=tstats,
               mismatch_classes={r["key"]: r["count"] for r in preports + vreports}, notes=dict(notes),
               mismatches_of_other_properties=dict(other), known_findings=known, exhaustive=T["emit"] == "transition" and T["per_tp"] is None)
    vlib.write_evidence(pid, tier, seed, "model_checking", cov, time.time() - t0, violations=len(violations),
                        assumptions=["a pending TCP handshake is produced with a backlog-0 listener whose slot is taken (no faked results); "
                                     "loopback addresses 127.0.0.1 and 127.0.0.2 are local",
                                     "values are drawn from small domains (default, one alternative, one inadmissible value per option)",
                                     "TLS settings are compared through xcm_attr_get on the accepted socket, their effect on the handshake "
                                     "belongs to C09",
                                     "the 'resolving' life point is exercised only through the multi-address connects of the C13 harness (scripted resolver); SCTP is not built",
                                     "TLC and the JSON/IOUtils community modules are trusted"])
    return violations, known


def replay(pid, path):
    if path.endswith(".scn"):
        import check_c13
        return check_c13.replay(pid, path)
    binary = vlib.build(["attr_exec"])[0]
    ac.ensure_creds()
    text = open(path).read()
    if "\nP " in "\n" + text:
        items, cur = [], None
        for ln in text.splitlines():
            ln = ln.strip()
            if not ln or ln.startswith("#"):
                continue
            if ln.startswith("P "):
                cur = [ln]
                items.append((int(ln.split()[1]), cur))
            elif cur is not None:
                cur.append(ln)
        d = vlib.fresh_dir("%s/replay_%s" % (vlib.RUN, pid))
        trace, n, crashes = ac.run_path_chunk(binary, items, d + "/r", 180)
        vl, stat, r = ac.validate(trace, n)
        bad = []
        for m in vl:
            if m["tag"] == "INTERNAL":
                raise InternalError("the machinery could not interpret the replayed path: %s" % json.dumps(m)[:300])
            mine = m["tag"].startswith(pid + ".")
            print("%s %s path %s; expected %s, observed %s" % ("MISMATCH" if mine else "note", m["tag"], m["id"], json.dumps(m["x"])[:160],
                                                               json.dumps(m["o"])[:200]))
            if mine:
                bad.append(m)
        print("replayed %d paths, trace %s" % (len(items), trace))
        return bad
    bad = ac.replay_vectors(pid, path, binary)
    if bad is None:
        raise InternalError("not a C11 replay file; TLC counterexamples are re-checked by running the check")
    return bad
