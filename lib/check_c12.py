"""C12 - address strings: make and parse are exact inverses with honest bounds.

Pipeline per run:
  1. build harness/addr_exec from /repo's working tree (ASan/UBSan)
  2. TLC on spec/AddrMC.tla (three bounded configurations): checks the laws of spec/Addr.tla
     (dispatch, parse-make, make-parse, capacity bound) on every enumerated string and
     constructor call, and prints them ("@S"/"@B" parser inputs, "@M" constructor calls)
  3. vectors = the cases TLC printed + seeded random byte strings, mutations of boundary strings,
     random constructor calls, capacity-bounded parser calls and transport converters
  4. harness/addr_exec runs every vector against the real library -> NDJSON (return value, errno,
     every byte of the canary-framed buffers, parsed components)
  5. TLC validates every recorded call against Addr.tla (spec/AddrTrace.tla, monitor style,
     "@V" lines); C12.* tags are violations, NOTE.* tags go to the evidence only
"""
import collections
import concurrent.futures
import json
import os
import random
import socket
import subprocess
import time

import vlib
from vlib import InternalError

PID = "C12"
T8 = ["tcp", "tls", "utls", "sctp", "ux", "uxf", "btcp", "btls"]
HPT = ["tcp", "tls", "utls", "sctp", "btcp", "btls"]
CONV = [("btcp", "tcp"), ("tcp", "btcp"), ("btcp", "btls"), ("btls", "btcp"),
        ("btls", "tls"), ("tls", "btls"), ("utls", "tls"), ("tls", "utls")]

# representatives of the character classes: letter, digits, '.', ':', '[', ']', '*', '-', '+', ' ', high byte
ALPHABET = [97, 48, 49, 46, 58, 91, 93, 42, 45, 43, 32, 233]
JUNK = [32, 233]
BOUNDARY_PORTS = [0, 1, 9, 10, 99, 100, 999, 1000, 9999, 10000, 32767, 32768, 65534, 65535]

SHORT_HOSTS = ["ip4lo", "ip4any", "ip6lo", "ip6any", "ip6map", "n1", "ndots", "ux0", "ux1", "uxpath", "badfam"]
ALL_HOSTS = ["ip4lo", "ip4any", "ip4max", "ip4mid", "ip6lo", "ip6any", "ip6full", "ip6map", "ip6compat", "ip6mid",
             "ip6tail", "n1", "n63", "n64", "l64", "n253", "ndots", "badfam", "ux0", "ux1", "uxpath", "ux107", "ux108",
             "ux109"]

TIERS = {
    "quick": dict(max_tail=4, max_tail_other=2, deep=["tcp"], prefixes=["tcp", "ux", "btls", "none", "unknown", "upper", "long"],
                  boundary_t=["tcp", "btls"], sweep_sample=160, matrix_ports=[0, 9, 10, 65535], matrix_capmode="edge",
                  matrix_allcap=SHORT_HOSTS, n_random=1500, n_mutations=2500, n_random_mk=600, conv_per_pair=14,
                  pc_strings=40, batches=12),
    "thorough": dict(max_tail=5, max_tail_other=3, deep=["tcp", "ux"], prefixes=T8 + ["none", "unknown", "upper", "long"],
                     boundary_t=HPT, sweep_sample=None, matrix_ports=BOUNDARY_PORTS, matrix_capmode="all",
                     matrix_allcap=ALL_HOSTS, n_random=40000, n_mutations=60000, n_random_mk=20000, conv_per_pair=400,
                     pc_strings=600, batches=48),
}


def tla_set(xs):
    return "{" + ", ".join('"%s"' % x if isinstance(x, str) else str(x) for x in xs) + "}"


# ------------------------------------------------------------------ model checking -----
def write_cfg(name, consts):
    d = vlib.BUILD + "/cfg"
    os.makedirs(d, exist_ok=True)
    lines = ["SPECIFICATION Spec", "CONSTANTS"]
    for k, v in consts.items():
        lines.append("  %s = %s" % (k, v))
    lines.append("INVARIANTS InvDispatch InvParseMake InvMakeParse EmitCases")
    lines.append("CHECK_DEADLOCK FALSE")
    path = "%s/addrmc_%s_%d.cfg" % (d, name, os.getpid())
    with open(path, "w") as f:
        f.write("\n".join(lines) + "\n")
    return path


def mc_configs(tier, rnd):
    T = TIERS[tier]
    base = dict(Prefixes="{}", DeepPrefixes="{}", Alphabet=tla_set(ALPHABET), Junk=tla_set(JUNK), MaxTail=0,
                MaxTailOther=0, Boundary="FALSE", MkT="{}", MkHosts="{}", PortLo=1, PortHi=0, PortExtra="{}",
                CapMode='"near"', AllCapHosts="{}", BoundaryT="{}", Compat="FALSE", Emit="TRUE")
    gen = dict(base, Prefixes=tla_set(T["prefixes"]), DeepPrefixes=tla_set(T["deep"]), MaxTail=T["max_tail"],
               MaxTailOther=T["max_tail_other"], Boundary="TRUE", BoundaryT=tla_set(T["boundary_t"]))
    if T["sweep_sample"] is None:
        sweep = dict(base, MkT='{"tcp"}', MkHosts='{"ip4lo"}', PortLo=0, PortHi=65535)
    else:
        ports = sorted(set(BOUNDARY_PORTS) | set(rnd.sample(range(65536), T["sweep_sample"])))
        sweep = dict(base, MkT='{"tcp"}', MkHosts='{"ip4lo"}', PortExtra=tla_set(ports))
    matrix = dict(base, MkT=tla_set(T8), MkHosts=tla_set(ALL_HOSTS), PortExtra=tla_set(T["matrix_ports"]),
                  CapMode='"%s"' % T["matrix_capmode"], AllCapHosts=tla_set(T["matrix_allcap"]), Compat="TRUE")
    return {"gen": gen, "sweep": sweep, "matrix": matrix}


def run_mc(name, consts, workers):
    cfg = write_cfg(name, consts)
    try:
        r = vlib.tlc("AddrMC", cfg, workers=workers, timeout=1500,
                     env={"JAVA_TOOL_OPTIONS": "-Xmx6g -XX:ParallelGCThreads=4"},
                     metadir="%s/addrmc.%s.%d" % (vlib.TLCDIR, name, os.getpid()))
    finally:
        os.unlink(cfg)
    if r["error"]:
        raise InternalError("TLC failed on AddrMC/%s:\n%s" % (name, r["error"]))
    strings, calls = [], []
    for ln in r["out"].splitlines():
        if not ln.startswith('"@'):
            continue
        try:
            inner = json.loads(ln)
        except ValueError:
            raise InternalError("unparsable case line from TLC: %s" % ln[:200])
        kind, body = inner[:2], json.loads(inner[3:])
        if kind in ("@S", "@B"):
            strings.append((kind, bytes(body)))
        elif kind == "@M":
            calls.append(body)
    r["out_tail"] = r["out"][-20000:]
    r["out"] = ""
    return r, strings, calls


# ------------------------------------------------------------------------ vectors -------
def hx(b):
    return bytes(b).hex() or "-"


def v_ps(s):
    return "ps %%d %s" % hx(s)


def v_mk(t, api, k, b, port, cap):
    return "mk %%d %s %d %s %s %d %d" % (t, api, k, hx(b), port, cap)


def v_pc(fn, s, cap):
    return "pc %%d %s %s %d" % (fn, hx(s), cap)


def v_cv(a, b, s, cap):
    return "cv %%d %s %s %s %d" % (a, b, hx(s), cap)


INTERESTING = b":[]*.-+ 0a9\t\n\v\f\r%_/\xe9\x7f\x01" + bytes([0xff])


def mutate(rnd, s):
    s = bytearray(s)
    for _ in range(rnd.choice((1, 1, 1, 2, 3))):
        op = rnd.randrange(8)
        pos = rnd.randrange(len(s) + 1)
        if op == 0 and s:
            s[pos % len(s)] = rnd.randrange(1, 256)
        elif op == 1:
            s.insert(pos, rnd.choice(INTERESTING))
        elif op == 2 and s:
            del s[pos % len(s)]
        elif op == 3 and s:
            a = pos % len(s)
            s[a:a] = s[a:a + rnd.randrange(1, 6)]
        elif op == 4:
            del s[pos:]
        elif op == 5:
            s += bytes(rnd.choice(b"0123456789") for _ in range(rnd.randrange(1, 12)))
        elif op == 6 and s:
            a = pos % len(s)
            s[a] = s[a] ^ 0x20 if chr(s[a]).isalpha() else s[a]
        elif op == 7:
            s[pos:pos] = bytes([rnd.choice(INTERESTING)]) * rnd.choice((2, 8, 64, 300))
    return bytes(s[:1900])


def random_string(rnd):
    kind = rnd.randrange(4)
    if kind == 0:       # arbitrary bytes
        return bytes(rnd.randrange(1, 256) for _ in range(rnd.randrange(0, 40)))
    if kind == 1:       # a transport prefix and a tail over the class alphabet, beyond the exhaustive bound
        t = rnd.choice(T8)
        return t.encode() + b":" + bytes(rnd.choice(ALPHABET[:10]) for _ in range(rnd.randrange(5, 15)))
    if kind == 2:       # host-like and port-like pieces
        t = rnd.choice(HPT)
        host = rnd.choice([b"a", b"a.b", b"1.2.3.4", b"[::1]", b"*", b"[*]", b"[1:2:3:4:5:6:7:8]", b"[::ffff:1.2.3.4]",
                           bytes(rnd.choice(b"ab1.-") for _ in range(rnd.randrange(1, 70))),
                           b"[" + bytes(rnd.choice(b"0123456789abcdefABCDEF:.") for _ in range(rnd.randrange(0, 42))) + b"]",
                           bytes(rnd.choice(b"0123456789.") for _ in range(rnd.randrange(1, 18)))])
        port = rnd.choice([str(rnd.randrange(0, 70000)).encode(), str(rnd.randrange(0, 1 << 40)).encode(),
                           str((1 << 32) * rnd.randrange(1, 1 << 20) + rnd.randrange(0, 65536)).encode(),
                           b"0" * rnd.randrange(1, 40) + str(rnd.randrange(0, 65536)).encode(),
                           rnd.choice([b"+", b"-"]) + str(rnd.randrange(0, 70000)).encode(), b"",
                           bytes(rnd.choice(b"0123456789abcdefx") for _ in range(rnd.randrange(1, 8)))])
        return t.encode() + b":" + host + b":" + port
    # around the total length limit
    t = rnd.choice(T8)
    n = rnd.choice((100, 107, 108, 253, 254, 255, 510, 570, 575, 576, 577, 578, 579, 580, 700)) + rnd.randrange(-3, 4)
    return (t.encode() + b":" + bytes(rnd.choice(b"ab.") for _ in range(n)) + rnd.choice([b"", b":80", b":0"]))[:1900]


def random_name(rnd):
    labels = []
    total = rnd.choice((1, 5, 20, 63, 100, 200, 253))
    while True:
        n = rnd.randrange(1, 64)
        lab = bytes(rnd.choice(b"abcxyzABC0123456789-") for _ in range(n))
        lab = b"a" + lab[1:-1] + b"z" if n > 1 else b"q"
        if sum(len(x) + 1 for x in labels) + len(lab) > total:
            break
        labels.append(lab)
    return b".".join(labels) or b"q"


def random_mk(rnd):
    t = rnd.choice(T8)
    if t in ("ux", "uxf"):
        n = rnd.choice((1, 2, 10, 50, 106, 107, 108, 120))
        b = bytes(rnd.choice(b"abc/._-:@") for _ in range(n))
        est = len(t) + 1 + n
        k, port = "ux", 0
    else:
        port = rnd.choice(BOUNDARY_PORTS + [rnd.randrange(65536)] * 6)
        c = rnd.randrange(3)
        if c == 0:
            b = bytes(rnd.choice((0, 1, 9, 10, 99, 100, 127, 199, 200, 255, rnd.randrange(256))) for _ in range(4))
            k, txt = "ip4", socket.inet_ntop(socket.AF_INET, b)
        elif c == 1:
            words = [rnd.choice((0, 0, 0, 1, 0xffff, 0x100, rnd.randrange(65536))) for _ in range(8)]
            b = b"".join(w.to_bytes(2, "big") for w in words)
            k, txt = "ip6", "[" + socket.inet_ntop(socket.AF_INET6, b) + "]"
        else:
            b = random_name(rnd)
            k, txt = "name", b.decode()
        est = len(t) + 1 + len(txt) + 1 + len(str(port))     # only used to choose interesting capacities
    cap = max(0, est + rnd.choice((-3, -2, -1, 0, 1, 2, 3, rnd.randrange(-est, 4))))
    return v_mk(t, 0, k, b, port, cap)


def build_vectors(tier, rnd, strings, calls):
    T = TIERS[tier]
    vec = []
    origin = collections.Counter()

    def add(v, org):
        vec.append(v)
        origin[org] += 1

    for kind, s in strings:
        add(v_ps(s), "tlc_string" if kind == "@S" else "tlc_boundary")
    for m in calls:
        add(v_mk(m["t"], m["api"], m["k"], m["b"], m["port"], m["cap"]), "tlc_make")
    bnd = sorted(set(s for kind, s in strings if kind == "@B"))
    if not bnd:
        raise InternalError("TLC emitted no boundary strings")
    for _ in range(T["n_random"]):
        add(v_ps(random_string(rnd)), "random_string")
    short = [s for s in bnd if len(s) <= 300]
    for _ in range(T["n_mutations"]):
        add(v_ps(mutate(rnd, rnd.choice(short))), "mutation")
    for _ in range(T["n_random_mk"]):
        add(random_mk(rnd), "random_make")
    # bracketed IPv6 hosts at and beyond the longest textual form (45 characters, mixed notation), with something extra
    # inside the brackets: the whole bracket content must be an address, not just a prefix of it
    ip6_forms = [b"1111:2222:3333:4444:5555:6666:100.200.100.200", b"1111:2222:3333:4444:5555:6666:7777:8888",
                 b"::ffff:100.200.100.200", b"1111:2222:3333:4444:5555:6666:1.2.3.4", b"::1", b"fe80::1", b"::",
                 b"0000:0000:0000:0000:0000:0000:255.255.255.255", b"1::2:3:4:5:6:7", b"1111:2222:3333:4444:5555:6666::"]
    extras = [b"0", b"1", b"9", b"a", b"f", b"G", b":", b".", b"::", b":0", b".0", b" ", b"%1", b"%eth0", b"]", b"00", b"000",
              b"GARBAGE", b"1" * 20, b"/64"]
    n6 = 0
    for form in ip6_forms:
        for t in (HPT if tier == "thorough" else ["tcp", "btls", "utls"]):
            for ex in extras:
                for where in ("tail", "head"):
                    inner = form + ex if where == "tail" else ex + form
                    add(v_ps(t.encode() + b":[" + inner + b"]:" + str(rnd.choice(BOUNDARY_PORTS)).encode()), "ip6_long")
                    n6 += 1
            add(v_ps(t.encode() + b":[" + form + b"]:4711"), "ip6_long")
    # white space (isspace() of the C locale: 9..13 and 32, spec/Addr.tla IsSpace) anywhere in an otherwise valid address:
    # every character of the class at every position (strtol() would skip it in front of a port, a name would carry it)
    ws_base = [b"tcp:192.168.1.42:4711", b"tls:[::1]:99", b"utls:host.example.com:65535", b"sctp:10.0.0.1:1", b"btcp:*:0",
               b"btls:[fe80::1]:8080", b"ux:some-name", b"uxf:/tmp/dir/file.sock"]
    for base in ws_base:
        for c in (9, 10, 11, 12, 13, 32):
            for pos in range(len(base) + 1):
                add(v_ps(base[:pos] + bytes([c]) + base[pos:]), "white_space")
    # parsers with a caller-supplied buffer: every capacity around the length of what they return
    ux = [s for s in bnd if s.startswith(b"ux:") or s.startswith(b"uxf:")]
    pcs = ux + rnd.sample(bnd, min(len(bnd), T["pc_strings"]))
    for s in pcs:
        i = s.find(b":")
        fns = ["proto"] + (["ux"] if s.startswith(b"ux:") else ["uxf"] if s.startswith(b"uxf:") else [])
        for fn in fns:
            n = i if fn == "proto" else len(s) - i - 1
            n = max(n, 0)
            caps = range(0, n + 3) if n <= 12 else sorted(set([0, 1, n - 1, n, n + 1, n + 2]))
            for c in caps:
                add(v_pc(fn, s, c), "bounded_parse")
    # transport converters of common_tp.c
    for a, b in CONV:
        mine = [s for s in bnd if s.startswith(a.encode() + b":") and len(s) < 330]
        pick = mine if len(mine) <= T["conv_per_pair"] else rnd.sample(mine, T["conv_per_pair"])
        if a not in T["boundary_t"]:
            extra = [a.encode() + s[s.find(b":"):] for s in bnd if s.startswith(b"tcp:") and len(s) < 330]
            pick = pick + rnd.sample(extra, min(len(extra), T["conv_per_pair"]))
        for s in pick:
            n = len(s) + len(b) - len(a)
            for c in sorted(set([0, 1, n - 1, n, n + 1, n + 2, n + 8])):
                if c >= 0:
                    add(v_cv(a, b, s, c), "converter")
    # distinct vectors only, ids in order
    seen, out = set(), []
    for v in vec:
        if v not in seen:
            seen.add(v)
            out.append(v)
    return [v % (i + 1) for i, v in enumerate(out)], dict(origin)


# ---------------------------------------------------------------------- execution -------
CRASH_LINE = ('{"op":"crash","id":%d,"t":"","t2":"","fn":%s,"api":0,"hk":"","port":0,"cap":0,"fill":165,"ret":0,"err":0,'
              '"hb":[],"s":[],"pre":[],"out":[],"p":[-2,0,"none",[],0],"r":[],"c6":[],"c4":[],"uxc":[0,0,"none",[],0],'
              '"iv":0,"isup":0,"pp":[0,0,[]]}\n')
ASAN_ENV = {"ASAN_OPTIONS": "detect_leaks=0:abort_on_error=0:exitcode=99", "UBSAN_OPTIONS": "print_stacktrace=1"}


def complete_lines(path):
    try:
        with open(path) as f:
            data = f.read()
    except FileNotFoundError:
        return []
    lines = data.split("\n")
    tail = lines.pop()          # text after the last newline: an unfinished line
    del tail
    return [ln + "\n" for ln in lines if ln]


def run_harness_once(binary, vectors, base, timeout):
    vf, of = base + ".vec", base + ".out"
    with open(vf, "w") as f:
        f.write("\n".join(vectors) + "\n")
    if os.path.exists(of):
        os.unlink(of)
    env = dict(os.environ)
    env.update(ASAN_ENV)
    try:
        p = subprocess.run([binary, vf, of], stdout=subprocess.PIPE, stderr=subprocess.STDOUT, env=env, timeout=timeout,
                           text=True, errors="replace")
        rc, err = p.returncode, p.stdout
    except subprocess.TimeoutExpired as e:
        rc, err = -999, (e.stdout or "") if isinstance(e.stdout, str) else ""
    return rc, err, complete_lines(of)


def crash_reason(rc, err):
    for ln in err.splitlines():
        if "ERROR: AddressSanitizer" in ln or "runtime error" in ln or "Assertion" in ln:
            return ln.strip()[:200]
    return "time-out" if rc == -999 else "exit status %d" % rc


def run_chunk(binary, vectors, base, timeout):
    """Runs the vectors of one chunk; a crash becomes a crash line and the run continues behind it."""
    out, crashes, k, rounds = [], [], 0, 0
    while k < len(vectors):
        rounds += 1
        rc, err, lines = run_harness_once(binary, vectors[k:], "%s.r%d" % (base, rounds), timeout)
        out.extend(lines)
        k += len(lines)
        if rc == 0:
            if k != len(vectors):
                raise InternalError("harness ended normally after %d of %d vectors" % (k, len(vectors)))
            break
        if rc in (2, 3):
            raise InternalError("harness rejected its input (%d): %s\n%s" % (rc, vectors[k] if k < len(vectors) else "", err[-2000:]))
        if k >= len(vectors):
            raise InternalError("harness failed after its last vector (%d):\n%s" % (rc, err[-2000:]))
        if rc == -999:
            # never let load decide: the suspect is re-run alone with a generous limit
            rc2, err2, l2 = run_harness_once(binary, [vectors[k]], "%s.solo%d" % (base, rounds), 60)
            if rc2 == 0 and l2:
                out.extend(l2)
                k += 1
                continue
            rc, err = rc2, err2
        vid = int(vectors[k].split()[1])
        why = crash_reason(rc, err)
        with open("%s.crash%d.txt" % (base, vid), "w") as f:
            f.write(err[-20000:])
        out.append(CRASH_LINE % (vid, json.dumps(why)))
        crashes.append((vid, why))
        k += 1
        if len(crashes) > 200:
            raise InternalError("more than 200 crashes in one chunk; first: %s" % (crashes[0],))
    with open(base + ".ndjson", "w") as f:
        f.write("".join(out))
    return base + ".ndjson", len(out), crashes


def validate(trace, n):
    r = vlib.tlc("AddrTrace", "AddrTrace.cfg", workers=1, timeout=1500, dfs=True,
                 env={"TRACE": trace, "JAVA_TOOL_OPTIONS": "-Xmx4g -XX:ParallelGCThreads=2 -XX:CICompilerCount=2 "
                                                           "-Dtlc2.tool.queue.IStateQueue=StateDeque"},
                 metadir="%s/addrtv.%s.%d" % (vlib.TLCDIR, os.path.basename(trace), os.getpid()))
    vl, stat = [], None
    for ln in r["out"].splitlines():
        if ln.startswith('"@V '):
            v = json.loads(json.loads(ln)[3:])
            vl.append(dict(id=v[0], n=v[1], tag=v[2], x=v[3], o=v[4]))
        elif ln.startswith('"@STAT '):
            stat = json.loads(json.loads(ln)[6:])
    if r["error"] or stat is None or r["distinct"] != n + 1 or "Postcondition" in r["out"]:
        raise InternalError("trace validation did not consume %s (%d lines, %d states):\n%s"
                            % (trace, n, r["distinct"], (r["error"] or r["out"][-3000:])))
    return vl, stat, r


def execute_and_validate(binary, vectors, tag, nbatch, timeout):
    d = vlib.fresh_dir("%s/%s" % (vlib.RUN, tag))
    nb = max(1, min(nbatch, len(vectors) // 50 or 1))
    chunks = [vectors[i::nb] for i in range(nb)]
    allv, stats, crashes, lines, tv_states, tv_wall = [], collections.Counter(), [], 0, 0, 0.0

    def job(i):
        trace, n, cr = run_chunk(binary, chunks[i], "%s/c%d" % (d, i), timeout)
        vl, stat, r = validate(trace, n)
        return vl, stat, cr, n, r

    with concurrent.futures.ThreadPoolExecutor(max_workers=vlib.NCPU) as ex:
        for vl, stat, cr, n, r in ex.map(job, range(nb)):
            allv.extend(vl)
            stats.update(stat)
            crashes.extend(cr)
            lines += n
            tv_states += r["distinct"]
            tv_wall += r["wall"]
    if lines != len(vectors):
        raise InternalError("%d vectors but %d recorded lines" % (len(vectors), lines))
    return d, allv, dict(stats), crashes, tv_states


# ------------------------------------------------------------------------ verdicts -------
def vector_text(v):
    f = v.split()
    try:
        if f[0] == "ps":
            return "parse %r" % (bytes.fromhex(f[2]) if f[2] != "-" else b"")
        if f[0] == "mk":
            b = bytes.fromhex(f[5]) if f[5] != "-" else b""
            host = (socket.inet_ntop(socket.AF_INET, b) if f[4] == "ip4" else socket.inet_ntop(socket.AF_INET6, b)
                    if f[4] == "ip6" else repr(b if len(b) < 40 else b[:16] + b"..(%d)" % len(b)))
            fn = ["xcm_addr_make_%s", "xcm_addr_%s6_make", "xcm_addr_%s_make"][int(f[3])] % f[2]
            return "%s(%s %s, port %s, capacity %s)" % (fn, f[4], host, f[6], f[7])
        if f[0] == "pc":
            return "xcm_addr_parse_%s(%r, capacity %s)" % (f[2], bytes.fromhex(f[3]) if f[3] != "-" else b"", f[4])
        if f[0] == "cv":
            return "%s_to_%s(%r, capacity %s)" % (f[2], f[3], bytes.fromhex(f[4]) if f[4] != "-" else b"", f[5])
    except (ValueError, IndexError, OSError):
        pass
    return v


SUB = {1: "xcm_addr_parse_tcp", 2: "xcm_addr_parse_tls", 3: "xcm_addr_parse_utls", 4: "xcm_addr_parse_sctp",
       5: "xcm_addr_parse_ux", 6: "xcm_addr_parse_uxf", 7: "xcm_addr_parse_btcp", 8: "xcm_addr_parse_btls",
       11: "xcm_addr_tcp6_parse", 12: "xcm_addr_tls6_parse", 13: "xcm_addr_utls6_parse", 14: "xcm_addr_sctp6_parse",
       21: "xcm_addr_tcp_parse", 22: "xcm_addr_tls_parse", 23: "xcm_addr_utls_parse", 25: "xcm_addr_ux_parse",
       30: "xcm_addr_is_valid", 31: "xcm_addr_is_supported", 40: "xcm_addr_parse_proto"}


def classify(v, vector):
    """-> (class key, human description of the mismatch class)"""
    op = vector.split()[0]
    tag = v["tag"]
    fam = {"mk": "make", "cv": "convert", "pc": "bounded_parse", "ps": "parse"}[op]
    why = ""
    if tag in ("C12.accepts",):
        why = v["x"][-1] if isinstance(v["x"], list) else str(v["x"])
        if op == "ps" and v["n"] == 40:
            fam = "parse_proto"
    elif tag == "C12.truncated":
        why = "short_buffer"
    elif tag == "C12.agree":
        why = "is_valid"
    elif tag in ("C12.rejects", "C12.roundtrip", "C12.errno", "C12.overrun"):
        why = "sub%d" % v["n"] if op == "ps" and v["n"] >= 30 else ""
    elif tag == "C12.crash":
        why = str(v["o"]).split(":")[-1].strip()[:40] if "Sanitizer" in str(v["o"]) else str(v["o"])[:40]
    return "%s/%s/%s" % (tag, fam, why)


def describe(v, vector):
    fn = ""
    if vector.startswith("ps "):
        fn = SUB.get(v["n"], "") + ": "
    return "%s %s%s; expected %s, observed %s" % (v["tag"], fn, vector_text(vector), json.dumps(v["x"])[:160],
                                                  json.dumps(v["o"])[:200])


def verdicts(allv, vectors, max_reports=16):
    """Group the C12.* mismatches into classes; one report (with the smallest inputs) per class."""
    byid = {int(v.split()[1]): v for v in vectors}
    classes, notes, internal = {}, collections.Counter(), []
    for v in allv:
        if v["tag"].startswith("NOTE."):
            notes[v["tag"]] += 1
            continue
        if v["tag"] == "INTERNAL":
            internal.append(v)
            continue
        vec = byid[v["id"]]
        f = vec.split()
        # prefer components inside the statement's domain, a non-degenerate capacity, then the shortest input
        rank = (v["n"] >= 100, f[0] in ("mk", "cv", "pc") and f[-1] == "0", len(vec))
        classes.setdefault(classify(v, vec), []).append((rank, v["id"], v))
    if internal:
        raise InternalError("harness could not execute a vector: %s / %s" % (byid[internal[0]["id"]], internal[0]))
    reports = []
    for key in sorted(classes):
        items = sorted(classes[key], key=lambda x: (x[0], x[1]))
        ids = []
        for _, i, _v in items:
            if i not in ids:
                ids.append(i)
            if len(ids) >= 5:
                break
        first = items[0][2]
        tag, fam, why = key.split("/", 2)
        reports.append(dict(key=key, tag=tag, family=fam, why=why, count=len(items), first=first,
                            vectors=[byid[i] for i in ids], text=describe(first, byid[first["id"]])))
    return reports, dict(notes)


def check(pid, tier, seed):
    t0 = time.time()
    if tier not in TIERS:
        tier = "quick"
    T = TIERS[tier]
    rnd = random.Random(seed)
    binary = vlib.build(["addr_exec"])[0]

    # ---- 2. the laws on the bounded model; TLC prints the cases -----------------------
    cfgs = mc_configs(tier, rnd)
    share = {"gen": max(2, vlib.NCPU // 2), "sweep": max(2, vlib.NCPU // 4), "matrix": max(2, vlib.NCPU // 4)}
    with concurrent.futures.ThreadPoolExecutor(max_workers=3) as ex:
        futs = {n: ex.submit(run_mc, n, c, share[n]) for n, c in cfgs.items()}
        res = {n: f.result() for n, f in futs.items()}
    violations, known = [], []
    states = transitions = 0
    mc_summary = {}
    strings, calls = [], []
    for n, (r, s, c) in res.items():
        states += r["distinct"]
        transitions += r["generated"]
        mc_summary[n] = dict(distinct=r["distinct"], generated=r["generated"], depth=r["depth"], wall=round(r["wall"], 1),
                             strings=len(s), constructor_calls=len(c))
        if r["violated"]:
            rp = vlib.save_replay(pid, "tlc_%s.txt" % n, r["out_tail"])
            violations.append(("design", "TLC: law %s of Addr.tla violated in configuration %s" % (",".join(r["violated"]), n), rp))
        elif r["distinct"] < 100:
            raise InternalError("configuration %s explored only %d states (vacuous)" % (n, r["distinct"]))
        strings += s
        calls += c
    # TLC's workers print in no particular order: fix one (the seed then determines every random choice)
    strings.sort()
    calls.sort(key=lambda m: json.dumps(m, sort_keys=True))
    if not violations:
        if len(res["gen"][1]) < 1000 or not res["sweep"][2] or not res["matrix"][2]:
            raise InternalError("TLC emitted too few cases: %s" % mc_summary)
        if T["sweep_sample"] is None and len(set(m["port"] for m in res["sweep"][2])) != 65536:
            raise InternalError("the port sweep did not cover all 65536 ports")
        if set(m["t"] for m in res["matrix"][2]) != set(T8):
            raise InternalError("the constructor matrix did not cover all eight transports")

    # ---- 3-5. vectors -> real library -> trace validation ------------------------------
    vectors, origin = build_vectors(tier, rnd, strings, calls)
    d, allv, stats, crashes, tv_states = execute_and_validate(binary, vectors, "%s_%s" % (pid, tier), T["batches"],
                                                              300 if tier == "quick" else 1200)
    if stats.get("valid", 0) < 50 or stats.get("invalid", 0) < 50 or stats.get("lenient", 0) < 10 or \
            stats.get("mkok", 0) < 50 or stats.get("mkfail", 0) < 50 or stats.get("cv", 0) < 20 or stats.get("pc", 0) < 20:
        raise InternalError("vacuous run: %s" % stats)
    reports, notes = verdicts(allv, vectors)

    nviol = 0
    for rep in reports:
        sig = {"tag": rep["tag"], "family": rep["family"], "why": rep["why"], "class": rep["key"]}
        f = vlib.match_finding(pid, sig)
        if f:
            k = "property=%s %s (%d recorded calls, e.g. %s)" % (pid, f["what"], rep["count"], vector_text(rep["vectors"][0]))
            if not any(f["what"] in x for x in known):
                known.append(k)
            continue
        nviol += 1
        body = "# %s\n# class %s: %d mismatching calls in this run; smallest inputs below\n" \
               "# replay: bin/check %s --replay <this file>\n%s\n" % (rep["text"], rep["key"], rep["count"], pid,
                                                                      "\n".join(rep["vectors"]))
        name = "%s.vec" % rep["key"].replace("C12.", "").replace("/", "_").replace(" ", "_").replace(".", "_").strip("_")
        rp = vlib.save_replay(pid, name, body)
        violations.append(("conformance", "%s [%d calls]" % (rep["text"], rep["count"]), rp))

    # ---- 6. evidence ---------------------------------------------------------------------
    calls_per = {"ps": 20, "mk": 2, "pc": 1, "cv": 2}
    evaluations = sum(calls_per[v.split()[0]] for v in vectors)
    samples = [{"vector": vectors[i], "meaning": vector_text(vectors[i])} for i in
               sorted(set([0, len(vectors) // 3, len(vectors) // 2, len(vectors) - 1]))]
    for rep in reports[:4]:
        samples.append({"mismatch": rep["text"][:400], "calls": rep["count"]})
    cov = dict(states=states, transitions=transitions, traces_validated_against_impl=len(vectors), samples=samples,
               evaluations=evaluations,
               distinct_nontrivial=stats.get("known", 0) + stats.get("mk", 0) + stats.get("cv", 0) + stats.get("pc", 0),
               rule="every vector is one recorded call group on the real library validated by TLC against Addr.tla; "
                    "non-trivial = a parser input whose protocol part names a transport (the parser goes beyond the "
                    "dispatch) or any constructor / converter / bounded-parse call (each exercises the capacity bound); "
                    "evaluations = library calls (a parser input is given to 20 entry points)",
               model_configurations=mc_summary, vectors_by_origin=origin, trace_validation_states=tv_states,
               parser_inputs=stats.get("ps", 0), parser_inputs_valid=stats.get("valid", 0),
               parser_inputs_invalid=stats.get("invalid", 0), parser_inputs_lenient=stats.get("lenient", 0),
               parser_inputs_accepted_by_is_valid=stats.get("accepted", 0), constructor_calls=stats.get("mk", 0),
               constructor_calls_ok=stats.get("mkok", 0), constructor_calls_refused=stats.get("mkfail", 0),
               converter_calls=stats.get("cv", 0), bounded_parse_calls=stats.get("pc", 0), crashes=len(crashes),
               ports_swept=len(set(m["port"] for m in res["sweep"][2])),
               mismatch_classes={r["key"]: r["count"] for r in reports}, notes=notes, known_findings=known,
               exhaustive=False)
    vlib.write_evidence(pid, tier, seed, "model_checking", cov, time.time() - t0, violations=len(violations),
                        assumptions=["the documented syntax is read as in DESIGN 7.1 (three-valued grammar of spec/Addr.tla)",
                                     "glibc inet_ntop/inet_pton text forms of IPv6 are the reference for canonical text "
                                     "(a different but equivalent text is a note)",
                                     "parser inputs are C strings (no embedded NUL)",
                                     "TLC and the JSON/IOUtils community modules are trusted"])
    return violations, known


def replay(pid, path):
    binary = vlib.build(["addr_exec"])[0]
    vectors = []
    for ln in open(path):
        ln = ln.strip()
        if not ln or ln.startswith("#"):
            continue
        f = ln.split()
        if f[0] not in ("ps", "mk", "pc", "cv"):
            raise InternalError("not a C12 replay file (line %r); TLC counterexamples are re-checked by running the check" % ln[:60])
        f[1] = str(len(vectors) + 1)
        vectors.append(" ".join(f))
    if not vectors:
        raise InternalError("no vectors in %s" % path)
    d = vlib.fresh_dir("%s/replay_%s" % (vlib.RUN, pid))
    trace, n, crashes = run_chunk(binary, vectors, d + "/r", 120)
    vl, stat, r = validate(trace, n)
    bad = []
    for v in vl:
        vec = vectors[v["id"] - 1]
        print("MISMATCH" if v["tag"].startswith("C12.") else "note", describe(v, vec))
        if v["tag"].startswith("C12."):
            bad.append(v)
        elif v["tag"] == "INTERNAL":
            raise InternalError("harness could not execute %s" % vec)
    print("replayed %d vectors, trace %s" % (len(vectors), trace))
    return bad
