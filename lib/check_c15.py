"""C15 - threads using different sockets do not interfere.

Pipeline per run:
  0. the hooks H5-H7 (lib/hooks/c15_hooks.patch: libxcm/core/verif.h + add-only calls inside the critical sections of
     active_fd.c, ctx_store.c and xcm_tp.c) must be present in the source tree; otherwise exit 2
  1. build harness/thr_exec from the working tree twice: ASan/UBSan and ThreadSanitizer
  2. TLC on spec/Threads.tla: all interleavings of the threads' socket create / use / close on the shared state (eventfd pool
     with MAX_USERS_PER_FD = 2, context cache, id counter, mutexes, idempotent flags) with the invariants of the module;
     one run per seeded defect (constant Broken), each of which TLC must refute, and one reachability run (vacuity)
  3. the driver runs many threads with their own sockets of all transports on the real library; the hooks report every
     change of the shared state from inside the library's mutexes, each thread keeps a delivery oracle for its connections
  4. TLC validates every recorded execution against spec/ThreadsTrace.tla (which drives the shared variables of Threads.tla
     with the recorded events); tags C15.* are violations, NOTE.* go to the evidence
  5. the same driver under ThreadSanitizer: any report is an event no action of the model accepts (C15.race); the report
     text is the replay artefact.  Uninstrumented system libraries (libcrypto, libssl, libcares) are covered by
     shim/tsan.supp (called_from_lib only; no libxcm function is suppressed)
No verdict depends on timing: a stalled driver is an internal error unless its recorded events already show a violation.
"""
import concurrent.futures
import glob
import json
import os
import random
import re
import shutil
import subprocess
import time

import vlib
from vlib import InternalError

PID = "C15"
HOOK_FILES = {"libxcm/core/verif.h": "XCM_VERIF_EV", "libxcm/tp/common/active_fd.c": "XCM_VERIF_EV(\"afd_",
              "libxcm/tp/tls/ctx_store.c": "XCM_VERIF_EV(\"ctx_", "libxcm/tp/common/xcm_tp.c": "XCM_VERIF_EV(\"sock_id\""}
BROKEN = {  # seeded defect of the model -> (scope, invariants - data-level, not the mutual exclusion itself - TLC must refute)
    "afd_no_lock": (["afd"], ["AfdCount", "AfdClosedAtZero", "AfdNoUseAfterClose", "NoAbort"]),
    "afd_close_early": (["afd"], ["AfdClosedAtZero", "AfdNoUseAfterClose", "NoAbort", "Released"]),
    "ctx_double_dec": (["ctx"], ["CtxCount", "CtxFreedAtZero", "CtxNoUseAfterFree", "NoAbort"]),
    "ctx_no_lock": (["ctx"], ["CtxCount", "CtxFreedAtZero", "CtxNoUseAfterFree", "NoAbort"]),
    "id_no_lock": (["id"], ["IdsUnique"]),
}
ALL = ["flags", "id", "afd", "ctx"]
INVARIANTS = ["Mutex", "AfdCount", "AfdClosedAtZero", "AfdNoUseAfterClose", "AfdBounded", "CtxCount", "CtxFreedAtZero",
              "CtxNoUseAfterFree", "CtxRight", "IdsUnique", "FlagsSane", "NoAbort", "Released"]
F_YIELD, F_HANDOVER, F_DUO, F_DNS, F_NOHOOKS, F_COLD = 1, 2, 4, 8, 16, 32

TIERS = {
    "quick": dict(
        # (name, threads, rounds, subsystems, TLC workers): the subsystems share no variable, so each is explored alone at
        # 3 threads x 2 rounds; the full product (non-interference between them included) at 3 x 1
        models=[("afd_t3r2", 3, 2, ["afd"], 1), ("ctx_t3r2", 3, 2, ["ctx"], 2), ("misc_t3r2", 3, 2, ["flags", "id"], 1),
                ("all_t2r2", 2, 2, ALL, 3)],
        # (variant, threads, rounds, pairs, msgs, flags, debug log)
        runs=[("asan", 16, 3, 3, 12, F_YIELD | F_HANDOVER | F_DUO | F_DNS, False),
              ("asan", 8, 4, 4, 10, F_YIELD | F_HANDOVER | F_DUO, False),
              ("tsan", 16, 4, 4, 16, F_HANDOVER | F_DUO | F_DNS, False),
              ("tsan", 16, 3, 3, 10, F_YIELD | F_HANDOVER | F_DUO | F_DNS, True),
              ("tsan", 12, 4, 4, 16, F_NOHOOKS | F_HANDOVER | F_DUO | F_DNS, False)] +
             # cold starts: first-use initialisations race only in the first instants of a process
             [("tsan", 16, 3, 1, 2, F_COLD | F_NOHOOKS, False)] * 5 + [("tsan", 16, 3, 1, 2, F_COLD | F_DNS, True)] * 2,
        parallel=4, timeout=600),
    "thorough": dict(
        # the largest first: pool x cache at 3 threads x 2 rounds (8.5e6 states) decides the wall time
        models=[("afdctx_t3r2", 3, 2, ["afd", "ctx"], 10), ("all_t3r1", 3, 1, ALL, 4),
                ("afd_t3r2", 3, 2, ["afd"], 1), ("ctx_t3r2", 3, 2, ["ctx"], 2), ("misc_t3r2", 3, 2, ["flags", "id"], 1),
                ("afd_t4r2", 4, 2, ["afd"], 2), ("ctx_t4r1", 4, 1, ["ctx"], 1), ("misc_t4r1", 4, 1, ["flags", "id"], 1),
                ("all_t2r2", 2, 2, ALL, 2)],
        runs=[("asan", 16, 6, 4, 24, F_YIELD | F_HANDOVER | F_DUO | F_DNS, False)] * 4 +
             [("asan", 8, 8, 6, 16, F_YIELD | F_HANDOVER | F_DUO, False)] * 2 +
             [("asan", 12, 6, 4, 16, F_HANDOVER | F_DUO | F_DNS, True)] * 2 +
             [("tsan", 16, 6, 4, 24, F_HANDOVER | F_DUO | F_DNS, False)] * 4 +
             [("tsan", 16, 5, 4, 16, F_YIELD | F_HANDOVER | F_DUO | F_DNS, True)] * 3 +
             [("tsan", 8, 8, 6, 24, F_YIELD | F_HANDOVER | F_DUO | F_DNS, False)] * 3 +
             [("tsan", 12, 6, 4, 24, F_NOHOOKS | F_HANDOVER | F_DUO | F_DNS, False)] * 2 +
             [("tsan", 16, 3, 1, 2, F_COLD | F_NOHOOKS, False)] * 30 + [("tsan", 16, 3, 1, 2, F_COLD | F_DNS, True)] * 15 +
             [("asan", 16, 3, 1, 2, F_COLD | F_YIELD, False)] * 5,
        parallel=4, timeout=1800),
}

LINE = ('{"x":%d,"n":%d,"s":"drv","ev":"%s","t":0,"a":%d,"b":0,"c":0,"d":0,"ov":0,"ok":1,"tp":""}\n')


# --------------------------------------------------------------------------- hooks -----
def hooks_present():
    missing = []
    for f, needle in HOOK_FILES.items():
        try:
            with open(os.path.join(vlib.REPO, f), errors="replace") as fh:
                if needle not in fh.read():
                    missing.append(f)
        except OSError:
            missing.append(f)
    return missing


# --------------------------------------------------------------------------- model -----
def write_cfg(name, threads, rounds, scope, broken, invariants, props=True):
    d = vlib.BUILD + "/cfg"
    os.makedirs(d, exist_ok=True)
    path = "%s/Threads_%s.cfg" % (d, name)
    with open(path, "w") as f:
        f.write("SPECIFICATION Spec\nCONSTANTS\n  Threads = {%s}\n  Rounds = %d\n  MaxUsers = 2\n  Keys = {1, 2}\n"
                "  Broken = \"%s\"\n  Scope = {%s}\n  NoOne = NoOne\nSYMMETRY Symm\nINVARIANTS %s\n"
                % (", ".join("t%d" % (i + 1) for i in range(threads)), rounds, broken,
                   ", ".join('"%s"' % x for x in scope), " ".join(invariants)))
        if props:
            f.write("PROPERTY FlagsIdempotent\n")
    return path


def run_model(name, threads, rounds, scope, broken, invariants, workers, timeout, coverage=False):
    cfg = write_cfg(name, threads, rounds, scope, broken, invariants,
                    props=(broken == "none" and invariants != ["NeverRich"]))
    r = vlib.tlc("Threads", cfg, workers=workers, timeout=timeout, extra="-coverage 1" if coverage else "",
                 env={"JAVA_TOOL_OPTIONS": "-Xmx4g -XX:ParallelGCThreads=2 -XX:CICompilerCount=2"},
                 metadir="%s/thr_%s.%d" % (vlib.TLCDIR, name, os.getpid()))
    if r["error"] and not r["violated"]:
        raise InternalError("TLC failed on Threads.tla (%s):\n%s" % (name, r["error"]))
    return r


def counterexample(out):
    i = out.find("Error: Invariant")
    if i < 0:
        i = out.find("Error:")
    return out[i:i + 60000] if i >= 0 else out[-20000:]


def last_action(out):
    m = re.findall(r"^State \d+: <(\w+)[ (]", out, re.M)
    return m[-1] if m else "?"


# --------------------------------------------------------------------------- driver ----
def prepare_creds(rundir):
    rc, out = vlib.sh("/bin/sh %s/bin/gencreds.sh" % vlib.V, env={"VERIF_BUILD": vlib.BUILD}, timeout=300)
    src = vlib.BUILD + "/creds/default"
    if rc != 0 or not os.path.exists(src + "/cert.pem"):
        raise InternalError("credential generation failed:\n" + out[-2000:])
    creds = rundir + "/creds"
    for n in ("default", "alt1", "alt2"):
        shutil.copytree(src, "%s/%s" % (creds, n))
    os.makedirs(rundir + "/ctl", exist_ok=True)
    return creds


def tsan_reports(prefix):
    """-> list of (summary, kind, frames, text) parsed from the files TSan wrote (log_path)"""
    reps = []
    for fn in sorted(glob.glob(prefix + ".*")):
        with open(fn, errors="replace") as f:
            txt = f.read()
        for blk in txt.split("=================="):
            if "WARNING: ThreadSanitizer" not in blk:
                continue
            if " on_abort " in blk or " dump_events " in blk or "ThreadSanitizer: thread leak" in blk:
                continue                            # the driver's own last-gasp dump after an abort in the library
            m = re.search(r"SUMMARY: ThreadSanitizer: (.*)", blk)
            summary = m.group(1).strip() if m else blk.strip().splitlines()[0]
            kind = "fd" if "Location is file descriptor" in blk else \
                re.sub(r"[^a-z]+", "_", re.search(r"WARNING: ThreadSanitizer: ([^(\n]*)", blk).group(1).strip().lower())
            frames = []
            for fm in re.finditer(r"#\d+ (\S+) (\S+?)(?::\d+)+ \(", blk):
                fn_, file_ = fm.group(1), fm.group(2)
                if "/libxcm/" in file_ or "/common/" in file_:
                    fr = "%s@%s" % (fn_, os.path.basename(file_))
                    if fr not in frames:
                        frames.append(fr)
            reps.append((summary, kind, frames, blk.strip()))
    return reps


def run_driver(spec):
    """one execution of harness/thr_exec; returns dict(x, params, lines, rc, stderr, races, stalled)"""
    (x, binary, variant, threads, rounds, pairs, msgs, flags, debug, seed, rundir, creds, timeout) = spec
    out = "%s/x%d.ndjson" % (rundir, x)
    peak = -(-101 // (2 * threads))
    tsan_log = "%s/x%d.tsan" % (rundir, x)
    san_log = "%s/x%d.san" % (rundir, x)
    env = dict(os.environ)
    env.update({"XCM_TLS_CERT": creds + "/default", "XCM_CTL": rundir + "/ctl",
                "ASAN_OPTIONS": "detect_leaks=0:abort_on_error=0:exitcode=99:detect_stack_use_after_return=1:log_path=%s"
                                % san_log,
                "UBSAN_OPTIONS": "print_stacktrace=1:suppressions=%s/shim/ubsan.supp:log_path=%s" % (vlib.V, san_log),
                "TSAN_OPTIONS": "halt_on_error=0:report_signal_unsafe=0:exitcode=0:second_deadlock_stack=1:history_size=4:"
                                "log_path=%s:suppressions=%s/shim/tsan.supp" % (tsan_log, vlib.V)})
    env.pop("XCM_DEBUG", None)
    if debug:
        env["XCM_DEBUG"] = "1"
    argv = [binary, out, str(x), str(seed), str(threads), str(rounds), str(pairs), str(peak), str(msgs), creds, str(flags)]
    params = dict(variant=variant, threads=threads, rounds=rounds, pairs=pairs, peakpairs=peak, msgs=msgs, flags=flags,
                  debug_log=debug, seed=seed)
    t0 = time.time()
    errf = "%s/x%d.stderr" % (rundir, x)
    try:
        with open(errf, "w") as ef:
            # with XCM_DEBUG the library logs every event to stderr; the driver drops that text itself
            p = subprocess.run(argv, stdout=subprocess.DEVNULL, stderr=ef, env=env, timeout=timeout)
        rc = p.returncode
    except subprocess.TimeoutExpired:
        rc = -999
    err = ""
    for fn in [errf] + sorted(glob.glob(san_log + ".*")):
        with open(fn, errors="replace") as ef:
            err += ef.read()[-30000:]
    lines = []
    if os.path.exists(out):
        with open(out) as f:
            lines = [ln for ln in f.read().split("\n") if ln.startswith("{") and ln.endswith("}")]
    races = tsan_reports(tsan_log) if variant == "tsan" else []
    return dict(x=x, params=params, lines=lines, rc=rc, stderr=err, races=races, wall=time.time() - t0, argv=argv)


def finish_lines(r):
    """appends the lines the orchestrator contributes: crash / stall / race"""
    x, lines = r["x"], list(r["lines"])
    n = len(lines) + 1
    if not lines:
        lines.append(LINE.strip() % (x, 0, "reset", 0))
    last = json.loads(lines[-1])["ev"]
    if r["rc"] == 3 or (r["rc"] != 0 and last == "crash"):
        pass                                        # the harness wrote its own "stall" / "crash" line
    elif r["rc"] == 4:
        pass                                        # set-up trouble: no verdict of its own (see the end of the check)
    elif r["rc"] != 0:
        lines.append(LINE.strip() % (x, n, "crash", r["rc"] if r["rc"] > -999 else 0))
        n += 1
    if r["races"]:
        lines.append(LINE.strip() % (x, n, "race", len(r["races"])))
    return lines


def corrupted_copies(lines, rnd):
    """Sensitivity of the trace specification: copies of one recorded execution with one field falsified each.
    -> (lines, {x: tag TLC must report})"""
    recs = [json.loads(ln) for ln in lines]

    def pick(ev, cond=lambda r: True):
        idx = [i for i, r in enumerate(recs) if r["ev"] == ev and cond(r)]
        return idx[len(idx) // 2 + rnd.randrange(-len(idx) // 4, len(idx) // 4 + 1)] if len(idx) > 8 else None

    def bump(field, delta):
        return lambda rs, i: rs[i].__setitem__(field, rs[i][field] + delta)

    def dup_id(rs, i):
        rs[i]["a"] = rs[[k for k in range(i) if rs[k]["ev"] == "sock_id"][0]]["a"]

    plans = [("C15.afd_cnt", "afd_get", bump("b", 1)), ("C15.afd_cnt", "afd_put", bump("b", -1)),
             ("C15.ctx_cnt", "ctx_hit", bump("b", 1)), ("C15.ctx_cnt", "ctx_put", bump("b", 1)),
             ("C15.id_dup", "sock_id", dup_id), ("C15.delivery", "conn", bump("b", -1)), ("C15.delivery", "conn", bump("c", 3)),
             ("C15.mutex", "ctx_hit", bump("ov", 1)), ("C15.afd_leak", "afd_close", "drop"), ("C15.ctx_leak", "ctx_free", "drop"),
             ("C15.afd_early", "afd_put", "early_close"), ("C15.afd_holders", "live", bump("a", 1)),
             ("C15.afd_dead", "afd_get", bump("ok", -1))]
    out, expect = [], {}
    for k, (tag, ev, how) in enumerate(plans):
        i = pick(ev, (lambda r: r["tp"] == "tcp") if ev == "live" else (lambda r: r["b"] > 1) if how == "early_close"
                 else (lambda r: True)) if how != "drop" else \
            next((j for j, r in enumerate(recs) if r["ev"] == ev), None)
        if i is None:
            continue
        x = 9001 + k
        rs = [dict(r, x=x) for r in recs]
        if how == "drop":
            del rs[i]
        elif how == "early_close":
            rs.insert(i + 1, dict(rs[i], ev="afd_close", b=0, n=rs[i]["n"]))
        else:
            how(rs, i)
        out += [json.dumps(r, separators=(",", ":")) for r in rs]
        expect[x] = tag
    return out, expect


def validate(trace, nlines, tag):
    r = vlib.tlc("ThreadsTrace", "ThreadsTrace.cfg", workers=1, timeout=1500, dfs=True,
                 env={"TRACE": trace, "JAVA_TOOL_OPTIONS": "-Xmx4g -XX:ParallelGCThreads=2 -XX:CICompilerCount=2 "
                                                           "-Dtlc2.tool.queue.IStateQueue=StateDeque"},
                 metadir="%s/thrtv.%s.%d" % (vlib.TLCDIR, tag, os.getpid()))
    vl, stats = [], {}
    for ln in r["out"].splitlines():
        if ln.startswith('"@V '):
            v = json.loads(json.loads(ln)[3:])
            vl.append(dict(x=v[0], n=v[1], tag=v[2], exp=v[3], obs=v[4]))
        elif ln.startswith('"@STAT '):
            s = json.loads(json.loads(ln)[6:])
            stats[s["x"]] = s
    if r["error"] or r["violated"] or r["distinct"] != nlines + 1 or "Postcondition" in r["out"]:
        raise InternalError("trace validation did not consume %s (%d lines, %d states):\n%s"
                            % (trace, nlines, r["distinct"], (r["error"] or r["out"][-3000:])))
    return vl, stats, r


def crash_reason(rc, err):
    for ln in err.splitlines():
        if "ERROR: AddressSanitizer" in ln or "runtime error" in ln or "Assertion" in ln or "LeakSanitizer" in ln \
                or ln.startswith("thr_exec["):
            return ln.strip()[:300]
    return "time-out" if rc == -999 else "exit status %d" % rc


def replay_file(pid, name, r, lines, why):
    body = "#C15 %s\n# %s\n# replay: bin/check %s --replay <this file>\n" % (json.dumps(r["params"], sort_keys=True), why, pid)
    body += "\n".join(lines) + "\n"
    if r["races"]:
        body += "#TSAN\n" + "\n".join("# " + ln for rep in r["races"][:10] for ln in rep[3].splitlines()) + "\n"
    if r["rc"] not in (0, 3):
        body += "#STDERR\n" + "\n".join("# " + ln for ln in r["stderr"][-8000:].splitlines()) + "\n"
    return vlib.save_replay(pid, name, body)


# --------------------------------------------------------------------------- check -----
def check(pid, tier, seed):
    t0 = time.time()
    T = TIERS.get(tier, TIERS["quick"])
    rnd = random.Random(seed)
    missing = hooks_present()
    if missing:
        raise InternalError("the C15 hooks (H5-H7) are not present in %s (missing in: %s); apply %s/lib/hooks/c15_hooks.patch "
                            "(git -C <tree> apply ...) - without them the shared state cannot be observed"
                            % (vlib.REPO, ", ".join(missing), vlib.V))
    bins = {"asan": vlib.build(["thr_exec"], variant="asan")[0], "tsan": vlib.build(["thr_exec"], variant="tsan")[0]}
    rundir = vlib.fresh_dir("%s/%s_%s" % (vlib.RUN, pid, tier))
    creds = prepare_creds(rundir)

    violations, known, notes = [], [], {}
    pool = concurrent.futures.ThreadPoolExecutor(max_workers=5)      # TLC processes at a time
    # ---- 2. the model -----------------------------------------------------------------
    mfut = {}
    for name, nt, nr, scope, workers in T["models"]:
        mfut[name] = pool.submit(run_model, name, nt, nr, scope, "none", INVARIANTS, workers, T["timeout"], True)
    bfut = {b: pool.submit(run_model, "broken_" + b, 3, 2, sc, b, inv, 1, 600) for b, (sc, inv) in BROKEN.items()}
    vfut = pool.submit(run_model, "vacuity", 3, 1, ["afd", "ctx"], "none", ["NeverRich"], 1, 600)

    # ---- 3. the driver on the real library ----------------------------------------------
    specs = []
    for i, (variant, nt, nr, pairs, msgs, flags, debug) in enumerate(T["runs"]):
        # cold starts rotate over the transports: consecutive seeds start at consecutive offsets
        sd = rnd.randrange(1, 1 << 28) * 5 + i if flags & F_COLD else rnd.randrange(1, 1 << 31)
        specs.append((i + 1, bins[variant], variant, nt, nr, pairs, msgs, flags, debug, sd, rundir, creds, T["timeout"]))
    with concurrent.futures.ThreadPoolExecutor(max_workers=T["parallel"]) as ex:
        runs = list(ex.map(run_driver, specs))

    # ---- 4. trace validation ------------------------------------------------------------
    all_lines, per_x = [], {}
    for r in runs:
        ls = finish_lines(r)
        per_x[r["x"]] = (r, ls)
        all_lines += ls
    # copies of a recorded execution with one falsified field each: the trace specification must reject every one
    donors = [r for r in runs if r["rc"] == 0 and not (r["params"]["flags"] & (F_NOHOOKS | F_COLD))]
    fake, expect = corrupted_copies(min(donors, key=lambda r: len(r["lines"]))["lines"], rnd) if donors else ([], {})
    trace = rundir + "/all.ndjson"
    with open(trace, "w") as f:
        f.write("\n".join(all_lines + fake) + "\n")
    vl, stats, tv = validate(trace, len(all_lines) + len(fake), "%s_%s" % (pid, tier))
    seen = {}
    for v in vl:
        if v["x"] in expect:
            seen.setdefault(v["x"], set()).add(v["tag"])
    blind = sorted(set(t for x, t in expect.items() if t not in seen.get(x, ())))
    if donors and (blind or len(expect) < 10):
        raise InternalError("the trace specification did not reject falsified executions: %s (injected %s)"
                            % (blind, sorted(set(expect.values()))))
    vl = [v for v in vl if v["x"] not in expect]
    stats = {x: s_ for x, s_ in stats.items() if x not in expect}

    first = {}
    for v in vl:
        if v["tag"].startswith("NOTE."):
            notes[v["tag"]] = notes.get(v["tag"], 0) + 1
            continue
        first.setdefault((v["x"], v["tag"].split("_")[0] if v["tag"] not in ("C15.race", "C15.crash") else v["tag"]), v)
    stalled = [x for (x, t) in first if t == "STALL"]
    for (x, fam), v in sorted(first.items()):
        r, ls = per_x[x]
        if fam == "STALL":
            continue
        if v["tag"] == "C15.race":
            # one report per class of ThreadSanitizer report
            classes = {}
            for summary, kind, frames, text in r["races"]:
                classes.setdefault((kind, summary), (frames, text))
            for (kind, summary), (frames, text) in sorted(classes.items()):
                f = None
                for fr in frames or [""]:
                    f = f or vlib.match_finding(pid, {"tag": "C15.race", "kind": kind, "frame": fr, "summary": summary})
                if f:
                    k = "property=%s %s (ThreadSanitizer: %s)" % (pid, f["what"], summary)
                    if not any(f["what"] in y for y in known):
                        known.append(k)
                    continue
                m = re.search(r"([\w.]+):(\d+) in (\w+)", summary)
                key = "%s_%s_%s" % (m.group(1).replace(".", "_"), m.group(2), m.group(3)) if m else \
                    re.sub(r"[^A-Za-z0-9]+", "_", summary)[-60:]
                if any(key in p for _, _, p in violations):
                    continue
                rp = replay_file(pid, "race_%s.txt" % key, dict(r, races=[(summary, kind, frames, text)]), ls[:1] + ls[-1:],
                                 "ThreadSanitizer: %s; libxcm frames: %s" % (summary, ", ".join(frames[:8])))
                violations.append(("race", "ThreadSanitizer %s report: %s [%s]" % (kind, summary, " <- ".join(frames[:4])), rp))
            continue
        why = "%s at event %d of execution %d: expected %s, observed %s" % (v["tag"], v["n"], x, json.dumps(v["exp"])[:200],
                                                                          json.dumps(v["obs"])[:200])
        if v["tag"] == "C15.crash":
            why = "the driver died (%s) in execution %d: %s" % (r["rc"], x, crash_reason(r["rc"], r["stderr"]))
        sig = {"tag": v["tag"], "variant": r["params"]["variant"], "detail": why}
        f = vlib.match_finding(pid, sig)
        if f:
            known.append("property=%s %s (%s)" % (pid, f["what"], why[:200]))
            continue
        name = "%s_x%d.ndjson" % (v["tag"].replace("C15.", ""), x)
        if any(v["tag"].replace("C15.", "") + "_x" in p for _, _, p in violations):
            continue                                # one artefact per tag is enough
        rp = replay_file(pid, name, r, ls, why)
        violations.append(("conformance" if v["tag"] != "C15.crash" else "crash", why, rp))
    if stalled and not violations:
        r = per_x[stalled[0]][0]
        raise InternalError("the driver stalled (no progress for 240 s) in execution %d %s without any recorded violation; "
                            "stderr: %s" % (stalled[0], r["params"], r["stderr"][-1500:]))
    for r in runs:
        if r["rc"] == 4 and not violations:
            raise InternalError("the driver could not set up its scenario: %s\n%s" % (r["params"], r["stderr"][-2000:]))

    # ---- 2b. collect the model runs ---------------------------------------------------------
    states = transitions = 0
    model_summary, cov_zero = {}, {}
    for name, fut in mfut.items():
        r = fut.result()
        states += r["distinct"]
        transitions += r["generated"]
        model_summary[name] = dict(distinct=r["distinct"], generated=r["generated"], depth=r["depth"], wall=round(r["wall"], 1),
                                   **{k: v for k, v in zip(("threads", "rounds", "subsystems"), [m[1:4] for m in T["models"]
                                                                                                   if m[0] == name][0])})
        if r["violated"]:
            rp = vlib.save_replay(pid, "tlc_%s.txt" % name, counterexample(r["out"]))
            violations.append(("design", "TLC: %s of Threads.tla violated in configuration %s" % (",".join(r["violated"]), name), rp))
            continue
        if r["distinct"] < 5000:
            raise InternalError("configuration %s explored only %d states (vacuous)" % (name, r["distinct"]))
        cov = vlib.tlc_coverage(r["out"])
        scope = [m[3] for m in T["models"] if m[0] == name][0]
        # actions of subsystems outside the scope of the configuration (and the defect-only step) are skipped by design
        live = {"flags": ("Vl", "Bp"), "id": ("Id",), "afd": ("Ag", "Ap"), "ctx": ("Cg", "Cp")}
        want = tuple(pfx for sub in scope for pfx in live[sub])
        zero = [a for a, (taken, _) in cov.items() if taken == 0 and a.startswith(want)]
        if not cov or zero:
            raise InternalError("configuration %s: actions never taken: %s" % (name, zero or "no coverage output"))
    broken_summary = {}
    for b, fut in bfut.items():
        r = fut.result()
        broken_summary[b] = dict(violated=r["violated"], states=r["distinct"], last_action=last_action(r["out"]),
                                 depth=len(re.findall(r"^State \d+:", r["out"], re.M)))
        if not r["violated"]:
            raise InternalError("TLC did not refute the seeded defect %s of Threads.tla (%d states): the specification is "
                                "too weak" % (b, r["distinct"]))
    r = vfut.result()
    if "NeverRich" not in r["violated"]:
        raise InternalError("Threads.tla never reaches a state with two eventfds, two cache entries and a shared one (vacuous)")

    # ---- vacuity of the runs on the real code -------------------------------------------------
    hooked = [r for r in runs if not (r["params"]["flags"] & (F_NOHOOKS | F_COLD)) and r["rc"] == 0]
    if not violations:
        for r in hooked:
            s = stats.get(r["x"])
            if not s or s["maxfds"] < 2 or s["afd_close"] < 1 or s["ctx_new"] < 2 or s["ctx_free"] < 1 or s["maxuse"] < 2 \
                    or s["peaks"] < 1 or s["peak_afd"] <= 100 or s["conns"] < 10 or s["msgs"] < 100 or s["nids"] < 100:
                raise InternalError("vacuous execution %d: %s" % (r["x"], s))
        if not hooked or not any(r["params"]["variant"] == "tsan" and r["rc"] == 0 for r in runs):
            raise InternalError("no complete execution: %s" % [(r["x"], r["rc"]) for r in runs])

    tot = {k: sum(s.get(k, 0) for s in stats.values()) for k in ("afd_new", "afd_get", "afd_put", "afd_close", "ctx_new",
                                                                  "ctx_hit", "ctx_put", "ctx_free", "nids", "conns", "msgs")}
    samples = [json.loads(all_lines[i]) for i in sorted(set([1, len(all_lines) // 3, len(all_lines) // 2]))
               if i < len(all_lines)]
    samples += [{"execution": r["x"], "params": r["params"], "exit": r["rc"], "tsan_reports": len(r["races"]),
                 "wall_s": round(r["wall"], 1), "stats": stats.get(r["x"])} for r in runs[:3]]
    for kind, what, rp in violations[:4]:
        samples.append({"violation": what[:400], "replay": rp})
    cov = dict(states=states, transitions=transitions, traces_validated_against_impl=len(runs),
               evaluations=len(all_lines), distinct_nontrivial=sum(1 for r in hooked if stats.get(r["x"], {}).get("maxfds", 0) >= 2),
               rule="a trace is one multi-threaded execution of the real library (8-16 threads, all transports); every hook event "
                    "(taken inside the library's mutex) and every connection oracle is one evaluation validated by TLC against "
                    "ThreadsTrace/Threads; non-trivial = the execution created a second eventfd, freed a context while others "
                    "were live and passed the holders = counts comparison at the peak",
               samples=samples, model_configurations=model_summary, seeded_defects_refuted=broken_summary,
               events=tot, executions=[dict(x=r["x"], rc=r["rc"], tsan_reports=len(r["races"]), wall=round(r["wall"], 1),
                                            **r["params"]) for r in runs],
               tsan_executions=sum(1 for r in runs if r["params"]["variant"] == "tsan"),
               tsan_reports=sum(len(r["races"]) for r in runs), trace_validation_states=tv["distinct"], notes=notes,
               falsified_executions_rejected=len(expect),
               known_findings=known, exhaustive=False)
    vlib.write_evidence(pid, tier, seed, "model_checking", cov, time.time() - t0, violations=len(violations),
                        assumptions=["the clause 'without data races' in the sense of the C memory model rests on ThreadSanitizer "
                                     "over the executed schedules (DESIGN 9), the model decides the lock protocol and the counts",
                                     "libcrypto, libssl and libcares are uninstrumented system libraries: interceptors called from "
                                     "them are ignored (shim/tsan.supp); OpenSSL's own thread safety is trusted",
                                     "the hook events are emitted while the protecting mutex is held, so their sequence numbers "
                                     "give the exact order per subsystem; if the mutex is missing the order is arbitrary and the "
                                     "validation fails for that reason",
                                     "TLC and the JSON/IOUtils community modules are trusted"])
    pool.shutdown(wait=False)
    return violations, known


# --------------------------------------------------------------------------- replay ----
def replay(pid, path):
    """An execution of 8-16 threads cannot be re-executed schedule by schedule.  The replay (1) re-validates the recorded
    events with TLC and prints the mismatches (what was seen), and (2) runs the same driver configuration, same seed, on the
    current tree up to 6 times, each validated like in the check; the verdict is that of the re-runs."""
    with open(path) as f:
        txt = f.read()
    if not txt.startswith("#C15 "):
        raise InternalError("not a C15 execution artefact (TLC counterexamples are re-checked by running the check)")
    params = json.loads(txt.split("\n", 1)[0][5:])
    lines = [ln for ln in txt.split("\n") if ln.startswith("{")]
    rundir = vlib.fresh_dir("%s/replay_%s" % (vlib.RUN, pid))
    if len(lines) > 2:
        keep = [ln for ln in lines if json.loads(ln)["ev"] != "race"]
        trace = rundir + "/recorded.ndjson"
        with open(trace, "w") as f:
            f.write("\n".join(keep) + "\n")
        vl, stats, tv = validate(trace, len(keep), "replay")
        for v in vl:
            print("recorded:", "MISMATCH" if v["tag"].startswith("C15.") else "note", v["tag"], "event", v["n"], "expected",
                  json.dumps(v["exp"])[:200], "observed", json.dumps(v["obs"])[:200])
    for ln in txt.split("\n"):
        if ln.startswith("# ThreadSanitizer") or ln.startswith("# SUMMARY"):
            print("recorded:", ln[2:])
    missing = hooks_present()
    if missing:
        raise InternalError("hooks missing in %s" % vlib.REPO)
    variant = params["variant"]
    binary = vlib.build(["thr_exec"], variant=variant)[0]
    creds = prepare_creds(rundir)
    bad = []
    for k in range(6):
        r = run_driver((k + 1, binary, variant, params["threads"], params["rounds"], params["pairs"], params["msgs"],
                        params["flags"], params.get("debug_log", False), params["seed"], rundir, creds, 900))
        ls = finish_lines(r)
        trace = "%s/rerun%d.ndjson" % (rundir, k + 1)
        with open(trace, "w") as f:
            f.write("\n".join(ls) + "\n")
        vl, stats, tv = validate(trace, len(ls), "replay%d" % k)
        tags = sorted(set(v["tag"] for v in vl if v["tag"].startswith("C15.")))
        print("re-run %d: exit %d, %d events, %d ThreadSanitizer reports, mismatches: %s"
              % (k + 1, r["rc"], len(ls), len(r["races"]), tags or "none"))
        for v in [v for v in vl if v["tag"].startswith("C15.")][:3]:
            print("  ", v["tag"], "event", v["n"], "expected", json.dumps(v["exp"])[:160], "observed", json.dumps(v["obs"])[:160])
        for summary, kind, frames, text in r["races"][:5]:
            print("   ThreadSanitizer:", summary, "<-", " <- ".join(frames[:4]))
        if r["rc"] not in (0, 3):
            print("   " + crash_reason(r["rc"], r["stderr"]))
        if r["rc"] == 4:
            raise InternalError("the driver could not set up its scenario:\n" + r["stderr"][-2000:])
        if tags:
            bad = [v for v in vl if v["tag"].startswith("C15.")]
            break
    return bad
