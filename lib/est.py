"""Establishment-phase conformance pipeline: spec/XcmEst.tla (TLC) + harness/est_exec -> traces -> spec/XcmEstTrace.tla.
Used by C05 (non-blocking sockets never sleep, in every phase) and by C04 / C16 (wake-ups during establishment, server sockets)."""
import json
import os
import subprocess

import vlib
from vlib import InternalError

TPS = ["tcp", "ux", "uxf", "btcp", "tls", "btls", "utls", "utlst"]
TCP_BASED = ["tcp", "btcp", "tls", "btls", "utls", "utlst"]
TLS_BASED = ["tls", "btls", "utls", "utlst"]


def scenarios(tp):
    if tp == "utlst":           # a utls client of a plain tls server: the TLS leg of utls
        return ["normal", "garbage2", "ctlflood", "blocking", "longidle", "ctl3"]
    s = ["normal", "refused", "idle", "ctlflood", "blocking", "accfail", "ctl3"]
    if tp in ("ux", "uxf", "utls"):
        s.append("uxfull")
    if tp in TCP_BASED:
        s.append("silent")
        s.append("longidle")
        s.append("accblk")
    if tp in ("tcp", "btcp"):
        s.append("release")
    if tp in TLS_BASED:
        s += ["mute", "garbage", "release", "garbage2"]
    if tp in ("tls", "btls"):
        s.append("badski")
    return s


PEERS = ["accept", "refuse", "silent", "late", "mute", "garbage"]


def model_check():
    """XcmEst.tla: every remote behaviour x plain/TLS under FairSpec; broken designs must be rejected."""
    d = vlib.BUILD + "/cfg"
    os.makedirs(d, exist_ok=True)
    summary, states, transitions, violated = {}, 0, 0, []

    def run(peer, tls, broken):
        path = "%s/est_%s_%s_%s_%d.cfg" % (d, peer, tls, broken, os.getpid())
        with open(path, "w") as f:
            f.write("SPECIFICATION FairSpec\nCONSTANTS\n  Tls = %s\n  Peer = \"%s\"\n  Broken = \"%s\"\n"
                    "INVARIANTS NoLostWakeup Quiet ServerQuiet Outcome\nPROPERTIES Reported AllAccepted\nCHECK_DEADLOCK FALSE\n"
                    % (tls, peer, broken))
        r = vlib.tlc("XcmEst", path, workers=2, timeout=300, heap="2g",
                     metadir="%s/est.%s.%s.%s.%d" % (vlib.TLCDIR, peer, tls, broken, os.getpid()))
        os.unlink(path)
        if r["error"]:
            raise InternalError("TLC failed on XcmEst %s/%s/%s:\n%s" % (peer, tls, broken, r["error"]))
        return r

    import concurrent.futures
    jobs = [(p, t, "none") for p in PEERS for t in ("TRUE", "FALSE") if not (t == "FALSE" and p in ("mute", "garbage"))]
    jobs += [("silent", "FALSE", "no_timer"), ("accept", "TRUE", "hs_no_in"), ("garbage", "TRUE", "hs_no_in")]
    with concurrent.futures.ThreadPoolExecutor(max_workers=6) as ex:
        res = list(ex.map(lambda j: run(*j), jobs))
    # spec/Utls.tla: the leg a utls connection runs over, the accept order, nothing lost
    ru = vlib.tlc("Utls", "Utls.cfg", workers=2, timeout=300, heap="2g", metadir="%s/utls.%d" % (vlib.TLCDIR, os.getpid()))
    if ru["error"]:
        raise InternalError("TLC failed on Utls:\n%s" % ru["error"])
    summary["Utls"] = dict(distinct=ru["distinct"], generated=ru["generated"], violated=ru["violated"])
    states += ru["distinct"]
    transitions += ru["generated"]
    if ru["violated"]:
        violated.append(("Utls", ru))
    for (p, t, b), r in zip(jobs, res):
        name = "XcmEst/%s/%s/%s" % (p, "tls" if t == "TRUE" else "plain", b)
        summary[name] = dict(distinct=r["distinct"], generated=r["generated"], violated=r["violated"])
        states += r["distinct"]
        transitions += r["generated"]
        if b == "none" and r["violated"]:
            violated.append((name, r))
        if b != "none" and not r["violated"]:
            raise InternalError("the broken design %s is accepted by XcmEst (vacuous properties)" % name)
    return summary, states, transitions, violated


def gen_scripts(rnd, nseeds, xid0=0):
    scripts = []
    xid = xid0
    for tp in TPS:
        for sc in scenarios(tp):
            n = nseeds if sc in ("normal", "mute", "garbage", "ctlflood", "garbage2") else max(1, nseeds // 3)
            if sc == "longidle":
                n = 1          # 3.4 s each
            if sc == "badski":
                n = max(n, 8)  # two sides x four key identifiers
            for _ in range(n):
                xid += 1
                scripts.append("X %d %s %s %d" % (xid, tp, sc, rnd.randint(1, 10 ** 6)))
    rnd.shuffle(scripts)
    return scripts


def run(binary, scripts, tag, nproc=vlib.NCPU, timeout=600):
    d = vlib.fresh_dir("%s/%s" % (vlib.RUN, tag))
    nproc = max(1, min(nproc, len(scripts)))
    e = dict(os.environ)
    vlib.sh("%s/bin/gencreds.sh" % vlib.V, check=True)
    e.update({"XCM_CTL": "/nonexistent-verif", "VERIF_RUN_DIR": d, "XCM_TLS_CERT": vlib.BUILD + "/creds/default",
              "ASAN_OPTIONS": "detect_leaks=0:abort_on_error=0:detect_stack_use_after_return=1:handle_abort=0:handle_segv=0:exitcode=3",
              "UBSAN_OPTIONS": "print_stacktrace=1:halt_on_error=1:suppressions=%s/shim/ubsan.supp" % vlib.V})
    import concurrent.futures
    import re

    def worker(i):
        """a hang or crash of the library costs one execution: the rest of the chunk is run by a fresh process"""
        tp = "%s/w%d.ndjson" % (d, i)
        rest = scripts[i::nproc]
        attempt = 0
        with open(tp, "w") as tout, open("%s/w%d.log" % (d, i), "w") as lp:
            while rest and attempt < 40:
                sp = "%s/w%d.%d.script" % (d, i, attempt)
                with open(sp, "w") as f:
                    f.write("\n".join(rest) + "\n")
                part = "%s/w%d.%d.part" % (d, i, attempt)
                rc = subprocess.call(["timeout", str(timeout), binary, sp, part], stdout=lp, stderr=subprocess.STDOUT, env=e)
                last = None
                try:
                    for line in open(part):
                        try:
                            json.loads(line)
                        except ValueError:
                            k = line.rfind('{"x":')
                            if k <= 0:
                                continue
                            line = line[k:]
                            try:
                                json.loads(line)
                            except ValueError:
                                continue
                        if attempt > 0 and '"op":"selftest"' in line:
                            continue
                        tout.write(line)
                        m = re.match(r'\{"x":(\d+),"n":0,"op":"X"', line)
                        if m:
                            last = int(m.group(1))
                except FileNotFoundError:
                    pass
                attempt += 1
                if rc == 0 or last is None:
                    break
                ids = [int(x.split()[1]) for x in rest]
                if last not in ids:
                    break
                rest = rest[ids.index(last) + 1:]
        return tp

    with concurrent.futures.ThreadPoolExecutor(max_workers=nproc) as ex:
        traces = list(ex.map(worker, range(nproc)))
    batch = "%s/batch.ndjson" % d
    n = 0
    with open(batch, "w") as o:
        for t in traces:
            if os.path.exists(t):
                for line in open(t):
                    if line.strip():
                        o.write(line)
                        n += 1
    return d, batch, n


def validate(batch):
    r = vlib.tlc("XcmEstTrace", "XcmEstTrace.cfg", workers=1, env={"TRACE": batch}, timeout=900, heap="4g", dfs=True,
                 metadir="%s/esttv.%d" % (vlib.TLCDIR, os.getpid()))
    v = vlib.parse_v_lines(r["out"])
    if r["error"] and not v:
        raise InternalError("XcmEstTrace failed to run:\n%s" % r["error"])
    if "Postcondition" in r["out"] and "violated" in r["out"] and not v:
        raise InternalError("the establishment trace was not consumed completely:\n%s" % r["out"][-2000:])
    return v


def stats(batch):
    st = dict(executions=0, setup_failed=0, api_calls=0, calls_not_ready=0, by_scenario={}, stuck=0, crashes=0, waits=0, selftests=0,
              selftests_ok=0)
    for line in open(batch):
        try:
            o = json.loads(line)
        except ValueError:
            continue
        if o["op"] == "selftest":
            st["selftests"] += 1
            st["selftests_ok"] += 1 if o.get("w", 0) >= 2 else 0
            continue
        if o["op"] == "X":
            st["executions"] += 1
            if not o.get("up"):
                st["setup_failed"] += 1
            k = "%s/%s" % (o["tp"], o["scen"])
            st["by_scenario"][k] = st["by_scenario"].get(k, 0) + 1
        elif o["op"] == "crash":
            st["crashes"] += 1
        elif o["op"] == "q":
            st["stuck"] += o.get("stk", 0)
        elif o["op"] == "bq":
            st["blocking_runs"] = st.get("blocking_runs", 0) + 1
        elif o["op"] != "env":
            st["api_calls"] += 1
            if o.get("ret") == -1 and o.get("err") == 11:
                st["calls_not_ready"] += 1
            st["waits"] += 1 if o.get("w", 0) > 0 else 0
    return st


def extract(batch, xid):
    return "".join(l for l in open(batch) if ('"x":%d,' % xid) in l)
