"""C08 - no resource leaks, stray closes or aborts on any life-cycle path (level: fault_enumeration).

Pipeline per run:
  1. build harness/life_exec (real library from /repo's working tree, ASan/UBSan/LSan, shim/shim_life.c)
  2. TLC on spec/Lifecycle.tla: the ownership / eventfd-pool design (ladders of create server / connect /
     accept / finish / close / cleanup after fork with any step failing) against the monitor Step and the
     invariants NoStrayClose NoForeignCtl FailedCallLeaksNothing ErrnoNotAbort CleanupIsLocal PoolRefcount
     AllClosedClean; the named deviations (Dev) must each be rejected (the monitor can see them)
  3. fault enumeration on the real library: every scenario is run fault free (counting the failable
     lower-layer calls N and their classes), then once per (call index, errno of that class), then for
     pairs of indices; selected scenarios fork and let the child xcm_cleanup() everything
  4. every execution's trace (API boundaries, every intercepted call, descriptor table / LeakSanitizer /
     file observations as events) is validated by TLC against spec/LifecycleTrace.tla (same Step)
  5. C08.* objections are grouped into classes, re-run once (only what repeats is reported), matched
     against known_findings.json, and stored as replay files (plan lines)
"""
import collections
import concurrent.futures
import json
import os
import random
import subprocess
import time

import vlib
from vlib import InternalError

PID = "C08"

F_CTL, F_BLOCK, F_BYVAL, F_DECOY, F_CTLCLI, F_NOTRAFFIC, F_CTLCLI2, F_BLKWAKE, F_HANDOVER = 1, 2, 4, 8, 16, 32, 64, 128, 256
CLS = {1: "socket", 2: "accept4", 4: "epoll_create1", 8: "eventfd", 16: "timerfd_create", 32: "connect", 64: "bind",
       128: "listen", 256: "open", 512: "setsockopt", 1024: "so_error", 2048: "fread"}
EMFILE, ENFILE, ENOMEM, EADDRINUSE, EACCES, ECONNREFUSED, ETIMEDOUT, EADDRNOTAVAIL, ENOPROTOOPT, ECONNABORTED, EISDIR = \
    24, 23, 12, 98, 13, 111, 110, 99, 92, 103, 21
ERRNOS = {1: [EMFILE, ENFILE, ENOMEM], 2: [EMFILE, ENFILE, ENOMEM, ECONNABORTED], 4: [EMFILE, ENFILE, ENOMEM],
          8: [EMFILE, ENFILE, ENOMEM], 16: [EMFILE, ENFILE, ENOMEM], 32: [ECONNREFUSED, EADDRNOTAVAIL],
          64: [EADDRINUSE, EACCES], 128: [EADDRINUSE], 256: [EMFILE, ENFILE, ENOMEM], 512: [ENOPROTOOPT],
          1024: [ECONNREFUSED, ETIMEDOUT],
          2048: [EISDIR]}       # the stream opened, reading it fails (a directory in place of the credential file)
ENAME = {24: "EMFILE", 23: "ENFILE", 12: "ENOMEM", 98: "EADDRINUSE", 13: "EACCES", 111: "ECONNREFUSED", 110: "ETIMEDOUT",
         99: "EADDRNOTAVAIL", 92: "ENOPROTOOPT", 103: "ECONNABORTED", 21: "EISDIR", 0: "-"}
ALL_TP = ["ux", "uxf", "tcp", "tls", "utls", "utlsfb", "btcp", "btls"]
TLS_TP = ["tls", "utls", "utlsfb", "btls"]


def S(tp, flags=0, k=1, fork=0, order=0, scen="pair", errs="all", pairs=False, window=None):
    return dict(scen=scen, tp=tp, flags=flags, k=k, fork=fork, order=order, errs=errs, pairs=pairs, window=window)


def scenarios(tier):
    q = tier == "quick"
    sc = []
    for tp in ALL_TP:                                   # every transport, control interface off
        sc.append(S(tp, 0, pairs=True))
    for tp in (["ux", "uxf", "tcp", "utls"] if q else ALL_TP):     # control interface on
        sc.append(S(tp, F_CTL, errs="first" if q else "all", pairs=not q))
    for tp in ["ux", "uxf", "tcp", "btcp"]:             # blocking mode
        sc.append(S(tp, F_BLOCK, errs="first" if q else "all", pairs=not q))
    for tp in (["tls", "btls"] if q else TLS_TP):       # credentials by value
        sc.append(S(tp, F_BYVAL, errs="first" if q else "all", pairs=not q))
    for tp in (["ux", "tcp", "utls"] if q else ALL_TP):  # the application re-uses every descriptor number at once
        sc.append(S(tp, F_DECOY, errs="first"))
        if not q:
            sc.append(S(tp, F_DECOY | F_CTL, errs="first"))
    for tp in (["tcp"] if q else ["ux", "tcp", "tls"]):  # control client attached
        sc.append(S(tp, F_CTL | F_CTLCLI, errs="first"))
    for tp in (["ux", "tcp"] if q else ["ux", "uxf", "tcp", "btcp"]):  # a blocking accept woken by control sessions before the connection comes
        sc.append(S(tp, F_CTL | F_BLOCK | F_BLKWAKE, errs="none"))
    for tp in (["ux", "tcp"] if q else ["ux", "uxf", "tcp", "tls", "utls"]):  # two control clients attached when the socket is closed
        sc.append(S(tp, F_CTL | F_CTLCLI | F_CTLCLI2, errs="none" if q else "first"))
    for tp in (["ux", "tcp"] if q else ALL_TP):          # reverse close order
        sc.append(S(tp, 0, order=1, errs="first"))
    # fork + xcm_cleanup in the child
    for tp in ALL_TP:
        sc.append(S(tp, F_CTL if tp in ("uxf", "tcp") else 0, fork=3, errs="none" if q else "first"))
    for tp in (["uxf", "tls"] if q else ALL_TP):
        sc.append(S(tp, F_CTL, fork=1, errs="none"))
    for tp in (["tcp"] if q else ["ux", "uxf", "tcp", "tls", "utls"]):
        sc.append(S(tp, F_CTL | F_CTLCLI, fork=3, errs="none"))
    # fork with the roles swapped: the creating process calls xcm_cleanup, the child owns, uses and closes the sockets
    for tp in (["ux", "uxf", "tcp", "utls"] if q else ALL_TP):
        sc.append(S(tp, F_CTL | F_HANDOVER, fork=3, errs="none"))
    for tp in (["tcp", "uxf"] if q else ALL_TP):
        sc.append(S(tp, F_CTL | F_HANDOVER, fork=1, errs="none"))
    for tp in (["btls"] if q else ["tls", "btls", "ux"]):
        sc.append(S(tp, F_HANDOVER, fork=3, errs="none"))
    # connection attempts still in progress (close and cleanup of a connecting socket)
    for tp in (["tcp"] if q else ["tcp", "tls", "btcp", "utls"]):
        sc.append(S(tp, 0, k=2, scen="conning", errs="first"))
        sc.append(S(tp, 0, k=1, scen="conning", fork=3, errs="none"))
    # more than 100 users of the eventfd pool: 51 connections = 102 users; faults around the boundary
    sc.append(S("btcp", F_NOTRAFFIC, k=51, errs="first", window=(51, 51) if q else (49, 51)))
    if not q:
        sc.append(S("tcp", F_NOTRAFFIC, k=52, order=1, errs="first", window=(49, 52)))
        sc.append(S("btcp", F_NOTRAFFIC, k=51, fork=3, errs="none"))
    for i, s in enumerate(sc):
        s["id"] = i
    return sc


def describe(s):
    f = s["flags"]
    words = [s["scen"], s["tp"], "k=%d" % s["k"]]
    for bit, w in ((F_CTL, "ctl"), (F_BLOCK, "blocking"), (F_BYVAL, "creds-by-value"), (F_DECOY, "decoy"),
                   (F_CTLCLI, "ctl-client"), (F_NOTRAFFIC, "no-traffic"), (F_CTLCLI2, "second-ctl-client"), (F_BLKWAKE, "accept-woken-by-ctl"),
                   (F_HANDOVER, "sockets-handed-to-the-forked-child")):
        if f & bit:
            words.append(w)
    if s["fork"]:
        words.append("fork@%d" % s["fork"])
    if s["order"]:
        words.append("reverse-close")
    return " ".join(words)


def plan_line(x, s, f1=(0, 0), f2=(0, 0)):
    return "run %d %s %s %d %d %d %d %d %d %d %d" % (x, s["scen"], s["tp"], s["flags"], s["k"], f1[0], f1[1], f2[0], f2[1],
                                                     s["fork"], s["order"])


# ------------------------------------------------------------------ model checking -----
MC_BASE = dict(PoolMax=2, MaxSock=2, MaxFail=1, MaxOps=3, TPs='{"ux"}', CtlChoice="{FALSE}", App="FALSE", Dev="{}")
INVS = "NoStrayClose NoForeignCtl FailedCallLeaksNothing ErrnoNotAbort CleanupIsLocal MonitorAgrees PoolRefcount " \
       "AllClosedClean ForeignUntouched"


def mc_configs(tier):
    q = tier == "quick"
    c = {
        "pool3": dict(MC_BASE, PoolMax=2, MaxSock=3, MaxOps=4 if q else 5, TPs='{"btcp"}'),
        "pool1": dict(MC_BASE, PoolMax=1, MaxSock=2, MaxFail=2, MaxOps=3 if q else 4, TPs='{"tcp"}', App="TRUE"),
        "files": dict(MC_BASE, MaxSock=2, MaxOps=3, TPs='{"ux", "uxf"}' if not q else '{"uxf"}', CtlChoice="{TRUE, FALSE}",
                      App="TRUE"),
        "utls": dict(MC_BASE, PoolMax=1, MaxSock=2, MaxFail=2, MaxOps=3 if q else 4, TPs='{"utls"}', CtlChoice="{TRUE}"),
        "creds": dict(MC_BASE, PoolMax=2, MaxSock=2, MaxFail=2, MaxOps=2 if q else 3, TPs='{"btls"}', App="TRUE"),
    }
    if not q:
        c["mix"] = dict(MC_BASE, PoolMax=2, MaxSock=3, MaxOps=4, TPs='{"tcp", "uxf"}')
    dev = {
        "utls_ux_fail_leak": dict(c["utls"], Dev='{"utls_ux_fail_leak"}'),
        "passcred_leak": dict(c["utls"], Dev='{"passcred_leak"}'),
        "eventfd_abort": dict(c["pool3"], Dev='{"eventfd_abort"}'),
        "child_ctl_del": dict(c["utls"], Dev='{"child_ctl_del"}'),
        "credread_leak": dict(c["creds"], Dev='{"credread_leak"}'),
    }
    return c, dev


def run_mc(name, consts, workers, coverage=True):
    d = vlib.BUILD + "/cfg"
    os.makedirs(d, exist_ok=True)
    cfg = "%s/lifecycle_%s_%d.cfg" % (d, name, os.getpid())
    with open(cfg, "w") as f:
        f.write("SPECIFICATION Spec\nCONSTANTS\n")
        for k, v in consts.items():
            f.write("  %s = %s\n" % (k, v))
        f.write("INVARIANTS %s\nCHECK_DEADLOCK FALSE\n" % INVS)
    try:
        for attempt in (1, 2):
            r = vlib.tlc("Lifecycle", cfg, workers=workers if attempt == 1 else 1, timeout=1500,
                         extra="-noGenerateSpecTE" + (" -coverage 1" if coverage else ""),
                         env={"JAVA_TOOL_OPTIONS": "-Xmx3g -XX:ParallelGCThreads=2"},
                         metadir="%s/lifecycle.%s.%d" % (vlib.TLCDIR, name, os.getpid()))
            # a starved machine (other JVMs) must not decide anything: one more try
            if not (r["error"] and ("out of memory" in r["error"] or r["rc"] == 124)):
                break
    finally:
        os.unlink(cfg)
    if r["error"]:
        raise InternalError("TLC failed on Lifecycle/%s:\n%s" % (name, r["error"]))
    r["cov"] = vlib.tlc_coverage(r["out"]) if coverage else {}
    r["tail"] = r["out"][-6000:]
    r["out"] = ""
    return r


DEV_EXPECT = {"utls_ux_fail_leak": "FailedCallLeaksNothing", "passcred_leak": "FailedCallLeaksNothing",
              "eventfd_abort": "ErrnoNotAbort", "child_ctl_del": "CleanupIsLocal", "credread_leak": "FailedCallLeaksNothing"}
MC_ACTIONS = ["ApiBegin", "StepOk", "StepFail", "Unwind", "ApiEndOk", "CloseBegin", "Closing", "Fork", "ChildDone", "OwnerProbe"]


def model_checking(tier):
    cfgs, devs = mc_configs(tier)
    res = {}
    with concurrent.futures.ThreadPoolExecutor(max_workers=4) as ex:
        futs = {n: ex.submit(run_mc, n, c, 3 if tier == "quick" else 4, False) for n, c in cfgs.items()}
        dfut = {n: ex.submit(run_mc, "dev_" + n, c, 1, False) for n, c in devs.items()}
        for n, f in futs.items():
            res[n] = f.result()
        dres = {n: f.result() for n, f in dfut.items()}
    return res, dres


# ---------------------------------------------------------------------- execution -------
def asan_env():
    return {"ASAN_OPTIONS": "detect_leaks=1:abort_on_error=1:leak_check_at_exit=0:detect_stack_use_after_return=1:"
                            "allocator_may_return_null=1",
            "UBSAN_OPTIONS": "print_stacktrace=1:suppressions=%s/shim/ubsan.supp" % vlib.V,
            "XCM_TLS_CERT": vlib.BUILD + "/creds/default", "LIFE_TIMEOUT": "60"}


def run_batch(binary, lines, base, rundir):
    with open(base + ".plan", "w") as f:
        f.write("\n".join(lines) + "\n")
    env = dict(os.environ)
    env.update(asan_env())
    with open(base + ".err", "w") as ef:
        p = subprocess.run([binary, base + ".plan", base + ".ndjson", base + ".info", rundir], stdout=ef,
                           stderr=subprocess.STDOUT, env=env, timeout=3000)
    if p.returncode != 0:
        raise InternalError("life_exec failed (%d) on %s.plan:\n%s" % (p.returncode, base, open(base + ".err").read()[-3000:]))
    info = {}
    for ln in open(base + ".info"):
        w = ln.split()
        x = int(w[1])
        cls = [int(c) for c in w[9].split(",")] if len(w) > 9 and w[9] else []
        info[x] = dict(N=int(w[3]), d1=int(w[5]), d2=int(w[7]), cls=cls)
    if len(info) != len(lines):
        raise InternalError("life_exec reported %d of %d executions (%s)" % (len(info), len(lines), base))
    return info


def execute(binary, lines, d, tag, nproc):
    """runs plan lines in nproc concurrent harness processes; returns (info by x, list of trace files)"""
    if not lines:
        return {}, []
    nb = max(1, min(nproc, len(lines) // 8 or 1))
    chunks = [lines[i::nb] for i in range(nb)]
    info, traces = {}, []

    def job(i):
        rd = "%s/%s%d" % (d, tag, i)          # short: socket paths live here
        os.makedirs(rd, exist_ok=True)
        return run_batch(binary, chunks[i], "%s/%s%d" % (d, tag, i), rd)

    with concurrent.futures.ThreadPoolExecutor(max_workers=nproc) as ex:
        for i, inf in enumerate(ex.map(job, range(nb))):
            info.update(inf)
            traces.append("%s/%s%d.ndjson" % (d, tag, i))
    return info, traces


def validate(trace):
    n = sum(1 for _ in open(trace))
    if n == 0:
        raise InternalError("empty trace %s" % trace)
    r = vlib.tlc("LifecycleTrace", "LifecycleTrace.cfg", workers=1, timeout=2400, dfs=True, extra="-noGenerateSpecTE",
                 env={"TRACE": trace, "JAVA_TOOL_OPTIONS": "-Xmx3g -XX:ParallelGCThreads=2 -XX:CICompilerCount=2 "
                                                           "-Dtlc2.tool.queue.IStateQueue=StateDeque"},
                 metadir="%s/lifetv.%s.%d" % (vlib.TLCDIR, os.path.basename(trace), os.getpid()))
    vl, stat = [], None
    for ln in r["out"].splitlines():
        if ln.startswith('"@V '):
            v = json.loads(json.loads(ln)[3:])
            vl.append(dict(x=v[0], n=v[1], tag=v[2], exp=v[3], obs=v[4], trace=trace))
        elif ln.startswith('"@STAT '):
            stat = json.loads(json.loads(ln)[6:])
    if r["error"] or stat is None or r["distinct"] != n + 1 or "Postcondition" in r["out"]:
        raise InternalError("trace validation did not consume %s (%d lines, %d states):\n%s"
                            % (trace, n, r["distinct"], (r["error"] or r["out"][-3000:])))
    return vl, stat, n


def validate_all(traces):
    """TLC over all traces; they are concatenated into a few files first (every execution starts with a reset line)"""
    ng = max(1, min(len(traces), max(3, vlib.NCPU // 3)))
    groups = []
    for gi in range(ng):
        part = traces[gi::ng]
        if len(part) == 1:
            groups.append(part[0])
            continue
        name = "%s.g%d.ndjson" % (part[0][:-7], gi)
        with open(name, "w") as o:
            for t in part:
                with open(t) as f:
                    o.write(f.read())
        groups.append(name)
    allv, stats, lines = [], collections.Counter(), 0
    with concurrent.futures.ThreadPoolExecutor(max_workers=ng) as ex:
        for vl, stat, n in ex.map(validate, groups):
            allv.extend(vl)
            stats.update(stat)
            lines += n
    return allv, dict(stats), lines


# ------------------------------------------------------------------------ verdicts -------
def context(v):
    """where in its execution an objection was raised: API call in progress, last injected failure"""
    op, tp, mode, inj = "", "", "owner", None
    with open(v["trace"]) as f:
        for ln in f:
            if not ln.startswith('{"x":%d,' % v["x"]):
                continue
            e = json.loads(ln)
            if e["n"] > v["n"]:
                break
            mode = e["m"]
            if e["ev"] in ("begin", "end"):
                op, tp = e["op"], e["tp"]
            if e["ev"] == "sys" and e["inj"] == 1:
                inj = (e["call"], e["err"], e["a"])
    return op, tp, mode, inj


FAMILY = {"ux": "ux", "uxf": "ux", "utls": "utls", "tcp": "tcp", "btcp": "tcp", "tls": "tls", "btls": "tls", "utlsfb": "tls",
          "tcpdns": "tcp"}


def classify(v, meta):
    """class of an objection: what was violated, in which call, after which injected failure, transport family"""
    s = meta["s"]
    op, tp, mode, inj = context(v)
    cause = inj[0] if inj else ("fork" if s["fork"] else "nofault")
    if v["tag"] == "C08.cleanup_nonlocal":
        cause = "child_epoll_ctl" if "epoll" in json.dumps(v["obs"]) + json.dumps(v["exp"]) else "child"
        op = "cleanup"
    if op in ("close", "") and v["tag"].startswith("C08.leak"):
        op = meta.get("failed_op") or op      # reported at the end of the execution: the call that failed
    fam = FAMILY.get(s["tp"], s["tp"])
    # for an injected setsockopt: (level << 16) | option name, e.g. 65552 = SOL_SOCKET/SO_PASSCRED
    return dict(tag=v["tag"], transport=s["tp"], family=fam, op=op, cause=cause, mode=mode,
                cause_arg=inj[2] if inj and inj[0] == "setsockopt" else 0,
                key="%s/%s/%s/%s/%s" % (v["tag"], fam, op, cause, mode))


def failed_op(trace, x):
    """the first create call that failed after the first injected failure (for end-of-run reports)"""
    seen = False
    with open(trace) as f:
        for ln in f:
            if not ln.startswith('{"x":%d,' % x):
                continue
            e = json.loads(ln)
            if e["ev"] == "sys" and e["inj"] == 1:
                seen = True
            if seen and e["ev"] == "end" and e["op"] in ("connect", "server", "accept"):
                return e["op"]
    return ""


def text(v, meta, cl):
    f = meta["faults"]
    fs = ", ".join("call #%d (%s) fails with %s" % (n, meta["fcls"][i] if i < len(meta["fcls"]) else "?", ENAME.get(e, e))
                   for i, (n, e) in enumerate(f) if n) or "no injected failure"
    return "%s in [%s] with %s: %s %s; expected %s, observed %s" % (
        v["tag"], describe(meta["s"]), fs, cl["mode"], cl["op"], json.dumps(v["exp"])[:200], json.dumps(v["obs"])[:400])


def check(pid, tier, seed):
    t0 = time.time()
    if tier not in ("quick", "thorough"):
        tier = "quick"
    rnd = random.Random(seed)
    binary = vlib.build(["life_exec"])[0]
    vlib.sh("%s/bin/gencreds.sh" % vlib.V, check=True, env={"VERIF_BUILD": vlib.BUILD})
    d = vlib.fresh_dir("%s/%s_%s" % (vlib.RUN, pid, tier[0]))
    nproc = max(2, vlib.NCPU - 4)

    mc_pool = concurrent.futures.ThreadPoolExecutor(max_workers=1)
    mc_fut = mc_pool.submit(model_checking, tier)

    # ---- 3a. fault-free runs: N and the classes of the failable calls ------------------------
    scs = scenarios(tier)
    meta, xs = {}, [0]

    def add(s, f1=(0, 0), f2=(0, 0), fcls=()):
        xs[0] += 1
        meta[xs[0]] = dict(s=s, faults=[f1, f2], fcls=list(fcls), line=plan_line(xs[0], s, f1, f2))
        return meta[xs[0]]["line"]

    meta[0] = dict(s=dict(S("all", scen="warm-up"), id=-1), faults=[(0, 0), (0, 0)], fcls=[],
                   line="run 1 pair tcp 0 1 0 0 0 0 0 0")      # the fault-free warm-up of a driver process
    lines0 = [add(s) for s in scs]
    free_x = {meta[x]["s"]["id"]: x for x in meta}
    ph = {}
    t1 = time.time()
    info, traces = execute(binary, lines0, d, "a", nproc)
    ph["fault_free"] = round(time.time() - t1, 1)
    for s in scs:
        i = info[free_x[s["id"]]]
        if i["N"] <= 0:
            raise InternalError("fault-free run of [%s] did not complete (N=%d)" % (describe(s), i["N"]))
        s["N"], s["cls"] = i["N"], i["cls"]

    # ---- 3b. single failures -------------------------------------------------------------------
    lines1 = []
    for s in scs:
        if s["errs"] == "none":
            continue
        idx = list(range(1, s["N"] + 1))
        if s["window"]:
            # the calls made while connections window[0]..window[1] are set up (and the close phase has none)
            per = max(1, s["N"] // max(1, s["k"]))
            idx = [i for i in idx if (s["window"][0] - 1) * per <= i <= s["window"][1] * per + per]
        for i in idx:
            c = s["cls"][i - 1]
            errs = ERRNOS[c] if s["errs"] == "all" else ERRNOS[c][:1]
            if c == 512 and s["errs"] != "all" and rnd.random() < 0.5:
                continue            # option calls dominate the list; half of them in the reduced variants
            for e in errs:
                lines1.append(add(s, (i, e), fcls=(CLS[c],)))
    t1 = time.time()
    info1, tr1 = execute(binary, lines1, d, "b", nproc)
    ph["singles"] = round(time.time() - t1, 1)
    info.update(info1)
    traces += tr1

    # ---- 3c. pairs of failures --------------------------------------------------------------------
    lines2 = []
    cand = []
    for x, m in list(meta.items()):
        s = m["s"]
        f1 = m["faults"][0]
        if not s["pairs"] or f1[0] == 0 or x not in info1 or info1[x]["N"] <= 0:
            continue
        if f1[1] != ERRNOS[s["cls"][f1[0] - 1]][0]:
            continue                                   # one errno for the first failure of a pair
        cl = info1[x]["cls"]
        for j in range(f1[0] + 1, info1[x]["N"] + 1):
            if j - 1 < len(cl):
                cand.append((s, f1, (j, ERRNOS[cl[j - 1]][0]), (CLS[s["cls"][f1[0] - 1]], CLS[cl[j - 1]])))
    if tier == "quick":
        cand = rnd.sample(cand, min(len(cand), 200))
    for s, f1, f2, fc in cand:
        lines2.append(add(s, f1, f2, fcls=fc))
    t1 = time.time()
    info2, tr2 = execute(binary, lines2, d, "c", nproc)
    ph["pairs"] = round(time.time() - t1, 1)
    info.update(info2)
    traces += tr2

    # ---- 4. trace validation ------------------------------------------------------------------------
    t1 = time.time()
    allv, stats, nlines = validate_all(traces)
    ph["trace_validation"] = round(time.time() - t1, 1)
    t1 = time.time()

    # ---- 2. model checking results ----------------------------------------------------------------------
    mc, dev = mc_fut.result()
    ph["model_checking_wait"] = round(time.time() - t1, 1)
    mc_pool.shutdown()
    violations, known = [], []
    states = transitions = 0
    mc_summary = {}
    for n, r in mc.items():
        states += r["distinct"]
        transitions += r["generated"]
        mc_summary[n] = dict(distinct=r["distinct"], generated=r["generated"], depth=r["depth"], wall=round(r["wall"], 1))
        if r["violated"]:
            rp = vlib.save_replay(pid, "tlc_%s.txt" % n, r["tail"])
            violations.append(("design", "TLC: invariant %s of Lifecycle.tla violated in configuration %s"
                               % (",".join(r["violated"]), n), rp))
            continue
        if r["distinct"] < 2000:
            raise InternalError("configuration %s explored only %d states (vacuous)" % (n, r["distinct"]))
    for n, r in dev.items():
        mc_summary["dev_" + n] = dict(distinct=r["distinct"], violated=r["violated"])
        # reachability of the failure ladders, the eventfd step and the fork chain, and a monitor that tells them apart
        if DEV_EXPECT[n] not in r["violated"]:
            raise InternalError("the deviation %s does not violate %s in the design model (got %s): the monitor could not "
                                "detect it in the code either" % (n, DEV_EXPECT[n], r["violated"]))

    # ---- 5. verdicts ----------------------------------------------------------------------------------------
    hangs = [v for v in allv if v["tag"] == "HANG"]
    internal = [v for v in allv if v["tag"] == "INTERNAL"]
    if internal:
        v = internal[0]
        raise InternalError("harness/trace trouble in execution %d (%s) line %d: expected %s, observed %s [%s]"
                            % (v["x"], meta[v["x"]]["line"], v["n"], v["exp"], v["obs"], v["trace"]))
    notes = collections.Counter(v["tag"] for v in allv if not v["tag"].startswith("C08."))
    byx = collections.OrderedDict()
    for v in allv:
        if v["tag"].startswith("C08."):
            byx.setdefault(v["x"], []).append(v)
    classes = {}
    for x, vs in byx.items():
        m = meta[x]
        m["failed_op"] = failed_op(vs[0]["trace"], x)
        # the first objection of an execution; later ones may be its consequences
        v = vs[0]
        cl = classify(v, m)
        rank = (sum(1 for f in m["faults"] if f[0]), m["s"]["k"], bin(m["s"]["flags"]).count("1"), m["s"]["fork"], x)
        classes.setdefault(cl["key"], []).append((rank, x, v, cl))

    # re-run one or two smallest executions of every class; only what repeats is reported
    confirm_lines, cmap, warm_key = [], {}, None
    for key, items in classes.items():
        items.sort(key=lambda t: t[0])
        for rank, x, v, cl in items[:2]:
            m = meta[x]
            if x == 0:                  # the warm-up of a driver process: any batch repeats it
                confirm_lines.append(add(scs[0]))
                warm_key = key
                continue
            ln = add(m["s"], m["faults"][0], m["faults"][1], m["fcls"])
            confirm_lines.append(ln)
            cmap[xs[0]] = key
    confirmed = collections.Counter()
    if confirm_lines:
        _, ctr = execute(binary, confirm_lines, d, "r", min(nproc, 4))
        cv, _, _ = validate_all(ctr)
        first = {}
        if warm_key and any(v["x"] == 0 and v["tag"].startswith("C08.") for v in cv):
            confirmed[warm_key] += 1
        for v in cv:
            if v["tag"].startswith("C08.") and v["x"] in cmap:
                first.setdefault(v["x"], v)
        for v in first.values():
            if True:
                m = meta[v["x"]]
                m["failed_op"] = failed_op(v["trace"], v["x"])
                if classify(v, m)["key"] == cmap[v["x"]]:
                    confirmed[cmap[v["x"]]] += 1
    flaky = [k for k in classes if not confirmed[k]]

    reports = []
    for key in sorted(classes):
        if not confirmed[key]:
            continue
        items = classes[key]
        rank, x, v, cl = items[0]
        m = meta[x]
        sig = dict(cl, detail=json.dumps(v["obs"])[:200])
        rep = dict(key=key, count=len(items), text=text(v, m, cl), lines=[meta[i[1]]["line"] for i in items[:3]], sig=sig,
                   transports=sorted(set(i[3]["transport"] for i in items)))
        reports.append(rep)
        f = vlib.match_finding(pid, sig)
        if f:
            k = "property=%s %s (%d executions, e.g. %s)" % (pid, f["what"], len(items), rep["text"][:160])
            if not any(f["what"] in z for z in known):
                known.append(k)
            continue
        body = "# %s\n# class %s: %d executions in this run\n# replay: bin/check %s --replay <this file>\n%s\n" % (
            rep["text"], key, len(items), pid, "\n".join(rep["lines"]))
        name = key.replace("C08.", "").replace("/", "_").replace(" ", "_") + ".plan"
        rp = vlib.save_replay(pid, name, body)
        violations.append(("conformance", "%s [%d executions, transports %s]" % (rep["text"], len(items), ",".join(rep["transports"])), rp))

    # ---- vacuity -----------------------------------------------------------------------------------------------
    planned = sum(1 for m in meta.values() if m["faults"][0][0])
    delivered = sum(1 for x, i in info.items() if i["d1"])
    if stats.get("injected", 0) < 50 or stats.get("forks", 0) < 5 or stats.get("failedcalls", 0) < 50 or \
            stats.get("finals", 0) < len(scs) or delivered < 0.9 * len(lines1):
        raise InternalError("vacuous run: %s, %d of %d planned failures delivered" % (stats, delivered, planned))
    if len(hangs) > max(3, len(meta) // 200):
        raise InternalError("%d executions did not finish in time, e.g. %s" % (len(hangs), meta[hangs[0]["x"]]["line"]))
    hit_cls = collections.Counter()
    for x, m in meta.items():
        if m["faults"][0][0] and x in info and info[x]["d1"]:
            hit_cls[m["fcls"][0]] += 1
    missing = [c for c in CLS.values() if hit_cls[c] == 0]
    if missing:
        raise InternalError("no failure was delivered to calls of class %s" % missing)

    # ---- 6. evidence ---------------------------------------------------------------------------------------------
    nx = len(meta) - 1
    samples = [dict(execution=meta[x]["line"], meaning="%s; failures %s" % (describe(meta[x]["s"]), meta[x]["faults"]))
               for x in sorted(set([1, len(scs) + 1, (len(scs) + len(lines1)) // 2, nx]) & set(meta))]
    for rep in reports[:6]:
        samples.append(dict(objection=rep["text"][:500], executions=rep["count"], plan=rep["lines"][0]))
    cov = dict(states=states, transitions=transitions, traces_validated_against_impl=nx, samples=samples,
               evaluations=nlines, distinct_nontrivial=delivered + stats.get("forks", 0),
               rule="one execution = one scenario run on the real library in its own process with a fixed failure plan; "
                    "non-trivial = an injected failure was delivered or the process forked; evaluations = recorded events "
                    "(API boundaries, intercepted calls, observations) judged by TLC against Lifecycle!Step",
               model_configurations=mc_summary, scenarios=len(scs), scenario_list=[describe(s) for s in scs],
               failable_calls_per_scenario={describe(s) + " #%d" % s["id"]: s["N"] for s in scs},
               single_failure_executions=len(lines1), pair_executions=len(lines2), planned_failures=planned,
               delivered_first_failures=delivered, failures_by_call_class=dict(hit_cls), trace_statistics=stats,
               objection_classes={r["key"]: r["count"] for r in reports}, unrepeated_classes=flaky, notes=dict(notes),
               hangs=len(hangs), known_findings=known, phase_wall_s=ph, exhaustive=False)
    vlib.write_evidence(pid, tier, seed, "fault_enumeration", cov, time.time() - t0, violations=len(violations),
                        assumptions=["failures are injected at the libc boundary of libxcm only (link-time --wrap); calls made "
                                     "inside libssl/libcrypto/libcares and memory exhaustion are not failed",
                                     "heap equality rests on LeakSanitizer's recoverable leak check after a warm-up that absorbs "
                                     "one-time initialisations (allocations made during warm-up are ignored)",
                                     "descriptors created by unwrapped libc calls inside the library are seen only by the "
                                     "descriptor-table comparison",
                                     "the pool bookkeeping expected from the API history (which socket uses which eventfd) is a "
                                     "MODEL.* remark when it differs, never a violation",
                                     "TLC and the JSON/IOUtils community modules are trusted"])
    return violations, known


def replay(pid, path):
    binary = vlib.build(["life_exec"])[0]
    vlib.sh("%s/bin/gencreds.sh" % vlib.V, check=True, env={"VERIF_BUILD": vlib.BUILD})
    lines = []
    for ln in open(path):
        ln = ln.strip()
        if not ln or ln.startswith("#"):
            continue
        w = ln.split()
        if w[0] != "run" or len(w) != 12:
            raise InternalError("not a C08 replay file (line %r); TLC counterexamples are re-checked by running the check" % ln[:60])
        w[1] = str(len(lines) + 1)
        lines.append(" ".join(w))
    if not lines:
        raise InternalError("no plan lines in %s" % path)
    d = vlib.fresh_dir("%s/%s_rp" % (vlib.RUN, pid))
    _, traces = execute(binary, lines, d, "p", 1)
    vl, stat, n = validate_all(traces)
    bad = []
    for v in vl:
        print("MISMATCH" if v["tag"].startswith("C08.") else "note", "execution %d (%s) event %d: %s expected %s observed %s"
              % (v["x"], lines[v["x"] - 1], v["n"], v["tag"], json.dumps(v["exp"])[:200], json.dumps(v["obs"])[:600]))
        if v["tag"].startswith("C08."):
            bad.append(v)
        elif v["tag"] in ("INTERNAL", "HANG"):
            raise InternalError("could not replay %s: %s" % (lines[v["x"] - 1], v))
    print("replayed %d executions, %d events, traces %s" % (len(lines), n, traces))
    return bad
