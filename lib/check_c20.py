"""C20 - xcmrelay is transparent.

Pipeline per run:
  1. build the relay itself (build/<variant>/bin/xcmrelay, and xcmrelay_sb = the same tool whose TCP sockets get
     small kernel buffers) and the two-endpoint driver harness/relay_exec from /repo's working tree (ASan/UBSan)
  2. TLC on spec/Relay.tla
       - intended design (Dev = {}): Transparent, CloseAfterData, NoStall, RelayAlive, NoOrphanCallback in several
         bounded configurations (1 and 2 relayed connections), Progress / CloseSeen under fairness
       - every named deviation alone: TLC must exhibit the CloseAfterData counterexample (otherwise the flag is stale)
       - reachability of the situations the hold-one-message logic exists for (vacuity)
       - scenario generation: one application-level behaviour per application-level transition of the state graph
  3. the behaviours are replayed at the application level against the real relay (separate process) between harness
     endpoints, for every pair of transports of equal service type; the endpoints record their histories (NDJSON)
  4. TLC validates the histories against the property operators (spec/RelayTrace.tla, "@V" lines)
  5. a failing execution is re-run once, alone and sequentially, before it is reported
"""
import collections
import concurrent.futures
import json
import os
import random
import re
import shutil
import socket
import subprocess
import time

import vlib
from vlib import InternalError

PID = "C20"
MSG_T = ["ux", "uxf", "tcp", "tls", "utls"]
STR_T = ["btcp", "btls"]
PAIRS = [(a, b, 0) for a in MSG_T for b in MSG_T] + [(a, b, 1) for a in STR_T for b in STR_T]
TCPFAM = {"tcp", "tls", "utls", "btcp", "btls"}
FAITHFUL = ["relay_close_loss", "relay_noflush", "epipe_closes"]
GEN_M = 3          # MaxInFlight of the generation configuration (Cap = 1, LBuf = FALSE)

TIERS = {
    "quick": dict(mc=[(3, 1, "TRUE", "FALSE"), (3, 1, "FALSE", "TRUE"), (3, 2, "FALSE", "FALSE")],
                  live=[(2, 1, "TRUE", "FALSE")], mc2=dict(MaxMsg=2, Quiet='{"1c", "2c"}', NoClose='{"1s"}'),
                  live2=dict(MaxMsg=1, Quiet='{"1c"}', NoClose='{"1c", "1s"}'), mutants=False,
                  per_batch=dict(a=2, b=2, c=1, multi=1, rand=3), variants="alternate", limit=5000, nproc=10),
    "thorough": dict(mc=[(m, c, l, h) for m in (3, 4) for c in (1, 2) for l in ("TRUE", "FALSE") for h in ("TRUE", "FALSE")],
                     live=[(3, 1, "TRUE", "FALSE"), (2, 1, "FALSE", "TRUE"), (2, 2, "TRUE", "TRUE")],
                     mc2=dict(MaxMsg=2, Quiet='{"1c"}', NoClose='{"1s"}'),
                     live2=dict(MaxMsg=2, Quiet='{"1c"}', NoClose='{"1c", "1s"}'), mutants=True,
                     per_batch=dict(a=5, b=5, c=5, multi=5, rand=30), variants="both", limit=5000, nproc=12),
}

INVS = ["TypeOK", "Transparent", "CloseAfterData", "RelayAlive", "NoStall", "NoOrphanCallback"]
ACTIONS = ["Accept", "Poll", "RunCb", "AppSend", "AppRecv", "AppClose"]

SIZES_MSG_BIG = [[65535], [65535, 1], [32768, 32769, 40000], [65534, 65535, 4096], [16384], [8, 65535, 8, 8, 65535],
                 [65535, 65535, 100, 65535], [50000, 3, 65535]]
SIZES_MSG_ANY = SIZES_MSG_BIG + [[1000], [1, 2, 3, 65535, 100], [1], [4, 5, 6, 7], [255, 256, 257]]
SIZES_STR_BIG = [[65535], [100000], [1, 65536, 7, 200000], [262144], [4096, 50000], [65536, 65534]]
SIZES_STR_ANY = SIZES_STR_BIG + [[1], [1000], [3, 70000]]


# ------------------------------------------------------------------ TLC on Relay.tla ---------
def write_cfg(name, consts, spec="Spec", invs=(), props=(), extra=()):
    d = vlib.BUILD + "/cfg"
    os.makedirs(d, exist_ok=True)
    base = dict(NConn=1, MaxMsg=2, Cap=1, LBuf="TRUE", Hup="FALSE", Dev="{}", Mut="{}", Quiet="{}", NoClose="{}",
                Gen="FALSE", EmitMod=1)
    base.update(consts)
    lines = ["SPECIFICATION %s" % spec, "CONSTANTS"]
    for k, v in base.items():
        lines.append("  %s = %s" % (k, v))
    if invs:
        lines.append("INVARIANTS " + " ".join(invs))
    if props:
        lines.append("PROPERTIES " + " ".join(props))
    lines += list(extra)
    lines.append("CHECK_DEADLOCK FALSE")
    path = "%s/relay_%s_%d.cfg" % (d, name, os.getpid())
    with open(path, "w") as f:
        f.write("\n".join(lines) + "\n")
    return path


def tla_set(xs):
    return "{" + ", ".join('"%s"' % x for x in xs) + "}"


def tlc_env(heap="3g", more=None):
    """TLC unpacks its standard modules into java.io.tmpdir: keep that under build/ (nothing of ours in /tmp)"""
    d = "%s/tmp_c20_%d" % (vlib.TLCDIR, os.getpid())
    os.makedirs(d, exist_ok=True)
    e = {"JAVA_TOOL_OPTIONS": "-Xmx%s -Djava.io.tmpdir=%s" % (heap, d)}
    if more:
        e.update(more)
    return e


def tlc_tmp_cleanup():
    shutil.rmtree("%s/tmp_c20_%d" % (vlib.TLCDIR, os.getpid()), ignore_errors=True)


def run_tlc(name, consts, workers=2, **kw):
    extra_opts = kw.pop("opts", "")
    cfg = write_cfg(name, consts, **kw)
    try:
        r = vlib.tlc("Relay", cfg, workers=workers, timeout=1500, heap="3g", extra=extra_opts, env=tlc_env(),
                     metadir="%s/relay.%s.%d" % (vlib.TLCDIR, name, os.getpid()))
    finally:
        os.unlink(cfg)
    r["name"] = name
    return r


def coverage(out):
    """-coverage output: action name -> (distinct states found, states generated)"""
    cov = {}
    for m in re.finditer(r"^<(\w+) line [^>]*>: (\d+):(\d+)", out, re.M):
        n, a, b = m.group(1), int(m.group(2)), int(m.group(3))
        x = cov.get(n, (0, 0))
        cov[n] = (x[0] + a, x[1] + b)
    return cov


def counterexample(out):
    """the action sequence of a TLC counterexample"""
    return re.findall(r"^State \d+: <(\w+(?:\([^)]*\))?) line", out, re.M)


def design_jobs(tier):
    T = TIERS[tier]
    jobs = []
    for (m, c, l, h) in T["mc"]:
        n = "mc_m%d_c%d_%s_%s" % (m, c, "lb" if l == "TRUE" else "nolb", "hup" if h == "TRUE" else "nohup")
        jobs.append((n, "hold", dict(MaxMsg=m, Cap=c, LBuf=l, Hup=h), dict(invs=INVS, opts="-coverage 1", workers=3)))
    for (m, c, l, h) in T["live"]:
        n = "live_m%d_c%d_%s_%s" % (m, c, "lb" if l == "TRUE" else "nolb", "hup" if h == "TRUE" else "nohup")
        jobs.append((n, "hold", dict(MaxMsg=m, Cap=c, LBuf=l, Hup=h),
                     dict(spec="FairSpec", invs=["TypeOK"], props=["Progress", "CloseSeen"], workers=3)))
    jobs.append(("mc2", "hold", dict(NConn=2, LBuf="FALSE", **T["mc2"]), dict(invs=INVS, workers=6)))
    jobs.append(("live2", "hold", dict(NConn=2, LBuf="FALSE", **T["live2"]),
                 dict(spec="FairSpec2", invs=["TypeOK"], props=["Progress2"], workers=4)))
    # every named deviation alone: the counterexample must exist
    for f in FAITHFUL:
        jobs.append(("dev_" + f, "CloseAfterData", dict(MaxMsg=2, Cap=1, LBuf="TRUE", Dev=tla_set([f])), dict(invs=INVS, workers=2)))
    jobs.append(("dev_relay_close_loss_ux", "CloseAfterData", dict(MaxMsg=2, Cap=1, LBuf="FALSE", Hup="TRUE",
                                                                    Dev=tla_set(["relay_close_loss"])), dict(invs=INVS, workers=2)))
    # reachability (vacuity): these "invariants" must be violated
    jobs.append(("reach_heldblocked", "NeverHeldBlocked", dict(MaxMsg=3, Cap=1, LBuf="TRUE"), dict(invs=["NeverHeldBlocked"], workers=2)))
    jobs.append(("reach_bothheld", "NeverBothHeld", dict(MaxMsg=3, Cap=1, LBuf="FALSE"), dict(invs=["NeverBothHeld"], workers=2)))
    if T["mutants"]:
        for mu, lb in (("drop_on_eagain", "FALSE"), ("overwrite", "TRUE"), ("no_rearm", "TRUE"), ("early_close", "TRUE")):
            jobs.append(("mut_" + mu, "any", dict(MaxMsg=3, Cap=1, LBuf=lb, Mut=tla_set([mu])), dict(invs=INVS, workers=2)))
    return jobs


def run_design(tier, violations):
    jobs = design_jobs(tier)
    res = {}
    with concurrent.futures.ThreadPoolExecutor(max_workers=6) as ex:
        futs = {ex.submit(run_tlc, n, c, **kw): (n, exp) for (n, exp, c, kw) in jobs}
        for fu in concurrent.futures.as_completed(futs):
            n, exp = futs[fu]
            res[n] = (fu.result(), exp)
    summary, states, transitions, dev_cex, killed = {}, 0, 0, {}, []
    for n in sorted(res):
        r, exp = res[n]
        if r["error"]:
            raise InternalError("TLC failed on Relay/%s:\n%s" % (n, r["error"]))
        states += r["distinct"]
        transitions += r["generated"]
        summary[n] = dict(distinct=r["distinct"], generated=r["generated"], depth=r["depth"], wall=round(r["wall"], 1),
                          violated=r["violated"], expected=exp)
        if exp == "hold":
            if r["violated"]:
                rp = vlib.save_replay(PID, "tlc_%s.txt" % n, r["out"][-30000:])
                violations.append(("design", "TLC: %s violated on the intended design (Relay.tla, configuration %s)"
                                   % (",".join(r["violated"]), n), rp))
            elif r["distinct"] < 1000:
                raise InternalError("configuration %s explored only %d states (vacuous)" % (n, r["distinct"]))
            if n.startswith("mc_"):
                cov = coverage(r["out"])
                for a in ACTIONS:
                    if cov.get(a, (0, 0))[0] == 0:
                        raise InternalError("action %s never taken in %s (coverage %s)" % (a, n, cov))
        elif exp == "any":
            if not r["violated"]:
                raise InternalError("design mutant %s is not caught by any property of Relay.tla" % n)
            killed.append("%s: %s" % (n, ",".join(r["violated"])))
        else:
            if exp not in r["violated"]:
                raise InternalError("%s: expected TLC to violate %s, got %s (stale deviation flag or unreachable situation)"
                                    % (n, exp, r["violated"] or "no violation"))
            if n.startswith("dev_"):
                dev_cex[n[4:]] = counterexample(r["out"])
                d = vlib.RUN + "/%s_design" % PID
                os.makedirs(d, exist_ok=True)
                with open("%s/%s.txt" % (d, n), "w") as f:
                    f.write(r["out"][-30000:])
        r["out"] = ""
    return summary, states, transitions, dev_cex, killed


# ------------------------------------------------------------ scenario generation -------------
def gen_paths():
    """TLC enumerates the faithful model (what the code does) and prints one application-level behaviour per
    application-level transition; returned de-duplicated, in a fixed order."""
    r = run_tlc("gen1", dict(MaxMsg=3, Cap=1, LBuf="FALSE", Dev=tla_set(FAITHFUL), Gen="TRUE"), workers=1,
                extra=["VIEW GenView", "ACTION_CONSTRAINT EmitPath"])
    if r["error"] or r["violated"]:
        raise InternalError("TLC failed on the scenario generation configuration:\n%s" % (r["error"] or r["violated"]))
    seen, paths = set(), []
    for ln in r["out"].splitlines():
        if not ln.startswith('"@P '):
            continue
        try:
            h = json.loads(json.loads(ln)[3:])
        except ValueError:
            raise InternalError("unparsable path line from TLC: %s" % ln[:200])
        key = tuple((e["a"], e["x"], e["lv"]) for e in h)
        if key not in seen:
            seen.add(key)
            paths.append(h)
    if len(paths) < 1000:
        raise InternalError("TLC emitted only %d application-level behaviours" % len(paths))
    paths.sort(key=lambda h: [(e["a"], e["x"], e["lv"]) for e in h])
    info = dict(distinct=r["distinct"], generated=r["generated"], paths=len(paths), wall=round(r["wall"], 1))
    return paths, info


def other(x):
    return "s" if x == "c" else "c"


def features(path):
    f = set()
    closed = set()
    lv = {"c": 0, "s": 0}          # in flight per sending side
    for e in path:
        a, x = e["a"], e["x"]
        if a == "S":
            lv[x] = e["lv"]
            if e["lv"] >= GEN_M:
                f.add("full")
            if other(x) in closed:
                f.add("late")
            if lv["c"] > 0 and lv["s"] > 0:
                f.add("bidir")
                if lv["c"] >= GEN_M - 1 and lv["s"] >= GEN_M - 1:
                    f.add("bidir_full")
        elif a == "R":
            lv[other(x)] = e["lv"]
        elif a == "C":
            closed.add(x)
            if e["lv"] >= 1:
                f.add("close_inflight")
            if e["lv"] >= GEN_M - 1:
                f.add("close_full")
                if lv[other(x)] == 0 and other(x) not in closed:
                    f.add("close_full_quiet")       # an orderly close (nothing unread) while the closer's data fills the pipeline
                    f.add("cfq_" + x)
            lv[x] = e["lv"]
        elif a == "Z":
            f.add("eof")
        elif a == "E":
            f.add("epipe")
    return f


def classify_paths(paths):
    cls = collections.defaultdict(list)
    for i, p in enumerate(paths):
        f = features(p)
        if "close_full_quiet" in f and "late" in f:
            cls["a"].append(i)         # the closer's data is still in the pipeline when the other side sends
        if "close_full_quiet" in f and "late" not in f and "eof" in f and "epipe" not in f:
            cls["b"].append(i)         # close under back-pressure, the other side reads to the end
        if "bidir_full" in f:
            cls["c"].append(i)         # both directions loaded
        cls["rand"].append(i)
    for k in ("a", "b", "c"):
        if not cls[k]:
            raise InternalError("no generated behaviour of class %s" % k)
    return cls


def merge(rnd, seqs):
    """random interleaving of event sequences (each keeps its own order): a behaviour of the product model"""
    idx = [0] * len(seqs)
    out = []
    while True:
        live = [i for i in range(len(seqs)) if idx[i] < len(seqs[i])]
        if not live:
            return out
        i = rnd.choice(live)
        # run a few steps of the same connection in a row: keeps e.g. a fill and the close together sometimes
        for _ in range(rnd.choice((1, 1, 2, 4))):
            if idx[i] < len(seqs[i]):
                out.append(seqs[i][idx[i]])
                idx[i] += 1


def to_script(rnd, events, stream, small):
    """application-level behaviour of Relay.tla -> steps for harness/relay_exec"""
    lines, started, closed, ended = [], [], set(), set()
    for e in events:
        k, x, a = e["k"], e["x"], e["a"]
        if k not in started:
            started.append(k)
            lines.append("con %d" % k)
        if a == "A":
            continue
        o = other(x)
        if a == "S":
            if (k, o) in closed:
                lines.append("snd %d %s n 4" % (k, x))              # a short burst: the pipeline towards a closed side is not filled
            elif e["lv"] >= GEN_M:
                lines.append("snd %d %s lv 1000" % (k, x))          # the model's pipeline is full: until EAGAIN
            elif small:
                lines.append("snd %d %s n %d" % (k, x, rnd.choice((1, 1, 2, 3, 7))))
            else:
                lines.append("snd %d %s lv %d" % (k, x, e["lv"] * 1000 // GEN_M))
        elif a == "E":
            lines.append("snd %d %s n 1" % (k, x))
        elif a == "R":
            if e["lv"] == 0:
                lines.append("rcv %d %s all" % (k, x))
            elif small:
                lines.append("rcv %d %s n %d" % (k, x, rnd.choice((1, 1, 2))))
            else:
                lines.append("rcv %d %s lv %d" % (k, x, e["lv"] * 1000 // GEN_M))
        elif a == "Z":
            lines.append("rcv %d %s end" % (k, x))
            ended.add((k, x))
        elif a == "C":
            lines.append("cls %d %s" % (k, x))
            closed.add((k, x))
    # epilogue: whoever is still open reads what is owed, then the connection is closed from one side
    for k in started:
        op = [x for x in ("c", "s") if (k, x) not in closed]
        if len(op) == 2:
            first = rnd.choice(("c", "s"))
            lines.append("rcv %d %s all" % (k, first))
            lines.append("rcv %d %s all" % (k, other(first)))
            cl = rnd.choice(("c", "s"))
            lines += ["cls %d %s" % (k, cl), "rcv %d %s end" % (k, other(cl)), "cls %d %s" % (k, other(cl))]
        elif len(op) == 1:
            lines += ["rcv %d %s end" % (k, op[0]), "cls %d %s" % (k, op[0])]
    return lines


def scenario(rnd, paths, idxs, stream, kind):
    """one execution: a generated behaviour (or an interleaving of up to three, on distinct relayed connections)"""
    seqs = []
    for j, i in enumerate(idxs):
        seqs.append([dict(e, k=j + 1) for e in paths[i]])
    events = seqs[0] if len(seqs) == 1 else merge(rnd, seqs)
    small = kind == "rand" and rnd.random() < 0.4
    if stream:
        sizes = rnd.choice(SIZES_STR_ANY if small else SIZES_STR_BIG)
    else:
        sizes = rnd.choice(SIZES_MSG_ANY if small else SIZES_MSG_BIG)
    if kind == "b":
        # every unit larger than the small-buffer relay's socket buffer: each is written in pieces
        sizes = rnd.choice(([65535], [65534, 65535], [40000, 65535, 50000]) if not stream else ([65535], [100000], [262144, 65536]))
    elif rnd.random() < 0.15:
        sizes = [rnd.choice((1, 2, 100, 4095, 4096, 16384, 32767, 32768, 65534, 65535, rnd.randrange(1, 65536)))
                 for _ in range(rnd.randrange(2, 7))]
        if not small and sum(sizes) / len(sizes) < 8000:
            sizes.append(65535)
    mean = sum(sizes) / float(len(sizes))
    pace = 0
    if kind == "b" or rnd.random() < 0.3:
        pace = rnd.choice((0, 300, 2000)) if (mean >= 16000 or small) else 0
    lines = ["sizes %d %s" % (len(sizes), " ".join(str(s) for s in sizes))]
    if pace:
        lines.append("pace %d" % pace)
    lines += to_script(rnd, events, stream, small)
    desc = "%s paths=%s small=%d sizes=%s pace=%d" % (kind, ",".join(str(i) for i in idxs), int(small), sizes, pace)
    return lines, desc


def calibration(stream):
    return ["sizes 1 65535", "con 1", "snd 1 s lv 1000", "rcv 1 c all", "snd 1 c lv 1000", "rcv 1 s all",
            "cls 1 c", "rcv 1 s end", "cls 1 s"]


def build_batches(tier, rnd, paths):
    T = TIERS[tier]
    cls = classify_paths(paths)
    batches = []
    xid = 0
    for pi, (a, b, stream) in enumerate(PAIRS):
        tcpfam = a in TCPFAM or b in TCPFAM
        if T["variants"] == "both":
            variants = ["def", "sb"] if tcpfam else ["def"]
        else:
            variants = [("sb" if (pi + rnd.randrange(2)) % 2 == 0 else "def") if tcpfam else "def"]
        for var in variants:
            execs = []
            xid += 1
            execs.append(dict(x=xid, lines=calibration(stream), desc="calibration", kind="cal"))
            plan = []
            for kind in ("a", "b", "c", "rand"):
                for _ in range(T["per_batch"][kind]):
                    plan.append((kind, [rnd.choice(cls[kind])]))
            for _ in range(T["per_batch"]["multi"]):
                n = rnd.choice((2, 2, 3))
                first = rnd.choice(cls[rnd.choice(("a", "b", "c"))])
                plan.append(("multi", [first] + [rnd.choice(cls["rand"]) for _ in range(n - 1)]))
            rnd.shuffle(plan)
            # a second client whose connection the server application is slow to accept: the first relayed connection
            # keeps flowing meanwhile (on a TLS-based server leg the relay's own connect needs the server application)
            xid += 1
            n1, n2 = rnd.choice((2, 3, 5)), rnd.choice((1, 2, 4))
            pend = ["sizes 3 100 3000 65535" if not stream else "sizes 2 1000 70000", "con 1", "snd 1 c n 2", "rcv 1 s n 2", "con1 2",
                    "snd 1 c n %d" % n1, "rcv 1 s n %d" % n1, "snd 1 s n %d" % n2, "rcv 1 c n %d" % n2, "con 2",
                    "snd 2 c n 1", "rcv 2 s n 1", "snd 2 s n 1", "rcv 2 c n 1", "cls 1 c", "rcv 1 s end", "cls 1 s",
                    "cls 2 c", "rcv 2 s end", "cls 2 s"]
            execs.append(dict(x=xid, lines=pend, desc="pending second connection n1=%d n2=%d" % (n1, n2), kind="pend"))
            for kind, idxs in plan:
                xid += 1
                lines, desc = scenario(rnd, paths, idxs, stream, kind)
                execs.append(dict(x=xid, lines=lines, desc=desc, kind=kind))
            batches.append(dict(id=len(batches), a=a, b=b, stream=stream, var=var, execs=execs,
                                sndbuf=rnd.choice((4096, 8192, 16384)), tag=rnd.randrange(1, 30000)))
    return batches


# ------------------------------------------------------------------ running ----------------
def free_ports(n):
    socks, ports = [], []
    for _ in range(n):
        s = socket.socket(socket.AF_INET, socket.SOCK_STREAM)
        s.bind(("127.0.0.1", 0))
        socks.append(s)
        ports.append(s.getsockname()[1])
    for s in socks:
        s.close()
    return ports


def mkaddr(t, role, d, uniq, port):
    if t == "ux":
        return "ux:c20-%s-%s" % (uniq, role)
    if t == "uxf":
        p = "%s/%s.sock" % (d, role)
        if len(p) > 100:
            p = "%s/c20-%s-%s.sock" % (vlib.RUN, uniq, role)
        return "uxf:" + p
    return "%s:127.0.0.1:%d" % (t, port)


def batch_script(batch, d, bins, limit, execs=None):
    ports = free_ports(2)
    uniq = "%d-%d-%d" % (os.getpid(), batch["id"], batch.get("attempt", 0))
    lines = ["# pair %s %s stream %d variant %s sndbuf %d" % (batch["a"], batch["b"], batch["stream"], batch["var"], batch["sndbuf"]),
             "relay %s" % (bins["xcmrelay_sb"] if batch["var"] == "sb" else bins["xcmrelay"]),
             "saddr %s" % mkaddr(batch["a"], "r", d, uniq, ports[0]),
             "caddr %s" % mkaddr(batch["b"], "s", d, uniq, ports[1]),
             "rout %s/relay.out" % d, "stream %d" % batch["stream"], "tag %d" % batch["tag"], "limit %d" % limit, "start"]
    for e in (execs if execs is not None else batch["execs"]):
        lines.append("# %s" % e["desc"])
        lines.append("X %d" % e["x"])
        lines += e["lines"]
        lines.append("E")
    lines.append("stop")
    return lines


def harness_env(batch):
    e = {"XCM_CTL": "/nonexistent-verif", "XCM_TLS_CERT": vlib.BUILD + "/creds/default",
         "ASAN_OPTIONS": "detect_leaks=0:max_malloc_fill_size=4194304:malloc_fill_byte=165:abort_on_error=0:detect_stack_use_after_return=1:exitcode=3",
         "UBSAN_OPTIONS": "print_stacktrace=1:halt_on_error=1:suppressions=%s/shim/ubsan.supp" % vlib.V}
    if batch["var"] == "sb":
        e["C20_SNDBUF"] = str(batch["sndbuf"])
        e["C20_RCVBUF"] = str(batch["sndbuf"])
    return e


def run_batch(batch, root, bins, limit, execs=None, timeout=900, name=None):
    d = vlib.fresh_dir("%s/%s" % (root, name or ("b%02d" % batch["id"])))
    script = batch_script(batch, d, bins, limit, execs)
    sp, tp = d + "/script", d + "/trace.ndjson"
    with open(sp, "w") as f:
        f.write("\n".join(script) + "\n")
    env = dict(os.environ)
    env.update(harness_env(batch))
    t0 = time.time()
    with open(d + "/harness.log", "w") as lg:
        try:
            p = subprocess.run(["timeout", "-k", "5", str(timeout), bins["relay_exec"], sp, tp], stdout=lg, stderr=subprocess.STDOUT,
                               env=env, timeout=timeout + 30)
            rc = p.returncode
        except subprocess.TimeoutExpired:
            rc = 124
    rout = ""
    try:
        with open(d + "/relay.out", errors="replace") as f:
            rout = f.read()
    except OSError:
        pass
    lines = []
    try:
        with open(tp) as f:
            lines = [ln for ln in f.read().splitlines() if ln]
    except OSError:
        pass
    return dict(batch=batch, dir=d, rc=rc, trace=lines, relay_out=rout, script=script, wall=time.time() - t0)


def started_ok(res):
    """the relay came up and the calibration connection was established"""
    for ln in res["trace"][:3]:
        r = json.loads(ln)
        if r["ev"] == "con":
            return r["res"] == "ok"
    return False


class CalibStall(Exception):
    """the sequential re-run found a running relay through which not even the first connection is established"""
    def __init__(self, res):
        Exception.__init__(self, "calibration stall")
        self.res = res


def calib_stalled(res):
    """the relay process was alive after the calibration connection through it had failed"""
    con = alive = False
    for ln in res["trace"][:6]:
        r = json.loads(ln)
        if r["ev"] == "con" and r["res"] == "fail":
            con = True
        if r["ev"] == "rly" and r["st"] == 1 and con:
            alive = True
    return con and alive


def run_all(batches, root, bins, limit, nproc):
    out = {}

    def job(b):
        for attempt in range(3):
            b["attempt"] = attempt
            r = run_batch(b, root, bins, limit)
            if r["rc"] == 2 or not started_ok(r):
                # the relay could not be started (address taken by somebody else?): machinery, try other addresses
                last = r
                continue
            return r
        if last["rc"] != 2 and calib_stalled(last):
            # three times, on fresh addresses, the relay was up and running and the very first connection through it was
            # not established: not the machinery's failure but the relay's ("neither exits nor stalls")
            last["calib_stall"] = True
            return last
        raise InternalError("relay / harness could not be started for %s-%s (%s): rc %s\n%s\n%s"
                            % (b["a"], b["b"], b["var"], last["rc"], "\n".join(last["trace"][:5]), last["relay_out"][-1500:]))

    with concurrent.futures.ThreadPoolExecutor(max_workers=nproc) as ex:
        for r in ex.map(job, batches):
            out[r["batch"]["id"]] = r
    return out


# ------------------------------------------------------------------ trace validation --------
def validate(lines, name):
    """TLC (RelayTrace.tla) over recorded lines -> (list of mismatches, statistics)"""
    if not lines:
        raise InternalError("empty trace for %s" % name)
    d = vlib.RUN + "/%s_tv" % PID
    os.makedirs(d, exist_ok=True)
    tp = "%s/%s_%d.ndjson" % (d, name, os.getpid())
    with open(tp, "w") as f:
        f.write("\n".join(lines) + "\n")
    r = vlib.tlc("RelayTrace", vlib.SPEC + "/RelayTrace.cfg", workers=1, timeout=1200, heap="3g", env=tlc_env(more={"TRACE": tp}),
                 metadir="%s/relaytrace.%s.%d" % (vlib.TLCDIR, name, os.getpid()))
    vl, stat = [], None
    for ln in r["out"].splitlines():
        if ln.startswith('"@V '):
            v = json.loads(json.loads(ln)[3:])
            vl.append(dict(x=v[0], n=v[1], tag=v[2], detail=v[3], exp=v[4], obs=v[5]))
        elif ln.startswith('"@STAT '):
            stat = json.loads(json.loads(ln)[6:])
    if r["error"] or stat is None or r["distinct"] != len(lines) + 1 or "Postcondition" in r["out"]:
        raise InternalError("trace validation did not consume %s (%d lines, %d states):\n%s"
                            % (tp, len(lines), r["distinct"], (r["error"] or r["out"][-3000:])))
    return vl, stat, r


def first_per_exec(vl):
    """first C20.* mismatch of every execution (later ones may be consequences); notes counted"""
    firsts, notes = {}, collections.Counter()
    for v in sorted(vl, key=lambda v: (v["x"], v["n"])):
        if v["tag"] == "INTERNAL":
            raise InternalError("broken trace: %s" % v)
        if v["tag"].startswith("NOTE."):
            notes[v["tag"]] += 1
        elif v["x"] not in firsts:
            firsts[v["x"]] = v
    return firsts, notes


def sanitizer_report(rout):
    m = re.search(r"(ERROR: AddressSanitizer[^\n]*|runtime error:[^\n]*|ERROR: LeakSanitizer[^\n]*)", rout)
    return m.group(1) if m else None


# ------------------------------------------------------------------ check ---------------------
def describe(v, batch, e):
    return "%s (%s) on %s<->relay<->%s%s: expected %s, observed %s [execution %d: %s]" % (
        v["tag"], v["detail"], batch["a"], batch["b"], " (relay with small TCP buffers)" if batch["var"] == "sb" else "",
        json.dumps(v["exp"]), json.dumps(v["obs"]), e["x"], e["desc"])


def signature(v, batch, trace_line):
    """what a known_findings.json entry can match on"""
    ep = trace_line.get("ep", 0)
    # the leg towards the observing application: c side talks to the relay over transport a, s side over b
    leg_obs = batch["a"] if ep == 1 else batch["b"]
    leg_oth = batch["b"] if ep == 1 else batch["a"]
    return {"tag": v["tag"], "detail": v["detail"], "class": "%s/%s" % (v["tag"], v["detail"]), "observer_leg": leg_obs,
            "other_leg": leg_oth, "stream": batch["stream"], "variant": batch["var"]}


def check(pid, tier, seed):
    t0 = time.time()
    if tier not in TIERS:
        tier = "quick"
    T = TIERS[tier]
    rnd = random.Random(seed)
    violations, known = [], []
    vlib.sh("%s/bin/gencreds.sh" % vlib.V, check=True)
    names = ["xcmrelay", "xcmrelay_sb", "relay_exec"]
    bins = dict(zip(names, vlib.build(names)))
    root = vlib.fresh_dir("%s/%s_%s" % (vlib.RUN, pid, tier))
    shutil.rmtree(vlib.RUN + "/%s_tv" % PID, ignore_errors=True)

    # ---- 2. design level (in the background while the real runs go on) ----------------------
    pool = concurrent.futures.ThreadPoolExecutor(max_workers=2)
    design_violations = []
    fut_design = pool.submit(run_design, tier, design_violations)
    paths, gen_info = gen_paths()

    # ---- 3. replay against the real relay ----------------------------------------------------
    batches = build_batches(tier, rnd, paths)
    results = run_all(batches, root, bins, T["limit"], T["nproc"])
    t_run = time.time()

    # ---- 4. trace validation -------------------------------------------------------------------
    byx, all_lines = {}, []
    executed = 0
    for b in batches:
        r = results[b["id"]]
        seen_x = set()
        for ln in r["trace"]:
            all_lines.append(ln)
            m = re.match(r'\{"x":(\d+),', ln)
            if m:
                seen_x.add(int(m.group(1)))
        for e in b["execs"]:
            byx[e["x"]] = (b, e)
        executed += len(seen_x)
    chunks = max(1, min(4, len(all_lines) // 15000))
    # split at execution boundaries (batches are kept whole)
    per, cur, groups = len(batches) // chunks + 1, [], []
    for i, b in enumerate(batches):
        cur += results[b["id"]]["trace"]
        if (i + 1) % per == 0:
            groups.append(cur)
            cur = []
    if cur:
        groups.append(cur)
    vl, stat, tv_states = [], collections.Counter(), 0
    with concurrent.futures.ThreadPoolExecutor(max_workers=4) as ex:
        for v, s, r in ex.map(lambda ig: validate(ig[1], "g%d" % ig[0]), list(enumerate(groups))):
            vl += v
            stat.update(s)
            tv_states += r["distinct"]
    firsts, notes = first_per_exec(vl)

    # vacuity of the real runs (raised at the end, and only if nothing was found: a relay that dies with its first
    # connection makes every batch short, which is a finding, not a vacuous run)
    vacuous = None
    if stat["endchk"] < len(batches) or stat["full"] < len(batches) or stat["units"] < 1000 or stat["late"] == 0:
        vacuous = "vacuous run: %s" % dict(stat)
    pairs_done = set((results[b["id"]]["batch"]["a"], results[b["id"]]["batch"]["b"]) for b in batches if results[b["id"]]["trace"])
    if len(pairs_done) != len(PAIRS):
        vacuous = "only %d of %d transport pairs were exercised" % (len(pairs_done), len(PAIRS))

    # sanitizer reports / harness failures
    crashes = []
    for b in batches:
        r = results[b["id"]]
        rep = sanitizer_report(r["relay_out"])
        if rep:
            crashes.append((b, rep, r))
        if r["rc"] not in (0,):
            if r["rc"] == 124:
                raise InternalError("harness timed out on %s-%s (%s); see %s" % (b["a"], b["b"], b["var"], r["dir"]))
            if r["rc"] != 0 and not rep:
                with open(r["dir"] + "/harness.log", errors="replace") as f:
                    raise InternalError("harness failed (%d) on %s-%s: %s" % (r["rc"], b["a"], b["b"], f.read()[-2000:]))

    # ---- 5. classes, known findings, re-run, verdicts ------------------------------------------
    lines_by_xn = {}
    for ln in all_lines:
        m = re.match(r'\{"x":(\d+),"n":(\d+),', ln)
        if m and int(m.group(1)) in firsts and firsts[int(m.group(1))]["n"] == int(m.group(2)):
            lines_by_xn[int(m.group(1))] = json.loads(ln)
    main_busy = busy_ms(all_lines)
    classes = collections.defaultdict(list)          # every instance
    fresh = collections.defaultdict(list)            # instances no known finding explains
    known_hits = collections.defaultdict(list)
    for x, v in firsts.items():
        b, e = byx[x]
        key = "%s/%s" % (v["tag"], v["detail"])
        classes[key].append(x)
        f = vlib.match_finding(pid, signature(v, b, lines_by_xn.get(x, {})))
        if f:
            known_hits[f.get("id", f.get("what", "?"))].append((x, f))
        else:
            # candidates for the re-run: first those that were not slowed down by machine load, shortest script first
            fresh[key].append(((main_busy.get(x, 0) > SLOW_MS, len(e["lines"])), x, v))
    for fid, hits in sorted(known_hits.items()):
        x, f = hits[0]
        known.append("property=%s %s (%d executions in this run, e.g. %s)" % (pid, f["what"], len(hits), describe(firsts[x], *byx[x])[:300]))
    confirmed, unconfirmed = {}, {}
    stalled_rerun = False
    for key in sorted(fresh):
        if stalled_rerun:
            break
        items = sorted(fresh[key], key=lambda t: (t[0], t[1]))
        ok = None
        tried = slow = 0
        for _, x, v in items[:4]:
            b, e = byx[x]
            tried += 1
            try:
                rr = rerun(b, e, root, bins, T["limit"] * 2, "rerun_%d" % x)
            except CalibStall as cs:
                rp = vlib.save_replay(pid, "calib_stall_rerun_%s_%s.script" % (b["a"], b["b"]),
                                      "\n".join(cs.res["script"]) + "\n# " + "\n# ".join(cs.res["trace"][:4]) + "\n")
                violations.append(("conformance", "C20.stall: in the sequential re-run of an execution on %s-%s (%s) the first connection "
                                   "through the running relay was not established (three attempts on fresh addresses): %s"
                                   % (b["a"], b["b"], b["var"], cs.res["trace"][1][:300] if len(cs.res["trace"]) > 1 else ""), rp))
                stalled_rerun = True
                break
            if rr["busy"].get(x, 0) > SLOW_MS:
                slow += 1
                continue
            if any(w["x"] == x and w["tag"] == v["tag"] for w in rr["first"].values()):
                ok = (x, v, rr)
                break
        if ok:
            confirmed[key] = ok
        else:
            unconfirmed[key] = dict(instances=len(items), reruns=tried, reruns_too_slow_to_tell=slow)
    for key, (x, v, rr) in sorted(confirmed.items()):
        b, e = byx[x]
        sig = signature(v, b, lines_by_xn.get(x, {}))
        n = len(fresh[key])
        pairs = sorted(set("%s-%s%s" % (byx[xx][0]["a"], byx[xx][0]["b"], "/sb" if byx[xx][0]["var"] == "sb" else "") for _, xx, _ in fresh[key]))
        body = replay_body(b, e, rr["res"]["script"], v, sig, n, pairs)
        rp = vlib.save_replay(pid, "%s.script" % key.replace("C20.", "").replace("/", "_").replace(" ", "_"), body)
        violations.append(("conformance", "%s [%d executions; pairs: %s]" % (describe(v, b, e), n, " ".join(pairs)[:400]), rp))
    for b in batches:
        r = results[b["id"]]
        if r.get("calib_stall"):
            rp = vlib.save_replay(pid, "calib_stall_%s_%s.script" % (b["a"], b["b"]), "\n".join(r["script"]) + "\n# " + "\n# ".join(r["trace"][:4]) + "\n")
            violations.append(("conformance", "C20.stall: the first connection through the running relay on %s-%s (%s) was not established "
                               "(three attempts on fresh addresses): %s" % (b["a"], b["b"], b["var"], r["trace"][1][:300]), rp))
            break
    for b, rep, r in crashes:
        sig = {"tag": "C20.crash", "detail": rep[:80], "class": "C20.crash"}
        if vlib.match_finding(pid, sig):
            continue
        rp = vlib.save_replay(pid, "crash_%s_%s.script" % (b["a"], b["b"]), "\n".join(r["script"]) + "\n# " + rep + "\n")
        violations.append(("crash", "sanitizer report in the relay on %s-%s: %s" % (b["a"], b["b"], rep), rp))
        break

    summary, states, transitions, dev_cex, killed = fut_design.result()
    pool.shutdown()
    violations = design_violations + violations
    if vacuous and not violations:
        raise InternalError(vacuous)

    # ---- 6. evidence ----------------------------------------------------------------------------
    samples = []
    for b in batches[:1] + batches[len(batches) // 2:len(batches) // 2 + 1]:
        e = b["execs"][min(2, len(b["execs"]) - 1)]
        samples.append({"pair": "%s-%s" % (b["a"], b["b"]), "variant": b["var"], "execution": e["x"], "what": e["desc"],
                        "script": e["lines"][:14]})
    for key, (x, v, rr) in list(confirmed.items())[:4]:
        samples.append({"mismatch": describe(v, *byx[x])[:500], "executions": len(fresh[key])})
    cov = dict(states=states + gen_info["distinct"], transitions=transitions + gen_info["generated"],
               traces_validated_against_impl=executed, samples=samples,
               evaluations=int(stat["snd"] + stat["rcv"] + stat["cls"] + stat["rly"] + stat["con"]),
               distinct_nontrivial=int(stat["full"] + stat["endchk"] + stat["tmo"]),
               rule="an execution is one application-level behaviour of Relay.tla (or an interleaving of up to three on distinct "
                    "relayed connections) replayed against the real relay process and validated by TLC (RelayTrace.tla); "
                    "evaluations = recorded endpoint events (send runs, receive runs, closes, relay status); non-trivial = "
                    "sends that filled the pipeline to EAGAIN + ends shown after an orderly close (CloseAfterData evaluated) + "
                    "time-outs",
               model_configurations=summary, generation=gen_info, deviation_counterexamples=dev_cex, design_mutants_killed=killed,
               batches=len(batches), transport_pairs=len(pairs_done), executions_planned=sum(len(b["execs"]) for b in batches),
               trace_lines=len(all_lines), trace_validation_states=tv_states, trace_stats=dict(stat),
               units_received=int(stat["units"]), mismatch_classes={k: len(v) for k, v in classes.items()},
               explained_by_known_findings={k: len(v) for k, v in known_hits.items()},
               confirmed_classes=sorted(confirmed), not_reproduced=unconfirmed, notes=dict(notes), known_findings=known,
               relay_sanitizer_reports=len(crashes), wall_real_runs=round(t_run - t0, 1), exhaustive=False)
    tlc_tmp_cleanup()
    vlib.write_evidence(pid, tier, seed, "model_checking", cov, time.time() - t0, violations=len(violations),
                        assumptions=["both applications flush (xcm_finish) before xcm_close; CloseAfterData is evaluated only for an "
                                     "orderly close (flushed, nothing unread) observed by a receiver none of whose own sends failed",
                                     "a missing delivery is a stall only after %d ms without any progress while something is owed and both "
                                     "legs are live; the execution is re-run alone (limit doubled) before it is reported" % T["limit"],
                                     "kernel socket buffers are the environment; the second relay binary only sets SO_SNDBUF/SO_RCVBUF "
                                     "on the relay's TCP sockets",
                                     "TLC and the JSON/IOUtils community modules are trusted"])
    return violations, known


def rerun(batch, e, root, bins, limit, name):
    """the execution alone (after the calibration execution), sequentially, nothing else running"""
    b = dict(batch)
    b["attempt"] = 7
    res = None
    for attempt in range(3):
        b["attempt"] = 7 + attempt
        res = run_batch(b, root, bins, limit, execs=[batch["execs"][0], e], name=name)
        if res["rc"] != 2 and started_ok(res):
            break
    else:
        if res["rc"] != 2 and calib_stalled(res):
            raise CalibStall(res)
        raise InternalError("re-run could not be started: %s" % res["relay_out"][-1000:])
    vl, stat, _ = validate(res["trace"], name)
    firsts, _ = first_per_exec(vl)
    return dict(res=res, first=firsts, all=vl, busy=busy_ms(res["trace"]))


SLOW_MS = 2500


def busy_ms(lines):
    """per execution: elapsed time not spent waiting in a time-out.  XCM's TCP legs have tcp.user_timeout = 3 s: a leg whose
    receiver does not read for that long is aborted by the kernel, whatever sits in between; an execution that took longer
    than SLOW_MS (machine load) proves nothing about the relay."""
    last, waited = {}, collections.Counter()
    for ln in lines:
        r = json.loads(ln)
        last[r["x"]] = r["t"]
        if r["ev"] == "rcv" and r["res"] == "to":
            waited[r["x"]] += r["w"]
    return {x: last[x] - waited[x] for x in last}


def replay_body(b, e, script, v, sig, n, pairs):
    head = ["# %s" % describe(v, b, e),
            "# class %s/%s: %d executions in this run; pairs: %s" % (v["tag"], v["detail"], n, " ".join(pairs)),
            "# signature for known_findings.json: %s" % json.dumps(sig, sort_keys=True),
            "# replay: bin/check %s --replay <this file>" % PID,
            "#@ " + json.dumps(dict(a=b["a"], b=b["b"], stream=b["stream"], var=b["var"], sndbuf=b["sndbuf"], tag=b["tag"],
                                    cal=b["execs"][0], e=e))]
    return "\n".join(head + script) + "\n"


def replay(pid, path):
    meta = None
    for ln in open(path):
        if ln.startswith("#@ "):
            meta = json.loads(ln[3:])
    if meta is None:
        raise InternalError("not a C20 replay file (no '#@' line); TLC counterexamples are re-checked by running the check")
    vlib.sh("%s/bin/gencreds.sh" % vlib.V, check=True)
    names = ["xcmrelay", "xcmrelay_sb", "relay_exec"]
    bins = dict(zip(names, vlib.build(names)))
    root = vlib.RUN + "/%s_replay" % pid
    os.makedirs(root, exist_ok=True)
    b = dict(id=0, a=meta["a"], b=meta["b"], stream=meta["stream"], var=meta["var"], sndbuf=meta["sndbuf"], tag=meta["tag"],
             execs=[meta["cal"], meta["e"]])
    rr = rerun(b, meta["e"], root, bins, 10000, "r")
    bad = []
    for v in rr["all"]:
        is_v = v["tag"].startswith("C20.")
        print("MISMATCH" if is_v else "note", describe(v, b, meta["e"] if v["x"] == meta["e"]["x"] else meta["cal"]))
        if is_v:
            bad.append(v)
    print("replayed execution %d on %s-%s (%s), trace %s/trace.ndjson" % (meta["e"]["x"], b["a"], b["b"], b["var"], rr["res"]["dir"]))
    tlc_tmp_cleanup()
    return bad
