"""C13 - name resolution and multi-address connect follow the selected algorithm.

Pipeline per run:
  1. build harness/tconn_exec from /repo's working tree (ASan/UBSan, stack-use-after-return on) with the scripted
     resolver (shim/cares_stub.c) instead of c-ares and the connect/clock shim (shim/shim_tconn.c)
  2. TLC on spec/TConnectMC.tla: every scenario (address list x behaviours x algorithm x resolver x local address x
     connect time-out) with every interleaving of polling calls, resolver answer and timers; the properties of
     spec/TConnect.tla are invariants; every complete behaviour is printed ("@P": scenario, schedule, outcome)
  3. every printed schedule is replayed into the real library in virtual time (plus scenarios beyond the exhaustive
     bound: long lists, 32/33 addresses, xcm_server on names, blocking mode) and recorded
  4. TLC validates every recorded execution against spec/TConnectTrace.tla (model part: notes; history part: the
     statement of C13 on what was observed -> C13.* tags; C05.wait tags are recorded for the C05 check)
  5. a sample of scenarios runs on the real clock with short time-outs: the observed outcome must be in the set of
     outcomes TLC found for that scenario, no hang, elapsed time below a generous bound derived from the model
"""
import collections
import concurrent.futures
import json
import os
import random
import re
import subprocess
import time

import vlib
from vlib import InternalError

PID = "C13"
BEH = {1: "a", 2: "r", 3: "s", 4: "u"}
BEHN = {"a": "accept", "r": "refuse", "s": "silent", "u": "unreach"}

TIERS = {
    "quick": dict(mc=dict(MaxLen=3, FullLen=2, Mod=100, Keep=10, MaxLate=1), max_paths=5500, aux_every=6,
                  n_long=60, n_rt=10, chunks=8, mc_workers=8, crash_cap=25),
    "thorough": dict(mc=dict(MaxLen=4, FullLen=3, Mod=100, Keep=9, MaxLate=1), max_paths=400000, aux_every=8,
                     n_long=1500, n_rt=40, chunks=16, mc_workers=12, crash_cap=120),
}
ASAN_ENV = {"ASAN_OPTIONS": "detect_leaks=0:abort_on_error=0:exitcode=99:detect_stack_use_after_return=1",
            "UBSAN_OPTIONS": "print_stacktrace=1", "XCM_CTL": "/nonexistent-verif",
            "XCM_TLS_CERT": vlib.BUILD + "/creds/default"}
PORT0 = 12000 + (os.getpid() % 2) * 8000     # fixed local ports (loc=v4p) come from here; two runs rarely share a block
INVS = "InvOrder InvOutcome InvWhich InvErrno InvBoundLocal InvNoHang InvBudget InvEtimedout EmitInv"


def tla_set(xs):
    return "{" + ", ".join('"%s"' % x if isinstance(x, str) else str(x) for x in xs) + "}"


# ------------------------------------------------------------------ model checking -----
def write_cfg(name, consts):
    d = vlib.BUILD + "/cfg"
    os.makedirs(d, exist_ok=True)
    lines = ["SPECIFICATION Spec", "CONSTANTS"] + ["  %s = %s" % kv for kv in consts.items()]
    lines += ["INVARIANTS " + INVS, "CHECK_DEADLOCK FALSE"]
    path = "%s/tconnmc_%s_%d.cfg" % (d, name, os.getpid())
    with open(path, "w") as f:
        f.write("\n".join(lines) + "\n")
    return path


def run_mc(name, consts, workers):
    cfg = write_cfg(name, consts)
    try:
        r = vlib.tlc("TConnectMC", cfg, workers=workers, timeout=2400, heap="4g",
                     metadir="%s/tconnmc.%s.%d" % (vlib.TLCDIR, name, os.getpid()))
    finally:
        os.unlink(cfg)
    if r["error"]:
        raise InternalError("TLC failed on TConnectMC/%s:\n%s" % (name, r["error"]))
    paths = []
    for ln in r["out"].splitlines():
        if ln.startswith('"@P '):
            try:
                paths.append(json.loads(json.loads(ln)[3:]))
            except ValueError:
                raise InternalError("unparsable behaviour line from TLC: %s" % ln[:200])
    r["out_tail"] = r["out"][-20000:]
    r["out"] = ""
    return r, paths


def mc_consts(T, seed, **over):
    c = dict(MaxLen=T["MaxLen"], FullLen=T["FullLen"], Seed=seed % 1000, Mod=T["Mod"], Keep=T["Keep"],
             Algs=tla_set(["single", "sequential", "happy"]), Ress=tla_set(["sync", "later"]),
             Locs=tla_set(["none", "v4", "v6"]), Tps=tla_set(["tcp", "btcp"]), CrossTp="FALSE", MaxLate=T["MaxLate"],
             Extras="TRUE", Emit="TRUE", TlsTps=tla_set(["tls", "btls", "utls"]))
    c.update(over)
    return c


# ------------------------------------------------------------------------ scenarios -------
def ips_str(ips):
    return "".join("%d%s" % (f, BEH[b]) for f, b in ips)


def scn_line(i, sc, sched, aux=0):
    mode, kind, tp, alg, res, loc, cto, dto, ue, blk, rot, ips = sc
    s = "%d mode=%s kind=%s tp=%s alg=%s res=%s loc=%s cto=%d dto=%d ue=%d blk=%d rot=%d aux=%d" % (
        i, mode, kind, tp, alg, res, loc, cto, dto, ue, blk, rot, aux)
    if ips:
        s += " ips=" + ips_str(ips)
    if i % 2 and kind == "conn":
        s += " ka=%d" % (1 + i % 9)         # tcp keepalive / user time-out values of the connect map
    if sched:
        s += " sched=" + sched
    return s


def sched_str(hist):
    return ",".join("a%d" % h if isinstance(h, int) else h for h in hist) + ",auto"


def sc_key(sc):
    return json.dumps(sc, separators=(",", ":"))


def describe(line):
    """human description of a scenario line"""
    kv = dict(t.split("=", 1) for t in line.split()[1:])
    ips = kv.get("ips", "")
    lst = ", ".join("v%s %s" % (ips[i], BEHN[ips[i + 1]]) for i in range(0, len(ips), 2))
    what = "xcm_server on a name" if kv.get("kind") == "server" else "%s connect, dns.algorithm=%s" % (kv["tp"], kv["alg"])
    return "%s, resolver=%s, answer=[%s], xcm.local_addr=%s, tcp.connect_timeout=%sms, dns.timeout=%sms, %s, %s clock, " \
           "schedule %s" % (what, kv["res"], lst, kv["loc"], kv["cto"], kv["dto"],
                            "blocking" if kv.get("blk") == "1" else "non-blocking",
                            "virtual" if kv["mode"] == "vt" else "real", kv.get("sched", "-"))


def extra_scenarios(T, rnd):
    """scenarios beyond the exhaustive bound; validated by the same trace specification"""
    out = []

    def lst(n, last=None):
        ips = [[rnd.choice((4, 6)), rnd.choice((2, 2, 3, 4))] for _ in range(n)]
        if last is not None:
            ips[-1][1] = last
        return ips

    # the first 32 addresses count: the only accepting one at position 32 / 33
    for alg in ("sequential", "happy", "single"):
        for pos in (32, 33):
            for fam in (4, 6):
                ips = [[fam if k % 3 else 10 - fam, 2 if k % 2 else 4] for k in range(34)]
                ips = ips[:pos - 1] + [[fam, 1]] + ips[pos:]
                out.append((["vt", "conn", rnd.choice(("tcp", "btcp")), alg, rnd.choice(("sync", "later")), "none", 150, 300,
                             rnd.choice((101, 113)), 0, rnd.randrange(3), ips[:34]], "c,auto"))
    for _ in range(T["n_long"]):
        n = rnd.choice((4, 5, 6, 8, 12, 20, 33))
        ips = lst(n, rnd.choice((1, 1, 2, 3)))
        if rnd.random() < 0.5:
            ips[rnd.randrange(n)][1] = 1
        if n > 8:       # keep the silent addresses few: each costs an advance, not time
            for p in ips[:-1]:
                if p[1] == 3 and rnd.random() < 0.6:
                    p[1] = 2
        loc = rnd.choice(("none", "none", "v4", "v6"))
        out.append((["vt", "conn", rnd.choice(("tcp", "btcp")), rnd.choice(("sequential", "happy", "happy", "single", "none")),
                     rnd.choice(("sync", "later")), loc, rnd.choice((150, 300)), 300, rnd.choice((101, 113)),
                     rnd.choice((0, 0, 0, 1)), rnd.randrange(3), ips], "c,auto"))
    # the answer arrives in time, the application makes its next call only after dns.timeout has run out
    for alg in ("single", "sequential", "happy"):
        for tp in ("tcp", "btcp"):
            for sched in ("c,r,a%d,p,auto", "c,a100,r,a%d,p,auto", "c,a300,r,a%d,auto"):
                ips = [[rnd.choice((4, 6)), 1]] if alg == "single" else lst(rnd.choice((1, 2, 3)), 1)
                out.append((["vt", "conn", tp, alg, "later", "none", 150, 300, 101, 0, rnd.randrange(3), ips],
                            sched % rnd.choice((301, 350))))      # (the time-bound clause is judged for prompt applications)
    # xcm_server / xcm_server_a on a name that resolves, resolves late, fails, fails late, never answers
    for tp in ("tcp", "btcp"):
        for res in ("sync", "later", "fail", "faillater", "silent"):
            out.append((["vt", "server", tp, "none", res, "none", 150, 300, 101, 0, 0, []], "c"))
    return out


# ---------------------------------------------------------------------- execution -------
BLANK = {"x": 0, "n": 999, "ev": "crash", "op": "", "ret": 0, "err": 0, "t": 0, "rd": -1, "w": 0, "nb": 0, "sys": [],
         "acc": 0, "src": 0, "dat": 0, "hg": 0, "un": 0, "sc": [], "opt": []}


RX = re.compile(r'^\{"x":(\d+),"n":\d+,"ev":"(\w+)"')


def complete_lines(path):
    try:
        with open(path) as f:
            data = f.read()
    except FileNotFoundError:
        return []
    lines = data.split("\n")
    lines.pop()
    return [ln for ln in lines if ln]


def crash_reason(rc, err):
    m = re.search(r"ERROR: AddressSanitizer: (\S+)", err)
    if m:
        fr = re.findall(r"#\d+ 0x[0-9a-f]+ in (\S+) (\S+)", err)
        lib = [(f, p) for f, p in fr if "/libxcm/" in p or "/common/" in p]
        where = " in %s (%s)" % (lib[0][0], os.path.basename(lib[0][1])) if lib else ""
        return "AddressSanitizer: %s%s" % (m.group(1), where)
    for ln in err.splitlines():
        if "runtime error" in ln or "Assertion" in ln:
            return ln.strip()[:160]
    return "no result within the watchdog time" if rc == -999 else "exit status %d" % rc


def run_once(binary, lines, base, timeout, portbase):
    sf, of = base + ".scn", base + ".out"
    with open(sf, "w") as f:
        f.write("\n".join(lines) + "\n")
    if os.path.exists(of):
        os.unlink(of)
    env = dict(os.environ)
    env.update(ASAN_ENV)
    try:
        p = subprocess.run([binary, sf, of, str(portbase)], stdout=subprocess.PIPE, stderr=subprocess.STDOUT, env=env,
                           timeout=timeout, text=True, errors="replace")
        rc, err = p.returncode, p.stdout
    except subprocess.TimeoutExpired as e:
        rc, err = -999, (e.stdout or "") if isinstance(e.stdout, str) else ""
    return rc, err, complete_lines(of)


def run_chunk(binary, lines, base, portbase, per_scn=0.05, crash_cap=100):
    """Runs the scenarios of one chunk; a crash or a hang of the harness process becomes a crash record of the scenario
    that was running and the run continues behind it."""
    out, crashes, k, rounds, skipped = [], [], 0, 0, 0
    ids = [int(ln.split()[0]) for ln in lines]
    while k < len(lines):
        rounds += 1
        rest = lines[k:]
        rc, err, recs = run_once(binary, rest, "%s.r%d" % (base, rounds), 60 + per_scn * len(rest) * 20, portbase)
        ended, started = set(), set()
        for r in recs:
            m = RX.search(r)
            if not m:
                raise InternalError("harness wrote an unparsable record: %s" % r[:200])
            if m.group(2) == "end":
                ended.add(int(m.group(1)))
            elif m.group(2) == "scn":
                started.add(int(m.group(1)))
        if rc == 0:
            out.extend(recs)
            if len(ended) != len(rest):
                raise InternalError("harness ended normally after %d of %d scenarios" % (len(ended), len(rest)))
            break
        if rc in (2, 3):
            raise InternalError("harness rejected its input (%d):\n%s" % (rc, err[-2000:]))
        # the scenario that was running: the first of this round without an "end" record
        pos = next((i for i, ln in enumerate(rest) if ids[k + i] not in ended), None)
        if pos is None:
            raise InternalError("harness failed after its last scenario (%d):\n%s" % (rc, err[-2000:]))
        vid = ids[k + pos]
        out.extend(recs)
        if vid not in started:
            raise InternalError("harness died before scenario %d started (%d):\n%s" % (vid, rc, err[-3000:]))
        why = crash_reason(rc, err)
        with open("%s.crash%d.txt" % (base, vid), "w") as f:
            f.write(err[-30000:])
        c = dict(BLANK, x=vid, op=why)
        out.append(json.dumps(c, separators=(",", ":")))
        crashes.append((vid, why))
        k += pos + 1
        if len(crashes) >= crash_cap:      # the rest of the chunk is not executed (counted in the evidence)
            skipped = len(lines) - k
            break
    with open(base + ".ndjson", "w") as f:
        f.write("\n".join(out) + "\n")
    return base + ".ndjson", len(out), crashes, skipped


def validate(trace, n):
    r = vlib.tlc("TConnectTrace", "TConnectTrace.cfg", workers=1, timeout=2400, dfs=True, heap="3g", env={"TRACE": trace},
                 metadir="%s/tconntv.%s.%d" % (vlib.TLCDIR, os.path.basename(trace), os.getpid()))
    vl, stat = [], None
    for ln in r["out"].splitlines():
        if ln.startswith('"@V '):
            v = json.loads(json.loads(ln)[3:])
            vl.append(dict(x=v[0], n=v[1], tag=v[2], exp=v[3], obs=v[4]))
        elif ln.startswith('"@STAT '):
            stat = json.loads(json.loads(ln)[6:])
    if r["error"] or stat is None or r["distinct"] != n + 1 or "Postcondition" in r["out"]:
        raise InternalError("trace validation did not consume %s (%d lines, %d states):\n%s"
                            % (trace, n, r["distinct"], (r["error"] or r["out"][-3000:])))
    return vl, stat, r


def execute_and_validate(binary, lines, tag, nchunks, crash_cap):
    d = vlib.fresh_dir("%s/%s" % (vlib.RUN, tag))
    nb = max(1, min(nchunks, len(lines) // 20 or 1))
    chunks = [lines[i::nb] for i in range(nb)]

    def job(i):
        trace, n, cr, skipped = run_chunk(binary, chunks[i], "%s/c%d" % (d, i), PORT0 + 400 * i, crash_cap=crash_cap)
        vl, stat, r = validate(trace, n)
        return vl, stat, cr, n, r, skipped

    allv, stats, crashes, nrec, tv_states, skipped = [], collections.Counter(), [], 0, 0, 0
    with concurrent.futures.ThreadPoolExecutor(max_workers=min(nb, vlib.NCPU)) as ex:
        for vl, stat, cr, n, r, sk in ex.map(job, range(nb)):
            allv.extend(vl)
            stats.update(stat)
            crashes.extend(cr)
            nrec += n
            tv_states += r["distinct"]
            skipped += sk
    return d, allv, dict(stats), crashes, nrec, tv_states, skipped


# ---------------------------------------------------------------- real-time sample -------
def rt_observed(recs):
    """(ok, errno, order of connect attempts, accepting listener) of one real-time execution, elapsed ms, hang"""
    order, ok, err, acc, tv, hang = [], 0, 0, 0, 0, False
    for d in recs:
        order += [e[1] for e in d["sys"] if e[0] == 2]
        if d["hg"] or (d["ev"] == "env" and d["op"] == "stuck"):
            hang = True
        if d["ev"] == "api" and d["op"] in ("connect", "finish", "send", "receive") and not ok and not err:
            if d["ret"] < 0 and d["err"] != 11:
                err, tv = d["err"], d["t"]
            elif (d["op"] == "finish" and d["ret"] == 0) or (d["op"] == "send" and d["ret"] > 0):
                ok, tv = 1, d["t"]
        if d["ev"] == "end":
            acc = d["acc"]
    return (ok, err, order, acc if ok else 0), tv, hang


def run_rt(binary, items, tag, jobs):
    """items: list of (id, sc, admissible outcomes); one harness process per scenario"""
    d = vlib.fresh_dir("%s/%s" % (vlib.RUN, tag))

    def job(k):
        i, sc, _adm = items[k]
        rc, err, recs = run_once(binary, [scn_line(i, sc, "")], "%s/rt%d" % (d, k), 60, PORT0 + 6400 + 20 * (k % 40))
        recs = [json.loads(r) for r in recs]
        if rc != 0 and recs:
            recs.append(dict(BLANK, x=i, op=crash_reason(rc, err)))
        return i, recs, rc

    by_x, fails = {}, []
    with concurrent.futures.ThreadPoolExecutor(max_workers=jobs) as ex:
        for i, recs, rc in ex.map(job, range(len(items))):
            by_x[i] = recs
            if rc != 0:
                fails.append(rc)
    return by_x, fails


def rt_judge(items, by_x):
    bad, ok = [], 0
    for i, sc, adm in items:
        recs = by_x.get(i)
        crash = [r for r in recs or [] if r["ev"] == "crash"]
        if crash:
            bad.append((i, sc, "C13.crash", crash[0]["op"], None))
            continue
        if not recs or recs[-1]["ev"] not in ("end", "api"):
            bad.append((i, sc, "C13.hang", "no complete execution (harness died or was stopped by the watchdog)", None))
            continue
        obs, tv, hang = rt_observed(recs)
        admset = set((a[0], a[1], tuple(a[2]), a[3] if a[0] else 0) for a in adm)
        bound = 4 * max(a[4] for a in adm) + 2000
        if hang:
            bad.append((i, sc, "C13.hang", "no verdict within %d s of real time" % 20, obs))
        elif (obs[0], obs[1], tuple(obs[2]), obs[3]) not in admset:
            bad.append((i, sc, "C13.outcome", "outcome (ok, errno, attempt order, listener) = %s not among the %d outcomes the "
                        "specification admits: %s" % (list(obs), len(admset), sorted(admset)[:6]), obs))
        elif tv > bound:
            bad.append((i, sc, "C13.budget", "verdict after %d ms of real time; bound %d ms (4 x model time + 2 s)" % (tv, bound), obs))
        else:
            ok += 1
    return bad, ok


# ------------------------------------------------------------------------ verdicts -------
def root_cause(v, recs):
    """what in the recorded execution explains the mismatch (part of the class, so that one defect is one class)"""
    if v["tag"] == "C13.crash":
        return str(v["obs"])[:90]
    if v["tag"] == "C13.hang":
        return str(v["obs"])[:60] if isinstance(v["obs"], str) else "lost wake-up"
    for d in recs:
        for e in d["sys"]:
            if e[0] == 1 and e[2] < 0 and e[3] == 22:
                return "bind() of an already bound socket: EINVAL"
    return ""


def classify(v, line, recs):
    """class of a mismatch: tag / root cause if one is visible, else algorithm / what the scenario has that matters"""
    kv = dict(t.split("=", 1) for t in line.split()[1:])
    if v["tag"] == "C05.wait":
        if kv.get("loc", "").startswith("name"):
            return "C05.wait/named_local_addr"
        if kv.get("kind") == "server":
            return "C05.wait/server_name"
        return "C05.wait/%s/%s" % (kv.get("tp", "-"), kv.get("alg", "-"))
    why = root_cause(v, recs)
    if why:
        return "%s/%s%s" % (v["tag"], "xcm_server: " if kv.get("kind") == "server" else "", why)
    feats = []
    if kv.get("kind") == "server":
        feats.append("server")
    if kv.get("loc", "none") != "none":
        feats.append("local_addr" + ("_port" if kv["loc"] == "v4p" else "_name" if kv["loc"].startswith("name") else ""))
    if kv.get("blk") == "1":
        feats.append("blocking")
    if kv.get("res") in ("fail", "faillater", "silent"):
        feats.append("unresolvable")
    if kv.get("mode") == "rt":
        feats.append("realtime")
    del feats       # (the scenario itself is part of the report; the class stays coarse: one line per tag and algorithm)
    return "%s/%s%s" % (v["tag"], kv.get("alg", "-") if kv.get("kind") != "server" else "server",
                        "/realtime" if kv.get("mode") == "rt" else "")


def records_of(d, xs):
    """records of the executions xs from the chunk traces in directory d"""
    want = set(xs)
    out = collections.defaultdict(list)
    for fn in sorted(os.listdir(d)):
        if not fn.endswith(".ndjson"):
            continue
        for ln in open(os.path.join(d, fn)):
            m = RX.search(ln)
            if m and int(m.group(1)) in want:
                out[int(m.group(1))].append(json.loads(ln))
    return out


def c11_part(pid, tier, seed):
    """For C11 (accepted attribute values are in force): connections that come out of a multi-address connect - a name
    that resolves to addresses of both families, earlier addresses refusing / silent / unreachable, every dns.algorithm,
    TCP option values given in the connect map or left at their defaults - recorded by the C13 harness and validated
    against TConnectTrace; the C11.* verdicts (reported = configured, reported = what the kernel has on the connection's
    descriptor) are returned.  -> (violations, statistics)"""
    rnd = random.Random(seed * 7 + 11)
    binary = vlib.build(["tconn_exec"])[0]
    lines = []
    n = 160 if tier == "quick" else 1600
    for k in range(n):
        nips = rnd.choice((2, 2, 3, 4, 6))
        first = rnd.choice((4, 6))
        ips = [[first if j == 0 else (10 - first if j == nips - 1 else rnd.choice((4, 6))), rnd.choice((2, 2, 4, 3))]
               for j in range(nips)]
        ips[-1][1] = 1
        if rnd.random() < 0.3:
            ips[rnd.randrange(nips)][1] = 1
        if sum(1 for p_ in ips if p_[1] == 3) > 1:
            for p_ in ips[1:-1]:
                p_[1] = 2 if p_[1] == 3 else p_[1]
        sc = ["vt", "conn", rnd.choice(("tcp", "btcp")), rnd.choice(("sequential", "sequential", "happy", "single", "none")),
              rnd.choice(("sync", "later")), rnd.choice(("none", "none", "none", "v4", "v6")), rnd.choice((150, 300)), 300,
              rnd.choice((101, 113)), rnd.choice((0, 0, 0, 1)), rnd.randrange(3), ips]
        lines.append(scn_line(len(lines) + 1, sc, "c,auto"))
    by_id = {int(ln.split()[0]): ln for ln in lines}
    d, allv, stats, crashes, nrec, tv_states, skipped = execute_and_validate(binary, lines, "%s_tconn_%s" % (pid, tier),
                                                                                4 if tier == "quick" else 8, 25)
    with_opts = 0
    for r in records_of(d, by_id.keys()).values():
        with_opts += sum(1 for x in r if x["ev"] == "end" and len(x.get("opt", [])) == 15)
    if with_opts < n // 4:
        raise InternalError("vacuous multi-address connect run for %s: %d of %d executions ended with a connection whose "
                            "options were read (%s)" % (pid, with_opts, n, stats))
    unsettled = set(v["x"] for v in allv if v["tag"] == "INCONCLUSIVE")
    classes = collections.defaultdict(list)
    for v in allv:
        if v["tag"].startswith("C11.") and v["x"] not in unsettled:
            kv = dict(t.split("=", 1) for t in by_id[v["x"]].split()[1:])
            classes["%s/%s" % (v["tag"], kv["alg"])].append((len(by_id[v["x"]]), v["x"], v))
    violations = []
    for key in sorted(classes):
        items = sorted(classes[key])
        _, x, v = items[0]
        text = "%s in: %s; expected %s, observed %s" % (v["tag"], describe(by_id[x]), json.dumps(v["exp"])[:200],
                                                       json.dumps(v["obs"])[:200])
        body = "# %s\n# class %s: %d executions in this run; the smallest scenarios follow\n" \
               "# replay: bin/check %s --replay <this file>\n%s\n" % (text, key, len(items), pid,
                                                                      "\n".join(by_id[i] for _, i, _ in items[:5]))
        rp = vlib.save_replay(pid, re.sub(r"[^A-Za-z0-9_.-]+", "_", key.replace("C11.", "tconn_")) + ".scn", body)
        violations.append(("conformance", "%s [%d executions]" % (text, len(items)), rp))
    return violations, dict(multi_address_connects=len(lines), connections_with_kernel_options_read=with_opts,
                            records=nrec, trace_validation_states=tv_states, crashes=len(crashes),
                            mismatch_classes={k: len(v) for k, v in classes.items()})


def check(pid, tier, seed, as_c05=False, as_c04=False):
    """as_c05: run for property C05 (non-blocking sockets never sleep): the same scenarios (a smaller sample), but the
    C05.wait records are the verdicts and (violations, known, coverage) is returned instead of written as evidence"""
    t0 = time.time()
    if tier not in TIERS:
        tier = "quick"
    T = TIERS[tier]
    if as_c05 or as_c04:
        T = dict(T, max_paths=min(T["max_paths"], 2500 if tier == "quick" else 20000))
    # as_c04 (event-loop contract during resolution and multi-address connect): the hang verdicts - a lost wake-up while
    # the model is in step, a call that never returns, no verdict within the watchdog - are the verdicts
    prim = "C05." if as_c05 else "C13.hang" if as_c04 else "C13."
    rnd = random.Random(seed)
    binary = vlib.build(["tconn_exec"])[0]
    if os.path.isdir(vlib.REPLAYS):         # replay files of earlier runs of this check
        for fn in os.listdir(vlib.REPLAYS):
            if fn.startswith(pid + "_"):
                os.unlink(os.path.join(vlib.REPLAYS, fn))
    vlib.sh(vlib.V + "/bin/gencreds.sh", env={"VERIF_BUILD": vlib.BUILD}, check=True, timeout=300)

    # ---- 2. the properties on the bounded model; TLC prints the behaviours ---------------
    with concurrent.futures.ThreadPoolExecutor(max_workers=2) as ex:
        f_main = ex.submit(run_mc, "main", mc_consts(T["mc"], seed), T["mc_workers"])
        # the real-time sample: lists of two, the application may be late for every timer
        f_rt = ex.submit(run_mc, "rt", mc_consts(dict(T["mc"], MaxLen=2, FullLen=2, MaxLate=4), seed, Extras="FALSE",
                                                 Locs=tla_set(["none", "v4"]), CrossTp="FALSE", TlsTps="{}"), 3)
        r_main, paths = f_main.result()
        r_rt, rt_paths = f_rt.result()
    violations, known = [], []
    mc_summary = {}
    for n, r, p in (("main", r_main, paths), ("rt", r_rt, rt_paths)):
        mc_summary[n] = dict(distinct=r["distinct"], generated=r["generated"], depth=r["depth"], wall=round(r["wall"], 1),
                             behaviours=len(p), scenarios=len(set(sc_key(x[0]) for x in p)))
        if r["violated"]:
            rp = vlib.save_replay(pid, "tlc_%s.txt" % n, r["out_tail"])
            violations.append(("design", "TLC: invariant %s of TConnectMC violated (configuration %s)" % (",".join(r["violated"]), n), rp))
    if not violations:
        if r_main["distinct"] < 5000 or len(paths) < 1000:
            raise InternalError("TLC explored implausibly little: %s" % mc_summary)
        toks = collections.Counter()
        for _sc, hist, out in paths:
            toks.update(set("a" if isinstance(h, int) else h for h in hist))
            toks["late" if out[5] else "prompt"] += 1
            toks["ok" if out[0] else "fail"] += 1
        for need in ("c", "p", "r", "a", "late", "prompt", "ok", "fail"):
            if toks[need] == 0:
                raise InternalError("vacuous model run: no behaviour with %s (%s)" % (need, dict(toks)))
    paths.sort(key=lambda p: json.dumps(p))
    rt_paths.sort(key=lambda p: json.dumps(p))

    # ---- 3. scenarios: every behaviour TLC printed (sampled down to the tier's budget), plus the ones beyond the bound
    if len(paths) > T["max_paths"]:
        by_sc = collections.defaultdict(list)
        for p in paths:
            by_sc[sc_key(p[0])].append(p)
        keys = sorted(by_sc)
        rnd.shuffle(keys)
        pick, n = [], 0
        # keep whole scenarios (all their interleavings); the list-independent ones always
        for k in keys:
            sc = by_sc[k][0][0]
            special = sc[4] not in ("sync", "later") or sc[9] == 1 or sc[5] in ("v4p", "name4", "namex") or \
                sc[2] not in ("tcp", "btcp")
            if special or n < T["max_paths"]:
                pick.extend(by_sc[k])
                n += 0 if special else len(by_sc[k])
        sel = pick
    else:
        sel = paths
    sel.sort(key=lambda p: (p[0][5] != "none", json.dumps(p)))
    # order: the scenarios beyond the bound (xcm_server on names, long lists) first, those with a local address last:
    # if crashes make the run stop early (crash cap), it is the crashing class that is not executed
    lines = []
    extras = extra_scenarios(T, rnd)
    extras.sort(key=lambda e: e[0][5] != "none")
    for sc, sched in extras:
        i = len(lines) + 1
        lines.append(scn_line(i, sc, sched, aux=1 if i % 3 == 0 else 0))
    n_extra = len(lines)
    for sc, hist, _out in sel:
        i = len(lines) + 1
        lines.append(scn_line(i, sc, sched_str(hist), aux=1 if i % T["aux_every"] == 0 else 0))
    n_model = len(lines) - n_extra
    by_id = {int(ln.split()[0]): ln for ln in lines}

    d, allv, stats, crashes, nrec, tv_states, skipped = execute_and_validate(binary, lines, "%s_%s" % (pid, tier), T["chunks"],
                                                                                T["crash_cap"])
    if stats.get("scn", 0) + skipped != len(lines):
        raise InternalError("%d scenarios but %d recorded executions (+%d skipped)" % (len(lines), stats.get("scn", 0), skipped))
    if stats.get("ok", 0) < 50 or stats.get("fail", 0) < 50 or stats.get("multi", 0) < 50 or stats.get("env", 0) < 50:
        raise InternalError("vacuous run: %s" % stats)

    # ---- 5. real-time sample -----------------------------------------------------------------
    rt_by_sc = collections.defaultdict(list)
    for sc, _hist, out in rt_paths:
        rt_by_sc[sc_key(sc)].append(out)
    keys = sorted(rt_by_sc)
    rnd.shuffle(keys)
    # prefer scenarios in which time matters
    keys.sort(key=lambda k: -sum(1 for p in json.loads(k)[11] if p[1] == 3))
    rt_items = []
    for k in keys[:T["n_rt"]]:
        sc = json.loads(k)
        sc[0] = "rt"
        rt_items.append((100000 + len(rt_items), sc, rt_by_sc[k]))
    by_x, rt_fails = run_rt(binary, rt_items, "%s_%s_rt" % (pid, tier), 5)
    rt_bad, rt_ok = rt_judge(rt_items, by_x)
    if rt_bad:
        # never let load decide: what failed is run again, alone
        again = [(i, sc, adm) for i, sc, adm in rt_items if i in set(b[0] for b in rt_bad)]
        by_x2, _ = run_rt(binary, again, "%s_%s_rt2" % (pid, tier), 1)
        rt_bad2, _ok2 = rt_judge(again, by_x2)
        rt_inconclusive = len(rt_bad) - len(rt_bad2)
        rt_bad = rt_bad2
    else:
        rt_inconclusive = 0

    # ---- 6. verdicts ---------------------------------------------------------------------------
    notes, c05, first = collections.Counter(), [], {}
    # executions in which the environment did not settle say nothing about the library
    unsettled = set(v["x"] for v in allv if v["tag"] == "INCONCLUSIVE")
    for v in sorted(allv, key=lambda v: (v["x"], v["n"])):
        if v["x"] in unsettled:
            if v["tag"] == "INCONCLUSIVE":
                notes["INCONCLUSIVE"] += 1
            continue
        if v["tag"].startswith(prim):
            first.setdefault(v["x"], v)          # later mismatches of an execution may be consequences
            if v["tag"] == "C05.wait":
                c05.append(v)
        elif v["tag"] == "C05.wait":
            c05.append(v)
        else:
            notes[v["tag"]] += 1
    if notes.get("INCONCLUSIVE", 0) > len(lines) // 50:
        raise InternalError("the environment did not settle in %d executions" % notes["INCONCLUSIVE"])
    # for the C05 check (non-blocking sockets never sleep): every library call on a non-blocking socket during which a
    # waiting primitive with a non-zero time-out was seen, with its scenario
    c05_list = [dict(scenario=by_id[v["x"]], step=v["n"], call=v["obs"][0], waits=v["obs"][1]) for v in c05]
    with open(d + "/c05_wait.json", "w") as f:
        json.dump(c05_list, f, indent=1)
    classes = collections.defaultdict(list)
    recs_of = records_of(d, first.keys())
    for x, v in first.items():
        if any(e[0] == 1 and e[3] == 98 for r in recs_of.get(x, []) for e in r["sys"]):
            notes["INCONCLUSIVE.port_in_use"] += 1      # somebody else took the local port of this scenario
            continue
        classes[classify(v, by_id[x], recs_of.get(x, []))].append((len(by_id[x]), x, v))
    for i, sc, tag, text, _obs in rt_bad:
        ln = scn_line(i, sc, "")
        by_id[i] = ln
        v = dict(x=i, n=0, tag=tag, exp="", obs=text)
        classes[classify(v, ln, by_x.get(i, []))].append((len(ln), i, v))
    for key in sorted(classes):
        items = sorted(classes[key])
        _, x, v = items[0]
        tag, rest = key.split("/", 1)
        text = "%s in: %s; expected %s, observed %s" % (v["tag"], describe(by_id[x]), json.dumps(v["exp"])[:160],
                                                       json.dumps(v["obs"])[:200])
        sig = {"tag": tag, "detail": rest, "class": key}
        f = vlib.match_finding(pid, sig)
        if f:
            k = "property=%s %s (%d executions, e.g. %s)" % (pid, f["what"], len(items), describe(by_id[x])[:160])
            if not any(f["what"] in z for z in known):
                known.append(k)
            continue
        body = "# %s\n# class %s: %d executions in this run; the smallest scenarios follow\n" \
               "# replay: bin/check %s --replay <this file>\n%s\n" % (text, key, len(items), pid,
                                                                      "\n".join(by_id[i] for _, i, _ in items[:5]))
        name = re.sub(r"[^A-Za-z0-9_.-]+", "_", key.replace("C13.", "").replace("C05.", ""))[:80].strip("_") + ".scn"
        rp = vlib.save_replay(pid, name, body)
        violations.append(("conformance", "%s [%d executions]" % (text, len(items)), rp))

    # ---- 7. evidence -----------------------------------------------------------------------------
    samples = [{"scenario": lines[i], "meaning": describe(lines[i])} for i in
               sorted(set([0, n_extra - 1, n_extra + n_model // 3, n_extra + n_model // 2, len(lines) - 1]))]
    for key in sorted(classes)[:6]:
        samples.append({"mismatch_class": key, "executions": len(classes[key])})
    cov = dict(states=r_main["distinct"] + r_rt["distinct"], transitions=r_main["generated"] + r_rt["generated"],
               traces_validated_against_impl=stats.get("scn", 0) + len(rt_items), samples=samples,
               evaluations=stats.get("api", 0) + stats.get("aux", 0),
               distinct_nontrivial=stats.get("multi", 0) + stats.get("fail", 0),
               rule="every execution = one scenario (address list x behaviours x algorithm x resolver x local address) run on "
                    "the real library under one schedule of polling calls / resolver answer / timer expiries that TLC "
                    "enumerated (or, beyond the bound, prompt polling), recorded and validated by TLC against "
                    "TConnectTrace; non-trivial = more than one connect attempt, or a failure verdict; evaluations = "
                    "library API calls recorded",
               model_configurations=mc_summary, behaviours_printed=len(paths), behaviours_replayed=n_model,
               scenarios_beyond_bound=n_extra, records=nrec, trace_validation_states=tv_states,
               executions_connected=stats.get("ok", 0), executions_failed=stats.get("fail", 0),
               executions_with_late_polls=stats.get("late", 0), executions_model_diverged=stats.get("diverged", 0),
               executions_blocking=stats.get("blocking", 0), executions_server=stats.get("server", 0),
               env_steps=stats.get("env", 0), calls_with_waits=stats.get("wait", 0), c05_wait_records=len(c05), c05_wait_file=d + "/c05_wait.json",
               c05_wait_samples=c05_list[:4],
               crashes=len(crashes), not_executed_after_crash_cap=skipped,
               realtime_executions=len(rt_items), realtime_ok=rt_ok, realtime_inconclusive=rt_inconclusive,
               realtime_harness_failures=len(rt_fails),
               mismatch_classes={k: len(v) for k, v in classes.items()}, notes=dict(notes), known_findings=known,
               exhaustive=False)
    if as_c05 or as_c04:
        return violations, known, cov
    vlib.write_evidence(pid, tier, seed, "model_checking", cov, time.time() - t0, violations=len(violations),
                        assumptions=["loopback TCP behaves like the envelope: a listener accepts, a bound non-listening port "
                                     "refuses, a full backlog-0 listener stays silent (verified at harness start)",
                                     "the outcome of an accept/refuse attempt is visible right after connect() (the shim "
                                     "waits for it inside the call)",
                                     "virtual time: clock_gettime/timerfd_settime of the library are translated; the "
                                     "real-clock sample covers the real timerfd integration",
                                     "the scripted resolver stands for c-ares (no sorting of the answer)",
                                     "TLC and the JSON/IOUtils community modules are trusted"])
    return violations, known


def replay(pid, path):
    binary = vlib.build(["tconn_exec"])[0]
    lines = []
    for ln in open(path):
        ln = ln.strip()
        if not ln or ln.startswith("#"):
            continue
        f = ln.split()
        if not f[0].isdigit() or "mode=" not in ln:
            raise InternalError("not a C13 replay file (line %r); TLC counterexamples are re-checked by running the check" % ln[:60])
        f[0] = str(len(lines) + 1)
        lines.append(" ".join(f))
    if not lines:
        raise InternalError("no scenarios in %s" % path)
    d = vlib.fresh_dir("%s/replay_%s" % (vlib.RUN, pid))
    bad = []
    vt = [ln for ln in lines if "mode=vt" in ln]
    if vt:
        trace, n, crashes, _sk = run_chunk(binary, vt, d + "/r", PORT0 + 7600)
        vl, _stat, _r = validate(trace, n)
        by_id = {int(ln.split()[0]): ln for ln in vt}
        for v in vl:
            is13 = v["tag"].startswith(pid + ".")
            print("MISMATCH" if is13 else "note", v["tag"], "step", v["n"], "of:", describe(by_id[v["x"]]), "; expected",
                  json.dumps(v["exp"])[:200], "observed", json.dumps(v["obs"])[:300])
            if is13:
                bad.append(v)
        print("replayed %d scenarios in virtual time, trace %s" % (len(vt), trace))
    rt = [ln for ln in lines if "mode=rt" in ln]
    for ln in rt:
        # real-time scenarios: the hang / crash part is re-checked here; outcome sets need the full run
        rc, err, recs = run_once(binary, [ln], d + "/rt", 60, PORT0 + 7400)
        recs = [json.loads(r) for r in recs]
        obs, tv, hang = rt_observed(recs) if recs else ((0, 0, [], 0), 0, True)
        print("real-time:", describe(ln), "->", obs, "after", tv, "ms", "HANG" if hang or rc != 0 else "")
        if hang or rc != 0:
            bad.append(dict(tag="C13.hang"))
    return bad
