#!/usr/bin/env python3
"""Regenerates /verif/MANIFEST.json from the tables below (run after adding a check)."""
import json
import subprocess

CONN_NOTE = ("Trusted base: TLC + CommunityModules (Json, IOUtils); the kernel's loopback TCP / AF_UNIX sockets behave like the "
             "envelope model; the link-time shim only restricts real calls or injects errnos the kernel can produce; byte "
             "fidelity is judged by the harness's content-addressed payloads. Bounded: exhaustive TLC runs use messages of "
             "<= 3 bytes, <= 2-3 sends per direction; beyond that seeded random executions.")

CHECKS = {
    "C01": dict(
        text="spec/Xcm.tla (tcp framing over btcp, ux) is model-checked exhaustively in small scopes under an adversarial lower layer "
             "(every cut of every header/payload byte, EAGAIN anywhere): invariants C01_Prefix, C01_NoPartial, WireLayout. The same "
             "operators (spec/XcmCore.tla) are bound to the code: TLC-emitted paths and seeded random scripts are executed by "
             "harness/conn_exec against the real library (tcp, ux, uxf) under a link-time shim that cuts/refuses send/recv at the "
             "scripted byte, and every recorded execution is validated by TLC against spec/XcmTrace.tla (expected return values, "
             "message index/length/truncation, content flag). Underneath: spec/Mbuf.tla (libxcm/tp/common/mbuf.h, the frame buffer and "
             "wire encoding, as a step function; RoundTrip, Parse - a frame fed in any split is complete exactly at its last byte -, "
             "Reject, Bounds, Progress; three broken variants refuted) replayed call by call on the real header at the real limits "
             "(spec/MbufTrace.tla).",
        ref="5/C01", tech="TLA+ model checking (TLC) + trace validation of shim-driven executions"),
    "C02": dict(
        text="spec/Xcm.tla with TP=btcp: C02_Prefix, C02_Range checked exhaustively in small scopes; replay paths and random scripts "
             "are run on real btcp connections with the shim cutting every send/recv, each execution validated against XcmTrace "
             "(return ranges, stream-continuity flag computed from the accepted byte ranges, counters).",
        ref="5/C02", tech="TLA+ model checking (TLC) + trace validation of shim-driven executions"),
    "C03": dict(
        text="C03_NoTrace / C03_FailNotDelivered on spec/Xcm.tla (send refused at every byte of the pending and the new frame, sizes 0 and "
             "max+1); on the real code every refused send (EAGAIN, EMSGSIZE, EINVAL) is followed by validation that counters, epoll "
             "registration and the number of bytes later flushed are those of the model state in which the call never happened.",
        ref="5/C03", tech="TLA+ model checking (TLC) + trace validation of shim-driven executions"),
    "C04": dict(
        text="spec/XcmLive.tla: two event-loop applications that follow the documented protocol (await, act only when xcm_fd is readable, "
             "then the intended operation or finish) over the XcmCore operators, under an adversarial but fair lower layer; TLC checks the "
             "safety form NoLostWakeup/Quiet as invariants and, under FairSpec (SF on event-loop turns with full credit, WF on buffer drain "
             "and close), the temporal properties AllDelivered and CloseSeen for tcp, btcp and ux; deliberately broken designs must be "
             "rejected (vacuity guard). C04_NoLostWakeup is also an invariant of the bounded spec/Xcm.tla configurations. Binding: (a) in "
             "every recorded step of every execution poll(xcm_fd), the epoll registrations and the kernel's own poll result are compared "
             "with Readable() of the model state (tag C04.lost_wakeup); (b) event-loop executions (harness command L) on tcp, btcp, ux, uxf, "
             "tls, btls, utls: the applications trust only poll(xcm_fd), every call is validated as a trace step, and a run that gets stuck "
             "with something owed (message accepted but undelivered, send still wanted, close unseen) is a lost wake-up; (c) blocking calls "
             "run in a helper thread and a call that has not returned although the model says its event happened is C04.blocked; (d) establishment "
             "scenarios (harness/est_exec, spec/XcmEst.tla) and the hang verdicts of the multi-address connect harness; (e) spec/TimerMgr.tla "
             "(one timerfd for all timers of a socket, armed for the earliest pending expiry) model-checked and replayed in real time on "
             "the real timer_mgr.c: a pending timer that has certainly expired makes the socket's descriptor readable (spec/TimerMgrTrace.tla).",
        ref="5/C04", tech="TLA+ model checking with fairness (TLC liveness) + trace validation of event-loop executions",
        note=CONN_NOTE + " 'Within bounded time' is judged only as: no descriptor readable for 1.5 s while the trace specification says something "
             "is owed; establishment phases (resolution, TCP connect, TLS handshake) are covered by the C13/C05 machinery, not here."),
    "C05": dict(
        text="In spec/Xcm.tla, spec/XcmLive.tla and spec/XcmEst.tla every API call on a non-blocking socket is ONE action: there is no "
             "state inside a call in which the thread waits for the environment, and XcmEst (resolution/connect/handshake phases, all "
             "behaviours of the remote address: accept, refuse, silent, late, mute, garbage) is model-checked with TLC for outcome, "
             "no-lost-wake-up and liveness. Binding: the link-time shim counts, inside every library call made on a non-blocking socket, "
             "every poll/ppoll/select/epoll_wait with a non-zero timeout, nanosleep/usleep/sleep and every send/recv/connect/accept on a "
             "descriptor without O_NONBLOCK; the count is a field of every trace step and the trace specifications (XcmTrace, XcmEstTrace) "
             "reject any step with a non-zero count (C05.wait). Executions: harness/est_exec drives xcm_connect_a, xcm_accept_a, "
             "xcm_finish, xcm_send, xcm_receive, xcm_await, xcm_fd, attribute get/set and xcm_close on ux, uxf, tcp, btcp, tls, btls, utls "
             "through connect-in-progress, refused, silent address (connect timeout), late answer, TLS handshake against a mute or "
             "garbage-speaking peer and idle server sockets; harness/conn_exec covers established connections under injected and real "
             "back-pressure (small socket buffers), dead and resetting peers.",
        ref="5/C05", tech="TLA+ model checking (TLC) + trace validation with a shim that detects waiting primitives inside non-blocking calls",
        note="Trusted base: TLC + CommunityModules; the shim sees calls made from libxcm's own objects (and from OpenSSL's BIO callbacks "
             "into libxcm), not sleeps inside libssl/libc-ares themselves. A call that really blocks is caught by the per-execution "
             "watchdog (60 s, reported as a crash-class event). Name-resolution phases with a scripted resolver are exercised by the C13 "
             "harness, whose traces carry the same counter."),
    "C06": dict(
        text="C06_Sticky, C06_DrainFirst on spec/Xcm.tla with errno injection and orderly close at every point; real executions with "
             "injected errnos, real close and real reset (SO_LINGER 0), raw peers dying mid-frame; the trace specification checks "
             "first-errno, stickiness of 0 / EPIPE / errno and that end-of-stream is only reported after queued complete messages. "
             "One recorded finding (epipe_closes) is reproduced by a dedicated deviation configuration and by real-kernel traces.",
        ref="5/C06", tech="TLA+ model checking (TLC) + trace validation of shim-driven executions"),
    "C07": dict(
        text="spec/Xcm.tla hostile configuration (raw peer writing frames with header values 0, legal, max+1, huge, truncated, in any "
             "fragmentation): C07_WellFormedPrefix, C07_Eproto, C07_IllegalIsEproto, C07_Bounds; the same behaviours and random "
             "hostile streams are written by a raw TCP socket to real tcp connections (ASan/UBSan build; a sanitizer report or "
             "abort is a trace event no action accepts) and validated against XcmTrace. Underneath: spec/Mbuf.tla against the real "
             "mbuf.h (a header is valid only for 1..65535 whatever its bytes; hostile length fields fed in every split; "
             "spec/MbufTrace.tla).",
        ref="5/C07", tech="TLA+ model checking (TLC) + trace validation with a raw hostile peer"),
    "C16": dict(
        text="C16_Quiet, C16_Immediate, C04_NoLostWakeup on spec/Xcm.tla for all awaited conditions; on the real code after every step "
             "poll(xcm_fd) of both endpoints, the epoll registrations seen through epoll_ctl and the kernel's own poll() result are "
             "recorded and compared with the model's mask/bell and Readable(); fd stability and 'only readable' are history checks. "
             "Establishment-phase scenarios (server sockets idle / pending, an idle connection looked at after the connect time-out). "
             "Underneath: spec/XPoll.tla (libxcm/core/xpoll.c as a step function; KernelView, Readable, PoolUser, Ids, Frugal) "
             "model-checked and replayed on the real xpoll.c / active_fd.c, with the kernel's own report of the epoll interest list "
             "validated call by call against the same step function (spec/XPollTrace.tla); spec/TimerMgr.tla (libxcm/core/timer_mgr.c: one "
             "timerfd for all timers of a socket) model-checked and replayed in real time on the real timer_mgr.c, the descriptor "
             "being quiet while no timer can have expired (spec/TimerMgrTrace.tla).",
        ref="5/C16", tech="TLA+ model checking (TLC) + trace validation of readiness after every step"),
    "C17": dict(
        text="C17_Counters / C17_Quiescent on spec/Xcm.tla (tcp, btcp, ux); on the real code all eight counters of both endpoints are "
             "read through xcm_attr_get after every step and compared with the model's (exact), plus monotonicity and ordering as "
             "history checks, on tcp, btcp, ux, uxf.",
        ref="5/C17", tech="TLA+ model checking (TLC) + trace validation of counters after every step"),
    "C12": dict(
        text="spec/Addr.tla states the address grammar, the make/parse laws and the capacity bound; spec/AddrMC.tla enumerates with TLC "
             "every parser string up to a bound over character classes, the boundary/port sweep and the constructor matrix (host kinds x "
             "ports x capacities 0..len+2) and checks the laws on them; every vector TLC prints plus seeded random/mutated strings is "
             "executed by harness/addr_exec on the real xcm_addr_* functions (canary-framed buffers, ASan/UBSan) and every recorded call is "
             "validated by TLC against spec/AddrTrace.tla (return value, errno class, every output byte, agreement with xcm_addr_is_valid).",
        ref="5/C12", tech="TLA+ model checking (TLC) + TLC-generated vectors replayed on the real codec and validated by a trace specification",
        note="Trusted base: TLC + CommunityModules; leniencies the documentation does not rule out (sign / leading zeros in a port) are notes, "
             "not violations (DESIGN 7.1). Memory safety of the parsers is observed by the ASan/UBSan harness on the enumerated inputs, not "
             "expressed in the model. Bounded: strings up to the configured number of character-class symbols; 65536 ports swept in the thorough tier."),
    "C19": dict(
        text="spec/AttrMap.tla (two maps, 3 keys, 5 value types: add/del/get/typed get/exists/size/clone/add_all/equal/foreach as actions, "
             "finite-map laws as invariants) and spec/AttrPath.tla (the path grammar as an automaton with print/parse laws) are model-checked "
             "with TLC; one replay path per state/transition and every generated string is run by harness/maps_exec against the real "
             "xcm_attr_map_* and attr_path_* code (ASan/UBSan) with all observables recorded after every operation, and TLC validates every "
             "recorded line against spec/AttrMapTrace.tla / spec/AttrPathTrace.tla.",
        ref="5/C19", tech="TLA+ model checking (TLC) + transition-coverage replay and trace validation against the real map/path code",
        note="Trusted base: TLC + CommunityModules. Memory errors are observed by the sanitizer-instrumented harness on the enumerated "
             "and random cases, not expressed in the model. Leniency of strtol inside brackets is a note only (DESIGN 7.1)."),
    "C20": dict(
        text="spec/Relay.tla transcribes tools/xcmrelay (xrelay.c / rserver.c: one held message per direction, awaited conditions, both "
             "xfwd_active callbacks of an active descriptor in either order, termination) between two applications over bounded legs; TLC "
             "checks Transparent, CloseAfterData, RelayAlive, NoStall, NoOrphanCallback as invariants and Progress / CloseSeen / "
             "Progress2 (independence of a second relayed connection) under fairness for the intended design (Dev = {}), and finds the "
             "CloseAfterData counterexamples of the named deviations the code has (recorded findings). Binding: TLC prints one "
             "application-level behaviour per application transition of the faithful model; harness/relay_exec runs them against the real "
             "xcmrelay (built from the tree, ASan; also a small-socket-buffer variant) as a separate process between non-blocking "
             "endpoints for all 29 transport pairs (5x5 messaging, 2x2 byte-stream), with content-addressed units, and "
             "spec/RelayTrace.tla decides from the two endpoint histories with the model's own operators (loss, duplication, invention, "
             "corruption, truncation, close before data, stall, relay exit).",
        ref="5/C20", tech="TLA+ model checking (TLC, safety + fairness) + model-generated behaviours replayed against the real relay, histories validated by a trace specification",
        note="Trusted base: TLC + CommunityModules. The relay's internals are not logged (application-level histories only). CloseAfterData "
             "is evaluated for orderly closes only. The stall verdict necessarily uses a no-progress limit (5 s, 10 s on the mandatory "
             "sequential re-run); every violation class must reproduce in a sequential re-run. Two genuine defects of the relay are "
             "recorded in known_findings.json (relay_close_loss, relay_noflush)."),
    "C09": dict(
        text="spec/TlsPolicy.tla is shaped like xcm_tp_btls.c: a Conf record for the policy part of the socket, InitConf / Apply / Inherit / "
             "Finalize / ServerOutcome / ConnOutcome / AcceptOutcome transcribed from btls_init, the attribute setters, inherit_tls_conf and "
             "finalize_tls_conf (EINVAL rules in the code's order), and - stated from the property alone - MustReject(side), Usable(side), "
             "FailClosed == MustReject => ~Usable over structural tables of a 41-class credential universe (anchoring, validity of leaf and "
             "CAs, revocation of leaf / intermediate, EKU vs TLS role incl. role reversal, names in SAN / CN). spec/TlsPolicyMC.tla enumerates "
             "with TLC the cells (placements of every policy attribute in the server / late-set / accept / connect maps x credential classes "
             "x tls, btls, utls-over-TLS) and checks consistency laws on each. Every selected cell (quick: a deterministic mandatory set + "
             "seeded sample, ~700; thorough: all ~140 000) is replayed by harness/tlsmx_exec as a real handshake between in-process sockets "
             "with generated certificates (by file and by value) and spec/TlsPolicyTrace.tla re-evaluates the cell: C09.fail_open (must "
             "reject, yet finish succeeded or data crossed), C09.einval (invalid combination accepted), C09.errno (rejection not EPROTO).",
        ref="5/C09", tech="TLA+ decision specification enumerated by TLC; every cell executed as a real TLS handshake and judged by a trace specification",
        note="Trusted base: TLC + CommunityModules, OpenSSL's own chain verification (modelled as environment SslVerifyOk and compared cell "
             "by cell - zero differences on the unchanged tree), the generated credentials (their manifest is compared with the tables TLC "
             "prints on every run). Only the fail-open direction, EINVAL acceptance and the rejection errno are violations; 'policy met but "
             "rejected' is a note (DESIGN 7.1). Both ends are libxcm (TLS 1.3). A violating cell must repeat when re-run alone."),
    "C13": dict(
        text="spec/TConnect.tla transcribes tconnect.c, the establishment part of xcm_tp_btcp.c, xcm_dns_cares.c and timer_mgr.c (tracks, "
             "timers, resolver query, the application's polling calls, xcm.local_addr binding) for dns.algorithm single / sequential / "
             "happy_eyeballs; spec/TConnectMC.tla checks with TLC, for every address list over {v4,v6}x{accept,refuse,silent,unreachable} "
             "up to the bound x resolver behaviour x local address kind x time-outs and every interleaving of polls, resolver answer and "
             "timer expiries: InvOrder, InvOutcome, InvWhich, InvErrno, InvEtimedout, InvBoundLocal, InvNoHang, InvBudget. Every behaviour "
             "TLC prints is replayed in virtual time into the real library by harness/tconn_exec (scripted resolver linked instead of "
             "c-ares, connect() redirected to accepting / refusing / silent loopback targets, bind/connect order recorded) and "
             "spec/TConnectTrace.tla validates every record (model part + history part: order, outcome, errno, local address, budget, "
             "hang, crash); plus 32/33-address lists, xcm_server_a on names, blocking mode and a real-clock sample judged against the "
             "admissible outcome sets TLC printed.",
        ref="5/C13", tech="TLA+ model checking (TLC) + model-generated schedules replayed in virtual time and validated by a trace specification",
        note="Trusted base: TLC + CommunityModules; loopback TCP behaves like the envelope (verified at harness start); the scripted "
             "resolver stands for c-ares (no sorting, no retransmission timers). Real-time bounds are judged only as upper bounds with wide "
             "slack on a real-clock sample; a hang needs no verdict within a hard watchdog. TLS transports only with failing outcomes."),
    "C15": dict(
        text="spec/Threads.tla (PlusCal, one label per shared access in the order of the C code) models the process-wide state: socket id "
             "counter, eventfd pool (active_fd.c), TLS context cache (ctx_store.c), relaxed-atomic flags, under their mutexes, for 2-4 "
             "threads; TLC checks mutual exclusion, count = holders, closed/freed exactly at zero and never used after, unique ids, "
             "idempotent flags, and must refute five deliberately broken variants. Binding: guarded hooks (libxcm/core/verif.h, /repo "
             "603233c) emit events inside the critical sections; harness/thr_exec runs 8-16 threads over all transports (shared and "
             "distinct TLS credentials, >100 sockets so that a second eventfd appears, socket hand-over, blocking pairs, cold starts), "
             "each thread checks its own sequence-numbered deliveries, and spec/ThreadsTrace.tla (EXTENDS Threads) replays the merged "
             "per-subsystem event order; the same driver is built with ThreadSanitizer and any report is a C15.race event.",
        ref="5/C15", tech="TLA+/PlusCal model checking (TLC) + trace validation of under-lock hook events from a multi-threaded driver (TSan build)",
        note="Data-race freedom in the C memory model rests on ThreadSanitizer over the schedules actually executed (DESIGN 9); the "
             "specification decides the locking protocol and the counts. OpenSSL / c-ares internals are trusted (suppressions limited "
             "to their frames). First-use races need the cold-start runs and are caught with high probability, not certainty."),
    "C08": dict(
        cat="fault_enumeration",
        text="spec/Lifecycle.tla is an ownership monitor Step(s, e) over one logged event (descriptors owned by the library with kind and "
             "owning socket, the application's foreign descriptors, created files, the process-wide eventfd pool with first-fit and a "
             "bound per eventfd, live sockets, the API call in progress, owner / forked-child mode) and a design model that walks the "
             "server / connect / accept ladders of ux, uxf, tcp, btcp, utls with any step failing, finish, close, fork + xcm_cleanup; TLC "
             "checks NoStrayClose, NoForeignCtl, FailedCallLeaksNothing, ErrnoNotAbort, CleanupIsLocal, PoolRefcount, AllClosedClean on it "
             "and must refute four named deviations. Fault enumeration on the real library (harness/life_exec, own shim): for each of "
             "38 (quick) / 83 (thorough) scenarios over all transports (control interface on/off, credentials by value, blocking, decoy "
             "descriptors, control client attached, fork points, connections held in progress, 102 pool users) the resource-creating calls "
             "are counted and the scenario is re-run failing exactly the i-th such call with each errno of its class (pairs sampled / "
             "exhaustive on marked scenarios); every execution's system-call log plus the observed /proc/self/fd table, leftover files, "
             "LeakSanitizer result and abort events is validated by TLC against spec/LifecycleTrace.tla (same monitor).",
        ref="5/C08", tech="TLA+ ownership specification (TLC) + single/pair fault enumeration on the real library, every trace validated by the specification",
        note="Level fault_enumeration: exhaustive over single failing resource-creating calls per scenario and errno class (socket, accept4, "
             "epoll_create1, eventfd, timerfd_create, connect, bind, listen, fopen, setsockopt, SO_ERROR); pairs sampled in quick. Heap "
             "equality rests on LeakSanitizer after a warm-up run; failures inside libssl/libcrypto/libcares and malloc failure are outside. "
             "One finding recorded (eventfd failure aborts the process)."),
    "C14": dict(
        text="spec/Ctl.tla models the control server of a socket (client table of 2, listen backlog, per-slot reused reply buffer, request "
             "and reply queues, one ctl_process round incl. restart after a removal, ctl_destroy) composed with an abstract data path, with "
             "client actions connect / send(get, tls.key, get-all, malformed, odd) / receive / drop and the owner's polling; TLC checks "
             "BoundedSessions, FifoReplies, FirstRequestAny, KeyNeverDisclosed, WellBehavedStay, Passive(Step), FilesGone, SettledServes "
             "and Answered under fairness, and prints one behaviour per transition. harness/ctl_exec binds each behaviour to one of 104 "
             "real socket scenarios (all transports, roles and states; attribute profiles up to 89 attributes, values of 511..5800 bytes) "
             "with a raw SEQPACKET client and the libxcmctl client while the owner keeps exchanging content-checked messages; "
             "spec/CtlTrace.tla drives the same operators with the recorded events and judges replies against in-process xcm_attr_get / "
             "xcm_attr_get_all samples, key disclosure (base64 and DER windows over every reply byte), control files and data-path "
             "passivity; crashes (ASan/UBSan, assertions) are trace events.",
        ref="5/C14", tech="TLA+ model checking (TLC) + model-generated session behaviours replayed on real sockets and validated by a trace specification",
        note="Trusted base: TLC + CommunityModules. What the server does with malformed messages is not constrained beyond safety; "
             "volatile attributes (tcp.rtt etc.) are compared by type and length only; counters exactly at quiescent samples. Memory safety "
             "rests on ASan/UBSan over the replayed behaviours. A mismatch class is reported only if a solo re-run reproduces it."),
    "C10": dict(
        text="spec/Attr.tla holds the attribute TABLE (49 attributes: type, presence group, mode r / rw / creation-only, volatility, "
             "inheritance by accept) derived from the code and xcm.h, and states ExpectGet(type, size, accessor, capacity) - return value, "
             "admissible errno set, maximum bytes written - SetErrnos / SetFirst over name, type, length class and value class, and the laws "
             "LawWriteBound, LawOverflow, LawSetErrors; spec/AttrMC.tla (mode vec) enumerates with TLC every read vector (socket kind x "
             "transport x life point x attribute x accessor gen/gen0/fgen/bool/int64/double/str/bin/fstr/fbin x capacity) and write vector "
             "plus names outside the table (malformed, long, deep, aliases) with the expected outcome class. harness/attr_exec brings a real "
             "socket to each life point (fresh through a creation map, connecting held by a real backlog-0 listener, handshaking, "
             "established, peer closed, failed, server), executes each read twice into canary-framed buffers with different fills and once "
             "into an exactly sized heap block (ASan), each write with a snapshot of all attributes and kernel options before and after, and "
             "spec/AttrTrace.tla judges every recorded call; the attributes actually present must be in the table (else exit 2).",
        ref="5/C10", tech="TLA+ table specification enumerated by TLC; every vector executed on real sockets and validated by a trace specification",
        note="Trusted base: TLC + CommunityModules. Memory safety is observed by canaries + ASan on the enumerated vectors, not expressed in the "
             "model. The 'resolving' life point is not exercised here (no resolver); SCTP is not built."),
    "C11": dict(
        text="spec/Attr.tla life model: pure step functions on a state with want (what xcm_attr_get must report), snap (options snapshot at "
             "connect), kern (kernel option values), blocking mode, source address, TLS flags and names, and the server's; steps Connect "
             "(held or not, with a map), Server, ServerSet, Accept (with a map), SetTcp (default / alternative / inadmissible), SetBlk "
             "(attribute or API), SetCO (creation-only), Establish, PeerClose; spec/AttrMC.tla (mode life) checks InvInForce, "
             "InvNoKernBeforeFd, InvWantOk, InvInherit, CreationOnlyKeeps and prints one path per transition. harness/attr_exec replays the "
             "paths on real tcp/tls/utls/btcp/btls sockets (connect held in progress by a backlog-0 listener and released later) and "
             "records after every step xcm_attr_get of the five TCP options, getsockopt(SO_KEEPALIVE, TCP_KEEPIDLE, TCP_KEEPINTVL, "
             "TCP_KEEPCNT, TCP_USER_TIMEOUT) on the connection's descriptor, xcm_is_blocking vs the attribute, getsockname vs "
             "xcm.local_addr and the peer's remote address, TLS flags and names; spec/AttrTrace.tla validates (get_after_set, in_force, "
             "inherit, eacces, blocking, service, source_addr).",
        ref="5/C11", tech="TLA+ model checking (TLC) + model-generated behaviours replayed on real sockets with kernel options read back, validated by a trace specification",
        note="Trusted base: TLC + CommunityModules; the kernel's getsockopt. Releasing a held connect costs the kernel's 1 s SYN retransmission; "
             "situations that never settle are skipped and counted, never reported. One finding recorded (xcm.service accepts writes after "
             "creation)."),
    "C18": dict(
        text="spec/CtxCore.tla defines the credential universe (generations of the leaf under two CAs, keys, trusted-CA and CRL bundles, bad "
             "kinds), the abstract file system (content + stamp per file, directory link, per-file links), designations (off / default / "
             "file / value / inherited), Resolve / Inherit, Mat (the material a designation denotes) and KeyOf (the cache key of "
             "ctx_store.c); spec/CtxStore.tla is the bounded model: Begin(connect | server | accept), Acquire, Hash1, Lookup, Load(item), "
             "Hash2, Install, Close interleaved at every loader step with file updates (in place / rename / bad material / link flips / "
             "setenv); TLC checks Fresh, Eproto, NoMix, Distinct, Released, Mutex and EstablishedUnaffected, and three named deviations "
             "must break them. Every completed call of the model is emitted as a path; harness/creds_exec replays paths and seeded "
             "random behaviours on real tls / btls / utls connections in-process (file operations with stat-verified stamps, updates placed "
             "inside a call at the k-th credential file access through the link-time shim, network-namespace naming in a private mount "
             "namespace) and records errno, the SSL_CTX each socket was given, SSL_CTX new / free / live counts and the subject key ids both "
             "sides see; spec/CtxStoreTrace.tla validates every line with the same operators.",
        ref="5/C18", tech="TLA+ model checking (TLC) + model-generated behaviours replayed on real TLS connections and validated by a trace specification",
        note="Trusted base: TLC + CommunityModules; OpenSSL's PEM parsing and verification (token semantics of CtxCore rest on them). Real "
             "multi-threaded execution of the cache is C15's subject (two loader threads exist in the model only). Three findings recorded "
             "(accept_env_frozen, ctx_meta_key, aba_load). A mismatch class is reported only if re-running its smallest execution repeats it."),
}

NOT_APPLICABLE = {}


def main():
    hooks_commits = ["603233c"]
    checks = []
    for pid in sorted(CHECKS):
        c = CHECKS[pid]
        checks.append({
            "property_id": pid,
            "quick_cmd": "bin/check %s --tier quick" % pid,
            "thorough_cmd": "bin/check %s --tier thorough" % pid,
            "evidence_file": "/verif/evidence/%s.json" % pid,
            "replay_cmd_template": "bin/check %s --replay {path}" % pid,
            "engine": "tlc",
            "level_claimed": {"category": c.get("cat", "model_checking"), "text": c["text"], "design_ref": c["ref"]},
            "level_note": c.get("note", CONN_NOTE),
            "technique": c["tech"],
        })
    all_ids = ["C%02d" % i for i in range(1, 21)]
    na = []
    for pid in all_ids:
        if pid not in CHECKS:
            na.append({"property_id": pid, "reason": NOT_APPLICABLE.get(pid, "check under construction in this round; not claimed yet")})
    m = {
        "version": 1,
        "setup_cmd": "bin/setup.sh",
        "hooks": {
            "guard": "XCM_VERIF",
            "enable": "checks compile /repo's sources with -DXCM_VERIF into /verif/build (never into /repo's own build); most conformance "
                      "seams are link-time (-Wl,--wrap of libc calls and of xcm_tp_socket_send/receive/finish); libxcm/core/verif.h adds "
                      "callback-based observation points (XCM_VERIF_EV / XCM_VERIF_YIELD) inside the critical sections of active_fd.c, "
                      "ctx_store.c and get_next_sock_id(), which expand to nothing without the guard",
            "baseline_off_cmd": "cd /repo && make -k -j8 check VERBOSE=1",
            "source_commits": hooks_commits,
            "add_only": True,
        },
        "engines": [
            {"name": "tlc", "path": "/usr/local/bin/tlc", "serves_properties": sorted(CHECKS),
             "kind_free_text": "TLC 1.8 model checker: exhaustive bounded checking of spec/*.tla and trace validation of recorded executions"},
        ],
        "checks": checks,
        "not_applicable": na,
        "notes": "See DESIGN.md. bin/check exits 0 (held; KNOWN-FINDING lines allowed), 1 (VIOLATION lines), 2 (internal error, no verdict).",
    }
    with open("/verif/MANIFEST.json", "w") as f:
        json.dump(m, f, indent=1)
        f.write("\n")


if __name__ == "__main__":
    main()
