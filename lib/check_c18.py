"""C18 - each TLS connection uses the credentials designated at that moment.

Pipeline per run (DESIGN 3.5 / 3.6 / 4.6 / 5-C18):
  1. build harness/creds_exec from the library's working tree (ASan + UBSan) with shim/shim_creds.c (link-time
     interposition of the credential-file accesses, of SSL_CTX_new / SSL_CTX_free and of the ctx_store_get_ctx /
     ctx_store_put seam); generate the credential universe of spec/CtxCore.tla under build/creds_c18
  2. TLC on spec/CtxStore.tla, bounded configurations (MC_QUICK / MC_THOROUGH): the file system, XCM_TLS_CERT, the
     sockets' designations and the context cache with its hash -> look up -> load -> re-hash -> install loop; file
     updates interleave with every step of the loop.  Invariants Fresh, Eproto, NoMix, Distinct, Released, Mutex and
     the action property EstablishedUnaffected.  Every completed call / close is emitted as a replay path.
     Deviation runs (MC_DEV): with a named deviation switched on TLC must break the property; the counterexample is
     replayed as well.
  3. the paths (a sample covering every local situation), the counterexamples and seeded random behaviours over a larger
     universe become scripts; harness/creds_exec performs them on real files and the real library: rewrite in place /
     rename over / link flips / environment, updates placed INSIDE a call at the n-th access of a credential file, real
     tls / btls / utls connections in-process; it records what it did and what it saw (errno, the context a socket
     was given, contexts created / freed / live, handshake outcome, the subject key id each side sees)
  4. TLC validates every recorded line against spec/CtxStoreTrace.tla, which computes what the property demands from
     the same operators (CtxCore) and prints mismatches "@V x n tag label expected observed"
  5. mismatches are grouped into classes; a class is reported only if re-running its smallest execution alone repeats
     it; known_findings.json (vlib.match_finding with tag / why / detail) turns a class into a KNOWN-FINDING line

Tags: C18.fresh  C18.eproto  C18.distinct  C18.released  C18.established  C18.crash
Labels (why) naming a deviation of the library: accept_env_frozen  ctx_meta_key  aba_load  load_errno  value_concat
"""
import collections
import concurrent.futures
import json
import os
import random
import re
import shutil
import subprocess
import time

import vlib
from vlib import InternalError

PID = "C18"
CREDS = vlib.BUILD + "/creds_c18"
CLASSES = {"cert": ["cA1", "cA2", "cA3", "cB1", "pA", "pB"], "key": ["kA1", "kA2", "kA3", "kB1", "kpA", "kpB"],
           "tc": ["tA", "tB", "tAB"], "crl": ["rE", "rP"]}
PEM_LABEL = {"cert": "CERTIFICATE", "key": "RSA PRIVATE KEY", "tc": "CERTIFICATE", "crl": "X509 CRL"}


# ------------------------------------------------------------------ credentials -----
def gen_creds():
    """One PEM file per content token of spec/CtxCore.tla, all files of an item class of one size."""
    if os.path.exists(CREDS + "/.done") and os.path.exists(CREDS + "/bad2_tc.pem"):
        return CREDS
    shutil.rmtree(CREDS, ignore_errors=True)
    os.makedirs(CREDS + "/raw")
    y = ["base-path: %s/raw" % CREDS, "", "certs:",
         "  caA:", "    subject_name: caA", "    ca: true",
         "  caB:", "    subject_name: caB", "    ca: true"]
    for c in CLASSES["cert"]:
        y += ["  %s:" % c, "    subject_name: %s" % ("peer" if c[0] == "p" else "sut"),
              "    issuer: %s" % ("caB" if c in ("cB1", "pB") else "caA")]
    y += ["", "crls:",
          "  rEA:", "    issuer: caA", "    revokes: []",
          "  rEB:", "    issuer: caB", "    revokes: []",
          "  rPA:", "    issuer: caA", "    revokes: [pA]",
          "  rPB:", "    issuer: caB", "    revokes: [pB]",
          "", "files:"]
    for c in CLASSES["cert"]:
        y += ["  - type: cert", "    id: %s" % c, "    path: %s.pem" % c,
              "  - type: key", "    id: %s" % c, "    path: k%s.pem" % c[1:] if c[0] == "c" else "    path: k%s.pem" % c,
              "  - type: ski", "    id: %s" % c, "    path: %s.ski" % c]
    y += ["  - type: bundle", "    certs: [caA]", "    path: tA.pem",
          "  - type: bundle", "    certs: [caB]", "    path: tB.pem",
          "  - type: bundle", "    certs: [caA, caB]", "    path: tAB.pem",
          "  - type: bundle", "    crls: [rEA, rEB]", "    path: rE.pem",
          "  - type: bundle", "    crls: [rPA, rPB]", "    path: rP.pem"]
    p = subprocess.run(["/usr/bin/python3", vlib.V + "/bin/gencert.py"], input="\n".join(y) + "\n", text=True,
                       stdout=subprocess.PIPE, stderr=subprocess.STDOUT)
    if p.returncode != 0:
        raise InternalError("gencert.py failed:\n" + p.stdout[-3000:])
    ski = []
    for it, toks in CLASSES.items():
        data = {t: open("%s/raw/%s.pem" % (CREDS, t), "rb").read() for t in toks}
        size = max(len(d) for d in data.values()) + 1
        body = "\n".join(["QUJDREVGR0hJSktMTU5PUFFSU1RVVldYWVo="] * 6)
        data["bad_" + it] = ("-----BEGIN %s-----\n%s\n-----END %s-----\n" % (PEM_LABEL[it], body, PEM_LABEL[it])).encode()
        if it in ("tc", "crl"):
            # a bundle whose first entry is sound and whose second entry is damaged (a base64 body that does not decode):
            # malformed material all the same ("bad"), used by every other execution in place of the block of junk
            whole = data["tAB" if it == "tc" else "rE"].decode()
            k = whole.index("-----BEGIN", whole.index("-----END"))
            body2 = whole.index("\n", k) + 1
            data["bad2_" + it] = (whole[:body2 + 40] + "!!!!" + whole[body2 + 44:]).encode()
        for t, d in data.items():
            if len(d) > size:
                raise InternalError("credential %s larger than its class" % t)
            with open("%s/%s.pem" % (CREDS, t), "wb") as f:
                f.write(d + b"\n" * (size - len(d)))
    for c in CLASSES["cert"]:
        ski.append("%s %s" % (c, open("%s/raw/%s.ski" % (CREDS, c), "rb").read().hex()))
    if len(set(s.split()[1] for s in ski)) != len(ski):
        raise InternalError("subject key ids are not distinct")
    with open(CREDS + "/ski.txt", "w") as f:
        f.write("\n".join(ski) + "\n")
    open(CREDS + "/.done", "w").close()
    return CREDS


ASAN_ENV = {"ASAN_OPTIONS": "detect_leaks=0:abort_on_error=0:exitcode=99:detect_stack_use_after_return=1",
            "UBSAN_OPTIONS": "print_stacktrace=1:halt_on_error=1", "XCM_CTL": "/nonexistent-verif"}


def run_script(binary, lines, base, timeout=600):
    with open(base + ".script", "w") as f:
        f.write("\n".join(lines) + "\n")
    env = dict(os.environ)
    env.update(ASAN_ENV)
    env.pop("XCM_TLS_CERT", None)
    root = os.path.dirname(base) + "/fs"
    os.makedirs(root, exist_ok=True)
    try:
        p = subprocess.run([binary, base + ".script", base + ".ndjson", root, CREDS], stdout=subprocess.PIPE,
                           stderr=subprocess.STDOUT, env=env, timeout=timeout, text=True, errors="replace")
        rc, err = p.returncode, p.stdout
    except subprocess.TimeoutExpired as e:
        rc, err = -999, (e.stdout or "") if isinstance(e.stdout, str) else ""
    return rc, err


# ------------------------------------------------------------ model checking -----
def tla(v):
    if isinstance(v, (set, frozenset, list, tuple)):
        return "{" + ", ".join(tla(x) for x in sorted(v, key=str)) + "}"
    if isinstance(v, str):
        return '"%s"' % v
    return str(v)


BASE = dict(Socks={1, 2, 3}, Threads={1}, ConnProfiles=set(), ServProfiles=set(), AccOverrides=set(), UpdKinds=set(),
            UpdDirs={"d1"}, UpdItems={"tc"}, BadKinds=set(), EnvSet=set(), MaxUpd=0, MaxOpens=3, MaxEnv=0, Dev=set(),
            EmitPaths="ret")
INVS = ["Fresh", "Eproto", "NoMix", "Distinct", "Released", "Mutex"]
LOADER = ["Begin", "Acquire", "Hash1", "Lookup", "Load", "Hash2", "Install", "Close"]


def cfg(**kw):
    c = dict(BASE)
    c.update(kw)
    return c


# name -> (constants, actions that must be taken, replay?)
MC_QUICK = {
    # updates placed at every point of the hash -> load -> re-hash loop of one call, a second socket sharing / not sharing
    "load": (cfg(Socks={1, 2}, ConnProfiles={"fL", "f1"}, UpdKinds={"put", "flipL"}, UpdItems={"tc"}, MaxUpd=2, MaxOpens=2),
             LOADER + ["Put", "FlipL"], True),
    # inheritance server -> accept, accept-map overrides by file and by value, XCM_TLS_CERT switched in between
    "accept": (cfg(ConnProfiles={"def"}, ServProfiles={"def", "f1crl2", "v1"}, AccOverrides={"none", "cf2", "cv2", "tcv"}, UpdKinds={"env"},
                   EnvSet={"d1", "d2"}, MaxEnv=1, MaxOpens=3),
               ["Begin", "Lookup", "Load", "Install", "Close", "SetEnv"], True),
    # configurations that differ in one item only, by file and by value: which share a context and when it is released
    "share": (cfg(ConnProfiles={"f1", "f1tc2", "f1crl1", "f1crl2", "f1crld", "v1", "v1tB", "v1crlE", "v1crlP", "def", "fv"},
                  MaxOpens=3),
              ["Begin", "Lookup", "Install", "Close"], True),
    # rotation of one directory, of the per-file links, of the environment, between and during calls
    "rotate": (cfg(Socks={1, 2}, ConnProfiles={"def", "fF"}, UpdKinds={"pair", "flipF", "env"}, UpdItems={"cert", "tc"},
                   EnvSet={"d1", "L"}, MaxUpd=2, MaxEnv=1, MaxOpens=2),
               LOADER + ["PutPair", "FlipF", "SetEnv"], True),
    # unreadable / malformed / mismatching material
    "bad": (cfg(Socks={1, 2}, ConnProfiles={"def", "vbad", "vmis", "fnx"}, ServProfiles={"def"}, AccOverrides={"none"},
                UpdKinds={"bad", "put"}, UpdItems={"cert", "tc"}, BadKinds={"bad", "missing", "dir", "dangle"}, MaxUpd=1,
                MaxOpens=2),
            ["Begin", "Hash1", "Load", "Install", "PutBad", "Put"], True),
    # the files change during every one of several consecutive load attempts of ONE call (the retry loop has no bound)
    "retry": (cfg(Socks={1, 2}, ConnProfiles={"f1"}, UpdKinds={"pair"}, UpdItems={"cert"}, MaxUpd=3, MaxOpens=2),
              LOADER + ["PutPair"], True),
    # two calling threads and the mutex (design only: a single-threaded harness cannot replay it)
    "threads": (cfg(Socks={1, 2}, Threads={1, 2}, ConnProfiles={"fL", "v1"}, UpdKinds={"put", "flipL"}, MaxUpd=1, MaxOpens=2,
                    EmitPaths="none"),
                LOADER + ["Put"], False),
}
MC_THOROUGH = dict(MC_QUICK)
MC_THOROUGH.update({
    "load3": (cfg(Socks={1, 2}, ConnProfiles={"fL", "f1", "def"}, UpdKinds={"put", "flipL", "pair"}, UpdItems={"cert", "tc"},
                  MaxUpd=2, MaxOpens=2), LOADER + ["Put", "FlipL", "PutPair"], True),
    "mixed": (cfg(ConnProfiles={"def", "f1", "v1"}, ServProfiles={"def", "f1"}, AccOverrides={"none", "cv2"},
                  UpdKinds={"put", "flipL", "env"}, UpdItems={"tc"}, EnvSet={"d1", "d2", "L"}, MaxUpd=1, MaxEnv=1, MaxOpens=3),
              LOADER + ["Put", "FlipL", "SetEnv"], True),
    # the widest scope, design only
    "big": (cfg(ConnProfiles={"def", "f1", "v1"}, ServProfiles={"def", "f1"}, AccOverrides={"none", "cv2"},
                UpdKinds={"put", "pair", "flipL"}, UpdItems={"cert", "tc"}, MaxUpd=2, MaxOpens=3, EmitPaths="none"),
            LOADER + ["Put", "PutPair", "FlipL"], False),
    "threads3": (cfg(Socks={1, 2, 3}, Threads={1, 2}, ConnProfiles={"fL", "v1", "def"}, UpdKinds={"put", "flipL"}, MaxUpd=2,
                     MaxOpens=3, EmitPaths="none"), LOADER + ["Put"], False),
})
# deviation runs: the named deviation switched on, the property expected to break (the counterexample is replayed)
MC_DEV = {
    "ctx_meta_key": (cfg(Socks={1, 2}, ConnProfiles={"f1"}, UpdKinds={"same"}, UpdItems={"tc"}, MaxUpd=1, MaxOpens=2,
                         Dev={"ctx_meta_key"}, EmitPaths="none"), "FreshCE"),
    "aba_load": (cfg(Socks={1}, ConnProfiles={"fL"}, UpdKinds={"flipL"}, MaxUpd=2, MaxOpens=1, Dev={"aba_load"},
                     EmitPaths="none"), "NoMixCE"),
    # vacuity guard: a bounded retry loop that installs what its last attempt read breaks Fresh for the NEXT call; the
    # counterexample (three new leaf certificates with their keys, one inside each load attempt, then a second socket) is replayed on the library
    "retry_bound": (cfg(Socks={1, 2}, ConnProfiles={"f1"}, UpdKinds={"pair"}, UpdItems={"cert"}, MaxUpd=3, MaxOpens=2,
                        Dev={"retry_bound"}, EmitPaths="none"), "FreshCE"),
    "accept_env_frozen": (cfg(Socks={1, 2}, ServProfiles={"def"}, AccOverrides={"none"}, UpdKinds={"env"}, EnvSet={"d2"},
                              MaxEnv=1, MaxOpens=2, Dev={"accept_env_frozen"}, EmitPaths="none"), "FreshCE"),
}


def write_cfg(name, consts, invs, emit):
    d = vlib.BUILD + "/cfg"
    os.makedirs(d, exist_ok=True)
    lines = ["SPECIFICATION Spec", "CONSTANTS"] + ["  %s = %s" % (k, tla(v)) for k, v in sorted(consts.items())]
    lines += ["VIEW view", "INVARIANTS " + " ".join(invs + (["EmitInit"] if emit else [])), "PROPERTY EstablishedUnaffected", "CHECK_DEADLOCK FALSE"]
    if emit:
        lines.append("ACTION_CONSTRAINT Emit")
    path = "%s/c18_%s_%d.cfg" % (d, name, os.getpid())
    with open(path, "w") as f:
        f.write("\n".join(lines) + "\n")
    return path


def tlc_strings(out, tag):
    """lines printed by PrintT(<<"@X", ..., ToJson(..)>>): returns the decoded JSON of the last component"""
    res = []
    for m in re.finditer(r'<<"%s", (?:"(\w+)", )?"((?:[^"\\]|\\.)*)">>' % tag, out):
        try:
            res.append((m.group(1), json.loads(json.loads('"' + m.group(2) + '"'))))
        except ValueError:
            raise InternalError("unparsable %s line from TLC: %s" % (tag, m.group(0)[:200]))
    return res


def coverage(out):
    cov = {}
    for m in re.finditer(r"^<(\w+) line \d+, col \d+ to line \d+, col \d+ of module CtxStore(?: \([\d ]+\))?>: (\d+):(\d+)", out, re.M):
        x = cov.get(m.group(1), (0, 0))
        cov[m.group(1)] = (x[0] + int(m.group(2)), x[1] + int(m.group(3)))
    return cov


def run_mc(name, consts, workers, invs=None, heap="6g", timeout=1500):
    emit = consts.get("EmitPaths") == "ret"
    path = write_cfg(name, consts, invs or INVS, emit)
    if emit:
        workers = 1            # one worker: breadth-first order, hence the set of emitted paths, is deterministic
    try:
        r = vlib.tlc("CtxStore", path, workers=workers, extra="-noGenerateSpecTE -coverage 1", timeout=timeout, heap=heap,
                     metadir="%s/c18.%s.%d" % (vlib.TLCDIR, name, os.getpid()))
    finally:
        os.unlink(path)
    if r["error"]:
        raise InternalError("TLC failed on CtxStore/%s:\n%s" % (name, r["error"]))
    r["paths"] = [p for _, p in tlc_strings(r["out"], "@P")]
    init = tlc_strings(r["out"], "@I")
    if emit and len(init) != 1:
        raise InternalError("CtxStore/%s: the initial steps were printed %d times" % (name, len(init)))
    r["init"] = init[0][1] if init else []
    r["cov"] = coverage(r["out"])
    r["ce"] = tlc_strings(r["out"], "@CE")
    r["out_tail"] = r["out"][-6000:]
    r["out"] = ""
    return r


# --------------------------------------------------- behaviours -> harness scripts -----
PEERS = [("pA", "kpA"), ("pB", "kpB")]


def word(d):
    t = d["t"]
    if t in ("off", "def", "inh"):
        return t
    return ("f:" if t == "file" else "v:") + d["a"]


def upd_lines(st):
    a = st["a"]
    if a == "put":
        return ["put %s %s %s %s %s" % (st["d"], st.get("ns") or "-", st["it"], st["c"], st.get("how", "inplace"))]
    if a == "pair":
        return ["put %s - cert %s rename" % (st["d"], st["c"]), "put %s - key k%s rename" % (st["d"], st["c"][1:])]
    if a == "flipL":
        return ["flipL %s" % st["d"]]
    if a == "flipF":
        return ["flipF %s %s" % (st["it"], st["d"])]
    if a == "env":
        return ["env %s" % st["d"]]
    if a == "ns":
        return ["%s %s" % ("nsf" if st.get("fork") else "ns", st["ns"] or "-")]
    raise InternalError("unknown step %r" % (st,))


class Builder:
    """turns one behaviour (list of steps) into the script of one execution, adding the peers every connection needs"""

    def __init__(self, xid, label, rnd, mode, variant=None):
        self.l = ["X %d %s" % (xid, label)]
        self.rnd = rnd
        self.variant = variant     # which peer every connection gets (None: a random one each time)
        self.tp, self.ptp = {"tls": ("tls", "tls"), "btls": ("btls", "btls"), "utls": ("utls", "tls")}[mode]
        self.pserver = {}          # peer variant -> socket id
        self.next_peer = 20
        self.pairs = []            # established-looking pairs (client id, server-side id)
        self.mate = {}
        self.dirty = False         # files changed since the pairs were last checked
        self.nontrivial = False

    def pick(self):
        return self.rnd.randrange(len(PEERS)) if self.variant is None else self.variant

    def peer_server(self):
        v = self.pick()
        if v not in self.pserver:
            sid = self.next_peer
            self.next_peer += 1
            self.pserver[v] = sid
            self.l.append("open %d server 0 %s v:%s v:%s v:tAB off" % (sid, self.ptp, PEERS[v][0], PEERS[v][1]))
        return self.pserver[v]

    def recheck(self):
        if self.dirty:
            for c, s in self.pairs:
                self.l.append("chk %d %d" % (c, s))
            self.dirty = False

    def run(self, steps):
        i = 0
        while i < len(steps):
            st = steps[i]
            a = st["a"]
            if a == "open":
                j = i + 1
                mids = []
                while j < len(steps) and steps[j]["a"] not in ("ret", "open", "close"):
                    mids.append(steps[j])
                    j += 1
                self.recheck()
                self.open(st, mids)
                i = j + 1 if j < len(steps) and steps[j]["a"] == "ret" else j
                continue
            if a == "close":
                self.recheck()
                self.close(st["s"])
            elif a in ("put", "pair", "flipL", "flipF", "env", "ns"):
                self.l += upd_lines(st)
                self.dirty = True
            elif a == "ret":
                pass
            else:
                raise InternalError("unknown step %r" % (st,))
            i += 1
        self.recheck()
        self.l.append("end")
        return self.l

    def open(self, st, mids):
        s, kind = st["s"], st["k"]
        des = " ".join(word(d) for d in st["at"])
        midl = []
        for m in mids:
            pos = m.get("pos") or {"k": 0, "m": "any"}
            k, mode = (pos["k"], pos["m"]) if pos["k"] >= 0 else (0, "any")
            for u in upd_lines(m):
                midl.append("mid %d %s %s" % (k, mode, u))
            self.nontrivial = True
        if kind == "server":
            self.l += midl + ["open %d server 0 %s %s" % (s, self.tp, des)]
        elif kind == "connect":
            p = st["p"] if st.get("p") else self.peer_server()
            peer = self.next_peer
            self.next_peer += 1
            self.l += midl + ["open %d connect %d %s %s" % (s, p, self.tp, des),
                              "open %d accept %d %s inh inh inh inh" % (peer, p, self.ptp), "drive %d %d" % (s, peer)]
            self.pairs.append((s, peer))
            self.mate[s] = peer
        elif kind == "accept":
            v = self.pick()
            peer = self.next_peer
            self.next_peer += 1
            self.l.append("open %d connect %d %s v:%s v:%s v:tAB off" % (peer, st["p"], self.ptp, PEERS[v][0], PEERS[v][1]))
            self.l += midl + ["open %d accept %d %s %s" % (s, st["p"], self.tp, des), "drive %d %d" % (peer, s)]
            self.pairs.append((peer, s))
            self.mate[s] = peer
        else:
            raise InternalError("unknown kind %r" % kind)
        if mids:
            self.dirty = True

    def close(self, s):
        # every third close of a behaviour is an xcm_cleanup (the socket is given up, not closed towards the peer)
        self.nclose = getattr(self, "nclose", 0) + 1
        self.l.append("close %d%s" % (s, " cu" if self.nclose % 3 == 2 else ""))
        self.pairs = [p for p in self.pairs if s not in p]
        if s in self.mate:
            self.l.append("close %d" % self.mate.pop(s))


def maximal_paths(paths):
    ks = sorted(set(json.dumps(p, sort_keys=True) for p in paths))
    ps = [json.loads(k) for k in ks]
    keys = [[json.dumps(s, sort_keys=True) for s in p] for p in ps]
    order = sorted(range(len(ps)), key=lambda i: keys[i])
    out = []
    for n, i in enumerate(order):
        if n + 1 < len(order):
            nxt = keys[order[n + 1]]
            if nxt[:len(keys[i])] == keys[i]:
                continue
        out.append(ps[i])
    return out


def path_class(p):
    """coarse signature used to spread a sample over the kinds of behaviour"""
    sig = []
    for st in p:
        a = st["a"]
        if a == "open":
            sig.append("%s:%s" % (st["k"][0], st["c"]))
        elif a == "ret":
            sig.append("ok" if st["ok"] else "fail")
        elif a == "close":
            sig.append("x")
        else:
            pos = st.get("pos") or {}
            sig.append("%s@%s%s" % (a, pos.get("k", -1), pos.get("m", "")[:1]))
    return " ".join(sig)


def path_features(p):
    """local situations of a behaviour: every call with its configuration, what it inherits from, the updates placed inside it
    (with their position), the updates made since the previous call, and its outcome"""
    feats, prof, since = set(), {}, []
    i = 0
    while i < len(p):
        st = p[i]
        a = st["a"]
        if a == "open":
            j = i + 1
            mids = []
            while j < len(p) and p[j]["a"] not in ("ret", "open", "close"):
                m = p[j]
                mids.append((m["a"], m.get("it", ""), m.get("d", "") if m["a"] == "env" else "", m["pos"]["k"], m["pos"]["m"]))
                j += 1
            ok = p[j]["ok"] if j < len(p) and p[j]["a"] == "ret" else None
            prof[st["s"]] = st["c"]
            feats.add(("open", st["k"], st["c"], prof.get(st["p"], ""), tuple(mids), tuple(sorted(set(since))), ok))
            for m in mids:
                feats.add(("mid", st["k"], st["c"], m))
            since = []
            i = j + 1
            continue
        if a in ("put", "pair", "flipL", "flipF", "env"):
            since.append((a, st.get("it", ""), st.get("c", "") if st.get("c") in ("bad", "missing", "dir", "dangle") else ""))
        elif a == "close":
            feats.add(("close", prof.get(st["s"], ""), len(prof)))
            prof.pop(st["s"], None)
        i += 1
    return feats


def sample_paths(paths, limit, rnd):
    """a sample that covers every local situation (path_features) before anything else, then spreads over the classes"""
    if len(paths) <= limit:
        return paths
    order = sorted(paths, key=lambda q: (len(q), json.dumps(q, sort_keys=True)))
    feats = [path_features(p) for p in order]
    # rarest situations first
    cnt = collections.Counter(f for fs in feats for f in fs)
    todo = sorted(cnt, key=lambda f: (cnt[f], repr(f)))
    chosen, covered = [], set()
    have = collections.defaultdict(list)
    for i, fs in enumerate(feats):
        for f in fs:
            have[f].append(i)
    for f in todo:
        if f in covered or len(chosen) >= limit:
            continue
        i = rnd.choice(have[f])
        chosen.append(i)
        covered |= feats[i]
    picked = set(chosen)
    cls = collections.OrderedDict()
    for i, p in enumerate(order):
        if i not in picked:
            cls.setdefault(path_class(p), []).append(i)
    keys = list(cls)
    rnd.shuffle(keys)
    for v in cls.values():
        rnd.shuffle(v)
    while len(picked) < limit:
        progress = False
        for k in keys:
            if cls[k] and len(picked) < limit:
                picked.add(cls[k].pop())
                progress = True
        if not progress:
            break
    return [order[i] for i in sorted(picked)]


# ------------------------------------------------------------ random behaviours -----
GENS = [("cA1", "kA1"), ("cA2", "kA2"), ("cA3", "kA3"), ("cB1", "kB1")]
TCS = ["tA", "tB", "tAB"]
CRLS = ["rE", "rP"]
ITEM_TOKS = {"cert": [g[0] for g in GENS], "key": [g[1] for g in GENS], "tc": TCS, "crl": CRLS}
NOPOS = {"k": -1, "m": ""}


def D(t, a=""):
    return {"t": t, "a": a}


def rand_des(rnd, accept=False, parent=None):
    """a random configuration for connect / server, or a random accept map (parent: the server's configuration)"""
    dn = lambda: rnd.choice(["d1", "d2", "L", "F", "d1", "d2"])
    r = rnd.random()
    if accept and r < 0.45:
        ck = (D("inh"), D("inh"))
    elif r < 0.25 and not accept:
        ck = (D("def"), D("def"))
    elif r < 0.7:
        d = dn()
        ck = (D("file", d), D("file", d if rnd.random() < 0.9 else dn()))
    else:
        g = rnd.choice(GENS)
        ck = (D("val", g[0]), D("val", g[1] if rnd.random() < 0.9 else rnd.choice(GENS)[1]))
    if rnd.random() < 0.04:
        ck = (D("val", "bad"), ck[1]) if rnd.random() < 0.5 else (D("file", "nx"), ck[1])
    r = rnd.random()
    if accept:
        ptc = parent[2]["t"]
        if ptc == "off" or r < 0.6:
            tc = D("inh")
        elif r < 0.8:
            tc = D("file", dn())
        else:
            tc = D("val", rnd.choice(TCS))
        pcrl = parent[3]["t"]
        crl = D("inh") if pcrl == "off" or rnd.random() < 0.7 else rnd.choice([D("file", dn()), D("val", rnd.choice(CRLS))])
        return [ck[0], ck[1], tc, crl]
    if r < 0.3:
        tc = D("def")
    elif r < 0.6:
        tc = D("file", dn())
    elif r < 0.9:
        tc = D("val", rnd.choice(TCS))
    else:
        tc = D("off")
    r = rnd.random()
    if tc["t"] == "off" or r < 0.7:
        crl = D("off")
    elif r < 0.8:
        crl = D("def")
    elif r < 0.9:
        crl = D("file", dn())
    else:
        crl = D("val", rnd.choice(CRLS))
    return [ck[0], ck[1], tc, crl]


def rand_update(rnd, ns=""):
    r = rnd.random()
    d = rnd.choice(["d1", "d2"])
    if r < 0.3:
        it = rnd.choice(["tc", "crl", "tc", "cert", "key"])
        return {"a": "put", "d": d, "it": it, "c": rnd.choice(ITEM_TOKS[it]), "how": rnd.choice(["inplace", "rename"]), "ns": ns}
    if r < 0.5:
        return {"a": "pair", "d": d, "c": rnd.choice(GENS[:3])[0]}
    if r < 0.58:
        return {"a": "put", "d": d, "it": rnd.choice(["cert", "key", "tc", "crl"]),
                "c": rnd.choice(["bad", "missing", "dir", "dangle"]), "how": "inplace", "ns": ""}
    if r < 0.72:
        return {"a": "flipL", "d": d}
    if r < 0.86:
        return {"a": "flipF", "it": rnd.choice(["cert", "key", "tc", "crl"]), "d": d}
    return {"a": "env", "d": rnd.choice(["d1", "d2", "L", "F", "d1", "d2", "nx", "unset"])}


def random_behaviour(rnd, ns_ok, force_fork=False):
    """force_fork: the namespace is entered by a forked child (after the parent has already made TLS calls)"""
    steps = []
    use_ns = ns_ok and (force_fork or rnd.random() < 0.12)
    forkv = use_ns and (force_fork or rnd.random() < 0.4)
    nsname = "n1"
    for d in ("d1", "d2"):
        for ns in (["", nsname] if use_ns else [""]):
            g = rnd.choice(GENS[:3])
            for it, c in (("cert", g[0]), ("key", g[1]), ("tc", rnd.choice(TCS)), ("crl", rnd.choice(CRLS))):
                steps.append({"a": "put", "d": d, "it": it, "c": c, "how": "rename", "ns": ns})
    steps.append({"a": "flipL", "d": rnd.choice(["d1", "d2"])})
    for it in ("cert", "key", "tc", "crl"):
        steps.append({"a": "flipF", "it": it, "d": rnd.choice(["d1", "d2"]) if rnd.random() < 0.3 else "d1"})
    steps.append({"a": "env", "d": rnd.choice(["d1", "d2", "L", "F"])})
    if use_ns and forkv:
        # the parent creates (and closes) a TLS socket with the default credentials first, then the child takes over
        steps += [{"a": "open", "s": 6, "k": "server", "p": 0, "c": "rnd", "at": [D("def"), D("def"), D("def"), D("off")]},
                  {"a": "ret", "s": 6, "ok": True}, {"a": "close", "s": 6}, {"a": "ns", "ns": nsname, "fork": 1}]
    elif use_ns:
        steps.append({"a": "ns", "ns": nsname})
    live, servers = {}, {}
    free = [1, 2, 3, 4, 5, 6]
    for _ in range(rnd.randrange(4, 10)):
        r = rnd.random()
        if r < 0.45 and free:
            s = free.pop(0)
            mids = []
            if rnd.random() < 0.25:
                for _k in range(rnd.choice((1, 1, 2))):
                    u = rand_update(rnd)
                    if u["a"] == "ns":
                        continue
                    u["pos"] = {"k": rnd.randrange(0, 5), "m": rnd.choice(["any", "fopen", "any"])}
                    mids.append(u)
            q = rnd.random()
            if servers and q < 0.4:
                p = rnd.choice(sorted(servers))
                st = {"a": "open", "s": s, "k": "accept", "p": p, "c": "rnd", "at": rand_des(rnd, True, servers[p])}
            elif q < 0.6:
                at = rand_des(rnd)
                st = {"a": "open", "s": s, "k": "server", "p": 0, "c": "rnd", "at": at}
                servers[s] = at
            else:
                st = {"a": "open", "s": s, "k": "connect", "p": 0, "c": "rnd", "at": rand_des(rnd)}
            if forkv and st["k"] != "accept" and rnd.random() < 0.7:
                st["at"] = [D("def"), D("def"), D("def"), D("off")]      # the per-namespace file names matter
            live[s] = st["k"]
            steps += [st] + mids + [{"a": "ret", "s": s, "ok": True}]
        elif r < 0.6 and live:
            s = rnd.choice(sorted(live))
            del live[s]
            servers.pop(s, None)
            steps.append({"a": "close", "s": s})
        elif r < 0.65 and use_ns:
            steps.append({"a": "ns", "ns": rnd.choice([nsname, ""])})
        else:
            u = rand_update(rnd, nsname if use_ns and rnd.random() < 0.3 else "")
            u["pos"] = NOPOS
            steps.append(u)
    return steps


KEY_OF = dict(GENS + [("pA", "kpA"), ("pB", "kpB")])

# by-value configurations whose bytes strung together coincide (named deviation value_concat), in both orders
COLLIDE = [
    [("v:cA1", "v:kA1", "v:tA", "v:tB+rE"), ("v:cA1", "v:kA1", "v:tA+tB", "v:rE")],
    [("v:cA1", "v:kA1", "v:tA+tB", "v:rE"), ("v:cA1", "v:kA1", "v:tA", "v:tB+rE")],
]


def collide_script(xid, order):
    l = ["X %d collide" % xid, "open 20 server 0 tls v:pB v:kpB v:tAB off"]
    for i, d in enumerate(COLLIDE[order]):
        l += ["open %d connect 20 tls %s" % (i + 1, " ".join(d)), "open %d accept 20 tls inh inh inh inh" % (21 + i),
              "drive %d %d" % (i + 1, 21 + i)]
    return l + ["end"]


# ---------------------------------------------------------------- execution -----
FIELDS = dict(x=0, n=0, ev="crash", s=0, k="", p=0, tp="", des=[["off", ""]] * 4, mid=0, d="", ns="", it="", c="", how="",
              ret=0, err=0, ctx=-1, nnew=0, freed=[], live=0, s2=0, est=-1, idc="", ids="", ec=0, es=0, st=0, lst=0, ok=0,
              nfo=0, uc=-1, res="", why="")


def crash_reason(rc, err):
    for ln in err.splitlines():
        if "ERROR: AddressSanitizer" in ln or "runtime error" in ln or "Assertion" in ln or "ut_assert" in ln:
            return ln.strip()[:200]
    return "time-out" if rc == -999 else "exit status %d" % rc


def read_lines(path):
    try:
        data = open(path).read()
    except FileNotFoundError:
        return []
    lines = data.split("\n")
    lines.pop()
    return [ln for ln in lines if ln]


def run_execs(binary, execs, base, timeout):
    """execs: list of scripts (each a list of lines starting with 'X <id> ..').  Returns (ndjson path, lines, crashes)."""
    out, crashes, k, rounds = [], [], 0, 0
    while k < len(execs):
        rounds += 1
        lines = [ln for e in execs[k:] for ln in e]
        rb = "%s.r%d" % (base, rounds)
        rc, err = run_script(binary, lines, rb, timeout)
        got = read_lines(rb + ".ndjson")
        if rc == 2:
            raise InternalError("creds_exec rejected its script:\n%s" % err[-2000:])
        if rc == 0:
            out += got
            break
        # the execution in progress when the harness died
        lastx = json.loads(got[-1])["x"] if got else int(execs[k][0].split()[1])
        idx = next((i for i in range(k, len(execs)) if int(execs[i][0].split()[1]) == lastx), None)
        if idx is None:
            raise InternalError("harness failed (%d) outside any execution:\n%s" % (rc, err[-2000:]))
        if rc == -999:
            # never let load decide: the suspect is run alone with a generous limit
            rc2, err2 = run_script(binary, execs[idx], rb + ".solo", 300)
            if rc2 == 0:
                got = [g for g in got if json.loads(g)["x"] != lastx] + read_lines(rb + ".solo.ndjson")
                out += got
                k = idx + 1
                continue
            rc, err = rc2, err2
        why = crash_reason(rc, err)
        with open("%s.crash%d.txt" % (rb, lastx), "w") as f:
            f.write(err[-20000:])
        n = max([json.loads(g)["n"] for g in got if json.loads(g)["x"] == lastx] or [0])
        c = dict(FIELDS, x=lastx, n=n + 1, why=why)
        out += got + [json.dumps(c)]
        crashes.append((lastx, why))
        k = idx + 1
        if len(crashes) > 20:
            break               # enough: the rest of this batch is not run (the crashes are reported)
    path = base + ".ndjson"
    with open(path, "w") as f:
        f.write("\n".join(out) + "\n")
    return path, len(out), crashes


def validate(trace, n, tag):
    r = vlib.tlc("CtxStoreTrace", "CtxStoreTrace.cfg", workers=1, timeout=1500, dfs=True, extra="-noGenerateSpecTE",
                 env={"TRACE": trace, "JAVA_TOOL_OPTIONS": "-Xmx3g -Xss64m -XX:ParallelGCThreads=2 -XX:CICompilerCount=2 "
                                                           "-Dtlc2.tool.queue.IStateQueue=StateDeque"},
                 metadir="%s/c18tv.%s.%d" % (vlib.TLCDIR, tag, os.getpid()))
    vl, stat = [], None
    for ln in r["out"].splitlines():
        if ln.startswith('"@V '):
            v = json.loads(json.loads(ln)[3:])
            vl.append(dict(x=v[0], n=v[1], tag=v[2], why=v[3], exp=v[4], obs=v[5]))
        elif ln.startswith('"@STAT '):
            stat = json.loads(json.loads(ln)[6:])
        elif ln.startswith('"@N '):
            v = json.loads(json.loads(ln)[3:])
            vl.append(dict(x=v[0], n=v[1], tag="NOTE." + v[2], why=v[2], exp=v[3], obs=v[4]))
    if r["error"] or stat is None or r["distinct"] != n + 1 or "Postcondition" in r["out"]:
        raise InternalError("trace validation did not consume %s (%d lines, %d states):\n%s"
                            % (trace, n, r["distinct"], (r["error"] or r["out"][-3000:])))
    return vl, stat, r


def execute_and_validate(binary, execs, tag, nproc, timeout):
    d = vlib.fresh_dir("%s/%s" % (vlib.RUN, tag))
    nb = max(1, min(nproc, len(execs) // 4 or 1))
    chunks = [execs[i::nb] for i in range(nb)]
    allv, stats, crashes, lines, tv_states = [], collections.Counter(), [], 0, 0

    def job(i):
        os.makedirs("%s/c%d" % (d, i), exist_ok=True)
        trace, n, cr = run_execs(binary, chunks[i], "%s/c%d/b" % (d, i), timeout)
        vl, stat, r = validate(trace, n, "%s.%d" % (tag, i))
        shutil.rmtree("%s/c%d/fs" % (d, i), ignore_errors=True)
        return vl, stat, cr, n, r

    with concurrent.futures.ThreadPoolExecutor(max_workers=nb) as ex:
        for vl, stat, cr, n, r in ex.map(job, range(nb)):
            allv.extend(vl)
            stats.update(stat)
            crashes.extend(cr)
            lines += n
            tv_states += r["distinct"]
    return d, allv, dict(stats), crashes, lines, tv_states


# ------------------------------------------------------------------ the check -----
TIERS = {
    "quick": dict(mc=MC_QUICK, per_cfg=140, n_random=330, nproc=12, mc_workers=4, timeout=600),
    "thorough": dict(mc=MC_THOROUGH, per_cfg=1500, n_random=5000, nproc=14, mc_workers=4, timeout=3000),
}
DEV_NAMES = ["accept_env_frozen", "ctx_meta_key", "aba_load", "load_errno", "value_concat"]
WHAT = {
    "accept_env_frozen": "a connection accepted after XCM_TLS_CERT changed still uses the directory that was current when "
                         "xcm_server() was called (the server socket's resolved file names are inherited)",
    "ctx_meta_key": "a credential file rewritten with unchanged (dev, ino, size, mtime) is invisible: a new connection is given "
                    "the cached context made of the old content",
    "aba_load": "the certificate directory link flipped away and back while one context is being loaded: both metadata "
                "hashes agree and a context mixing two generations is installed",
    "load_errno": "a credential file that can be stat'ed but not read (a directory in its place, or a file removed between the "
                  "hash and the read) makes xcm_connect/xcm_server fail with the errno of fopen/fread (EISDIR, ENOENT) instead of "
                  "EPROTO",
    "value_concat": "two by-value configurations whose items differ but whose bytes strung together coincide share one "
                    "context (the key has no separators between items)",
}


def exec_id(script):
    return int(script[0].split()[1])


def nontrivial(script):
    """an update after the first open, a mid-call update, an accept map that says something, or a by-value item"""
    seen_open = False
    for ln in script:
        w = ln.split()
        if w[0] == "open":
            if int(w[1]) < 20:
                if seen_open and False:
                    return True
                if w[2] == "accept" and any(x != "inh" for x in w[5:9]):
                    return True
                if any(x.startswith("v:") for x in w[5:9]):
                    return True
            seen_open = True
        elif w[0] == "mid" or (seen_open and w[0] in ("put", "flipL", "flipF", "env", "ns")):
            return True
    return False


def describe(v):
    return "%s [%s] expected %s, observed %s" % (v["tag"], v["why"], json.dumps(v["exp"])[:220], json.dumps(v["obs"])[:220])


def replay_text(script, v, note=""):
    head = ["# property C18: %s" % describe(v), "# mismatch at step n=%d of this execution%s" % (v["n"], note),
            "# replay: bin/check C18 --replay <this file>"]
    return "\n".join(head + script) + "\n"


def classify(allv, by_x):
    """-> classes {key: [mismatches]} of C18 mismatches, consequences and internal trouble sorted out"""
    first_c18 = {}
    for v in sorted(allv, key=lambda q: (q["x"], q["n"])):
        if v["tag"].startswith("C18.") and v["x"] not in first_c18:
            first_c18[v["x"]] = v["n"]
    classes, internal = collections.OrderedDict(), []
    for v in sorted(allv, key=lambda q: (q["x"], q["n"])):
        if v["tag"].startswith("NOTE."):
            continue
        if v["tag"] == "INTERNAL":
            if v["x"] in first_c18 and first_c18[v["x"]] < v["n"]:
                continue            # the scaffolding tripped over an earlier, reported, mismatch
            internal.append(v)
            continue
        extra = ""
        if v["tag"] == "C18.eproto" and isinstance(v["exp"], list) and len(v["exp"]) > 1:
            extra = "/" + str(v["exp"][1])
        if v["tag"] == "C18.crash":
            extra = "/" + re.sub(r"0x[0-9a-f]+|pc \S+|\d+", "#", str(v["obs"]))[:60]
        key = v["why"] if v["why"] in DEV_NAMES else "%s/%s%s" % (v["tag"], v["why"], extra)
        classes.setdefault(key, []).append(v)
    if internal:
        v = internal[0]
        raise InternalError("the harness / trace machinery tripped: %s in execution %d:\n%s"
                            % (describe(v), v["x"], "\n".join(by_x.get(v["x"], [])[:80])))
    return classes


def check(pid, tier, seed):
    t0 = time.time()
    if tier not in TIERS:
        tier = "quick"
    T = dict(TIERS[tier])
    if os.environ.get("C18_NPROC"):      # development on a shared machine
        T["nproc"] = int(os.environ["C18_NPROC"])
        T["mc_workers"] = 2 if tier == "quick" else 3
    rnd = random.Random(seed)
    binary = vlib.build(["creds_exec"])[0]
    gen_creds()
    d0 = vlib.fresh_dir("%s/%s_probe" % (vlib.RUN, pid))
    rc, err = run_script(binary, ["X 1 probe", "ns n1", "ns -", "end"], d0 + "/p", 60)
    if rc != 0:
        raise InternalError("creds_exec does not run: %s" % err[-2000:])
    ns_ok = all(json.loads(l)["ok"] == 1 for l in read_lines(d0 + "/p.ndjson") if json.loads(l)["ev"] == "ns")

    # ---- 1. the design: TLC on the bounded configurations, replay paths emitted ----------------------
    violations, known, notes = [], [], []
    mc_summary, states, transitions = {}, 0, 0
    jobs = dict(T["mc"])
    dev_mode = bool(os.environ.get("C18_NPROC"))
    pool = concurrent.futures.ThreadPoolExecutor(max_workers=len(jobs) + len(MC_DEV))
    # configurations that emit replay paths run on one worker each; the design-only ones keep running while the
    # behaviours are executed
    futs = {n: pool.submit(run_mc, n, c[0], T["mc_workers"], None, "6g", T["timeout"]) for n, c in jobs.items()}
    devf = {n: pool.submit(run_mc, "dev_" + n, c[0], 1, [c[1]], "2g", 600) for n, c in MC_DEV.items()}
    res = {n: f.result() for n, f in futs.items() if jobs[n][2]}
    dev = {n: f.result() for n, f in devf.items()}
    phase = {"replayed_configurations": round(time.time() - t0, 1)}
    if os.environ.get("C18_VERBOSE"):
        print("replayed configurations done after %.0f s: %s" % (time.time() - t0, {n: (r["distinct"], round(r["wall"])) for n, r in res.items()}), flush=True)
    execs, origin = [], collections.Counter()
    xid = 0
    modes = ["tls"] * 7 + ["btls", "utls", "utls"]
    def account(n, r):
        need = jobs[n][1]
        mc_summary[n] = dict(distinct=r["distinct"], generated=r["generated"], depth=r["depth"], wall=round(r["wall"], 1),
                             paths=len(r["paths"]), actions={k: v[0] for k, v in sorted(r["cov"].items()) if v[0]})
        if r["violated"]:
            rp = vlib.save_replay(pid, "tlc_%s.txt" % n, r["out_tail"])
            violations.append(("design", "TLC: %s of CtxStore.tla violated in configuration %s" % (",".join(r["violated"]), n), rp))
            return False
        if r["distinct"] < 200:
            raise InternalError("configuration %s explored only %d states (vacuous)" % (n, r["distinct"]))
        idle = [a for a in need if r["cov"].get(a, (0, 0))[0] == 0]
        if idle:
            raise InternalError("configuration %s never took action(s) %s (vacuous)" % (n, idle))
        return True

    for n in sorted(res):
        r = res[n]
        states += r["distinct"]
        transitions += r["generated"]
        if not account(n, r):
            continue
        if not r["paths"]:
            raise InternalError("configuration %s emitted no replay paths" % n)
        mp = maximal_paths(r["paths"])
        mc_summary[n]["maximal_paths"] = len(mp)
        pick = sample_paths(mp, T["per_cfg"], rnd)
        mc_summary[n]["replayed"] = len(pick)
        for p in pick:
            # what a context is made of shows in whom it accepts: behaviours with an update inside a call meet both peers
            mid = any(st.get("pos", {}).get("k", -1) >= 0 for st in p)
            for variant in ((0, 1) if mid else (None,)):
                xid += 1
                execs.append(Builder(xid, "mc_" + n, rnd, rnd.choice(modes), variant).run(r["init"] + p))
                origin["mc_" + n] += 1

    # ---- 2. named deviations: the model with the deviation breaks the property; the counterexample is replayed -----
    dev_x = {}
    for n in sorted(dev):
        r = dev[n]
        states += r["distinct"]
        transitions += r["generated"]
        mc_summary["dev_" + n] = dict(distinct=r["distinct"], generated=r["generated"], violated=r["violated"])
        if not r["ce"] or not r["violated"]:
            raise InternalError("deviation %s: the model with the deviation switched on does not break %s any more "
                                "(stale deviation)" % (n, MC_DEV[n][1]))
        ce = sorted((json.dumps(c[1], sort_keys=True) for c in r["ce"]), key=lambda q: (len(q), q))[0]
        init = res[sorted(k for k in res if res[k]["init"])[0]]["init"]
        for variant in (0, 1):
            xid += 1
            dev_x[xid] = n
            execs.append(Builder(xid, "dev_" + n, rnd, "tls", variant).run(init + json.loads(ce)))
            origin["deviation"] += 1
    for order in (0, 1):
        xid += 1
        dev_x[xid] = "value_concat"
        execs.append(collide_script(xid, order))
        origin["deviation"] += 1

    # ---- 3. seeded random behaviours (larger universe: four directories, four generations, namespaces) ---------
    for i_r in range(T["n_random"]):
        xid += 1
        execs.append(Builder(xid, "random", rnd, rnd.choice(modes)).run(random_behaviour(rnd, ns_ok, force_fork=i_r < 4)))
        origin["random"] += 1
    by_x = {exec_id(e): e for e in execs}

    # ---- 4. the real library, then TLC on what it did -------------------------------------------------
    order = list(execs)
    rnd.shuffle(order)
    t1 = time.time()
    pending = [n for n, f in futs.items() if not jobs[n][2] and not f.done()]
    nproc = max(4, T["nproc"] - (T["mc_workers"] * len(pending) if not dev_mode else 0))
    d, allv, stats, crashes, lines, tv_states = execute_and_validate(binary, order, "%s_%s" % (pid, tier), nproc, T["timeout"])
    phase["execute_validate"] = round(time.time() - t1, 1)
    if os.environ.get("C18_VERBOSE"):
        print("%d executions done after %.0f s" % (len(execs), time.time() - t0), flush=True)
    if stats.get("x", 0) != len(execs) and len(crashes) <= 20:
        raise InternalError("%d executions but %d validated" % (len(execs), stats.get("x", 0)))
    if stats.get("incon", 0) > max(3, len(execs) // 50):
        notes.append("%d handshakes did not settle within 30 s (not judged)" % stats["incon"])

    # the design-only configurations (two threads, the widest scope) have been running meanwhile
    t1 = time.time()
    for n in sorted(futs):
        if not jobs[n][2]:
            r = futs[n].result()
            states += r["distinct"]
            transitions += r["generated"]
            account(n, r)
    pool.shutdown()
    phase["waited_for_design_only_configurations"] = round(time.time() - t1, 1)

    # ---- 5. verdicts ---------------------------------------------------------------------------------------
    classes = classify(allv, by_x)
    nnotes = collections.Counter(v["tag"] for v in allv if v["tag"].startswith("NOTE."))
    for k, c in sorted(nnotes.items()):
        notes.append("%s: %d calls (the model of the cache predicts more than the property demands; e.g. execution %d)"
                     % (k, c, next(v["x"] for v in allv if v["tag"] == k)))
    reports = {}
    firsts = {}
    for key, vs in classes.items():
        vs.sort(key=lambda v: (len(by_x[v["x"]]), v["x"]))
        firsts[key] = vs[0]
    if firsts:
        # a rejection is reported only if a re-run of the same execution (alone, sequentially) repeats it
        t1 = time.time()
        rd = vlib.fresh_dir("%s/%s_confirm" % (vlib.RUN, pid))
        again = []
        rex = [by_x[x] for x in sorted(set(v["x"] for v in firsts.values()))]
        trace, n, cr = run_execs(binary, rex, rd + "/r", 600)
        again, _, _ = validate(trace, n, "confirm")
        phase["confirm"] = round(time.time() - t1, 1)
    for key, vs in classes.items():
        v = firsts[key]
        script = by_x[v["x"]]
        if not [q for q in again if q["x"] == v["x"] and q["tag"] == v["tag"] and q["why"] == v["why"]]:
            notes.append("not repeated on re-run: %s (execution %d)" % (describe(v), v["x"]))
            continue
        reports[key] = (v, script, len(vs))
        sig = {"tag": v["tag"], "why": v["why"], "detail": json.dumps([v["why"], v["exp"]]), "class": key}
        f = vlib.match_finding(pid, sig)
        text = "%s [%d executions, e.g. %s %d]" % (describe(v), len(vs), script[0].split()[2], v["x"])
        if f:
            known.append("property=%s %s (%s)" % (pid, f.get("what", WHAT.get(v["why"], key)), text[:300]))
            continue
        name = re.sub(r"[^A-Za-z0-9_]+", "_", key.replace("C18.", "")).strip("_")[:60] + ".script"
        rp = vlib.save_replay(pid, name, replay_text(script, v))
        what = WHAT.get(v["why"])
        violations.append(("conformance", (what + ": " if what else "") + text, rp))
    # a deviation the model names but the library no longer shows is worth a note
    seen_dev = set(v[0]["why"] for v in reports.values())
    for n in DEV_NAMES:
        if n not in seen_dev:
            notes.append("named deviation %s was not observed on the library in this run" % n)

    # vacuity (only when nothing was found: a library broken enough to starve these counters has been reported above)
    need = dict(open_ok=50, open_fail=5, reuse=20, drive_est=30, drive_rej=5, chk=10, close=50, freed_on_close=20, mid=10,
                accept=10, byval=10)
    low = {k: stats.get(k, 0) for k, v in need.items() if stats.get(k, 0) < v}
    if low and not violations:
        raise InternalError("vacuous run, too few of: %s (all: %s)" % (low, stats))

    # ---- 6. evidence ---------------------------------------------------------------------------------------------
    nt = sum(1 for e in execs if nontrivial(e))
    samples = [{"execution": by_x[i][:40]} for i in sorted(by_x)[:1] + sorted(by_x)[len(by_x) // 2:len(by_x) // 2 + 1]]
    for key, (v, script, cnt) in list(reports.items())[:4]:
        samples.append({"mismatch": describe(v)[:500], "executions": cnt})
    cov = dict(states=states, transitions=transitions, traces_validated_against_impl=len(execs), samples=samples,
               evaluations=sum(stats.get(k, 0) for k in ("open_ok", "open_fail", "drive_est", "drive_rej", "chk", "close")),
               distinct_nontrivial=nt,
               rule="every execution is one behaviour (TLC replay path of CtxStore.tla, counterexample of a deviation run, or "
                    "seeded random) performed on real files and the real library by harness/creds_exec and validated line by "
                    "line by TLC against CtxStoreTrace.tla; evaluations = API calls whose outcome was compared (open, handshake "
                    "+ identities, re-check of an established pair, close); non-trivial = an execution with a file/link/"
                    "environment update after the first open or inside a call, an accept map that overrides something, or a "
                    "by-value item",
               model_configurations=mc_summary, executions_by_origin=dict(origin), trace_lines=lines,
               trace_validation_states=tv_states, trace_statistics=stats, crashes=len(crashes), namespace_naming=ns_ok,
               mismatch_classes={k: len(v) for k, v in classes.items()}, phase_wall_s=phase, notes=notes, known_findings=known, exhaustive=False)
    vlib.write_evidence(pid, tier, seed, "model_checking", cov, time.time() - t0, violations=len(violations),
                        assumptions=["OpenSSL's handshake, chain verification and PEM parsing are trusted; the meaning of the "
                                     "credential tokens (who trusts / revokes whom) is fixed in spec/CtxCore.tla and the files are "
                                     "generated to match",
                                     "a context's identity is observed at the ctx_store_get_ctx / SSL_CTX_new / SSL_CTX_free "
                                     "link-time seams (shim/shim_creds.c)",
                                     "updates placed inside a call are placed at the n-th fopen/stat of a credential file; "
                                     "two or more calling threads are covered by the model only (the cache mutex serialises them)",
                                     "an ordinary rewrite changes (ino, size, mtime): verified with stat() after every write",
                                     "TLC and the Json/IOUtils community modules are trusted"])
    return violations, known


def replay(pid, path):
    binary = vlib.build(["creds_exec"])[0]
    gen_creds()
    script = [ln.rstrip("\n") for ln in open(path) if ln.strip() and not ln.startswith("#")]
    if not script or not script[0].startswith("X "):
        raise InternalError("not a C18 replay file (TLC counterexamples of the design are re-checked by running the check)")
    d = vlib.fresh_dir("%s/replay_%s" % (vlib.RUN, pid))
    trace, n, crashes = run_execs(binary, [script], d + "/r", 300)
    vl, stat, r = validate(trace, n, "replay")
    bad = []
    for v in vl:
        print("MISMATCH" if v["tag"].startswith("C18.") else "internal", "n=%d" % v["n"], describe(v))
        if v["tag"].startswith("C18.") and not vlib.match_finding(pid, {"tag": v["tag"], "why": v["why"],
                                                                         "detail": json.dumps([v["why"], v["exp"]])}):
            bad.append(v)
    print("replayed %d steps, trace %s" % (n, trace))
    return bad
