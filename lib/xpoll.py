"""xpoll refinement layer (C16): spec/XPoll.tla (TLC) -> call sequences -> the real libxcm/core/xpoll.c + active_fd.c
(harness/xpoll_exec) -> recorded calls -> spec/XPollTrace.tla.

The mechanism behind "one stable descriptor that is quiet when idle": the epoll instance whose descriptor xcm_fd()
returns.  The model is a step function mirroring xpoll.c; TLC explores every legal call sequence of a transport (fd
registrations with masks, bells, descriptors closed under a registration) and prints one behaviour per transition of
the state graph plus deeper simulated ones; the harness performs them on the real code and records the returned ids,
every epoll_ctl made, the kernel's own report of the interest list, the readability of the epoll descriptor and the
active_fd users; the trace specification compares each call with the same step function."""
import concurrent.futures
import json
import os
import random
import re
import subprocess

import vlib
from vlib import InternalError

INVS = "InvKernel InvReadable InvPool InvShape InvNoAbort InvFrugal"
PROPS = "InvIds InvFrugalStep"
BROKEN = {"del_keeps": "InvKernel", "bell_silent": "InvReadable", "afd_kept": "InvPool"}

TIERS = {
    "quick": dict(mc=[("{1, 2}", 5), ("{1, 2, 3}", 4)], emit=("{1, 2}", 4), sim=dict(num=300, depth=16), n_exec=2500),
    "thorough": dict(mc=[("{1, 2}", 7), ("{1, 2, 3}", 5)], emit=("{1, 2, 3}", 5), sim=dict(num=4000, depth=24), n_exec=60000),
}


def _cfg(name, fds, maxops, emit="none", broken="none", props=True):
    d = vlib.BUILD + "/cfg"
    os.makedirs(d, exist_ok=True)
    path = "%s/xpoll_%s_%d.cfg" % (d, name, os.getpid())
    with open(path, "w") as f:
        f.write("SPECIFICATION Spec\nCONSTANTS\n  Fds = %s\n  MaxOps = %d\n  EmitPaths = \"%s\"\n  Broken = \"%s\"\nVIEW view\n"
                "INVARIANTS %s\n%sCHECK_DEADLOCK FALSE\n" % (fds, maxops, emit, broken, INVS, ("PROPERTIES %s\n" % PROPS) if props else ""))
        if emit != "none":
            f.write("ACTION_CONSTRAINT Emit\n")
    return path


def _tlc(name, cfg, workers=4, extra="", timeout=1500):
    try:
        r = vlib.tlc("XPoll", cfg, workers=workers, extra=extra, timeout=timeout, heap="4g",
                     metadir="%s/xpoll.%s.%d" % (vlib.TLCDIR, name, os.getpid()))
    finally:
        if os.path.exists(cfg):
            os.unlink(cfg)
    if r["error"] and not r["violated"]:
        raise InternalError("TLC failed on XPoll/%s:\n%s" % (name, r["error"]))
    return r


def parse_paths(out):
    res = []
    for ln in out.splitlines():
        if ln.startswith('"@P '):
            try:
                res.append(tuple(tuple(s) for s in json.loads(json.loads(ln)[3:])))
            except ValueError:
                raise InternalError("unparsable behaviour line from TLC: %s" % ln[:200])
    return res


def maximal(paths):
    ps = sorted(set(paths))
    out = []
    for i, p in enumerate(ps):
        if i + 1 < len(ps) and ps[i + 1][:len(p)] == p:
            continue
        out.append(p)
    return out


def model_check(tier, seed):
    T = TIERS[tier]
    jobs = {}
    for i, (fds, mo) in enumerate(T["mc"]):
        jobs["mc%d" % i] = (_cfg("mc%d" % i, fds, mo), 4, "")
    for b in BROKEN:
        jobs["broken_" + b] = (_cfg("b_" + b, "{1, 2}", 5, broken=b, props=False), 1, "")
    jobs["emit"] = (_cfg("emit", T["emit"][0], T["emit"][1], emit="transition", props=False), 1, "")
    jobs["sim"] = (_cfg("sim", "{1, 2, 3}", T["sim"]["depth"], emit="transition", props=False), 2,
                   "-simulate num=%d -depth %d -seed %d" % (T["sim"]["num"], T["sim"]["depth"], seed))
    with concurrent.futures.ThreadPoolExecutor(max_workers=4) as ex:
        futs = {n: ex.submit(_tlc, n, c[0], c[1], c[2]) for n, c in jobs.items()}
        res = {n: f.result() for n, f in futs.items()}
    summary, states, transitions, violated = {}, 0, 0, []
    for n, r in res.items():
        summary["XPoll/" + n] = dict(distinct=r["distinct"], generated=r["generated"], violated=r["violated"])
        if n.startswith("mc"):
            states += r["distinct"]
            transitions += r["generated"]
            if r["violated"]:
                violated.append((n, r))
        elif n.startswith("broken_"):
            want = BROKEN[n[7:]]
            if want not in r["violated"]:
                raise InternalError("the broken variant %s of XPoll.tla is not rejected by %s (vacuous): %s" % (n[7:], want, r["violated"]))
    p_exh = maximal(parse_paths(res["emit"]["out"]))
    p_sim = maximal(parse_paths(res["sim"]["out"]))
    if len(p_exh) < 300 or len(p_sim) < 50:
        raise InternalError("TLC emitted too few xpoll behaviours: %d exhaustive, %d simulated" % (len(p_exh), len(p_sim)))
    for r in res.values():
        r["out"] = r["out"][-3000:]
    return summary, states, transitions, violated, p_exh, p_sim


def script_of(x, p):
    return ["X %d" % x] + ["%s %d %d" % (s[0], s[1], s[2]) for s in p] + ["E"]


def run(binary, execs, tag, nproc=8):
    d = vlib.fresh_dir("%s/%s" % (vlib.RUN, tag))
    nproc = max(1, min(nproc, len(execs)))
    env = dict(os.environ)
    crashes = []
    env.update({"ASAN_OPTIONS": "detect_leaks=0:abort_on_error=0:handle_abort=0:exitcode=3",
                "UBSAN_OPTIONS": "print_stacktrace=1:halt_on_error=1"})

    def worker(i):
        """a sanitizer report or an abort outside a call costs one execution: the rest is run by a fresh process"""
        tp = "%s/w%d.ndjson" % (d, i)
        rest = execs[i::nproc]
        attempt = 0
        with open(tp, "w") as tout:
            while rest and attempt < 30:
                sp, part = "%s/w%d.%d.script" % (d, i, attempt), "%s/w%d.%d.part" % (d, i, attempt)
                with open(sp, "w") as f:
                    for x, lines in rest:
                        f.write("\n".join(lines) + "\n")
                log = "%s/w%d.%d.log" % (d, i, attempt)
                rc = subprocess.call(["timeout", "600", binary, sp, part], env=env, stdout=open(log, "w"), stderr=subprocess.STDOUT)
                got = []
                if os.path.exists(part):
                    for l in open(part):
                        try:
                            got.append(json.loads(l))
                        except ValueError:
                            pass
                attempt += 1
                if rc == 0:
                    for o in got:
                        tout.write(json.dumps(o) + "\n")
                    break
                if not got:
                    raise InternalError("xpoll_exec ended with status %d before its first call (%s)" % (rc, open(log).read()[-1500:]))
                last = got[-1]["x"]
                for o in got:
                    if o["x"] != last:
                        tout.write(json.dumps(o) + "\n")
                why = re.sub(r"\s+", " ", open(log).read()[-600:])
                crashes.append((last, why))
                ids = [x for x, _ in rest]
                rest = rest[ids.index(last) + 1:] if last in ids else []
        return tp

    with concurrent.futures.ThreadPoolExecutor(max_workers=nproc) as ex:
        return d, list(ex.map(worker, range(nproc))), crashes


def validate(trace):
    n = sum(1 for _ in open(trace))
    r = vlib.tlc("XPollTrace", "XPollTrace.cfg", workers=1, env={"TRACE": trace}, timeout=1500, heap="3g", dfs=True,
                 metadir="%s/xpolltv.%s.%d" % (vlib.TLCDIR, os.path.basename(trace), os.getpid()))
    vl = []
    for ln in r["out"].splitlines():
        if ln.startswith('"@V '):
            v = json.loads(json.loads(ln)[3:])
            vl.append(dict(x=v[0], n=v[1], tag=v[2], detail="expected %s, observed %s" % (json.dumps(v[3])[:200], json.dumps(v[4])[:200])))
    if r["error"] or r["distinct"] != n + 1 or "Postcondition" in r["out"]:
        raise InternalError("XPollTrace did not consume %s (%d lines, %d states):\n%s" % (trace, n, r["distinct"], r["error"] or r["out"][-2000:]))
    return vl, n


def selftest(trace, d):
    """binding: a falsified kernel list / returned id / readability in recorded lines must be rejected"""
    lines = [l for l in open(trace)][:400]
    out, kinds = [], set()
    for l in lines:
        o = json.loads(l)
        if o["op"][0] == "fa" and "id" not in kinds and not o["crash"]:
            o["ret"] += 1
            kinds.add("id")
        elif o["op"][0] == "bm" and o["ker"] and "kernel" not in kinds:
            o["ker"] = o["ker"][1:]
            kinds.add("kernel")
        elif o["op"][0] == "rd" and "readable" not in kinds and len(kinds) == 2:
            o["rd"] = 1 - o["rd"]
            kinds.add("readable")
        out.append(json.dumps(o))
    p = "%s/falsified.ndjson" % d
    with open(p, "w") as f:
        f.write("\n".join(out) + "\n")
    vl, _ = validate(p)
    got = set(v["tag"].replace("C16.xpoll_", "") for v in vl)
    missing = kinds - got
    if missing or not kinds:
        raise InternalError("XPollTrace accepts falsified records (%s not rejected; falsified: %s)" % (sorted(missing), sorted(kinds)))
    return sorted(kinds)


def part(pid, tier, seed, rnd):
    """-> (violations, coverage, notes) in the form lib/conn_check.py merges into the C16 evidence"""
    if tier not in TIERS:
        tier = "quick"
    T = TIERS[tier]
    binary = vlib.build(["xpoll_exec"])[0]
    summary, states, transitions, bad, p_exh, p_sim = model_check(tier, seed)
    violations, notes = [], []
    for name, r in bad:
        rp = vlib.save_replay(pid, "tlc_xpoll_%s.txt" % name, r["out"][-20000:])
        violations.append(("design", "TLC: %s of XPoll.tla violated in configuration %s" % (",".join(r["violated"]), name), rp))
    r2 = random.Random(seed * 7919 + 3)
    n_sim = min(len(p_sim), T["n_exec"] // 3)
    chosen = r2.sample(p_sim, n_sim)
    rest = T["n_exec"] - n_sim
    chosen += p_exh if len(p_exh) <= rest else r2.sample(p_exh, rest)
    execs = [(i + 1, script_of(i + 1, p)) for i, p in enumerate(chosen)]
    d, traces, crashes = run(binary, execs, "xpoll_%s_%s" % (pid, tier))
    with concurrent.futures.ThreadPoolExecutor(max_workers=min(8, len(traces))) as ex:
        res = list(ex.map(validate, traces))
    vl = [v for r in res for v in r[0]]
    nlines = sum(r[1] for r in res)
    falsified = selftest(traces[0], d)
    byx = dict(execs)
    seen = set()
    for v in vl:
        if not v["tag"].startswith(pid + ".") or v["x"] in seen:
            continue
        seen.add(v["x"])
        if len(seen) > 5:
            continue
        body = "# %s at call %d: %s\n# replay: bin/check %s --replay <this file>\n%s\n" % (v["tag"], v["n"], v["detail"], pid, "\n".join(byx[v["x"]]))
        rp = vlib.save_replay(pid, "xpoll_x%d.xps" % v["x"], body)
        violations.append(("conformance", "%s in xpoll call sequence %d at call %d: %s" % (v["tag"], v["x"], v["n"], v["detail"]), rp))
    for x, why in crashes[:3]:
        body = "# %s.xpoll_crash: %s\n# replay: bin/check %s --replay <this file>\n%s\n" % (pid, why[-400:], pid, "\n".join(byx[x]))
        rp = vlib.save_replay(pid, "xpoll_crash_x%d.xps" % x, body)
        violations.append(("conformance", "%s.xpoll_crash: the real xpoll.c died (sanitizer report / abort) in call sequence %d: %s" % (pid, x, why[-200:]), rp))
    ops = {}
    for _, lines in execs:
        for l in lines[1:-1]:
            ops[l.split()[0]] = ops.get(l.split()[0], 0) + 1
    for need in ("fa", "fm", "fd", "ba", "bm", "bd", "cl", "rd"):
        if ops.get(need, 0) < 20:
            raise InternalError("xpoll behaviours contain only %d '%s' calls (vacuous)" % (ops.get(need, 0), need))
    cov = dict(states=states, transitions=transitions, model_configurations=summary, executions=len(execs), calls=nlines,
               calls_by_kind=ops, behaviours_exhaustive=len(p_exh), behaviours_simulated=len(p_sim), binding_selftest=falsified,
               violating_executions=len(seen), crashes=len(crashes))
    return violations, cov, notes


def replay(pid, path):
    lines = [l.rstrip("\n") for l in open(path) if l.strip() and not l.startswith("#")]
    binary = vlib.build(["xpoll_exec"])[0]
    d, traces, crashes = run(binary, [(int(lines[0].split()[1]), lines)], "xpoll_replay", nproc=1)
    vl, _ = validate(traces[0])
    for x, why in crashes:
        vl.append(dict(x=x, n=0, tag=pid + ".xpoll_crash", detail=why[-300:]))
    for v in vl:
        print("MISMATCH", v["tag"], "call", v["n"], v["detail"])
    return [v for v in vl if v["tag"].startswith(pid + ".")]
