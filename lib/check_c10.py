"""C10 - attribute reads and writes are memory-safe and type-checked.

Pipeline per run:
  1. build harness/attr_exec from /repo's working tree (ASan/UBSan, linked with the shim)
  2. TLC on spec/AttrMC.tla (Mode "vec", one run per group of transports): enumerates
       (socket kind x transport x life point) x attribute x accessor x capacity class      (reads)
       ... x type x length class x value class, on live sockets and through creation maps    (writes)
     plus malformed / unknown / long / deep names, checks the laws WriteBound, Overflow, SetErrors and
     CreationOnly of spec/Attr.tla on every vector and prints the vectors
  3. harness/attr_exec brings a real socket to each life point (held TCP connects, pending TLS handshakes,
     peer closed, peer reset, accepted, server) and executes every vector: reads go twice into a canary-framed
     buffer and once into a heap block of exactly `capacity` bytes (AddressSanitizer), written values live in
     exactly sized heap blocks; before/after snapshots of all attributes and of the kernel options
  4. TLC validates every recorded call against Attr.tla with the measured sizes (spec/AttrTrace.tla);
     C10.* tags are violations, C11.* tags (creation-only clauses) and NOTE.* go to the evidence only;
     an attribute the table does not know is an internal error (exit 2)
"""
import collections
import random
import time

import attr_common as ac
import vlib
from vlib import InternalError

PID = "C10"

TIERS = {
    "quick": dict(groups=[["tcp", "ux"], ["tls"], ["btls", "uxf"], ["utls", "tcp6"], ["btcp", "utlsx"]], reduced=True, n_random_names=40,
                  light=["btls", "uxf", "utls", "btcp", "utlsx"], chunks=14, timeout=240),
    "thorough": dict(groups=[["tcp"], ["ux", "uxf"], ["tls"], ["btls"], ["utls"], ["btcp", "tcp6"], ["utlsx"]], reduced=False,
                     n_random_names=600, light=[], chunks=16, timeout=1200),
}


def enumerate_all(T, rnd):
    names = ac.bad_names(rnd, T["n_random_names"])
    jobs = [(g, "%d" % i) for i, g in enumerate(T["groups"])]
    res = ac.parallel(jobs, lambda j: ac.enumerate_vectors(j[0], names, T["reduced"], j[1], T["light"]), workers=len(jobs))
    vecs, states, generated, summary = [], 0, 0, {}
    for (g, _), (r, vs) in zip(jobs, res):
        if r["violated"]:
            rp = vlib.save_replay(PID, "tlc_vec_%s.txt" % "_".join(g), r["out_tail"])
            return None, ("design", "TLC: law %s of Attr.tla violated for transports %s" % (",".join(r["violated"]), g), rp), None
        if r["distinct"] < 500 or len(vs) < 500:
            raise InternalError("vector enumeration for %s is implausibly small (%d states, %d vectors)" % (g, r["distinct"], len(vs)))
        states += r["distinct"]
        generated += r["generated"]
        summary["+".join(g)] = dict(distinct=r["distinct"], generated=r["generated"], vectors=len(vs), wall=round(r["wall"], 1))
        vecs.extend(vs)
    return vecs, None, dict(states=states, transitions=generated, configurations=summary, names_outside_table=len(names))


def check(pid, tier, seed):
    t0 = time.time()
    if tier not in TIERS:
        tier = "quick"
    T = TIERS[tier]
    rnd = random.Random(seed)
    ac.clean_java_tmp()
    binary = vlib.build(["attr_exec"])[0]
    types = ac.table_types()

    vecs, design, mc = enumerate_all(T, rnd)
    violations, known = [], []
    if design:
        violations.append(design)
        vlib.write_evidence(pid, tier, seed, "model_checking", dict(states=0, transitions=0, traces_validated_against_impl=0, samples=[],
                            evaluations=0, distinct_nontrivial=0, rule="TLC found a law of Attr.tla violated"), time.time() - t0, 1)
        return violations, known

    res = ac.execute_vectors(binary, vecs, "%s_%s" % (pid, tier), rnd, T["chunks"], T["timeout"])
    st = res["stats"]
    if st.get("gok", 0) < 500 or st.get("govf", 0) < 500 or st.get("gtype", 0) < 200 or st.get("gnone", 0) < 100 or \
            st.get("sok", 0) < 20 or st.get("srej", 0) < 500 or st.get("fresh", 0) < 100 or st.get("ls", 0) < 20:
        raise InternalError("vacuous run: %s" % st)
    if len(res["skipped"]) > len(vecs) // 20:
        raise InternalError("%d of %d vectors could not be executed (socket situations did not settle)" % (len(res["skipped"]), len(vecs)))

    reports, notes, other = ac.group_mismatches(res["mismatches"], res["byid"], pid, types, ac.describe_vec)
    for rep in reports:
        sig = {"tag": rep["tag"], "family": rep["family"], "detail": rep["detail"], "class": rep["key"]}
        f = vlib.match_finding(pid, sig)
        if f:
            k = "property=%s %s (%d recorded calls, e.g. %s)" % (pid, f["what"], rep["count"], ac.vec_text(res["byid"][rep["ids"][0]][0]))
            if not any(f["what"] in x for x in known):
                known.append(k)
            continue
        name = rep["key"].replace(pid + ".", "").replace("/", "_").replace(" ", "_").replace(".", "_").strip("_") + ".vec"
        rp = vlib.save_replay(pid, name, ac.replay_body(pid, rep, res["byid"]))
        violations.append(("conformance", "%s [%d calls, class %s]" % (rep["text"], rep["count"], rep["key"]), rp))

    sits = collections.Counter("%s/%s/%s" % tuple(v["sit"]) for v in vecs)
    ids = sorted(res["byid"])
    samples = [{"vector": ac.vec_line(res["byid"][i][0], i), "meaning": ac.vec_text(res["byid"][i][0]), "expected_class": res["byid"][i][0]["x"]}
               for i in (ids[0], ids[len(ids) // 3], ids[len(ids) // 2], ids[-1])]
    for rep in reports[:4]:
        samples.append({"mismatch": rep["text"][:400], "calls": rep["count"]})
    cov = dict(states=mc["states"], transitions=mc["transitions"], traces_validated_against_impl=len(vecs) - len(res["skipped"]),
               samples=samples, evaluations=3 * st.get("g", 0) + st.get("s", 0),
               distinct_nontrivial=st.get("govf", 0) + st.get("gtype", 0) + st.get("gnone", 0) + st.get("srej", 0),
               rule="every vector is one call (reads: three executions, two canary fills and one exactly sized heap block) on a real "
                    "socket at the stated life point, validated by TLC against Attr.tla; non-trivial = a read whose value does not fit, "
                    "a typed read of another type, a read with no value, or a write that must be refused",
               model_configurations=mc["configurations"], names_outside_table=mc["names_outside_table"],
               socket_situations=len(sits), vectors_by_situation=dict(sits), reads=st.get("g", 0), reads_fit=st.get("gok", 0),
               reads_overflow=st.get("govf", 0), reads_wrong_type=st.get("gtype", 0), reads_no_value=st.get("gnone", 0),
               writes=st.get("s", 0), writes_accepted=st.get("sok", 0), writes_refused=st.get("srej", 0),
               writes_through_creation_maps=st.get("fresh", 0), attribute_listings_checked=st.get("ls", 0),
               crashes=len(res["crashes"]), vectors_not_executed=len(res["skipped"]), trace_validation_states=res["tv_states"],
               mismatch_classes={r["key"]: r["count"] for r in reports}, notes=notes, mismatches_of_other_properties=other,
               known_findings=known, harness_wall_s=res["t_exec"], validation_wall_s=res["t_val"], exhaustive=not T["reduced"])
    vlib.write_evidence(pid, tier, seed, "model_checking", cov, time.time() - t0, violations=len(violations),
                        assumptions=["the attribute table of spec/Attr.tla (read off the populate functions and include/xcm.h) is complete: "
                                     "xcm_attr_get_all on every socket situation is checked against it and any other name fails the run",
                                     "value sizes are measured with a 64 KiB reference read of the same attribute",
                                     "SCTP is not built; DNS resolution ('resolving' life point) is not exercised",
                                     "errno where two clauses of the statement apply at once: either is accepted",
                                     "TLC and the JSON/IOUtils community modules are trusted"])
    return violations, known


def replay(pid, path):
    binary = vlib.build(["attr_exec"])[0]
    bad = ac.replay_vectors(pid, path, binary)
    if bad is None:
        raise InternalError("not a C10 replay file; TLC counterexamples are re-checked by running the check")
    return bad
