"""Checks for the connection-level properties (C01 C02 C03 C06 C07 C16 C17, and the connection part of C04/C05).

Pipeline per run:
  1. build harness/conn_exec from /repo's working tree (ASan/UBSan, shim linked in)
  2. TLC on the bounded configurations of spec/Xcm.tla that matter for the property
     (design-level invariants; known deviations checked in *_dev configurations)
  3. replay paths emitted by TLC (one per distinct state, or per transition in the thorough tier)
     + seeded random scripts  ->  harness/conn_exec  ->  NDJSON traces
  4. TLC trace validation (spec/XcmTrace.tla) of every recorded execution
  5. mismatches tagged with this property -> VIOLATION (unless listed in known_findings.json)
"""
import json
import os
import random
import re
import time

import conn
import vlib
from vlib import InternalError

REAL_MAXMSG = 65535

ALL_INV = ["WireLayout", "C01_Prefix", "C01_NoPartial", "C02_Prefix", "C02_Range", "C03_NoTrace",
           "C03_FailNotDelivered", "C06_Sticky", "C06_DrainFirst", "C07_Bounds", "C07_WellFormedPrefix",
           "C07_Eproto", "C07_IllegalIsEproto", "C17_Counters", "C17_Quiescent", "C04_NoLostWakeup",
           "C16_Quiet", "C16_Immediate"]

BASE = dict(HdrLen=4, MaxMsg=2, TP='"tcp"', Lens="{0, 1, 2, 3}", Caps="{1, 2}", MaxSends=2, MaxRecvs=4,
            InjErr="{}", Conds="{0, 1}", EmitPaths='"none"', ZeroLen='"eproto"', PipeErr="FALSE", HdrVals="{}",
            Senders="{1}", Receivers="{2}", Closers="{1}")


def C(**kw):
    d = dict(BASE)
    d.update(kw)
    return d


# name -> constants.  Sized so that each finishes in well under a minute on 16 cores.
MC = {
    "tcp_oneway": C(),
    "tcp_oneway_inj": C(InjErr="{104}", MaxRecvs=3, Conds="{0}", Closers="{1, 2}"),
    "tcp_cond": C(Conds="{0, 1, 2, 3}", Lens="{1, 2}", MaxRecvs=3),
    "tcp_cond_q": C(Conds="{0, 1, 2, 3}", Lens="{1, 2}", Caps="{2}", MaxSends=1, MaxRecvs=2),
    "tcp_twoway": C(Senders="{1, 2}", Receivers="{1, 2}", Lens="{1}", Caps="{2}", MaxSends=1, MaxRecvs=2, Conds="{0}", Closers="{1, 2}"),
    "btcp_oneway": C(TP='"btcp"', Lens="{0, 1, 3}", Caps="{1, 2}", MaxSends=2, MaxRecvs=4),
    "btcp_inj": C(TP='"btcp"', Lens="{0, 2}", Caps="{1, 2}", MaxSends=2, MaxRecvs=3, InjErr="{104}", Closers="{1, 2}", Conds="{0}"),
    "ux_oneway": C(TP='"ux"', Lens="{0, 1, 2, 3}", Caps="{1, 2}", MaxSends=3, MaxRecvs=4),
    "ux_twoway": C(TP='"ux"', Senders="{1, 2}", Receivers="{1, 2}", Lens="{1, 2}", Caps="{1}", MaxSends=2, MaxRecvs=2, Closers="{1, 2}", Conds="{0, 1}"),
    "tcp_hostile": C(HdrVals="{0, 1, 2, 3, 100}", Senders="{}", Receivers="{1}", Closers="{2}", MaxRecvs=5),
    # named deviation: expected to violate C06_DrainFirst (known finding epipe_closes)
    "tcp_dev_epipe": C(PipeErr="TRUE", Senders="{1, 2}", Receivers="{1, 2}", Lens="{1}", Caps="{2}", MaxSends=1, MaxRecvs=2, Conds="{0}", Closers="{1, 2}"),
}

# spec/XcmLive.tla: two event-loop applications under a fair adversarial lower layer (FairSpec); safety + liveness
LIVE = {
    "live_tcp": dict(TP='"tcp"', N1=2, N2=1, MsgLen=2, Cap=2, Closer=0, props=["AllDelivered"]),
    "live_tcp_close": dict(TP='"tcp"', N1=2, N2=0, MsgLen=2, Cap=1, Closer=1, props=["CloseSeen"]),
    "live_btcp": dict(TP='"btcp"', N1=3, N2=2, MsgLen=2, Cap=1, Closer=0, props=["AllDelivered"]),
    "live_btcp_close": dict(TP='"btcp"', N1=3, N2=0, MsgLen=2, Cap=1, Closer=1, props=["CloseSeen"]),
    "live_ux": dict(TP='"ux"', N1=3, N2=3, MsgLen=1, Cap=1, Closer=0, props=["AllDelivered"]),
    "live_ux_close": dict(TP='"ux"', N1=3, N2=0, MsgLen=1, Cap=1, Closer=1, props=["CloseSeen"]),
}


def run_live(name, broken="none"):
    c = LIVE[name]
    d = vlib.BUILD + "/cfg"
    os.makedirs(d, exist_ok=True)
    lines = ["SPECIFICATION FairSpec", "CONSTANTS", "  HdrLen = 4", "  MaxMsg = 2", '  Broken = "%s"' % broken]
    for k in ("TP", "N1", "N2", "MsgLen", "Cap", "Closer"):
        lines.append("  %s = %s" % (k, c[k]))
    lines += ["INVARIANTS NoLostWakeup Quiet", "PROPERTIES " + " ".join(c["props"]), "CHECK_DEADLOCK FALSE"]
    path = "%s/%s_%s_%d.cfg" % (d, name, broken, os.getpid())
    with open(path, "w") as f:
        f.write("\n".join(lines) + "\n")
    r = vlib.tlc("XcmLive", path, workers=8, timeout=900, heap="8g", metadir="%s/live.%s.%s.%d" % (vlib.TLCDIR, name, broken, os.getpid()))
    os.unlink(path)
    if r["error"]:
        raise InternalError("TLC failed on %s:\n%s" % (name, r["error"]))
    return r


def run_btls_send(capture):
    """spec/XcmBtlsSend.tla: btls_send over OpenSSL's record layer; Capture = TRUE is what the code does"""
    d = vlib.BUILD + "/cfg"
    os.makedirs(d, exist_ok=True)
    path = "%s/btlssend_%s_%d.cfg" % (d, capture, os.getpid())
    with open(path, "w") as f:
        f.write("SPECIFICATION Spec\nCONSTANTS\n  RecMax = 2\n  Lens = {1, 2, 3}\n  MaxCalls = 4\n  Capture = %s\n"
                "INVARIANTS C02_WireIsAccepted C02_Range\nCHECK_DEADLOCK FALSE\n" % capture)
    r = vlib.tlc("XcmBtlsSend", path, workers=2, timeout=600, heap="2g", metadir="%s/btlssend.%s.%d" % (vlib.TLCDIR, capture, os.getpid()))
    os.unlink(path)
    if r["error"]:
        raise InternalError("TLC failed on XcmBtlsSend %s:\n%s" % (capture, r["error"]))
    return r


def run_block(broken="none", ncalls=2, nsig=2):
    """spec/XcmBlock.tla: blocking xcm_send as a loop over the XcmCore operations, signals at every wait (C03, C04)"""
    d = vlib.BUILD + "/cfg"
    os.makedirs(d, exist_ok=True)
    path = "%s/block_%s_%d.cfg" % (d, broken, os.getpid())
    with open(path, "w") as f:
        f.write("SPECIFICATION FairSpec\nCONSTANTS\n  HdrLen = 4\n  MaxMsg = 2\n  MsgLen = 2\n  NCalls = %d\n  NSig = %d\n  Broken = \"%s\"\n"
                "INVARIANTS C03_FailNotDelivered C03_FailNoTrace C03_OkHasFrame\nPROPERTIES OkDelivered Returns\nCHECK_DEADLOCK FALSE\n"
                % (ncalls, nsig, broken))
    r = vlib.tlc("XcmBlock", path, workers=4, timeout=900, heap="4g", metadir="%s/block.%s.%d" % (vlib.TLCDIR, broken, os.getpid()))
    os.unlink(path)
    if r["error"]:
        raise InternalError("TLC failed on XcmBlock %s:\n%s" % (broken, r["error"]))
    return r


def run_tlsready(framed, broken="none"):
    """spec/XcmTlsReady.tla: the btls readiness decision tree (the operators bound to the code) under an abstract OpenSSL"""
    d = vlib.BUILD + "/cfg"
    os.makedirs(d, exist_ok=True)
    path = "%s/tlsready_%s_%s_%d.cfg" % (d, framed, broken, os.getpid())
    with open(path, "w") as f:
        f.write("SPECIFICATION FairSpec\nCONSTANTS\n  HdrLen = 4\n  MaxMsg = 2\n  Framed = %s\n  Broken = \"%s\"\n"
                "INVARIANTS NoLostWakeup\nPROPERTIES SendDone\nCHECK_DEADLOCK FALSE\n" % (framed, broken))
    r = vlib.tlc("XcmTlsReady", path, workers=2, timeout=600, heap="2g", metadir="%s/tlsready.%s.%s.%d" % (vlib.TLCDIR, framed, broken, os.getpid()))
    os.unlink(path)
    if r["error"]:
        raise InternalError("TLC failed on XcmTlsReady %s/%s:\n%s" % (framed, broken, r["error"]))
    return r


PROPS = {
    "C01": dict(mc=["tcp_oneway", "ux_oneway", "tcp_twoway"], paths=["tcp_oneway", "ux_oneway"],
                tps=["tcp", "ux", "uxf", "tls", "utls", "utlst", "tcp", "ux"], raw=0.0, profile="C01", blocking=0.25),
    "C02": dict(mc=["btcp_oneway", "btcp_inj"], paths=["btcp_oneway"], tps=["btcp", "btls", "btcp"], raw=0.0, profile="C02", blocking=0.35,
                btls_send=True, sendonly=0.08),
    "C03": dict(mc=["tcp_oneway", "ux_oneway", "btcp_oneway"], paths=["tcp_oneway"],
                tps=["tcp", "ux", "btcp", "uxf", "tls", "utls", "btls", "utlst"], raw=0.0, profile="C03", blocking=0.3, block=True),
    "C06": dict(mc=["tcp_oneway_inj", "btcp_inj", "ux_twoway"], dev=[("tcp_dev_epipe", "C06_DrainFirst", "epipe_closes")],
                paths=["tcp_oneway_inj", "btcp_inj"], tps=["tcp", "btcp", "ux", "uxf", "tcp", "tls", "btls", "utls"], raw=0.25, profile="C06",
                sendonly=0.3),
    "C07": dict(mc=["tcp_hostile"], paths=["tcp_hostile"], tps=["tcp", "tls", "tcp"], raw=1.0, profile="default"),
    "C16": dict(mc=["tcp_cond", "ux_twoway", "btcp_oneway"], paths=["tcp_cond"], mc_quick=["tcp_cond_q", "ux_twoway", "btcp_oneway"],
                paths_quick=["tcp_cond_q"], tps=["tcp", "btcp", "ux", "uxf", "tls", "utlst", "utls"], raw=0.0, profile="C16", tlsready=True),
    "C17": dict(mc=["tcp_oneway", "ux_oneway", "btcp_oneway", "tcp_twoway"], paths=["tcp_oneway", "ux_oneway", "btcp_oneway"],
                tps=["tcp", "ux", "btcp", "uxf", "tls", "btls", "utls", "utlst"], raw=0.0, profile="C17", blocking=0.15),
    "C04": dict(mc=["tcp_cond", "tcp_twoway", "ux_twoway"], paths=["tcp_cond"], mc_quick=["tcp_cond_q", "tcp_twoway"], paths_quick=["tcp_cond_q"],
                tps=["tcp", "btcp", "ux", "uxf", "tls", "btls", "utls", "utlst"], raw=0.0, profile="C04", blocking=0.25, loop=0.45,
                live=["live_tcp", "live_tcp_close", "live_btcp", "live_btcp_close", "live_ux", "live_ux_close"], live_broken=["no_pollout", "in_or_out"],
                tlsready=True, block=True),
    "C05": dict(mc=["tcp_oneway"], paths=["tcp_oneway"], tps=["tcp", "btcp", "ux", "uxf", "tls", "btls", "utls", "utlst"], raw=0.1,
                profile="C05", loop=0.2),
}

TIERS = {
    "quick": dict(paths_per_cfg=1500, random_execs=2500, emit="state"),
    "thorough": dict(paths_per_cfg=30000, random_execs=30000, emit="transition"),
}


def write_cfg(name, consts, invariants, emit):
    d = vlib.BUILD + "/cfg"
    os.makedirs(d, exist_ok=True)
    c = dict(consts)
    c["EmitPaths"] = '"%s"' % emit
    lines = ["SPECIFICATION Spec", "CONSTANTS"]
    for k, v in c.items():
        lines.append("  %s = %s" % (k, v))
    lines.append("VIEW view")
    lines.append("INVARIANTS")
    lines.append("  " + " ".join(invariants + (["EmitState"] if emit == "state" else [])))
    if emit == "transition":
        lines.append("ACTION_CONSTRAINT Emit")
    lines.append("CHECK_DEADLOCK FALSE")
    path = "%s/%s_%d.cfg" % (d, name, os.getpid())
    with open(path, "w") as f:
        f.write("\n".join(lines) + "\n")
    return path


def real_len(n, model_max):
    """model lengths above the model's MaxMsg stand for real lengths above the real maximum"""
    return n if n <= model_max else REAL_MAXMSG + (n - model_max)


def path_to_script(path, xid, tp, model_max, hostile):
    lines = ["X %d %s%s" % (xid, tp, " raw" if hostile else "")]
    pred = []
    for st in path:
        op = st[0]
        if op == "s":
            _, e, ln, wc, inj, ret, err = st
            lines.append("s %d %d %d %d" % (e, real_len(ln, model_max), wc, inj))
            pred.append((ret, err))
        elif op == "r":
            _, e, cap, rc, rinj, wc, winj, ret, err = st
            if hostile:
                e = 1
            lines.append("r %d %d %d %d %d %d" % (e, cap, rc, rinj, wc, winj))
            pred.append((ret, err))
        elif op == "f":
            _, e, wc, inj, ret, err = st
            lines.append("f %d %d %d" % (e, wc, inj))
            pred.append((ret, err))
        elif op == "a":
            lines.append("a %d %d" % (st[1], st[2]))
            pred.append((0, 0))
        elif op == "c":
            lines.append("c %d 0" % st[1])
            pred.append(None)
        elif op == "W":
            _, h, k = st
            lines.append("W h %d" % real_len(h, model_max))
            pred.append(None)
            pl = min(h, model_max + 2)
            if pl:
                lines.append("W p %d" % pl)
            lines.append("w %d" % k)
            pred.append(None)
    lines.append("p")
    return lines, pred


def run_mc(name, invariants, emit, expect_violation=None, max_keep=200000):
    consts = MC[name]
    cfg = write_cfg(name, consts, invariants, emit)
    out_path = "%s/mc.%s.%d.out" % (vlib.TLCDIR, name, os.getpid()) if emit != "none" else None
    os.makedirs(vlib.TLCDIR, exist_ok=True)
    r = vlib.tlc("Xcm", cfg, workers=vlib.NCPU, timeout=1500 if emit != "none" else 900, heap="16g",
                 metadir="%s/mc.%s.%d" % (vlib.TLCDIR, name, os.getpid()), out_path=out_path)
    os.unlink(cfg)
    if r["error"]:
        if out_path and os.path.exists(out_path):
            os.unlink(out_path)
        raise InternalError("TLC failed on %s:\n%s" % (name, r["error"]))
    paths = []
    if emit != "none":
        # one printed behaviour per state / transition: millions of lines in the thorough tier.  They are read from the file
        # twice - counted, then sampled by a hash of their content (the same behaviours are kept whatever order TLC's workers
        # printed them in) - so that at most max_keep of them are ever parsed
        import zlib
        n = 0
        with open(out_path, errors="replace") as f:
            for line in f:
                if line.startswith('<<"@P"'):
                    n += 1
        thr = 2 ** 32 if n <= max_keep else int(2 ** 32 * max_keep / n)
        with open(out_path, errors="replace") as f:
            for line in f:
                if not line.startswith('<<"@P"') or zlib.crc32(line.encode()) >= thr:
                    continue
                m = re.match(r'<<"@P", "(.*)">>', line)
                if m:
                    try:
                        paths.append(json.loads(m.group(1).replace('\\"', '"')))
                    except ValueError:
                        pass
        os.unlink(out_path)
        r["paths_printed"] = n
    return r, paths


def maximal_paths(paths):
    """drop paths that are a proper prefix of another one"""
    keys = sorted(set(json.dumps(p) for p in paths))
    ps = sorted(json.loads(k) for k in keys)
    out = []
    for i, p in enumerate(ps):
        if i + 1 < len(ps) and ps[i + 1][:len(p)] == p:
            continue
        out.append(p)
    return out


def tp_of_cfg(name):
    return MC[name]["TP"].strip('"')


def check(pid, tier, seed, only_random=False, extra=None):
    """extra: optional callable(pid, tier, seed, rnd) -> (violations, coverage dict, notes) run before the evidence is written
    (establishment-phase pipeline for C04 / C05 / C16)."""
    t0 = time.time()
    spec = PROPS[pid]
    T = TIERS[tier]
    binary = vlib.build(["conn_exec"])[0]
    rnd = random.Random(seed)
    notes = []
    violations = []   # (kind, description, replay_path)
    known = []

    # ---- 2. model checking ------------------------------------------------
    states = transitions = 0
    mc_summary = {}
    all_paths = {}
    mc_names = spec.get("mc_" + tier, spec["mc"])
    path_names = spec.get("paths_" + tier, spec["paths"])
    for name in mc_names:
        emit = T["emit"] if name in path_names else "none"
        r, paths = run_mc(name, ALL_INV, emit)
        states += r["distinct"]
        transitions += r["generated"]
        mc_summary[name] = dict(distinct=r["distinct"], generated=r["generated"], depth=r["depth"], wall=round(r["wall"], 1))
        if r["violated"]:
            rp = vlib.save_replay(pid, "tlc_%s.txt" % name, r["out"][-20000:])
            violations.append(("design", "TLC: invariant %s violated in configuration %s" % (",".join(r["violated"]), name), rp))
        if r["distinct"] < 100:
            raise InternalError("configuration %s explored only %d states (vacuous)" % (name, r["distinct"]))
        if paths:
            all_paths[name] = paths
    for name, inv, flag in spec.get("dev", []):
        r, _ = run_mc(name, ALL_INV, "none")
        states += r["distinct"]
        transitions += r["generated"]
        mc_summary[name] = dict(distinct=r["distinct"], generated=r["generated"], violated=r["violated"], expected=inv)
        if r["violated"] == [inv]:
            f = vlib.match_finding(pid, {"tag": "design." + flag})
            if f:
                known.append("property=%s %s (TLC counterexample in configuration %s, invariant %s)" % (pid, f["what"], name, inv))
            else:
                rp = vlib.save_replay(pid, "tlc_%s.txt" % name, r["out"][-20000:])
                violations.append(("design", "TLC: invariant %s violated in deviation configuration %s and no finding is recorded" % (inv, name), rp))
        elif r["violated"]:
            rp = vlib.save_replay(pid, "tlc_%s.txt" % name, r["out"][-20000:])
            violations.append(("design", "TLC: unexpected invariant %s violated in %s" % (",".join(r["violated"]), name), rp))
        else:
            notes.append("deviation configuration %s no longer violates %s: the recorded finding %s is stale" % (name, inv, flag))

    for name in spec.get("live", []):
        r = run_live(name)
        states += r["distinct"]
        transitions += r["generated"]
        mc_summary[name] = dict(distinct=r["distinct"], generated=r["generated"], depth=r["depth"], wall=round(r["wall"], 1),
                                fairness="SF(event-loop step with full credit), WF(kernel buffer drains)", violated=r["violated"])
        if r["violated"]:
            rp = vlib.save_replay(pid, "tlc_%s.txt" % name, r["out"][-20000:])
            violations.append(("design", "TLC: %s violated in liveness configuration %s" % (",".join(r["violated"]), name), rp))
        if r["distinct"] < 50:
            raise InternalError("liveness configuration %s explored only %d states (vacuous)" % (name, r["distinct"]))
    if spec.get("btls_send"):
        r = run_btls_send("FALSE")
        mc_summary["XcmBtlsSend/design"] = dict(distinct=r["distinct"], generated=r["generated"], violated=r["violated"])
        states += r["distinct"]
        transitions += r["generated"]
        if r["violated"]:
            rp = vlib.save_replay(pid, "tlc_btlssend.txt", r["out"][-20000:])
            violations.append(("design", "TLC: %s violated in XcmBtlsSend (intended design)" % ",".join(r["violated"]), rp))
        r = run_btls_send("TRUE")
        mc_summary["XcmBtlsSend/code (Capture)"] = dict(distinct=r["distinct"], generated=r["generated"], violated=r["violated"],
                                                          expected="C02_WireIsAccepted")
        if "C02_WireIsAccepted" in r["violated"]:
            f = vlib.match_finding(pid, {"tag": "design.btls_capture"})
            if f:
                known.append("property=%s %s (TLC counterexample in spec/XcmBtlsSend.tla with Capture = TRUE)" % (pid, f["what"]))
            else:
                rp = vlib.save_replay(pid, "tlc_btlssend_capture.txt", r["out"][-20000:])
                violations.append(("design", "TLC: C02_WireIsAccepted violated by the code's capture behaviour and no finding is recorded", rp))
        else:
            notes.append("XcmBtlsSend with Capture = TRUE no longer violates C02_WireIsAccepted: the recorded finding btls_capture is stale")
    if spec.get("block"):
        for broken in ("none", "eintr_after_accept"):
            r = run_block(broken, 2 if tier == "quick" else 3, 2 if tier == "quick" else 3)
            name = "XcmBlock/" + broken
            mc_summary[name] = dict(distinct=r["distinct"], generated=r["generated"], violated=r["violated"])
            if broken == "none":
                states += r["distinct"]
                transitions += r["generated"]
                if r["violated"]:
                    rp = vlib.save_replay(pid, "tlc_block.txt", r["out"][-20000:])
                    violations.append(("design", "TLC: %s violated in %s" % (",".join(r["violated"]), name), rp))
            elif not r["violated"]:
                raise InternalError("the broken design %s is accepted (vacuous properties)" % name)
    if spec.get("tlsready"):
        for framed, broken in [("TRUE", "none"), ("FALSE", "none"), ("TRUE", "no_pending"), ("FALSE", "no_pending"), ("TRUE", "no_idle_bell")]:
            r = run_tlsready(framed, broken)
            name = "XcmTlsReady/%s/%s" % ("tls" if framed == "TRUE" else "btls", broken)
            mc_summary[name] = dict(distinct=r["distinct"], generated=r["generated"], violated=r["violated"])
            if broken == "none":
                states += r["distinct"]
                transitions += r["generated"]
                if r["violated"]:
                    rp = vlib.save_replay(pid, "tlc_tlsready_%s.txt" % framed, r["out"][-20000:])
                    violations.append(("design", "TLC: %s violated in %s" % (",".join(r["violated"]), name), rp))
            elif not r["violated"]:
                raise InternalError("the broken design %s is accepted (vacuous properties)" % name)
    for broken in spec.get("live_broken", []):
        # vacuity guard: a deliberately broken design must be rejected by the same properties
        r = run_live(spec["live"][0], broken)
        mc_summary["live_broken_" + broken] = dict(distinct=r["distinct"], violated=r["violated"], expected="some violation")
        if not r["violated"]:
            raise InternalError("the broken design %s is accepted by the liveness configuration (vacuous properties)" % broken)

    # ---- 3. scripts ----------------------------------------------------------
    scripts = []
    origin = {}
    xid = 0
    npaths = 0
    for name, paths in all_paths.items():
        mp = maximal_paths(paths)
        if len(mp) > T["paths_per_cfg"]:
            mp = rnd.sample(mp, T["paths_per_cfg"])
        tp = tp_of_cfg(name)
        hostile = MC[name]["HdrVals"] != "{}"
        # (a hostile peer of a tls connection is a btls socket: the same raw frames inside a genuine TLS stream)
        tps = [tp] + (["uxf"] if tp == "ux" else []) + (["tls"] if hostile and tp == "tcp" else [])
        for i, p in enumerate(mp):
            xid += 1
            t = tps[i % len(tps)]
            s, pred = path_to_script(p, xid, t, MC[name]["MaxMsg"], hostile)
            scripts.append(s)
            origin[xid] = ("path:" + name, pred)
            npaths += 1
    nrand = T["random_execs"]
    for i in range(nrand):
        xid += 1
        tp = spec["tps"][i % len(spec["tps"])]
        if rnd.random() < spec["raw"] and tp in ("tcp", "tls"):
            scripts.append(conn.gen_raw_exec(rnd, xid, tp))
            origin[xid] = ("raw", None)
        elif tp in ("btcp", "btls") and rnd.random() < spec.get("sendonly", 0.0):
            scripts.append(conn.gen_sendonly_exec(rnd, xid, tp))
            origin[xid] = ("sendonly", None)
        elif rnd.random() < spec.get("loop", 0.0):
            scripts.append(conn.gen_loop_exec(rnd, xid, tp))
            origin[xid] = ("loop", None)
        elif rnd.random() < spec.get("blocking", 0.0):
            scripts.append(conn.gen_exec(rnd, xid, tp, "blocking"))
            origin[xid] = ("blocking", None)
        else:
            scripts.append(conn.gen_exec(rnd, xid, tp, spec["profile"]))
            origin[xid] = ("random", None)

    # directed: reset under a blocking byte-stream send (own generator state: the random executions of a seed stay as they were)
    if pid in ("C02", "C03"):
        import random as _random
        r2 = _random.Random(seed * 7919 + 13)
        for i in range(12 if tier == "quick" else 120):
            xid += 1
            scripts.append(conn.gen_blkreset_exec(r2, xid, ("btcp", "btls")[i % 2]))
            origin[xid] = ("blkreset", None)

    # ---- 4. execute + validate ---------------------------------------------
    tag = "%s_%s" % (pid, tier)
    d, traces = conn.run_scripts(binary, scripts, tag)
    vl, nlines, batches = conn.validate_parallel(traces, tag, nbatch=8 if tier == "quick" else 16)
    st = conn.trace_stats(batches)
    if st["executions"] < len(scripts) * 0.9:
        raise InternalError("only %d of %d executions were recorded" % (st["executions"], len(scripts)))
    if st["setup_failed"] > len(scripts) * 0.02:
        raise InternalError("%d executions failed to set up" % st["setup_failed"])
    if st["partial"] == 0 or st["refused"] == 0:
        raise InternalError("no partial I/O or refusal was exercised (vacuous)")

    # ---- 4b. the binding is real: a falsified copy of recorded executions must be rejected --------------
    falsified = binding_selftest(batches, tag)

    # ---- 5. verdicts ----------------------------------------------------------
    script_of = {}
    for s in scripts:
        script_of[int(s[0].split()[1])] = s
    mine, others, mm = {}, {}, 0
    for v in vl:
        t = v["tag"]
        if t == "MM":
            mm += 1
            continue
        if t.startswith(pid + ".") or t == "CRASH":
            mine.setdefault(v["x"], []).append(v)
        else:
            others[t] = others.get(t, 0) + 1
    nviol = 0
    reruns, unrepro = 0, []
    for x, vs in sorted(mine.items()):
        first = vs[0]
        tpx = script_of[x][0].split()[2]
        sig = {"tag": first["tag"], "transport": tpx, "detail": first["detail"]}
        f = vlib.match_finding(pid, sig)
        if f:
            if not any(f["what"] in k for k in known):
                known.append("property=%s %s" % (pid, f["what"]))
            continue
        # a verdict is reported only if the execution shows it again when it is run alone, with nothing else running beside
        # it (the executions of a run share the machine with fifteen others and with TLC)
        if reruns < 25 and nviol < 5:
            reruns += 1
            rtag = "%s_rr" % tag
            _d2, tr2 = conn.run_scripts(binary, [script_of[x]], rtag, nproc=1)
            vl2, _n2, _b2 = conn.validate_parallel(tr2, rtag, nbatch=1)
            if not any(v2["tag"] == first["tag"] for v2 in vl2):
                unrepro.append("%s on %s at step %d (execution %d): %s" % (first["tag"], tpx, first["n"], x, first["detail"][:120]))
                continue
        nviol += 1
        if nviol <= 5:
            body = "# %s %s step %d expected/observed: %s\n# replay: bin/check %s --replay <this file>\n" % (
                first["tag"], tpx, first["n"], first["detail"], pid) + "\n".join(script_of[x]) + "\n"
            rp = vlib.save_replay(pid, "x%d.script" % x, body)
            with open(rp + ".trace.ndjson", "w") as tf:
                tf.write(conn.extract_exec(first["batch"], x))
            violations.append(("conformance", "%s on %s at step %d: %s" % (first["tag"], tpx, first["n"], first["detail"]), rp))
    if nviol > 5:
        notes.append("%d further violating executions not written out" % (nviol - 5))
    for u in unrepro[:10]:
        notes.append("not repeated by the sequential re-run, not reported: " + u)

    extra_cov = {}
    if extra is None and pid == "C16":
        extra = c16_parts
    elif extra is None and pid == "C04":
        extra = c04_parts
    elif extra is None and pid in ("C01", "C07"):
        extra = framing_parts
    elif extra is None and pid in EST_TAGS:
        extra = est_part
    if extra is not None:
        xv, extra_cov, xnotes = extra(pid, tier, seed, rnd)
        violations.extend(xv)
        for n in xnotes:
            if n.startswith("KNOWN "):
                known.append(n[6:])
            else:
                notes.append(n)
        states += extra_cov.get("states", 0)
        transitions += extra_cov.get("transitions", 0)

    # ---- 6. evidence -----------------------------------------------------------
    samples = []
    for s in scripts[:1] + scripts[npaths:npaths + 2]:
        samples.append({"script": s[:14]})
    if vl:
        samples.append({"first_mismatch": {k: vl[0][k] for k in ("x", "n", "tag", "detail")}})
    cov = dict(states=states, transitions=transitions, traces_validated_against_impl=st["executions"] - st["setup_failed"],
               samples=samples, evaluations=st["executions"], distinct_nontrivial=st["nontrivial_execs"],
               rule="replay paths from TLC (one per %s of the bounded model, maximal under prefix) + seeded random scripts; "
                    "an execution is non-trivial if at least one step saw a partial/refused lower-layer call or a failing API call"
                    % ("distinct state" if T["emit"] == "state" else "transition"),
               model_configurations=mc_summary, replay_paths=npaths, random_executions=nrand, trace_lines=nlines,
               steps=st["steps"], steps_with_partial_io=st["partial"], steps_failing=st["refused"],
               steps_connection_errors=st["injected"], executions_by_transport=st["by_tp"], crashes=st["crashes"],
               model_mismatch_notes=mm, mismatches_tagged_for_other_properties=others, notes=notes,
               known_findings=known, exhaustive=False, binding_selftest=falsified)
    if extra_cov:
        cov["establishment"] = extra_cov
        cov["traces_validated_against_impl"] += extra_cov.get("executions", 0)
        cov["evaluations"] += extra_cov.get("executions", 0)
    vlib.write_evidence(pid, tier, seed, "model_checking", cov, time.time() - t0, violations=len(violations),
                        assumptions=["loopback TCP and AF_UNIX sockets behave like the envelope model of the lower layer",
                                     "the shim only shortens/refuses real calls or injects errnos the kernel can produce",
                                     "byte fidelity is judged by the harness's content-addressed payloads",
                                     "TLC and the JSON/IOUtils community modules are trusted"])
    return violations, known


# properties that also consume the establishment-phase traces (harness/est_exec, spec/XcmEst*.tla)
EST_TAGS = {"C01", "C04", "C05", "C06", "C07", "C16"}


def _merge(c1, name, c2):
    c1[name] = c2
    c1["states"] = c1.get("states", 0) + c2["states"]
    c1["transitions"] = c1.get("transitions", 0) + c2["transitions"]
    c1["executions"] = c1.get("executions", 0) + c2["executions"]


def c16_parts(pid, tier, seed, rnd):
    """C16 = establishment-phase traces + the refinement layers underneath xcm_fd(): spec/XPoll.tla against the real xpoll.c,
    spec/TimerMgr.tla against the real timer_mgr.c (the descriptor is quiet while no timer has expired)"""
    import timer
    import xpoll
    v1, c1, n1 = est_part(pid, tier, seed, rnd)
    v2, c2, n2 = xpoll.part(pid, tier, seed, rnd)
    v3, c3, n3 = timer.part(pid, tier, seed, rnd)
    _merge(c1, "xpoll", c2)
    _merge(c1, "timer_mgr", c3)
    return v1 + v2 + v3, c1, n1 + n2 + n3


def framing_parts(pid, tier, seed, rnd):
    """C01 / C07 = establishment-phase traces + spec/Mbuf.tla against the real mbuf.h (the framing of tcp / tls: frames are
    assembled from any split of chunks exactly; a hostile length field is never taken for a message)"""
    import mbuf
    v1, c1, n1 = est_part(pid, tier, seed, rnd)
    v2, c2, n2 = mbuf.part(pid, tier, seed, rnd)
    _merge(c1, "mbuf", c2)
    return v1 + v2, c1, n1 + n2


def c04_parts(pid, tier, seed, rnd):
    """C04 = establishment-phase traces + spec/TimerMgr.tla against the real timer_mgr.c (an expired timer wakes the socket)"""
    import timer
    v1, c1, n1 = est_part(pid, tier, seed, rnd)
    v3, c3, n3 = timer.part(pid, tier, seed, rnd)
    _merge(c1, "timer_mgr", c3)
    return v1 + v3, c1, n1 + n3


def est_part(pid, tier, seed, rnd):
    import est
    binary = vlib.build(["est_exec"])[0]
    summary, states, transitions, bad = est.model_check()
    violations, notes = [], []
    for name, r in bad:
        rp = vlib.save_replay(pid, "tlc_%s.txt" % name.replace("/", "_"), r["out"][-20000:])
        violations.append(("design", "TLC: %s violated in %s" % (",".join(r["violated"]), name), rp))
    scripts = est.gen_scripts(rnd, 3 if tier == "quick" else 40)
    d, batch, nlines = est.run(binary, scripts, "est_%s_%s" % (pid, tier))
    vl = est.validate(batch)
    st = est.stats(batch)
    if st["executions"] < len(scripts) * 0.9:
        raise InternalError("only %d of %d establishment executions were recorded" % (st["executions"], len(scripts)))
    if st["setup_failed"] > len(scripts) * 0.05:
        raise InternalError("%d establishment executions failed to set up" % st["setup_failed"])
    if st["calls_not_ready"] == 0:
        raise InternalError("no API call was made while an operation could not complete (vacuous)")
    if st["selftests"] == 0 or st["selftests_ok"] != st["selftests"]:
        raise InternalError("the wait detector of the shim failed its self-test (%d of %d): C05 would be vacuous" % (st["selftests_ok"], st["selftests"]))
    others = {}
    seen = set()
    byx = {}
    for s in scripts:
        byx[int(s.split()[1])] = s
    retry = []
    for v in vl:
        t = v["tag"]
        if not (t.startswith(pid + ".") or t == "CRASH"):
            others[t] = others.get(t, 0) + 1
            continue
        if v["x"] in seen:
            continue
        seen.add(v["x"])
        retry.append(v)
    # a rejection is reported only if a re-run of the same execution, alone, repeats it (machine load must not produce alarms)
    for v in retry[:8]:
        s = byx.get(v["x"])
        d2, b2, _ = est.run(binary, [s], "est_%s_retry" % pid, nproc=1)
        again = [w for w in est.validate(b2) if w["tag"] == v["tag"]]
        if not again:
            notes.append("establishment: %s in execution %s was not repeated by a sequential re-run (not reported)" % (v["tag"], s))
            continue
        body = "# %s step %d: %s\n# replay: bin/check %s --replay <this file>\n%s\n" % (v["tag"], v["n"], v["detail"], pid, s)
        rp = vlib.save_replay(pid, "est_x%d.script" % v["x"], body)
        with open(rp + ".trace.ndjson", "w") as tf:
            tf.write(est.extract(batch, v["x"]))
        violations.append(("conformance", "%s in establishment scenario '%s' at step %d: %s" % (v["tag"], s, v["n"], v["detail"]), rp))
    resolver = {}
    if pid == "C05":
        # name-resolution and multi-address connect phases under a scripted resolver: the C13 harness, whose traces carry
        # the same wait counter (spec/TConnectTrace.tla emits C05.wait)
        import check_c13
        tv, tknown, tcov = check_c13.check("C05", tier, seed, as_c05=True)
        violations.extend(tv)
        notes.extend("KNOWN " + k for k in tknown)
        resolver = dict(executions=tcov.get("traces_validated_against_impl", 0), api_calls=tcov.get("evaluations", 0),
                        calls_with_waits=tcov.get("c05_wait_records", 0), samples=tcov.get("c05_wait_samples", []),
                        states=tcov.get("states", 0), transitions=tcov.get("transitions", 0))
        states += resolver["states"]
        transitions += resolver["transitions"]
    if pid == "C04":
        # wake-ups during name resolution and multi-address connect (timers, several tracks): the C13 harness in virtual
        # time; its hang verdicts (spec/TConnectTrace.tla: C13.hang) are lost wake-ups of the event-loop contract
        import check_c13
        tv, tknown, tcov = check_c13.check("C04", tier, seed, as_c04=True)
        violations.extend(tv)
        notes.extend("KNOWN " + k for k in tknown)
        resolver = dict(executions=tcov.get("traces_validated_against_impl", 0), api_calls=tcov.get("evaluations", 0),
                        states=tcov.get("states", 0), transitions=tcov.get("transitions", 0),
                        mismatch_classes=tcov.get("mismatch_classes", {}))
        states += resolver["states"]
        transitions += resolver["transitions"]
    cov = dict(states=states, transitions=transitions, model_configurations=summary, executions=st["executions"] - st["setup_failed"] + resolver.get("executions", 0),
               resolver_phase=resolver,
               api_calls=st["api_calls"], api_calls_answered_eagain=st["calls_not_ready"], executions_by_scenario=st["by_scenario"],
               stuck_runs=st["stuck"], crashes=st["crashes"], calls_with_wait=st["waits"], trace_lines=nlines,
               mismatches_tagged_for_other_properties=others)
    return violations, cov, notes


def binding_selftest(batches, tag):
    """Takes the first few thousand recorded lines, falsifies one observable in three of them (a delivered length, a counter,
    the readiness of the descriptor) and requires the trace specification to object to each kind.  Guards against a trace
    specification that has silently stopped comparing (vacuity of the conformance step)."""
    if not batches:
        return {}
    src = batches[0][0]
    lines = []
    with open(src) as f:
        for line in f:
            lines.append(line)
            if len(lines) >= 4000 and line.startswith('{"x":') and '"op":"X"' in line:
                lines.pop()
                break
    done = {"len": [], "cnt": [], "rd": []}
    used = set()
    out = []
    for line in lines:
        o = None
        if '"op":"r"' in line and any(len(v) < 6 for v in done.values()):
            try:
                o = json.loads(line)
            except ValueError:
                o = None
        kind = None
        if o and o["x"] not in used:
            e = o["e"] - 1
            if o["ret"] > 1 and len(done["len"]) < 6:
                o["ret"] -= 1
                kind = "len"
            elif o["ret"] > 0 and len(done["cnt"]) < 6 and o["c"][e][0] >= 0:
                o["c"][e][0] += 1
                kind = "cnt"
            elif o["ret"] == -1 and o["err"] == 11 and len(done["rd"]) < 6 and o["rd"][e] in (0, 1) and o["kr"][e] >= 0 \
                    and o.get("ssl", [0, 0, 0, 0])[3] != -1:
                o["rd"][e] = 1 - o["rd"][e]
                kind = "rd"
        if kind:
            done[kind].append((o["x"], o["n"]))
            used.add(o["x"])        # one falsification per execution: later mismatches of an execution may be suppressed
            out.append(json.dumps(o, separators=(",", ":")) + "\n")
        else:
            out.append(line)
    if sum(1 for v in done.values() if v) < 2:
        return {"skipped": "too few suitable lines"}
    path = "%s/%s/falsified.ndjson" % (vlib.RUN, tag)
    with open(path, "w") as f:
        f.writelines(out)
    v, _ok, _r = conn.validate(path)
    hit = set((m["x"], m["n"]) for m in v)
    rejected = {k: sum(1 for xn in xs if xn in hit) for k, xs in done.items()}
    # the history part (len, cnt) is always on; the readiness comparison belongs to the model part, which is switched off
    # for the rest of an execution after a mismatch and does not exist for btls: its rejection is reported, not demanded
    missed = [k for k, xs in done.items() if xs and rejected[k] == 0 and k != "rd"]
    if missed:
        raise InternalError("the trace specification accepted falsified observations (%s): the conformance step is vacuous" % ", ".join(missed))
    return {"falsified": {k: len(xs) for k, xs in done.items()}, "rejected": rejected}


def replay(pid, path):
    if path.endswith(".scn"):
        import check_c13
        return check_c13.replay(pid, path)
    if path.endswith(".xps"):
        import xpoll
        return xpoll.replay(pid, path)
    if path.endswith(".tms"):
        import timer
        return timer.replay(pid, path)
    if path.endswith(".mbs"):
        import mbuf
        return mbuf.replay(pid, path)
    lines0 = [l.rstrip("\n") for l in open(path) if l.strip() and not l.startswith("#")]
    if lines0 and len(lines0[0].split()) >= 4 and lines0[0].split()[3] in ("normal", "refused", "silent", "release", "mute", "garbage", "idle", "ctlflood", "blocking", "garbage2", "longidle", "accblk", "badski", "accfail", "ctl3", "uxfull"):
        import est
        binary = vlib.build(["est_exec"])[0]
        d, batch, _ = est.run(binary, lines0, "replay_%s" % pid, nproc=1)
        vl = est.validate(batch)
        for v in vl:
            print("MISMATCH", v["tag"], "step", v["n"], v["detail"])
        return [v for v in vl if v["tag"].startswith(pid + ".") or v["tag"] == "CRASH"]
    binary = vlib.build(["conn_exec"])[0]
    lines = [l.rstrip("\n") for l in open(path) if l.strip() and not l.startswith("#")]
    d, traces = conn.run_scripts(binary, [lines], "replay_%s" % pid, nproc=1)
    vl, nlines, batches = conn.validate_parallel(traces, "replay_%s" % pid, nbatch=1)
    for v in vl:
        print("MISMATCH", v["tag"], "step", v["n"], v["detail"])
    bad = [v for v in vl if v["tag"].startswith(pid + ".") or v["tag"] == "CRASH"]
    return bad
