"""C09 - TLS never fails open.

Pipeline per run:
  1. credentials: bin/gencreds_c09.py (run with /usr/bin/python3) writes the credential universe under
     <BUILD>/creds_c09 once (absolute validity windows years away from now); its manifest, *measured* from the
     generated files, is compared with the tables of spec/TlsPolicy.tla that TLC prints ("@T")
  2. build harness/tlsmx_exec from /repo's working tree (ASan/UBSan)
  3. TLC on spec/TlsPolicyMC.tla: enumerates the decision table (families K, P, N, M, E, D, L), runs
     ServerCreate -> LateSet -> Connect -> Accept -> Handshake on every cell, checks FailClosed and the consistency
     laws of spec/TlsPolicy.tla, and prints the cells to replay ("@C": thorough = every cell, quick = a seeded sample
     plus the mandatory cells)
  4. harness/tlsmx_exec replays every printed cell as a real handshake (server + accepted + connecting socket in
     one process) and records what each side observed
  5. TLC validates the records against spec/TlsPolicyTrace.tla, which re-evaluates MustReject / ConfigValid for the
     cell: "@V" lines; C09.* tags are violations (confirmed by re-running the cell alone), NOTE.* go to the evidence
"""
import collections
import concurrent.futures
import hashlib
import json
import os
import subprocess
import time

import vlib
from vlib import InternalError

PID = "C09"
CREDS = vlib.BUILD + "/creds_c09"
GEN = vlib.V + "/bin/gencreds_c09.py"
ALL_FAMILIES = ["K", "P", "N", "M", "E", "D", "L"]
ALL_TP = ["tls", "btls", "utls"]

TIERS = {
    # quick: the whole table is model-checked except that the placement product runs on tls only; a sample is replayed
    "quick": dict(ptransports=["tls"], emit="sample", sample_target={"K": 50, "P": 80, "N": 16, "M": 24, "E": 8, "D": 30, "L": 24}, floor_both=40, floor_must=60, floor_cells=300),
    "thorough": dict(ptransports=ALL_TP, emit="all", sample_target=None, floor_both=5000, floor_must=5000,
                     floor_cells=100000),
}

ATTR = {"auth": "tls.auth", "time": "tls.check_time", "crl": "tls.check_crl", "vpn": "tls.verify_peer_name",
        "client": "tls.client"}
NAMES = {"good": "localhost", "bad": "otherhost", "multi": "otherhost:localhost", "w3": "w.c09.example"}
ASAN_ENV = {"ASAN_OPTIONS": "detect_leaks=0:abort_on_error=0:exitcode=99", "UBSAN_OPTIONS": "print_stacktrace=1"}


def tla_set(xs):
    return "{" + ", ".join('"%s"' % x for x in xs) + "}"


# ------------------------------------------------------------------------------ credentials ---
def ensure_creds():
    want = hashlib.sha256(open(GEN, "rb").read()).hexdigest()
    done = CREDS + "/.done"
    fresh = False
    try:
        h, stamp = open(done).read().split()
        age = time.time() - os.path.getmtime(done)
        fresh = h == want and age < 200 * 86400 and os.path.exists(CREDS + "/manifest.json")
    except (OSError, ValueError):
        pass
    if not fresh:
        vlib.fresh_dir(CREDS)
        rc, out = vlib.sh(["/usr/bin/python3", GEN, CREDS], timeout=600)
        if rc != 0:
            raise InternalError("credential generation failed:\n" + out[-3000:])
    os.makedirs(CREDS + "/no-default-credentials", exist_ok=True)
    with open(CREDS + "/manifest.json") as f:
        return json.load(f)


def crosscheck(tables, man):
    """The tables of the specification against what was measured from the generated files."""
    bad = []
    expect = man["expect"]
    serial2id, subj2id = {}, {}
    for name, c in man["certs"].items():
        if not name.endswith("_chain"):
            serial2id[c["leaf"]["serial"]] = name
            subj2id.setdefault(c["leaf"]["subject"], []).append(name)
    ekumap = lambda e: ["absent"] if e is None else (sorted(e) if e else ["neither"])
    for p, t in tables["certs"].items():
        m = man["certs"].get(p)
        if m is None:
            bad.append("no generated file for %s" % p)
            continue
        leaf = m["leaf"]
        if leaf["time"] != t["time"]:
            bad.append("%s: validity %s, specification says %s" % (p, leaf["time"], t["time"]))
        if ekumap(leaf["eku"]) != sorted(t["eku"]):
            bad.append("%s: EKU %s, specification says %s" % (p, leaf["eku"], t["eku"]))
        in_san = leaf["san"] is not None and expect in leaf["san"]
        in_cn = leaf["cn"] == expect
        cls = ("both" if in_san and in_cn else "san" if in_san else
               ("cnonly" if leaf["san"] is None else "cn") if in_cn else "none")
        if cls == "none":
            # the second expected name: present as such, or covered only by a wildcard pattern
            w3 = NAMES["w3"]
            pat = "*." + w3.split(".", 1)[1]
            allnames = (leaf["san"] or []) + [leaf["cn"]]
            cls = "w3" if w3 in (leaf["san"] or []) else "wild" if pat in allnames else "none"
        if cls != t["name"]:
            bad.append("%s: name class %s, specification says %s" % (p, cls, t["name"]))
        if serial2id.get(leaf["serial"]) != t["leaf"]:
            bad.append("%s: leaf is %s, specification says %s" % (p, serial2id.get(leaf["serial"]), t["leaf"]))
        sent = sorted(serial2id.get(x["serial"]) or "?" for x in m["sent"])
        if sent != sorted(t["sent"]):
            bad.append("%s: sends %s, specification says %s" % (p, sent, t["sent"]))
        for tc, anchor in tables["anchors"][p].items():
            a = man["analysis"].get("%s|%s" % (p, tc))
            if a is None or a["anchor"] != anchor:
                bad.append("%s against %s: anchor %s, specification says %s" % (p, tc, a and a["anchor"], anchor))
            elif anchor == "root":
                ids = [serial2id.get(x) for x in a["path_serials"]]
                if ids != [t["leaf"]] + list(t["path"]):
                    bad.append("%s against %s: path %s, specification says %s" % (p, tc, ids, [t["leaf"]] + list(t["path"])))
    for ca, tm in tables["catime"].items():
        if man["certs"][ca]["leaf"]["time"] != tm:
            bad.append("CA %s: validity %s, specification says %s" % (ca, man["certs"][ca]["leaf"]["time"], tm))
        if man["certs"][ca]["leaf"]["ca"] != (ca not in tables["notca"]):
            bad.append("CA %s: basic constraint CA=%s" % (ca, man["certs"][ca]["leaf"]["ca"]))
    for tc, members in tables["bundles"].items():
        got = sorted(serial2id.get(x["serial"]) or "?" for x in man["trust"].get(tc, []))
        if got != sorted(members):
            bad.append("bundle %s holds %s, specification says %s" % (tc, got, sorted(members)))
    for name, info in tables["crls"].items():
        lst = man["crls"].get(name)
        if lst is None:
            bad.append("no generated CRL bundle %s" % name)
            continue
        revoked = sorted(serial2id.get(s) or "?" for c in lst for s in c["revoked"])
        issuers = sorted(x for c in lst for x in (c["signed_by"] or ["?"]))
        if revoked != sorted(info["revoked"]):
            bad.append("CRL bundle %s revokes %s, specification says %s" % (name, revoked, sorted(info["revoked"])))
        if sorted(set(issuers)) != sorted(info["issuers"]):
            bad.append("CRL bundle %s issued by %s, specification says %s" % (name, sorted(set(issuers)), sorted(info["issuers"])))
        if any(c["stale"] for c in lst) != info["stale"]:
            bad.append("CRL bundle %s staleness differs" % name)
    for name in tables["unusable"]:
        path = "%s/%s.pem" % (CREDS, name)
        if name.endswith("_missing"):
            if os.path.exists(path):
                bad.append("%s exists" % path)
        elif not os.path.exists(path):
            bad.append("%s is missing" % path)
    if bad:
        raise InternalError("the generated credentials do not match the tables of TlsPolicy.tla:\n  " + "\n  ".join(bad[:20]))
    ski = {}
    for name, c in man["certs"].items():
        if not name.endswith("_chain"):
            ski[c["leaf"]["ski"]] = name
    return ski


# --------------------------------------------------------------------------- model checking ---
def run_mc(tier, seed, families=ALL_FAMILIES):
    T = TIERS[tier]
    os.makedirs(vlib.BUILD + "/cfg", exist_ok=True)
    cfg = "%s/cfg/c09_mc_%d.cfg" % (vlib.BUILD, os.getpid())
    # a first run only counts; the sample modulus follows from the table size
    a = 1 + (seed * 7919) % 1999
    b = (seed * 104729 + 13) % 1000003

    def write(emit, mod):
        with open(cfg, "w") as f:
            f.write("SPECIFICATION Spec\nCONSTANTS\n  Families = %s\n  Transports = %s\n  PTransports = %s\n"
                    "  EmitMode = \"%s\"\n  SeedA = %d\n  SeedB = %d\n%s"
                    "INVARIANTS InvEvalAgrees InvLaws\nCHECK_DEADLOCK FALSE\n"
                    % (tla_set(families), tla_set(ALL_TP), tla_set(T["ptransports"]), emit, a, b, mod))

    mod = {f: 1 for f in ALL_FAMILIES}
    if T["emit"] == "sample":
        for f in ALL_FAMILIES:
            size = FAMILY_SIZE[f] * (len(T["ptransports"]) if f == "P" else 3) // 3
            mod[f] = max(1, size // T["sample_target"][f])
    write(T["emit"], "".join("  Mod%s = %d\n" % (f, mod[f]) for f in ALL_FAMILIES))
    try:
        r = vlib.tlc("TlsPolicyMC", cfg, workers=max(4, vlib.NCPU - 2), timeout=1500, heap="6g",
                     metadir="%s/c09mc.%d" % (vlib.TLCDIR, os.getpid()))
    finally:
        os.unlink(cfg)
    if r["error"]:
        raise InternalError("TLC failed on TlsPolicyMC:\n%s" % r["error"])
    cells, tables = [], None
    for ln in r["out"].splitlines():
        if ln.startswith('"@C '):
            cells.append(json.loads(json.loads(ln)[3:]))
        elif ln.startswith('"@T '):
            tables = json.loads(json.loads(ln)[3:])
    if tables is None:
        raise InternalError("TLC did not print the credential tables:\n" + r["out"][-2000:])
    cov = vlib.tlc_coverage(r["out"])
    r["out_tail"] = r["out"][-6000:]
    r["out"] = ""
    return r, cells, tables, cov, mod


# family sizes with three transports (only used to aim the sample sizes; the evidence reports measured numbers)
FAMILY_SIZE = {"K": 23250, "P": 98415, "N": 1764, "M": 11520, "E": 216, "D": 3375, "L": 2430}


# ------------------------------------------------------------------------------ execution ---
def cell_vector(cell, vid):
    """The attribute lists of a cell in the harness' input syntax: a mechanical translation of the maps."""
    out = ["cell %d %s %s" % (vid, cell["tp"], cell["host"])]
    for place in "SLAC":
        m = cell[place]
        if cell["tp"] == "btls" and place in "SC":
            out.append("%s xcm.service s bytestream" % place)
        for k, attr in ATTR.items():
            if m[k] != "-":
                out.append("%s %s b %s" % (place, attr, m[k]))
        if m["names"] == "empty":
            out.append("%s tls.peer_names e" % place)
        elif m["names"] != "-":
            out.append("%s tls.peer_names s %s" % (place, NAMES[m["names"]]))
        for field, fattr, vattr, ext in (("cert", "tls.cert_file", "tls.cert", "pem"), ("tc", "tls.tc_file", "tls.tc", "pem"),
                                         ("crlm", "tls.crl_file", "tls.crl", "pem")):
            ref = m[field]
            if ref["k"] == "f":
                out.append("%s %s f %s.%s" % (place, fattr, ref["n"], ext))
            elif ref["k"] == "v":
                out.append("%s %s v %s.%s" % (place, vattr, ref["n"], ext))
            if field == "cert" and ref["k"] in "fv" and ref["k"] != "-":
                out.append("%s %s %s %s.key" % (place, "tls.key_file" if ref["k"] == "f" else "tls.key", ref["k"], ref["n"]))
    out.append("end")
    return "\n".join(out)


def crash_reason(rc, err):
    for ln in err.splitlines():
        if "ERROR: AddressSanitizer" in ln or "runtime error" in ln or "Assertion" in ln or "assert" in ln.lower():
            return ln.strip()[:200]
    return "time-out" if rc == -999 else "exit status %d" % rc


def run_harness(binary, cells, base, per_cell_timeout=2.0):
    """Runs the cells in one harness process; a crash is recorded for the cell it hit and the run continues after it.
    -> {cell number: observation dict or {"crash": reason}}"""
    res, k, rounds = {}, 0, 0
    while k < len(cells):
        rounds += 1
        vf, of = "%s.r%d.vec" % (base, rounds), "%s.r%d.out" % (base, rounds)
        part = cells[k:]
        with open(vf, "w") as f:
            f.write("\n".join(cell_vector(c, c["n"]) for c in part) + "\n")
        env = dict(os.environ)
        env.update(ASAN_ENV)
        tmo = 120 + per_cell_timeout * len(part)
        try:
            p = subprocess.run([binary, CREDS, vf, of], stdout=subprocess.PIPE, stderr=subprocess.STDOUT, env=env,
                               timeout=tmo, text=True, errors="replace")
            rc, err = p.returncode, p.stdout
        except subprocess.TimeoutExpired as e:
            rc, err = -999, e.stdout if isinstance(e.stdout, str) else ""
        got = 0
        try:
            with open(of) as f:
                data = f.read()
        except OSError:
            data = ""
        for ln in data.split("\n")[:-1]:
            o = json.loads(ln)
            res[o["id"]] = o
            got += 1
        k += got
        if rc == 0:
            if k != len(cells):
                raise InternalError("harness ended normally after %d of %d cells" % (k, len(cells)))
            break
        if rc in (2, 3):
            raise InternalError("harness rejected its input (%d):\n%s" % (rc, err[-2000:]))
        if k >= len(cells):
            raise InternalError("harness failed after its last cell (%d):\n%s" % (rc, err[-2000:]))
        why = crash_reason(rc, err)
        with open("%s.crash%d.txt" % (base, cells[k]["n"]), "w") as f:
            f.write(err[-20000:])
        res[cells[k]["n"]] = {"crash": why}
        k += 1
        if rounds > 100:
            raise InternalError("more than 100 harness crashes in one chunk; last: %s" % why)
    return res


OBS_FIELDS = ["sc", "late", "cc", "ac", "rounds", "stuck", "utx", "c_est", "c_tx", "c_rx", "c_fe", "c_fop", "c_cl",
              "s_est", "s_tx", "s_rx", "s_fe", "s_fop", "s_cl"]


def trace_line(cell, o, ski):
    ob = {k: o[k] for k in OBS_FIELDS}
    ob["c_pk"] = ski.get(o["c_ski"], o["c_ski"] and "unknown")
    ob["s_pk"] = ski.get(o["s_ski"], o["s_ski"] and "unknown")
    return json.dumps({"cell": cell, "o": ob}, separators=(",", ":"))


def validate(trace, n):
    r = vlib.tlc("TlsPolicyTrace", "TlsPolicyTrace.cfg", workers=1, timeout=1500, dfs=True,
                 env={"TRACE": trace, "JAVA_TOOL_OPTIONS": "-Xmx3g -XX:ParallelGCThreads=2 -XX:CICompilerCount=2 "
                                                           "-Dtlc2.tool.queue.IStateQueue=StateDeque"},
                 metadir="%s/c09tv.%s.%d" % (vlib.TLCDIR, os.path.basename(trace), os.getpid()))
    vl, stat = [], None
    for ln in r["out"].splitlines():
        if ln.startswith('"@V '):
            v = json.loads(json.loads(ln)[3:])
            vl.append(dict(n=v[0], sub=v[1], tag=v[2], x=v[3], o=v[4]))
        elif ln.startswith('"@STAT '):
            stat = json.loads(json.loads(ln)[6:])
    if r["error"] or stat is None or r["distinct"] != n + 1 or "Postcondition" in r["out"]:
        raise InternalError("trace validation did not consume %s (%d lines, %d states):\n%s"
                            % (trace, n, r["distinct"], (r["error"] or r["out"][-3000:])))
    return vl, stat, r


def execute_and_validate(binary, cells, ski, tag, nproc, nchunks):
    """cells -> (@V list, stats, crashes, observations)"""
    d = vlib.fresh_dir("%s/%s" % (vlib.RUN, tag))
    nchunks = max(1, min(nchunks, len(cells) // 20 or 1))
    chunks = [cells[i::nchunks] for i in range(nchunks)]
    allv, stats, crashes, obs, tv_states = [], collections.Counter(), [], {}, 0

    def job(i):
        res = run_harness(binary, chunks[i], "%s/c%d" % (d, i))
        lines, cr = [], []
        for c in chunks[i]:
            o = res.get(c["n"])
            if o is None:
                raise InternalError("no record for cell %d" % c["n"])
            if "crash" in o:
                cr.append((c["n"], o["crash"]))
            else:
                lines.append(trace_line(c, o, ski))
        trace = "%s/c%d.ndjson" % (d, i)
        with open(trace, "w") as f:
            f.write("\n".join(lines) + ("\n" if lines else ""))
        if lines:
            vl, stat, r = validate(trace, len(lines))
        else:
            vl, stat, r = [], {}, {"distinct": 0}
        return vl, stat, cr, res, r

    with concurrent.futures.ThreadPoolExecutor(max_workers=nproc) as ex:
        for vl, stat, cr, res, r in ex.map(job, range(nchunks)):
            allv.extend(vl)
            stats.update(stat)
            crashes.extend(cr)
            obs.update(res)
            tv_states += r["distinct"]
    return allv, dict(stats), crashes, obs, tv_states


# ------------------------------------------------------------------------------- verdicts ---
def describe_cell(c):
    def m(x):
        parts = []
        for k in ("auth", "time", "crl", "vpn", "client"):
            if x[k] != "-":
                parts.append("%s=%s" % (ATTR[k], x[k]))
        if x["names"] != "-":
            parts.append("tls.peer_names=%s" % NAMES.get(x["names"], '""'))
        for k in ("cert", "tc", "crlm"):
            if x[k]["k"] != "-":
                parts.append("%s=%s:%s" % (k, "file" if x[k]["k"] == "f" else "value", x[k]["n"]))
        return "{" + ", ".join(parts) + "}"
    late = "" if m(c["L"]) == "{}" else " late-set %s" % m(c["L"])
    return "cell %d [%s] %s host=%s server %s%s accept %s connect %s" % (c["n"], c["fam"], c["tp"], c["host"], m(c["S"]),
                                                                        late, m(c["A"]), m(c["C"]))


def signature(v, cell):
    side = {1: "client", 2: "accepting", 3: "client", 4: "accepting", 10: "server", 11: "connect", 12: "accept"}.get(v["sub"], "")
    return {"tag": v["tag"], "side": side, "transport": cell["tp"], "family": cell["fam"],
            "detail": json.dumps(v["x"]), "class": "%s/%s" % (v["tag"], side)}


def check(pid, tier, seed):
    t0 = time.time()
    if tier not in TIERS:
        tier = "quick"
    T = TIERS[tier]
    man = ensure_creds()
    binary = vlib.build(["tlsmx_exec"])[0]

    # ---- 3. the decision table on the model; TLC prints the cells --------------------------------------------
    t_setup = time.time() - t0
    r, cells, tables, cov, mod = run_mc(tier, seed)
    t_mc = time.time() - t0 - t_setup
    violations, known = [], []
    if r["violated"]:
        # the specification itself admits a usable side whose policy is not met (or breaks one of its laws): report
        # TLC's counterexample; nothing is replayed against the implementation in that case
        rp = vlib.save_replay(pid, "tlc_model.txt", r["out_tail"])
        violations.append(("design", "TLC: %s of TlsPolicyMC.tla violated" % ",".join(r["violated"]), rp))
        vlib.write_evidence(pid, tier, seed, "model_checking",
                            dict(states=r["distinct"], transitions=r["generated"], traces_validated_against_impl=0,
                                 samples=[{"tlc": r["out_tail"][-1500:]}], evaluations=0, distinct_nontrivial=0,
                                 rule="TLC found a counterexample in the specification; no cell was replayed"),
                            time.time() - t0, violations=1)
        return violations, known
    # every cell is a chain ServerCreate -> LateSet -> Connect -> Accept -> Handshake: a search depth of 6 states means
    # every action was taken (TLC's -coverage bookkeeping is too expensive on these large expressions)
    if r["depth"] != 6:
        raise InternalError("TlsPolicyMC: search depth %d, expected 6 (an action was never taken)" % r["depth"])
    ncells_model = r["distinct"]
    if r["distinct"] < 50000:
        raise InternalError("TlsPolicyMC explored only %d states (vacuous)" % r["distinct"])
    ski = crosscheck(tables, man)
    cells.sort(key=lambda c: c["cell"]["n"])
    summaries = {c["cell"]["n"]: c["x"] for c in cells}
    cells = [c["cell"] for c in cells]
    if len(set(c["n"] for c in cells)) != len(cells):
        raise InternalError("cell numbers are not unique")
    if len(cells) < T["floor_cells"]:
        raise InternalError("TLC printed only %d cells" % len(cells))
    mand = [c for c in cells if c["fam"] == "K"]
    classes = set((c["C"]["cert"]["n"], c["S"]["tc"]["n"], c["S"]["crlm"]["n"]) for c in mand if c["S"]["cert"]["n"] == "good_s")
    if len(classes) < len(tables["kclasses"]) - 1:
        raise InternalError("the printed cells cover only %d of %d credential classes" % (len(classes), len(tables["kclasses"])))

    # ---- 4/5. real handshakes, validated by TLC --------------------------------------------------------------
    nproc = max(2, vlib.NCPU - 2)
    nchunks = 6 if tier == "quick" else nproc * 3
    allv, stats, crashes, obs, tv_states = execute_and_validate(binary, cells, ski, "%s_%s" % (pid, tier), nproc, nchunks)
    byn = {c["n"]: c for c in cells}

    internal = [v for v in allv if v["tag"] == "INTERNAL"]
    if internal:
        raise InternalError("the harness could not run a cell as intended: %s / %s" % (describe_cell(byn[internal[0]["n"]]), internal[0]))
    if stats.get("cells", 0) + len(crashes) != len(cells):
        raise InternalError("%d cells but %d validated records" % (len(cells), stats.get("cells", 0)))
    if stats.get("both", 0) < T["floor_both"] or stats.get("data", 0) < T["floor_both"]:
        raise InternalError("vacuous run: only %d cells established on both sides (%d with data both ways): %s"
                            % (stats.get("both", 0), stats.get("data", 0), stats))
    if stats.get("must", 0) < T["floor_must"] or stats.get("einval", 0) < 10 or stats.get("unusable", 0) < 3:
        raise InternalError("vacuous run: too few cells with a demand: %s" % stats)

    # ---- confirm: a C09.* mismatch counts only if the cell alone repeats it -------------------------------------
    notes = collections.Counter(v["tag"] for v in allv if v["tag"].startswith("NOTE."))
    cand = [v for v in allv if v["tag"].startswith("C09.")]
    confirmed = []
    if cand or crashes:
        again = sorted(set(v["n"] for v in cand) | set(n for n, _ in crashes))
        sub = [byn[n] for n in again[:400]]
        v2, _st2, cr2, _o2, _ = execute_and_validate(binary, sub, ski, "%s_%s_confirm" % (pid, tier), 1, 1)
        rep = set((v["n"], v["tag"], v["sub"]) for v in v2)
        for v in cand:
            if (v["n"], v["tag"], v["sub"]) in rep:
                confirmed.append(v)
            elif v["n"] in set(again[:400]):
                notes["NOTE.not_repeated:" + v["tag"]] += 1
            else:
                confirmed.append(v)
        crashes = [(n, why) for n, why in crashes if n in set(x for x, _ in cr2)]

    groups = collections.OrderedDict()
    for v in confirmed:
        sig = signature(v, byn[v["n"]])
        f = vlib.match_finding(pid, sig)
        if f:
            k = "property=%s %s" % (pid, f["what"])
            if k not in known:
                known.append(k)
            continue
        groups.setdefault((sig["class"], byn[v["n"]]["fam"], byn[v["n"]]["tp"]), []).append(v)
    for (cls, fam, tp), vs in groups.items():
        vs.sort(key=lambda v: v["n"])
        first = vs[0]
        body = "".join(json.dumps(byn[v["n"]], sort_keys=True) + "\n" for v in vs[:20])
        rp = vlib.save_replay(pid, "%s_%s_%s.cells" % (cls.replace("C09.", "").replace("/", "_"), fam, tp), body)
        violations.append(("conformance", "%s on %d cells of family %s over %s, e.g. %s: expected %s, observed %s"
                           % (cls, len(vs), fam, tp, describe_cell(byn[first["n"]]), json.dumps(first["x"]),
                              json.dumps(first["o"])), rp))
    for n, why in crashes[:5]:
        rp = vlib.save_replay(pid, "crash_%d.cells" % n, json.dumps(byn[n], sort_keys=True) + "\n")
        violations.append(("crash", "C09.crash %s: %s" % (describe_cell(byn[n]), why), rp))

    # ---- evidence ---------------------------------------------------------------------------------------------------
    fams = collections.Counter(c["fam"] for c in cells)
    tps = collections.Counter(c["tp"] for c in cells)
    samples = []
    for c in cells[:: max(1, len(cells) // 4)][:4]:
        o = obs.get(c["n"], {})
        samples.append({"cell": describe_cell(c), "model": summaries[c["n"]],
                        "observed": {k: o.get(k) for k in ("sc", "cc", "ac", "c_est", "s_est", "c_rx", "s_rx", "c_fe", "s_fe")}})
    for v in confirmed[:3]:
        samples.append({"mismatch": v["tag"], "cell": describe_cell(byn[v["n"]]), "expected": v["x"], "observed": v["o"]})
    coverage = dict(
        states=r["distinct"], transitions=r["generated"], traces_validated_against_impl=stats.get("cells", 0),
        samples=samples, evaluations=stats.get("cells", 0) * 2,
        distinct_nontrivial=stats.get("must", 0) + stats.get("einval", 0) + stats.get("unusable", 0),
        rule="a cell = one real handshake (server socket, accepted connection, connecting socket) validated by TLC against "
             "TlsPolicy.tla; evaluations = sides judged (two per cell); non-trivial = cells in which the specification "
             "demands a refusal: MustReject on a side, an invalid combination (EINVAL) or unusable trust anchors / CRLs",
        model_depth=r["depth"], action_coverage={k: v[0] for k, v in cov.items()}, cells_replayed=len(cells),
        cells_by_family=dict(fams), cells_by_transport=dict(tps), sample_modulus=mod,
        exhaustive=T["emit"] == "all", trace_validation_states=tv_states,
        wall_breakdown_s=dict(credentials_and_build=round(t_setup, 1), model_checking=round(t_mc, 1),
                              handshakes_and_validation=round(time.time() - t0 - t_setup - t_mc, 1)),
        established_both_sides=stats.get("both", 0), data_both_ways=stats.get("data", 0),
        must_reject_cells=stats.get("must", 0), must_reject_client=stats.get("mustc", 0),
        must_reject_accepting=stats.get("musts", 0), refused_with_eproto=stats.get("refused", 0),
        invalid_combination_cells=stats.get("einval", 0), refused_with_einval=stats.get("einval_refused", 0),
        unusable_material_cells=stats.get("unusable", 0), predicted_established=stats.get("pred", 0),
        predicted_and_established=stats.get("pred_ok", 0), unsettled_cells=stats.get("stuck", 0),
        fail_open_observed=stats.get("failopen", 0), crashes=len(crashes), notes=dict(notes), known_findings=known)
    vlib.write_evidence(pid, tier, seed, "model_checking", coverage, time.time() - t0, violations=len(violations),
                        assumptions=["OpenSSL's verdict on a chain is an environment: only MustReject => not usable is demanded, "
                                     "'policy met but rejected' and differences to the OpenSSL model of TlsPolicy.tla are notes",
                                     "extended key usage is demanded only of a side that authenticates its peer (tls.auth on)",
                                     "an incomplete or stale CRL bundle is not 'revoked': not demanded either way",
                                     "the generated credentials are what their manifest (measured from the files) says; the "
                                     "manifest is compared with the specification's tables on every run",
                                     "both ends run in one process over the loopback interface; utls runs over its TLS leg",
                                     "TLC and the JSON/IOUtils community modules are trusted"])
    return violations, known


def replay(pid, path):
    man = ensure_creds()
    binary = vlib.build(["tlsmx_exec"])[0]
    cells = []
    for ln in open(path):
        ln = ln.strip()
        if not ln or ln.startswith("#"):
            continue
        try:
            c = json.loads(ln)
        except ValueError:
            raise InternalError("not a C09 replay file (TLC counterexamples of the model are re-checked by running the check)")
        cells.append(c.get("cell", c))
    if not cells:
        raise InternalError("no cells in %s" % path)
    ski = {c["leaf"]["ski"]: name for name, c in man["certs"].items() if not name.endswith("_chain")}
    allv, stats, crashes, obs, _ = execute_and_validate(binary, cells, ski, "replay_%s" % pid, 1, 1)
    byn = {c["n"]: c for c in cells}
    bad = []
    for v in allv:
        hit = v["tag"].startswith("C09.")
        print("%s %s %s: expected %s, observed %s" % ("MISMATCH" if hit else "note", v["tag"], describe_cell(byn[v["n"]]),
                                                      json.dumps(v["x"]), json.dumps(v["o"])))
        if hit:
            bad.append(v)
        elif v["tag"] == "INTERNAL":
            raise InternalError("the harness could not run %s" % describe_cell(byn[v["n"]]))
    for n, why in crashes:
        print("MISMATCH C09.crash %s: %s" % (describe_cell(byn[n]), why))
        bad.append(n)
    print("replayed %d cells: %s" % (len(cells), {k: stats.get(k) for k in ("both", "must", "refused", "einval_refused")}))
    return bad
