"""Connection-level conformance pipeline: scripts -> harness/conn_exec -> traces -> TLC (XcmTrace)."""
import json
import os
import random
import subprocess
import time

import vlib
from vlib import InternalError

ERRNOS = [104, 110, 113, 101, 32]  # writes: ECONNRESET ETIMEDOUT EHOSTUNREACH ENETUNREACH EPIPE
RD_ERRNOS = [104, 110, 113, 101]    # reads: the kernel never answers EPIPE to recv()

# scenario profiles: weights of the step kinds and knobs, per property emphasis
PROFILES = {
    "blocking": dict(send=20, recv=20, fin=8, await_=6, close=2, probe=2, inj=0.0, big=0.15, odd=0.08, steps=(6, 24), blk=0.45),
    "default": dict(send=30, recv=30, fin=12, await_=12, close=3, probe=3, inj=0.02, big=0.05, odd=0.06, steps=(8, 40)),
    "C01": dict(send=34, recv=34, fin=10, await_=8, close=2, probe=2, inj=0.0, big=0.08, odd=0.02, steps=(10, 50)),
    "C02": dict(send=36, recv=36, fin=8, await_=6, close=2, probe=2, inj=0.0, big=0.08, odd=0.02, steps=(10, 50)),
    "C03": dict(send=45, recv=20, fin=15, await_=6, close=2, probe=2, inj=0.01, big=0.10, odd=0.25, steps=(8, 40)),
    "C06": dict(send=28, recv=30, fin=12, await_=6, close=10, probe=2, inj=0.10, big=0.03, odd=0.03, steps=(6, 30)),
    "C16": dict(send=25, recv=25, fin=15, await_=25, close=2, probe=8, inj=0.0, big=0.03, odd=0.02, steps=(8, 40)),
    "C17": dict(send=32, recv=32, fin=12, await_=6, close=4, probe=2, inj=0.03, big=0.08, odd=0.12, steps=(8, 40)),
    "C05": dict(send=34, recv=30, fin=14, await_=10, close=6, probe=2, inj=0.04, big=0.15, odd=0.05, steps=(8, 40), smallbuf=0.5),
    "C04": dict(send=28, recv=26, fin=14, await_=22, close=5, probe=5, inj=0.03, big=0.05, odd=0.02, steps=(8, 40)),
}


def pick_len(r, p, stream):
    x = r.random()
    if x < p["odd"]:
        return r.choice([0, 65536, 70000, 65535])
    if x < p["odd"] + p["big"]:
        return r.choice([65535, 65534, 32768, 16384, 16385, 4096, 1000, r.randint(100, 65535)])
    return r.choice([1, 1, 2, 3, 4, 5, 6, 7, 8, 9, 12, 16, 31, r.randint(1, 64)])


def pick_credit(r, need):
    """A write/read credit: unlimited, zero, or a cut somewhere inside what the call could use."""
    x = r.random()
    if x < 0.45:
        return -1
    if x < 0.60:
        return 0
    if x < 0.85:
        return r.randint(1, 8)
    return r.randint(1, max(1, need))


def gen_exec(r, xid, tp, prof, raw=False):
    p = PROFILES.get(prof, PROFILES["default"])
    stream = tp in ("btcp", "btls")
    seq = tp in ("ux", "uxf", "utls")
    tlsb = tp in ("tls", "btls", "utlst")
    lines = ["X %d %s%s" % (xid, tp, " raw" if raw else "")]
    n = r.randint(*p["steps"])
    alive = {1: True, 2: True}
    kinds = ["send"] * p["send"] + ["recv"] * p["recv"] + ["fin"] * p["fin"] + ["await_"] * p["await_"] + \
            ["close"] * p["close"] + ["probe"] * p["probe"]
    pb = p.get("blk", 0.0)
    if not pb and not seq and r.random() < p.get("smallbuf", 0.0):
        lines.append("Z %d" % r.choice([4096, 8192]))      # real back-pressure: the kernel itself refuses
    if pb and not seq and r.random() < 0.5:
        lines.append("Z %d" % r.choice([4096, 8192, 16384, 65536]))
    for _ in range(n):
        k = r.choice(kinds)
        live = [e for e in (1, 2) if alive[e]]
        if not live:
            break
        e = r.choice(live)
        if pb and r.random() < pb and alive[1] and alive[2]:
            # a blocking call on e in the helper thread while the peer acts; then join (sometimes with a signal)
            o = 3 - e
            if r.random() < 0.6:
                ln = pick_len(r, p, stream)
                if stream and r.random() < 0.5:
                    ln = r.choice([20000, 60000, 65535, 30000])
                lines.append("B s %d %d" % (e, ln))
                x = r.random()
                if x < 0.7:
                    lines.append("D %d %d %d" % (o, r.choice([3, 50, 300]), r.choice([100, 3000, 70000])))
                elif x < 0.85:
                    lines.append("r %d 70000 -1 0 -1 0" % o)
                lines.append("J %d %d" % (1 if r.random() < 0.25 else 0, r.choice([20, 200])))
            else:
                lines.append("B r %d %d" % (e, r.choice([1, 5, 100, 70000])))
                x = r.random()
                if x < 0.6:
                    lines.append("s %d %d %d 0 0" % (o, pick_len(r, p, stream), pick_credit(r, 20)))
                    if r.random() < 0.7:
                        lines.append("f %d -1 0" % o)
                elif x < 0.75:
                    lines.append("c %d 0" % o)
                    alive[o] = False
                lines.append("J %d %d" % (1 if r.random() < 0.3 else 0, r.choice([20, 200])))
            continue
        # AF_UNIX SEQPACKET never reports a transient error on a healthy connection: no errno injection there
        inj = r.choice(ERRNOS) if (r.random() < p["inj"] and not seq) else 0
        if inj == 32 and alive[3 - e]:
            inj = 104   # EPIPE is only ever answered once the peer is gone
        if k == "send":
            ln = pick_len(r, p, stream)
            wc = pick_credit(r, ln + 8)
            if seq and wc > 0:
                wc = -1
            pol = r.choice([0, 1, 1, 2]) if stream else 0
            lines.append("s %d %d %d %d %d" % (e, ln, wc, inj, pol))
        elif k == "recv":
            cap = r.choice([1, 2, 3, 4, 5, 8, 16, 64, 100, 1000, 65535, 70000])
            rc = pick_credit(r, 80)
            if seq and rc > 0:
                rc = -1
            wc = pick_credit(r, 40)
            if seq and wc > 0:
                wc = -1
            inj2 = r.choice(ERRNOS) if (r.random() < p["inj"] / 2 and not seq) else 0
            if inj2 == 32 and alive[3 - e]:
                inj2 = 110
            if inj == 32:
                inj = r.choice(RD_ERRNOS)
            lines.append("r %d %d %d %d %d %d" % (e, cap, rc, inj, wc, inj2))
        elif k == "fin":
            wc = pick_credit(r, 40)
            if seq and wc > 0:
                wc = -1
            lines.append("f %d %d %d" % (e, wc, inj))
        elif k == "await_":
            cond = r.choice([0, 1, 2, 3, 0, 1, 2, 3, 0, 1, 4, 7]) if r.random() < 0.1 else r.choice([0, 1, 2, 3])
            lines.append("a %d %d" % (e, cond))
        elif k == "close":
            rst = 1 if (not seq and r.random() < 0.3) else 0
            lines.append("c %d %d" % (e, rst))
            alive[e] = False
        else:
            lines.append("p")
    # drain phase: let everything flush and be delivered so that quiescence clauses are exercised
    for _ in range(r.randint(0, 3)):
        for e in (1, 2):
            if alive[e]:
                lines.append("f %d -1 0" % e)
        for e in (1, 2):
            if alive[e]:
                for _ in range(r.randint(1, 3)):
                    lines.append("r %d 65535 -1 0 -1 0" % e)
    lines.append("p")
    return lines


def gen_loop_exec(r, xid, tp):
    """Event-loop run (harness command L): two applications that trust only poll(xcm_fd) exchange messages in both
    directions under random but fair cuts of the lower layer; optionally one of them closes when it is done."""
    seq = tp in ("ux", "uxf", "utls")
    lines = ["X %d %s" % (xid, tp)]
    if not seq and r.random() < 0.4:
        lines.append("Z %d" % r.choice([4096, 8192, 16384]))
    big = r.random() < 0.12
    n1, n2 = r.randint(0, 3 if big else 10), r.randint(0, 3 if big else 10)
    lines.append("L %d %d %d %d %d" % (n1, n2, 2 if big else r.choice([0, 0, 1]), r.randint(1, 10 ** 6), r.choice([0, 0, 1, 2])))
    lines.append("p")
    return lines


def gen_sendonly_exec(r, xid, tp):
    """Byte stream, one direction only: the connecting side sends (under real back-pressure: small kernel buffers and a
    receiver that does not read yet), lets the socket finish, closes gracefully and never calls xcm_receive; only then
    does the accepting side read.  What it obtains before the end of the stream must be everything that was accepted."""
    lines = ["X %d %s" % (xid, tp)]
    # every send is meant to be accepted in full (a byte-stream send cut short by back-pressure leaves a TLS record
    # half written, which only another send could complete: the harness does not call that "flushed")
    if r.random() < 0.4:
        lines.append("Z %d" % r.choice([8192, 16384]))
        sizes, nrecv = [r.choice([500, 1000, 2000]) for _ in range(r.randint(1, 3))], 12
    elif r.random() < 0.3:
        # single sends far larger than a message (the kernel may treat large writes differently)
        sizes, nrecv = [r.choice([131072, 150000, 262144, 399999]) for _ in range(r.randint(2, 5))], 60
    else:
        # default buffers: up to a megabyte still queued in the kernel when the sender closes
        sizes, nrecv = [65535] * r.randint(4, 16), 40
    for ln in sizes:
        lines.append("s 1 %d -1 0 1" % ln)
        if r.random() < 0.2:
            lines.append("f 1 -1 0")
    lines.append("f 1 -1 0")
    lines.append("c 1 0")
    for _ in range(nrecv):
        lines.append("r 2 70000 -1 0 -1 0")
    lines.append("p")
    return lines


def gen_blkreset_exec(r, xid, tp):
    """Byte stream, directed: ONE blocking xcm_send larger than the (shrunk) kernel buffers take at once; the peer reads a
    part of it while the call waits and then closes with unread data (the connection is reset under the call).  Whatever
    the call reports, the bytes the peer was handed must be a prefix of what it reports as accepted (seed a4_c02)."""
    lines = ["X %d %s" % (xid, tp), "Z %d" % r.choice([4096, 8192, 16384])]
    if r.random() < 0.3:
        lines.append("s 1 %d -1 0 1" % r.choice([1, 100, 1000]))
        lines.append("f 1 -1 0")
    lines.append("B s 1 %d" % r.choice([150000, 300000, 399999]))
    lines.append("D 2 %d %d" % (r.choice([1, 3, 5, 12]), r.choice([1000, 20000, 70000])))
    lines.append("c 2 %d" % r.choice([0, 1]))
    lines.append("J 0 2000")
    lines.append("s 1 10 -1 0 1")
    lines.append("r 1 100 -1 0 -1 0")
    lines.append("p")
    return lines


def gen_raw_exec(r, xid, tp):
    """Hostile peer: endpoint 2 is a raw TCP socket.  It writes well-formed frames, then possibly one malformed
    frame (illegal length), a truncated frame or garbage, in arbitrary pieces, and possibly dies."""
    lines = ["X %d %s raw" % (xid, tp)]
    nfr = r.randint(1, 6)
    ended = False
    for i in range(nfr):
        last = i == nfr - 1
        x = r.random()
        if x < 0.6 or not last and x < 0.8:
            h = r.choice([1, 2, 3, 5, 8, 100, 1000, 65535, r.randint(1, 300)])
            lines.append("W h %d" % h)
            if last and r.random() < 0.3:
                lines.append("W p %d" % r.randint(0, h - 1))   # truncated final frame
                ended = True
            else:
                lines.append("W p %d" % h)
        else:
            h = r.choice([0, 0, 65536, 65537, 70000, 2 ** 31 - 1, 2 ** 31, 2 ** 31 + 1, 2 ** 32 - 1, 2 ** 32 - 2, 2 ** 32 - 3,
                          2 ** 32 - 4, 2 ** 32 - 5, 2 ** 32 - 65536, 2 ** 24, 2 ** 16 + 2 ** 24, r.randint(65536, 2 ** 32 - 1),
                          2 ** 32 - r.randint(1, 70000)])
            lines.append("W h %d" % h)
            if r.random() < 0.7:
                lines.append("W p %d" % r.randint(0, 300))
            if r.random() < 0.3:
                lines.append("W g %d %d" % (r.randint(1, 300), r.randint(1, 1000)))
            ended = True
        # transmit in pieces, interleaved with receives
        for _ in range(r.randint(1, 4)):
            lines.append("w %d" % r.choice([-1, 1, 2, 3, 4, 5, 7, 100, r.randint(1, 70000)]))
            for _ in range(r.randint(0, 3)):
                lines.append("r 1 %d %d 0 -1 0" % (r.choice([1, 4, 100, 65535, 70000]), pick_credit(r, 80)))
        if ended:
            break
    lines.append("w -1")
    for _ in range(r.randint(2, 6)):
        lines.append("r 1 %d -1 0 -1 0" % r.choice([1, 100, 65535]))
    if r.random() < 0.6:
        lines.append("c 2 %d" % (1 if r.random() < 0.3 else 0))
        for _ in range(3):
            lines.append("r 1 65535 -1 0 -1 0")
        lines.append("s 1 3 -1 0")
        lines.append("f 1 -1 0")
    lines.append("p")
    return lines


def run_scripts(binary, scripts, tag, env=None, nproc=vlib.NCPU, timeout=1200):
    """scripts: list of executions (each a list of lines).  Returns list of trace file paths (one per worker)."""
    d = vlib.fresh_dir("%s/%s" % (vlib.RUN, tag))
    nproc = max(1, min(nproc, len(scripts)))
    chunks = [[] for _ in range(nproc)]
    for i, s in enumerate(scripts):
        chunks[i % nproc].append(s)
    procs = []
    e = dict(os.environ)
    e.update({"XCM_CTL": "/nonexistent-verif", "VERIF_RUN_DIR": d,
              "ASAN_OPTIONS": "detect_leaks=0:abort_on_error=0:detect_stack_use_after_return=1:handle_abort=0:handle_segv=0:exitcode=3",
              "UBSAN_OPTIONS": "print_stacktrace=1:halt_on_error=1:suppressions=%s/shim/ubsan.supp" % vlib.V})
    vlib.sh("%s/bin/gencreds.sh" % vlib.V, check=True)
    e["XCM_TLS_CERT"] = vlib.BUILD + "/creds/default"
    if env:
        e.update(env)
    import concurrent.futures
    import re

    def worker(i, ch):
        """runs one chunk; if the harness dies in the middle (a crash of the library under test) the executions behind the
        crashed one are run by a fresh process, so that one crash costs one execution and not the rest of the chunk"""
        tp = "%s/w%d.ndjson" % (d, i)
        rest = list(ch)
        attempt = 0
        with open(tp, "w") as tout, open("%s/w%d.log" % (d, i), "w") as lp:
            while rest and attempt < 60:
                sp = "%s/w%d.%d.script" % (d, i, attempt)
                with open(sp, "w") as f:
                    for s_ in rest:
                        f.write("\n".join(s_) + "\n")
                part = "%s/w%d.%d.part" % (d, i, attempt)
                rc = subprocess.call(["timeout", str(timeout), binary, sp, part], stdout=lp, stderr=subprocess.STDOUT, env=e)
                last = None
                try:
                    with open(part) as pf:
                        for line in pf:
                            try:
                                json.loads(line)
                            except ValueError:
                                # a line cut short by a crash in the middle of an observation: keep the crash record only
                                k = line.rfind('{"x":')
                                if k <= 0:
                                    continue
                                line = line[k:]
                                try:
                                    json.loads(line)
                                except ValueError:
                                    continue
                            tout.write(line)
                            m = re.match(r'\{"x":(\d+),"n":0,"op":"X"', line)
                            if m:
                                last = int(m.group(1))
                except FileNotFoundError:
                    pass
                attempt += 1
                if rc == 0 or last is None:
                    break
                ids = [int(s_[0].split()[1]) for s_ in rest]
                if last not in ids:
                    break
                rest = rest[ids.index(last) + 1:]
        return tp

    with concurrent.futures.ThreadPoolExecutor(max_workers=nproc) as ex:
        traces = list(ex.map(lambda a: worker(*a), enumerate(chunks)))
    return d, traces


def concat(traces, out, per_file=None):
    """Concatenate trace files into batches; returns list of batch paths."""
    n = 0
    with open(out, "w") as o:
        for t in traces:
            try:
                with open(t) as f:
                    for line in f:
                        if line.strip():
                            o.write(line)
                            n += 1
            except FileNotFoundError:
                pass
    return n


def validate(trace_path, cfg="XcmTrace.cfg", spec="XcmTrace", timeout=1500):
    """TLC trace validation of one batch.  Returns (vlines, consumed_ok, tlc_result)."""
    r = vlib.tlc(spec, cfg, workers=1, extra="", env={"TRACE": trace_path}, timeout=timeout, heap="6g", dfs=True,
                 metadir="%s/tv.%s.%d" % (vlib.TLCDIR, os.path.basename(trace_path), os.getpid()))
    v = vlib.parse_v_lines(r["out"])
    accepted = "Postcondition" not in r["out"] or "violated" not in r["out"]
    if r["error"] and not v:
        raise InternalError("trace validation failed to run on %s:\n%s" % (trace_path, r["error"]))
    return v, accepted, r


def validate_parallel(trace_files, tag, cfg="XcmTrace.cfg", spec="XcmTrace", nbatch=4):
    """Split the worker traces into nbatch batches (whole files, executions are never cut) and validate concurrently."""
    import concurrent.futures
    d = "%s/%s" % (vlib.RUN, tag)
    batches = []
    nb = max(1, min(nbatch, len(trace_files)))
    for b in range(nb):
        path = "%s/batch%d.ndjson" % (d, b)
        n = concat(trace_files[b::nb], path)
        if n:
            batches.append((path, n))
    allv, lines, all_ok = [], 0, True
    with concurrent.futures.ThreadPoolExecutor(max_workers=nb) as ex:
        futs = [ex.submit(validate, p, cfg, spec) for p, _ in batches]
        for (p, n), f in zip(batches, futs):
            v, ok, r = f.result()
            for x in v:
                x["batch"] = p
            allv.extend(v)
            lines += n
            all_ok = all_ok and ok
            if not ok and not v:
                raise InternalError("trace batch %s was not consumed completely:\n%s" % (p, r["out"][-3000:]))
    return allv, lines, batches


def extract_exec(batch_path, xid):
    """Cut one execution (all lines with this x) out of a batch; returns text."""
    out = []
    with open(batch_path) as f:
        for line in f:
            if ('"x":%d,' % xid) in line:
                out.append(line)
    return "".join(out)


def trace_stats(batches):
    """Measured facts about the traces: executions, steps, steps with partial credit / injection / refusal."""
    st = dict(executions=0, steps=0, partial=0, refused=0, injected=0, nontrivial_execs=0, by_tp={}, crashes=0, setup_failed=0)
    cur_nt = False
    for p, _ in batches:
        with open(p) as f:
            for line in f:
                try:
                    o = json.loads(line)
                except ValueError:
                    continue
                if o["op"] == "X":
                    if cur_nt:
                        st["nontrivial_execs"] += 1
                    cur_nt = False
                    st["executions"] += 1
                    st["by_tp"][o["tp"]] = st["by_tp"].get(o["tp"], 0) + 1
                    if not o.get("up"):
                        st["setup_failed"] += 1
                    continue
                if o["op"] == "crash":
                    st["crashes"] += 1
                    continue
                st["steps"] += 1
                k = o.get("k", [0, 0, 0, 0, 0])
                if k[1] != 0 or k[3] not in (0,):
                    st["partial"] += 1
                    cur_nt = True
                if o.get("ret", 0) == -1:
                    st["refused"] += 1
                    cur_nt = True
                    if o.get("err") not in (11, 22, 90, 0):
                        st["injected"] += 1
    if cur_nt:
        st["nontrivial_execs"] += 1
    return st
