"""Seeded single-site breakages of C15 used to demonstrate that bin/check C15 detects them (scratch copies only):
    bin/scratch.sh x && python3 lib/hooks/c15_mutations.py <name> /tmp/wt/x && \\
    VERIF_REPO=/tmp/wt/x VERIF_BUILD=/tmp/wt/x/_vb bin/check C15 --tier quick ; bin/rmwt.sh x
m1 m2 m3 m3b m4 m5 m6 m7 m9 break the property and are caught; m8 (a second cache entry for the same credentials) and m10
(console_enabled is only ever written by the library's constructor) do not break anything the statement names and are
reported as notes / not at all."""
import sys
def edit(root, path, old, new, count=1):
    p = root + "/" + path
    s = open(p).read()
    assert s.count(old) >= 1, (path, old)
    s = s.replace(old, new, count)
    open(p, "w").write(s)

M = {}
def m(name):
    def d(f):
        M[name] = f
        return f
    return d

@m("m1_afd_get_no_lock")
def _(r):
    edit(r, "libxcm/tp/common/active_fd.c", '''int active_fd_get(void)
{
    ut_mutex_lock(&active_fd_lock);
''', '''int active_fd_get(void)
{
''')
    edit(r, "libxcm/tp/common/active_fd.c", '''out:
    ut_mutex_unlock(&active_fd_lock);

    return active_fd != NULL''', '''out:

    return active_fd != NULL''')

@m("m2_id_outside_lock")
def _(r):
    edit(r, "libxcm/tp/common/xcm_tp.c", '''    ut_mutex_lock(&next_id_lock);
    XCM_VERIF_YIELD("id");
    nid = next_id++;
    XCM_VERIF_EV("sock_id", nid, next_id, 0);
''', '''    nid = next_id++;
    ut_mutex_lock(&next_id_lock);
    XCM_VERIF_YIELD("id");
    XCM_VERIF_EV("sock_id", nid, next_id, 0);
''')

@m("m3_ctx_double_dec")
def _(r):
    edit(r, "libxcm/tp/tls/ctx_store.c", '''    entry->use_cnt--;
    XCM_VERIF_EV("ctx_put"''', '''    entry->use_cnt--;
    if (entry->use_cnt == 7)
	entry->use_cnt--;
    XCM_VERIF_EV("ctx_put"''')

@m("m3b_ctx_put_no_lock")
def _(r):
    edit(r, "libxcm/tp/tls/ctx_store.c", '''    cache_lock(&cache);
    XCM_VERIF_YIELD("ctx");

    cache_put(&cache, ssl_ctx);

    cache_unlock(&cache);''', '''    cache_put(&cache, ssl_ctx);''')

@m("m4_version_flag_plain")
def _(r):
    edit(r, "libxcm/core/xcm.c", "if (!__atomic_load_n(&version_logged, __ATOMIC_RELAXED)) {", "if (!version_logged) {")
    edit(r, "libxcm/core/xcm.c", "__atomic_store_n(&version_logged, true, __ATOMIC_RELAXED);", "version_logged = true;")

@m("m5_afd_close_at_1")
def _(r):
    edit(r, "libxcm/tp/common/active_fd.c", "	    if (active_fd->cnt == 0) {", "	    if (active_fd->cnt <= 1) {")

@m("m6_static_ip_buffer")
def _(r):
    edit(r, "libxcm/tp/common/log_tp.c", "static __thread char name[INET6_ADDRSTRLEN];", "static char name[INET6_ADDRSTRLEN];")

@m("m7_cached_proto_plain")
def _(r):
    edit(r, "libxcm/tp/tcp/xcm_tp_tcp.c", '''    struct xcm_tp_proto *proto =
	__atomic_load_n(&cached_proto, __ATOMIC_RELAXED);''', '''    struct xcm_tp_proto *proto = cached_proto;''')
    edit(r, "libxcm/tp/tcp/xcm_tp_tcp.c", "__atomic_store_n(&cached_proto, proto, __ATOMIC_RELAXED);", "cached_proto = proto;")

@m("m8_ctx_unlocked_load")
def _(r):
    edit(r, "libxcm/tp/tls/ctx_store.c", '''	LOG_TLS_CREATING_CTX(log_ref, cert, key, tc, crl);
''', '''	LOG_TLS_CREATING_CTX(log_ref, cert, key, tc, crl);
	cache_unlock(&cache);
''')
    edit(r, "libxcm/tp/tls/ctx_store.c", '''	if (item_load(cert, &cert_data) < 0)
	    goto out;
	if (item_load(key, &key_data) < 0)
	    goto out_free;
	if (item_load(tc, &tc_data) < 0)
	    goto out_free;
	if (item_load(crl, &crl_data) < 0)
	    goto out_free;
''', '''	int lrc = 0;
	if (item_load(cert, &cert_data) < 0 || item_load(key, &key_data) < 0 ||
	    item_load(tc, &tc_data) < 0 || item_load(crl, &crl_data) < 0)
	    lrc = -1;
	cache_lock(&cache);
	if (lrc < 0)
	    goto out_free;
''')

@m("m9_afd_put_no_lock")
def _(r):
    edit(r, "libxcm/tp/common/active_fd.c", '''void active_fd_put(int fd)
{
    ut_mutex_lock(&active_fd_lock);
''', '''void active_fd_put(int fd)
{
''')
    edit(r, "libxcm/tp/common/active_fd.c", '''    ut_assert(0);

out:
    ut_mutex_unlock(&active_fd_lock);
}''', '''    ut_assert(0);

out:
    return;
}''')

@m("m10_console_flag_plain")
def _(r):
    edit(r, "libxcm/core/log.c", "if (__atomic_load_n(&console_enabled, __ATOMIC_RELAXED)) {", "if (console_enabled) {")
    edit(r, "libxcm/core/log.c", "    if (__atomic_load_n(&console_enabled, __ATOMIC_RELAXED))\n", "    if (console_enabled)\n")
    edit(r, "libxcm/core/log.c", "__atomic_store_n(&console_enabled, enabled, __ATOMIC_RELAXED);", "console_enabled = enabled;")

if __name__ == "__main__":
    M[sys.argv[1]](sys.argv[2])
