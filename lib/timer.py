"""timer_mgr refinement layer (C04 wake-ups, C16 quietness): spec/TimerMgr.tla (TLC) -> call sequences -> the real
libxcm/core/timer_mgr.c over the real xpoll.c, in real time (harness/timer_exec) -> recorded calls ->
spec/TimerMgrTrace.tla.

The timers of a socket (connect time-out, happy-eyeballs delays, resolver time-out) share one timerfd registered in
the socket's epoll instance.  The model is a step function mirroring timer_mgr.c; TLC explores every call sequence
(schedule, cancel, ack, reschedule, has_expired, time passing) against Armed / Wakes / Quiet / Ids / Expired and prints
one behaviour per transition plus simulated deeper ones; the harness performs them on the real code with a 20 ms tick
and records ids, every timerfd_settime, clock readings around each call and around each poll of the descriptor; the
trace specification compares each call with the same step function, treating expiries as intervals and concluding
nothing from an observation that falls within the tolerance of an expiry."""
import concurrent.futures
import json
import os
import random
import re
import subprocess

import vlib
from vlib import InternalError

INVS = "InvArmed InvWakes InvQuiet InvNoAbort InvExpired"
PROPS = "InvIds"
BROKEN = {"latest": "InvArmed", "no_rearm": "InvArmed"}

# (Rels, MaxOps, MaxTime)
TIERS = {
    "quick": dict(mc=[("{0, 1, 2}", 6, 4)], emit=("{0, 1, 2}", 5, 3), sim=dict(num=150, depth=12), n_exec=800),
    "thorough": dict(mc=[("{0, 1, 2}", 7, 5), ("{0, 1, 3}", 6, 6)], emit=("{0, 1, 2}", 6, 4), sim=dict(num=1500, depth=16), n_exec=12000),
}


def _cfg(name, rels, maxops, maxtime, emit="none", broken="none", props=True):
    d = vlib.BUILD + "/cfg"
    os.makedirs(d, exist_ok=True)
    path = "%s/timer_%s_%d.cfg" % (d, name, os.getpid())
    with open(path, "w") as f:
        f.write("SPECIFICATION Spec\nCONSTANTS\n  Rels = %s\n  MaxOps = %d\n  MaxTime = %d\n  EmitPaths = \"%s\"\n  Broken = \"%s\"\nVIEW view\n"
                "INVARIANTS %s\n%sCHECK_DEADLOCK FALSE\n" % (rels, maxops, maxtime, emit, broken, INVS, ("PROPERTIES %s\n" % PROPS) if props else ""))
        if emit != "none":
            f.write("ACTION_CONSTRAINT Emit\n")
    return path


def _tlc(name, cfg, workers=4, extra="", timeout=1500):
    try:
        r = vlib.tlc("TimerMgr", cfg, workers=workers, extra=extra, timeout=timeout, heap="4g",
                     metadir="%s/timer.%s.%d" % (vlib.TLCDIR, name, os.getpid()))
    finally:
        if os.path.exists(cfg):
            os.unlink(cfg)
    if r["error"] and not r["violated"]:
        raise InternalError("TLC failed on TimerMgr/%s:\n%s" % (name, r["error"]))
    return r


def parse_paths(out):
    res = []
    for ln in out.splitlines():
        if ln.startswith('"@P '):
            try:
                res.append(tuple(tuple(s) for s in json.loads(json.loads(ln)[3:])))
            except ValueError:
                raise InternalError("unparsable behaviour line from TLC: %s" % ln[:200])
    return res


def maximal(paths):
    ps = sorted(set(paths))
    out = []
    for i, p in enumerate(ps):
        if i + 1 < len(ps) and ps[i + 1][:len(p)] == p:
            continue
        out.append(p)
    return out


def model_check(tier, seed):
    T = TIERS[tier]
    jobs = {}
    for i, (rels, mo, mt) in enumerate(T["mc"]):
        jobs["mc%d" % i] = (_cfg("mc%d" % i, rels, mo, mt), 4, "")
    for b in BROKEN:
        jobs["broken_" + b] = (_cfg("b_" + b, "{0, 1, 2}", 5, 3, broken=b, props=False), 1, "")
    jobs["emit"] = (_cfg("emit", T["emit"][0], T["emit"][1], T["emit"][2], emit="transition", props=False), 1, "")
    jobs["sim"] = (_cfg("sim", "{0, 1, 2, 4}", T["sim"]["depth"], 8, emit="transition", props=False), 2,
                   "-simulate num=%d -depth %d -seed %d" % (T["sim"]["num"], T["sim"]["depth"], seed))
    with concurrent.futures.ThreadPoolExecutor(max_workers=4) as ex:
        futs = {n: ex.submit(_tlc, n, c[0], c[1], c[2]) for n, c in jobs.items()}
        res = {n: f.result() for n, f in futs.items()}
    summary, states, transitions, violated = {}, 0, 0, []
    for n, r in res.items():
        summary["TimerMgr/" + n] = dict(distinct=r["distinct"], generated=r["generated"], violated=r["violated"])
        if n.startswith("mc"):
            states += r["distinct"]
            transitions += r["generated"]
            if r["violated"]:
                violated.append((n, r))
        elif n.startswith("broken_"):
            want = BROKEN[n[7:]]
            if want not in r["violated"]:
                raise InternalError("the broken variant %s of TimerMgr.tla is not rejected by %s (vacuous): %s" % (n[7:], want, r["violated"]))
    p_exh = maximal(parse_paths(res["emit"]["out"]))
    p_sim = maximal(parse_paths(res["sim"]["out"]))
    if len(p_exh) < 200 or len(p_sim) < 30:
        raise InternalError("TLC emitted too few timer behaviours: %d exhaustive, %d simulated" % (len(p_exh), len(p_sim)))
    for r in res.values():
        r["out"] = r["out"][-3000:]
    return summary, states, transitions, violated, p_exh, p_sim


def script_of(x, p):
    return ["X %d" % x] + ["%s %d %d" % (s[0], s[1], s[2]) for s in p] + ["tk 1", "E"]


def run(binary, execs, tag, nproc=8):
    d = vlib.fresh_dir("%s/%s" % (vlib.RUN, tag))
    nproc = max(1, min(nproc, len(execs)))
    env = dict(os.environ)
    crashes = []
    env.update({"ASAN_OPTIONS": "detect_leaks=0:abort_on_error=0:handle_abort=0:exitcode=3",
                "UBSAN_OPTIONS": "print_stacktrace=1:halt_on_error=1"})

    def worker(i):
        """a sanitizer report or an abort outside a call costs one execution: the rest is run by a fresh process"""
        tp = "%s/w%d.ndjson" % (d, i)
        rest = execs[i::nproc]
        attempt = 0
        with open(tp, "w") as tout:
            while rest and attempt < 30:
                sp, part = "%s/w%d.%d.script" % (d, i, attempt), "%s/w%d.%d.part" % (d, i, attempt)
                with open(sp, "w") as f:
                    for x, lines in rest:
                        f.write("\n".join(lines) + "\n")
                log = "%s/w%d.%d.log" % (d, i, attempt)
                rc = subprocess.call(["timeout", "600", binary, sp, part], env=env, stdout=open(log, "w"), stderr=subprocess.STDOUT)
                got = []
                if os.path.exists(part):
                    for l in open(part):
                        try:
                            got.append(json.loads(l))
                        except ValueError:
                            pass
                attempt += 1
                if rc == 0:
                    for o in got:
                        tout.write(json.dumps(o) + "\n")
                    break
                if not got:
                    raise InternalError("timer_exec ended with status %d before its first call (%s)" % (rc, open(log).read()[-1500:]))
                last = got[-1]["x"]
                for o in got:
                    if o["x"] != last:
                        tout.write(json.dumps(o) + "\n")
                why = re.sub(r"\s+", " ", open(log).read()[-600:])
                crashes.append((last, why))
                ids = [x for x, _ in rest]
                rest = rest[ids.index(last) + 1:] if last in ids else []
        return tp

    with concurrent.futures.ThreadPoolExecutor(max_workers=nproc) as ex:
        return d, list(ex.map(worker, range(nproc))), crashes


def validate(trace):
    n = sum(1 for _ in open(trace))
    r = vlib.tlc("TimerMgrTrace", "TimerMgrTrace.cfg", workers=1, env={"TRACE": trace}, timeout=1500, heap="3g", dfs=True,
                 metadir="%s/timertv.%s.%d" % (vlib.TLCDIR, os.path.basename(trace), os.getpid()))
    vl = []
    for ln in r["out"].splitlines():
        if ln.startswith('"@V '):
            v = json.loads(json.loads(ln)[3:])
            vl.append(dict(x=v[0], n=v[1], tag=v[2], detail="expected %s, observed %s" % (json.dumps(v[3])[:200], json.dumps(v[4])[:200])))
    if r["error"] or r["distinct"] != n + 1 or "Postcondition" in r["out"]:
        raise InternalError("TimerMgrTrace did not consume %s (%d lines, %d states):\n%s" % (trace, n, r["distinct"], r["error"] or r["out"][-2000:]))
    return vl, n


def selftest(trace, d):
    """binding: a falsified id / programmed time / readability in recorded lines must be rejected"""
    lines = [l for l in open(trace)][:600]
    out, kinds = [], set()
    for l in lines:
        o = json.loads(l)
        if o["op"][0] == "sch" and "id" not in kinds and not o["crash"]:
            o["ret"] += 1
            kinds.add("id")
        elif o["op"][0] == "sch" and o["set"] and o["set"][0] > 0 and "arm" not in kinds and "id" in kinds:
            o["set"][0] += 7000
            kinds.add("arm")
        elif o["op"][0] == "tk" and o["rd"] == 1 and "wake" not in kinds:
            o["rd"] = 0
            kinds.add("wake")
        out.append(json.dumps(o))
    p = "%s/falsified.ndjson" % d
    with open(p, "w") as f:
        f.write("\n".join(out) + "\n")
    vl, _ = validate(p)
    got = set(v["tag"].split(".timer_")[-1] for v in vl)
    missing = kinds - got
    if missing or len(kinds) < 2:
        raise InternalError("TimerMgrTrace accepts falsified records (%s not rejected; falsified: %s)" % (sorted(missing), sorted(kinds)))
    return sorted(kinds)


def part(pid, tier, seed, rnd):
    """-> (violations, coverage, notes) in the form lib/conn_check.py merges into the C04 / C16 evidence"""
    if tier not in TIERS:
        tier = "quick"
    T = TIERS[tier]
    binary = vlib.build(["timer_exec"])[0]
    summary, states, transitions, bad, p_exh, p_sim = model_check(tier, seed)
    violations, notes = [], []
    for name, r in bad:
        rp = vlib.save_replay(pid, "tlc_timer_%s.txt" % name, r["out"][-20000:])
        violations.append(("design", "TLC: %s of TimerMgr.tla violated in configuration %s" % (",".join(r["violated"]), name), rp))
    r2 = random.Random(seed * 7919 + 3)
    n_sim = min(len(p_sim), T["n_exec"] // 3)
    chosen = r2.sample(p_sim, n_sim)
    rest = T["n_exec"] - n_sim
    chosen += p_exh if len(p_exh) <= rest else r2.sample(p_exh, rest)
    execs = [(i + 1, script_of(i + 1, p)) for i, p in enumerate(chosen)]
    d, traces, crashes = run(binary, execs, "timer_%s_%s" % (pid, tier))
    with concurrent.futures.ThreadPoolExecutor(max_workers=min(8, len(traces))) as ex:
        res = list(ex.map(validate, traces))
    vl = [v for r in res for v in r[0]]
    nlines = sum(r[1] for r in res)
    falsified = selftest(traces[0], d)
    byx = dict(execs)
    seen = set()
    for v in vl:
        if not v["tag"].startswith(pid + ".") or v["x"] in seen:
            continue
        if len(seen) >= 5:
            break
        # real time: a verdict is reported only if a sequential re-run of the same call sequence repeats it
        d2, t2, c2 = run(binary, [(v["x"], byx[v["x"]])], "timer_%s_retry" % pid, nproc=1)
        again = [w for w in validate(t2[0])[0] if w["tag"] == v["tag"]]
        if not again and not c2:
            notes.append("timer layer: %s in call sequence %d was not repeated by a sequential re-run (not reported)" % (v["tag"], v["x"]))
            continue
        seen.add(v["x"])
        body = "# %s at call %d: %s\n# replay: bin/check %s --replay <this file>\n%s\n" % (v["tag"], v["n"], v["detail"], pid, "\n".join(byx[v["x"]]))
        rp = vlib.save_replay(pid, "timer_x%d.tms" % v["x"], body)
        violations.append(("conformance", "%s in timer call sequence %d at call %d: %s" % (v["tag"], v["x"], v["n"], v["detail"]), rp))
    for x, why in crashes[:3]:
        body = "# %s.timer_crash: %s\n# replay: bin/check %s --replay <this file>\n%s\n" % (pid, why[-400:], pid, "\n".join(byx[x]))
        rp = vlib.save_replay(pid, "timer_crash_x%d.tms" % x, body)
        violations.append(("conformance", "%s.timer_crash: the real timer_mgr.c died (sanitizer report / abort) in call sequence %d: %s" % (pid, x, why[-200:]), rp))
    ops = {}
    for _, lines in execs:
        for l in lines[1:-1]:
            ops[l.split()[0]] = ops.get(l.split()[0], 0) + 1
    for need in ("sch", "can", "ack", "res", "exp", "tk"):
        if ops.get(need, 0) < 20:
            raise InternalError("timer behaviours contain only %d '%s' calls (vacuous)" % (ops.get(need, 0), need))
    cov = dict(states=states, transitions=transitions, model_configurations=summary, executions=len(execs), calls=nlines,
               calls_by_kind=ops, behaviours_exhaustive=len(p_exh), behaviours_simulated=len(p_sim), binding_selftest=falsified,
               violating_executions=len(seen), crashes=len(crashes))
    return violations, cov, notes


def replay(pid, path):
    lines = [l.rstrip("\n") for l in open(path) if l.strip() and not l.startswith("#")]
    binary = vlib.build(["timer_exec"])[0]
    d, traces, crashes = run(binary, [(int(lines[0].split()[1]), lines)], "timer_replay", nproc=1)
    vl, _ = validate(traces[0])
    for x, why in crashes:
        vl.append(dict(x=x, n=0, tag=pid + ".timer_crash", detail=why[-300:]))
    for v in vl:
        print("MISMATCH", v["tag"], "call", v["n"], v["detail"])
    return [v for v in vl if v["tag"].startswith(pid + ".")]
