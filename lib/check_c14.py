"""C14 - the control interface is passive and safe.

Pipeline per run (DESIGN 3.5 / 3.6 / 4.5):
  1. build harness/ctl_exec from /repo's working tree (ASan + UBSan; links libxcm, libxcmctl and the shim)
  2. TLC on spec/Ctl.tla:
       - bounded model check of the design (sessions, backlog, one ctl_process round per ServerPoll, clients
         that send well-formed / malformed / abnormal requests, drop mid-exchange, the owner's data path and
         xcm_close): BoundedSessions, FifoReplies, FirstRequestAny, KeyNeverDisclosed, WellBehavedStay, Passive,
         PassiveStep, FilesGone, SettledServes;  liveness (Answered) under fair polling
       - the same model with VIEW + ACTION_CONSTRAINT prints one behaviour per transition of the state graph,
         and -simulate prints deeper behaviours with up to six sessions (beyond table and backlog)
  3. behaviours -> scripts: every behaviour is bound to a real socket scenario (transport x role/state x
     attribute profile) and its abstract request kinds are made concrete (attribute names taken from the
     scenario's own attribute list, sizes, unknown types, unterminated names, libxcmctl or raw client)
  4. harness/ctl_exec replays them against the real library and records replies, in-process answers at the
     quiescent point, data path results, control files, crashes
  5. TLC validates every recorded execution against spec/CtlTrace.tla (which drives Ctl's operators);
     C14.* tags are violations, NOTE.* go to the evidence
"""
import collections
import concurrent.futures
import json
import os
import random
import re
import shutil
import subprocess
import time

import vlib
from vlib import InternalError

PID = "C14"

TIERS = {
    "quick": dict(
        mc=dict(Sess="{1, 2, 3}", Kinds='{"get", "key", "all", "bad", "odd"}', MaxReq=2, MaxTotal=2, MaxApp=1),
        live=dict(Sess="{1, 2, 3}", Kinds='{"get", "all", "bad"}', MaxReq=2, MaxTotal=2, MaxApp=0),
        emit=dict(Sess="{1, 2, 3}", Kinds='{"get", "all", "bad"}', MaxReq=2, MaxTotal=2, MaxApp=1),
        sim=dict(Sess="{1, 2, 3, 4, 5, 6}", Kinds='{"get", "key", "all", "bad", "odd"}', MaxReq=3, MaxTotal=7, MaxApp=2,
                 num=500, depth=26),
        n_exec=1500, nproc=8, min_states=20000),
    "thorough": dict(
        mc=dict(Sess="{1, 2, 3}", Kinds='{"get", "key", "all", "bad", "odd"}', MaxReq=2, MaxTotal=3, MaxApp=1),
        live=dict(Sess="{1, 2, 3}", Kinds='{"get", "all", "bad", "odd"}', MaxReq=2, MaxTotal=2, MaxApp=0),
        emit=dict(Sess="{1, 2, 3}", Kinds='{"get", "all", "bad", "odd"}', MaxReq=2, MaxTotal=2, MaxApp=1),
        sim=dict(Sess="{1, 2, 3, 4, 5, 6}", Kinds='{"get", "key", "all", "bad", "odd"}', MaxReq=3, MaxTotal=8, MaxApp=2,
                 num=4000, depth=34),
        n_exec=10000, nproc=12, min_states=500000),
}

ASAN_ENV = {
    "ASAN_OPTIONS": "detect_leaks=0:abort_on_error=0:detect_stack_use_after_return=1:handle_abort=0:exitcode=3",
    "UBSAN_OPTIONS": "print_stacktrace=1:halt_on_error=1:abort_on_error=1:suppressions=%s/shim/ubsan.supp" % vlib.V,
}
JAVA_TRACE = "-Xmx3g -Xss64m -XX:ParallelGCThreads=2 -XX:CICompilerCount=2 -Dtlc2.tool.queue.IStateQueue=StateDeque"
JAVA_MC = "-Xmx4g -Xss64m"

NON_TLS = ["ux", "uxf", "tcp", "btcp"]
TLS = ["tls", "btls", "utls"]


# ================================================================= credentials ====
def hx(s):
    if isinstance(s, str):
        s = s.encode()
    return s.hex() or "-"


def ensure_creds():
    """Test credentials under BUILD/creds_c14 (offline: /usr/bin/python3 has cryptography + yaml)."""
    d = vlib.BUILD + "/creds_c14"
    long1 = "p" * 120
    longdir = "%s/long/%s/%s/%s/%s" % (d, "a" * 140, "b" * 140, "c" * 140, "d" * 100)
    c = dict(dir=d, big_srv_cert=d + "/big/srv/cert.pem", big_srv_key=d + "/big/srv/key.pem",
             big_cli_cert=d + "/big/cli/cert.pem", big_cli_key=d + "/big/cli/key.pem", big_tc=d + "/big/tc.pem",
             many_cert=d + "/big/many/cert.pem", many_key=d + "/big/many/key.pem",
             ec_cert=d + "/ec/cert.pem", ec_key=d + "/ec/key.pem", ec_tc=d + "/ec/tc.pem",
             mid_cert="%s/mid/%s/cert.pem" % (d, long1), mid_key="%s/mid/%s/key.pem" % (d, long1),
             mid_tc="%s/mid/%s/tc.pem" % (d, long1),
             long_cert=longdir + "/cert.pem", long_key=longdir + "/key.pem", long_tc=longdir + "/tc.pem")
    if os.path.exists(d + "/.done"):
        return c
    shutil.rmtree(d, ignore_errors=True)
    os.makedirs(d)
    sans = ["san-%03d.a-fairly-long-subdomain-label.example.com" % i for i in range(45)]
    y = ["base-path: %s" % d, "", "certs:", "  root:", "    subject_name: root.c14", "    ca: True"]
    for i in range(1, 5):
        y += ["  x%d:" % i, "    subject_name: extra-ca-%d.c14" % i, "    ca: True"]
    y += ["  srv:", "    subject_name: localhost", "    issuer: root", "    san_dns:"] + ["      - %s" % s for s in sans]
    y += ["    san_email:"] + ["      - user%d@example.com" % i for i in range(3)]
    y += ["    san_dir:", "      - CN=dir-one", "      - CN=dir-two"]
    y += ["  cli:", "    subject_name: localhost", "    issuer: root", "    san_dns:", "      - alt.client.c14"]
    y += ["  many:", "    subject_name: localhost", "    issuer: root", "    san_dns:"] + ["      - s%02d.c14" % i for i in range(34)]
    y += ["", "files:"]
    for who in ("srv", "cli", "many"):
        y += ["  - type: cert", "    id: %s" % who, "    path: big/%s/cert.pem" % who,
              "  - type: key", "    id: %s" % who, "    path: big/%s/key.pem" % who]
    y += ["  - type: bundle", "    certs:", "      - root", "      - x1", "      - x2", "      - x3", "      - x4",
          "    path: big/tc.pem"]
    p = subprocess.run(["/usr/bin/python3", vlib.V + "/bin/gencert.py"], input="\n".join(y) + "\n", text=True,
                       stdout=subprocess.PIPE, stderr=subprocess.STDOUT)
    if p.returncode != 0:
        raise InternalError("bin/gencert.py failed:\n" + p.stdout[-2000:])
    ec = r'''
import datetime, os, sys
from cryptography import x509
from cryptography.hazmat.primitives import hashes, serialization
from cryptography.hazmat.primitives.asymmetric import ec
from cryptography.x509.oid import NameOID
D = sys.argv[1]
os.makedirs(D, exist_ok=True)
key = ec.generate_private_key(ec.SECP256R1())
name = x509.Name([x509.NameAttribute(NameOID.COMMON_NAME, "localhost")])
now = datetime.datetime.utcnow()
cert = (x509.CertificateBuilder().subject_name(name).issuer_name(name).public_key(key.public_key())
        .serial_number(x509.random_serial_number()).not_valid_before(now - datetime.timedelta(days=1))
        .not_valid_after(now + datetime.timedelta(days=3650))
        .add_extension(x509.BasicConstraints(ca=True, path_length=None), critical=True)
        .add_extension(x509.SubjectAlternativeName([x509.DNSName("localhost")]), critical=False)
        .sign(key, hashes.SHA256()))
open(D + "/key.pem", "wb").write(key.private_bytes(serialization.Encoding.PEM,
     serialization.PrivateFormat.TraditionalOpenSSL, serialization.NoEncryption()))
pem = cert.public_bytes(serialization.Encoding.PEM)
open(D + "/cert.pem", "wb").write(pem)
open(D + "/tc.pem", "wb").write(pem)
'''
    p = subprocess.run(["/usr/bin/python3", "-c", ec, d + "/ec"], text=True, stdout=subprocess.PIPE, stderr=subprocess.STDOUT)
    if p.returncode != 0:
        raise InternalError("EC credential generation failed:\n" + p.stdout[-2000:])
    for pre in ("mid", "long"):
        os.makedirs(os.path.dirname(c[pre + "_cert"]))
        for f in ("cert", "key", "tc"):
            shutil.copy(c["ec_" + f], c[pre + "_" + f])
    open(d + "/.done", "w").close()
    return c


def peer_names(total):
    """a ':'-separated list of valid host names containing localhost whose C string (with NUL) is 'total' bytes"""
    names = ["localhost"]
    i = 0
    while True:
        cur = len(":".join(names)) + 1
        left = total - cur
        if left <= 0:
            break
        if left < 4:       # cannot add ":xy": lengthen the last name instead
            names[-1] = names[-1] + "x" * left
            break
        n = min(left - 1, 40)
        if left - 1 - n in (1, 2, 3):
            n -= 4
        i += 1
        lab = ("n%d" % i + "a" * 60)[:max(n, 1)]
        names.append(lab)
    s = ":".join(names)
    if len(s) + 1 != total:
        raise InternalError("peer_names(%d) produced %d" % (total, len(s) + 1))
    return s


def profile_attrs(profile, c, tp):
    """attribute lines (A <s|c> name type value) of a credential / attribute profile"""
    if tp not in TLS:
        return [], "-"
    L = []

    def both(name, typ, sval, cval=None):
        L.append("A s %s %s %s" % (name, typ, sval))
        L.append("A c %s %s %s" % (name, typ, cval if cval is not None else sval))

    key = "-"
    if profile in ("small", "names511", "names512", "names513", "names2k"):
        both("tls.cert_file", "str", hx(c["ec_cert"]))
        both("tls.key_file", "str", hx(c["ec_key"]))
        both("tls.tc_file", "str", hx(c["ec_tc"]))
        key = c["ec_key"]
        if profile.startswith("names"):
            n = {"names511": 511, "names512": 512, "names513": 513, "names2k": 2000}[profile]
            both("tls.verify_peer_name", "bool", "1")
            both("tls.peer_names", "str", hx(peer_names(n)))
    elif profile == "keyval":
        both("tls.cert_file", "str", hx(c["ec_cert"]))
        both("tls.key", "file", c["ec_key"])
        both("tls.tc_file", "str", hx(c["ec_tc"]))
        key = c["ec_key"]
    elif profile == "ec":
        both("tls.cert", "file", c["ec_cert"])
        both("tls.key", "file", c["ec_key"])
        both("tls.tc", "file", c["ec_tc"])
        key = c["ec_key"]
    elif profile == "big":
        both("tls.cert", "file", c["big_srv_cert"], c["big_cli_cert"])
        both("tls.key", "file", c["big_srv_key"], c["big_cli_key"])
        both("tls.tc", "file", c["big_tc"])
        key = "BIG"
    elif profile == "many":
        # many attributes, every one of them small: the peer of the connecting side has 35 short alternative names
        both("tls.cert_file", "str", hx(c["many_cert"]), hx(c["big_cli_cert"]))
        both("tls.key_file", "str", hx(c["many_key"]), hx(c["big_cli_key"]))
        both("tls.tc_file", "str", hx(c["big_tc"]))
        key = "MANY"
    elif profile == "mpath":
        both("tls.cert_file", "str", hx(c["mid_cert"]))
        both("tls.key_file", "str", hx(c["mid_key"]))
        both("tls.tc_file", "str", hx(c["mid_tc"]))
        key = c["ec_key"]
    elif profile == "lpath":
        both("tls.cert_file", "str", hx(c["long_cert"]))
        both("tls.key_file", "str", hx(c["long_key"]))
        both("tls.tc_file", "str", hx(c["long_tc"]))
        key = c["ec_key"]
    else:
        raise InternalError("unknown profile " + profile)
    return L, key


def scenarios():
    out = []
    for tp in NON_TLS:
        for tg in ("srv", "cli", "acc", "dead"):
            out.append((tp, tg, "small"))
        if tp in ("tcp", "btcp"):
            out.append((tp, "inprog", "small"))
    for tp in TLS:
        for tg in ("srv", "cli", "acc", "dead"):
            for pr in ("small", "keyval", "ec", "big", "many", "mpath", "lpath"):
                if pr == "many" and tg != "cli":
                    continue
                if tg == "dead" and pr not in ("small", "big"):
                    continue
                if tp == "utls" and tg != "srv" and pr not in ("small", "big"):
                    continue    # local utls connections run over ux: no TLS attributes
                out.append((tp, tg, pr))
        for pr in ("names511", "names512", "names513", "names2k"):
            out.append((tp, "srv", pr))
        if tp != "utls":
            for tg in ("inprog", "hs"):
                for pr in ("small", "keyval", "names512", "names513", "big"):
                    out.append((tp, tg, pr))
    return out


def scen_header(xid, sc, creds, pump="again"):
    tp, tg, pr = sc
    attrs, key = profile_attrs(pr, creds, tp)
    if key == "MANY":
        key = creds["big_cli_key"] if tg in ("cli", "dead", "inprog", "hs") else creds["many_key"]
    if key == "BIG":
        # the key of the owner: the connecting side uses the client credentials
        key = creds["big_cli_key"] if tg in ("cli", "dead", "inprog", "hs") else creds["big_srv_key"]
    lines = ["X %d %s %s %s %s" % (xid, tp, tg, pr, pump)]
    if key != "-":
        lines.append("K " + key)
    return lines + attrs


# ============================================================ model checking ====
def write_cfg(name, consts, body):
    d = vlib.BUILD + "/cfg"
    os.makedirs(d, exist_ok=True)
    lines = ["SPECIFICATION %s" % body.get("spec", "Spec"), "CONSTANTS"]
    full = dict(MaxClients=2, BacklogCap=3, Dev="{}")
    full.update(consts)
    for k, v in full.items():
        if k in ("num", "depth"):
            continue
        lines.append("  %s = %s" % (k, v))
    lines.append("VIEW View")
    if body.get("inv"):
        lines.append("INVARIANTS " + " ".join(body["inv"]))
    for p in body.get("props", []):
        lines.append("PROPERTY " + p)
    if body.get("emit"):
        lines.append("ACTION_CONSTRAINT Emit")
    lines.append("CHECK_DEADLOCK FALSE")
    path = "%s/c14_%s_%d.cfg" % (d, name, os.getpid())
    with open(path, "w") as f:
        f.write("\n".join(lines) + "\n")
    return path


INVS = ["TypeOK", "BoundedSessions", "FifoReplies", "FirstRequestAny", "KeyNeverDisclosed", "WellBehavedStay", "Passive",
        "FilesGone", "SettledServes"]
ACTIONS = ["ClientConnect", "ClientSend", "ClientRecv", "ClientDrop", "ServerPoll", "AppSendA", "AppRecvA", "OwnerClose"]


def run_tlc(name, cfg, workers, extra="", timeout=1500):
    try:
        r = vlib.tlc("Ctl", cfg, workers=workers, extra="-noGenerateSpecTE " + extra, timeout=timeout,
                     env={"JAVA_TOOL_OPTIONS": JAVA_MC}, metadir="%s/c14.%s.%d" % (vlib.TLCDIR, name, os.getpid()))
    finally:
        if os.path.exists(cfg):
            os.unlink(cfg)
    if r["error"]:
        raise InternalError("TLC failed on Ctl/%s:\n%s" % (name, r["error"]))
    m = re.search(r"Temporal property (\S+) was violated", r["out"])
    if m and not r["violated"]:
        r["violated"] = [m.group(1)]
    if r["rc"] != 0 and not r["violated"]:
        raise InternalError("TLC ended with status %d on Ctl/%s:\n%s" % (r["rc"], name, r["out"][-3000:]))
    return r


def parse_paths(out):
    paths = []
    for ln in out.splitlines():
        if not ln.startswith('"@P'):
            continue
        try:
            paths.append(tuple(json.loads(json.loads(ln)[2:])))
        except ValueError:
            raise InternalError("unparsable behaviour line from TLC: %s" % ln[:200])
    return paths


def maximal(paths):
    """drop behaviours that are a prefix of another one"""
    ps = sorted(set(paths))
    out = []
    for i, p in enumerate(ps):
        if i + 1 < len(ps) and ps[i + 1][:len(p)] == p:
            continue
        out.append(p)
    return out


def features(p):
    f = set()
    sess = set()
    for t in p:
        a, s, k, e = t.split(":")
        f.add(a + ":" + k + ":" + e)
        if a == "conn":
            sess.add(s)
    f.add("n%d" % len(sess))
    return frozenset(f)


def pick_paths(paths, n, rnd):
    """n behaviours, spread over the feature classes (which actions / kinds / observations they contain)"""
    groups = collections.defaultdict(list)
    quiet = 0
    for p in paths:
        if not any(t.startswith("send:") for t in p):
            quiet += 1
            if quiet % 12:      # a few behaviours without any request are enough
                continue
        groups[features(p)].append(p)
    keys = sorted(groups, key=lambda k: sorted(k))
    for k in keys:
        rnd.shuffle(groups[k])
    out = []
    while len(out) < n and keys:
        nxt = []
        for k in keys:
            if groups[k]:
                out.append(groups[k].pop())
                if len(out) >= n:
                    break
            if groups[k]:
                nxt.append(k)
        keys = nxt
    return out, len(groups)


def flood_paths():
    """One session pipelines many get-all requests and reads none of the replies while the owner keeps calling (the
    replies fill the session's socket buffer; the owner's calls must neither fail nor wait), then reads them all."""
    out = []
    for n in (6, 9, 12):
        p = ["conn:1:-:-", "poll:0:-:-"] + ["send:1:all:-"] * n + ["poll:0:-:-"] * (n + 2) + ["recv:1:-:-"] * n + ["poll:0:-:-", "asend:0:-:-"]
        out.append(tuple(p))
    return out


def pair_paths():
    """Behaviours of Ctl.tla in which two established sessions each have one event pending in the SAME server round
    (a request of every kind, or a disconnect), in both slot orders: what one session does must not leak into the
    other session's reply or into the owner's data path.  They are behaviours of the specification like the ones TLC
    prints (every recorded execution is validated against CtlTrace), chosen directly because the per-transition cover
    of the state graph contains each transition once, not each pair."""
    evs = ["get", "all", "bad", "odd", "drop"]
    out = []
    for k1 in evs:
        for k2 in evs:
            for first in (1, 2):
                p = ["conn:1:-:-", "poll:0:-:-", "conn:2:-:-", "poll:0:-:-"]
                e = {1: k1, 2: k2}
                for s_ in ((1, 2) if first == 1 else (2, 1)):
                    p.append("drop:%d:-:-" % s_ if e[s_] == "drop" else "send:%d:%s:-" % (s_, e[s_]))
                p.append("poll:0:-:-")
                for s_ in (1, 2):
                    if e[s_] != "drop":
                        p.append("recv:%d:-:-" % s_)
                p += ["poll:0:-:-", "asend:0:-:-", "poll:0:-:-"]
                out.append(tuple(p))
    return out


# ============================================================ scripts =============
BAD_TYPES = [1, 2, 4, 5, 6, 99, -1, 2147483647, -2147483648, 256, 65536]


def invent_names(names, rnd):
    """names the socket does not have, or that are not values, or not names at all"""
    out = ["xcm.nonexistent", "xcm", "tls", "tls.peer", "xcm.type.x", "xcm.type[0]", "a..b", ".xcm.type", "xcm.type.",
           "[0]", "xcm..type", "xcm.type]", "tls.peer.cert.san.dns", "tls.peer.cert.san.dns[999]",
           "tls.peer.cert.san.dns[-1]", "tls.peer.cert.san.dns[4294967296]", "tls.peer.cert.san.dirs[0]",
           "tls.peer.cert.san.dirs[0].cn.x", "tls.key_file", "tls.key.x", "tls.keyx", "TLS.KEY", " tls.key",
           "x" * 63, "a." * 31 + "a", "a[0]" * 15, "", "tls.crl", "tls.crl_file", "dns.timeout", "ipv6.scope"]
    base = rnd.choice(names) if names else "xcm.type"
    out.append(base + ".sub")
    out.append(base + "[0]")
    out.append(base[:-1])
    return out


def script_for(path, xid, sc, info, creds, rnd, msgsz):
    tp, tg, pr = sc
    names = [a[0] for a in info["oal"]]
    bigs = [a[0] for a in info["oal"] if a[2] >= 500]     # at and beyond the protocol's value field
    keyed = any(a[0] == "tls.key" for a in info["oal"])    # the key is held by value
    pump = "ok" if (tg in ("cli", "acc") and rnd.random() < 0.08) else "again"
    lines = scen_header(xid, sc, creds, pump)
    order = []
    kinds = collections.defaultdict(list)
    for t in path:
        a, s, k, e = t.split(":")
        if a == "conn":
            order.append(int(s))
        elif a == "send":
            kinds[int(s)].append(k)
    libs = set()
    for s in order[:2] if rnd.random() < 0.9 else order[:3]:
        if kinds[s] and all(k in ("get", "key", "all") for k in kinds[s]) and rnd.random() < 0.3:
            libs.add(s)
    skip = collections.Counter()
    closed = False
    alive = set()
    for t in path:
        a, s, k, e = t.split(":")
        s = int(s)
        if a == "conn":
            lines.append(("lo %d" if s in libs else "c %d") % s)
            alive.add(s)
        elif a == "send":
            if k == "get" and keyed and rnd.random() < 0.3:
                k = "key"
            if k in ("get", "odd"):
                x = rnd.random()
                if bigs and x < 0.25:
                    nm = rnd.choice(bigs)
                elif x < 0.70 and names:
                    nm = rnd.choice(names)
                else:
                    nm = rnd.choice(invent_names(names, rnd))
                if keyed and rnd.random() < 0.4:
                    # names that extend the private key's: no such attribute, and certainly no key in the reply
                    nm = rnd.choice(["tls.key.x", "tls.key[0]", "tls.key.pem.data", "tls.key[1][2].a", "tls.key.x.y", "tls.key[0].x"])
                nm = nm[:63]
            if s in libs:
                if k == "all":
                    lines.append("la %d" % s)
                else:
                    lines.append("lg %d %s" % (s, hx("tls.key" if k == "key" else nm)))
                skip[s] += 1
            elif k == "get":
                lines.append("q %d get %s %d" % (s, hx(nm), rnd.randrange(2)))
            elif k == "key":
                lines.append("q %d get %s %d" % (s, hx("tls.key"), rnd.randrange(2)))
            elif k == "all":
                lines.append("q %d all %d" % (s, rnd.randrange(2)))
            elif k == "bad":
                if rnd.random() < 0.5:
                    n = rnd.choice([0, 1, 3, 4, 5, 8, 67, 68, 69, 100, 592, msgsz // 2, msgsz - 8, msgsz - 1])
                    lines.append("q %d short %d" % (s, n))
                else:
                    lines.append("q %d unk %d" % (s, rnd.choice(BAD_TYPES)))
            elif k == "odd":
                if rnd.random() < 0.45:
                    lines.append("q %d long %s %d %d" % (s, hx(nm), rnd.randrange(2), rnd.choice([1, 7, 64, 4000])))
                else:
                    pre = rnd.choice(["", "", "xcm.type", "tls.key", nm])
                    lines.append("q %d unterm %d %s" % (s, rnd.randrange(2), hx(pre)))
        elif a == "recv":
            if s in libs:
                if skip[s] > 0:
                    skip[s] -= 1
            else:
                lines.append("r %d" % s)
        elif a == "drop":
            lines.append(("lc %d" if s in libs else "d %d") % s)
            alive.discard(s)
        elif a == "poll":
            lines.append("p")
        elif a == "asend":
            lines.append("a %d" % rnd.choice([1, 1, 2, 3, 5, 90]))
        elif a == "close":
            lines.append("zf" if rnd.random() < 0.2 else "z")      # zf: the socket is closed by a forked child that owns it
            closed = True
    lines.append("f")
    if not closed:
        lines.append("zf" if rnd.random() < 0.2 else "z")
        # what the clients see after the close
        for s in sorted(alive - libs)[:2]:
            lines.append("r %d" % s)
    lines.append("E")
    return "\n".join(lines) + "\n"


# ============================================================ execution ===========
def read_trace(path):
    """complete JSON lines of a trace file (a line cut short by a crash is dropped)"""
    out = []
    try:
        with open(path, errors="replace") as f:
            for ln in f:
                ln = ln.strip()
                if not ln:
                    continue
                try:
                    out.append((json.loads(ln), ln))
                except ValueError:
                    continue
    except FileNotFoundError:
        pass
    return out


def run_harness(binary, execs, base, timeout):
    """execs: list of (xid, script text).  Returns (trace lines, {xid: crash detail}).  A crash ends the process:
    the run continues with the next execution in a new process."""
    rund = base + ".d"
    ctld = rund + "/ctl"
    vlib.fresh_dir(rund)
    os.makedirs(ctld)
    trace = base + ".raw"
    if os.path.exists(trace):
        os.unlink(trace)
    env = dict(os.environ)
    env.update(ASAN_ENV)
    env.update({"XCM_CTL": ctld, "VERIF_RUN_DIR": rund})
    k, rounds, details = 0, 0, {}
    while k < len(execs):
        rounds += 1
        sf = "%s.s%d" % (base, rounds)
        with open(sf, "w") as f:
            f.write("".join(e[1] for e in execs[k:]))
        try:
            p = subprocess.run([binary, sf, trace], stdout=subprocess.PIPE, stderr=subprocess.STDOUT, env=env, timeout=timeout,
                               text=True, errors="replace")
            rc, err = p.returncode, p.stdout
        except subprocess.TimeoutExpired as e:
            rc, err = -999, (e.stdout if isinstance(e.stdout, str) else "") or ""
        recs = read_trace(trace)
        last = recs[-1][0] if recs else None
        if rc == 0 and last is not None and last["ev"] == "end" and last["x"] == execs[-1][0]:
            break
        if last is not None and last["ev"] == "crash":
            xid = last["x"]
            ids = [e[0] for e in execs]
            if xid not in ids or ids.index(xid) < k:
                raise InternalError("crash line for an unexpected execution %s" % xid)
            why = ""
            for ln in err.splitlines():
                if "Assertion" in ln or "runtime error" in ln or "SUMMARY" in ln:
                    why = ln.strip()[:300]
                    if "Assertion" in ln or "runtime error" in ln:
                        break
            details[xid] = why
            k = ids.index(xid) + 1
            # control files of the dead process stay behind: start the next process with an empty directory
            shutil.rmtree(ctld, ignore_errors=True)
            os.makedirs(ctld)
            continue
        if rc == -999:
            raise InternalError("harness timed out (%d s) in %s; last line: %s" % (timeout, sf, recs[-1][1][:300] if recs else ""))
        raise InternalError("harness failed (exit %d) in %s:\n%s" % (rc, sf, err[-3000:]))
    with open(base + ".ndjson", "w") as f:
        for _, ln in read_trace(trace):
            f.write(ln + "\n")
    return base + ".ndjson", details


def validate(trace, tag):
    recs = read_trace(trace)
    n = len(recs)
    if n == 0:
        raise InternalError("empty trace " + trace)
    r = vlib.tlc("CtlTrace", "CtlTrace.cfg", workers=1, timeout=2400, extra="-noGenerateSpecTE",
                 env={"TRACE": trace, "JAVA_TOOL_OPTIONS": JAVA_TRACE},
                 metadir="%s/c14tv.%s.%d" % (vlib.TLCDIR, tag, os.getpid()))
    vl, stat = [], None
    for ln in r["out"].splitlines():
        if ln.startswith('"@V '):
            v = json.loads(json.loads(ln)[3:])
            vl.append(dict(x=v[0], n=v[1], tag=v[2], exp=v[3], obs=v[4]))
        elif ln.startswith('"@STAT '):
            stat = json.loads(json.loads(ln)[6:])
    if r["violated"]:
        raise InternalError("the design invariants failed while following a recorded execution (%s) in %s:\n%s"
                            % (",".join(r["violated"]), trace, r["out"][-3000:]))
    if r["error"] or stat is None or r["distinct"] != n + 1 or "Postcondition" in r["out"]:
        raise InternalError("trace validation did not consume %s (%d lines, %d states):\n%s"
                            % (trace, n, r["distinct"], (r["error"] or r["out"][-3000:])))
    return vl, stat, n


def run_all(binary, execs, tag, nproc, timeout):
    d = vlib.fresh_dir("%s/%s" % (vlib.RUN, tag))
    nb = max(1, min(nproc * 2, len(execs) // 8 or 1))
    chunks = [execs[i::nb] for i in range(nb)]

    def job(i):
        trace, details = run_harness(binary, chunks[i], "%s/c%d" % (d, i), timeout)
        vl, stat, n = validate(trace, "%s_c%d" % (tag, i))
        return vl, stat, n, details

    allv, stats, lines, details = [], collections.Counter(), 0, {}
    with concurrent.futures.ThreadPoolExecutor(max_workers=nproc) as ex:
        for vl, stat, n, det in ex.map(job, range(nb)):
            allv.extend(vl)
            for k, v in stat.items():
                if k != "gam":
                    stats[k] += v
            lines += n
            details.update(det)
    return d, allv, dict(stats), lines, details


# ============================================================ verdicts ============
def norm(x):
    s = json.dumps(x) if not isinstance(x, str) else x
    s = re.sub(r"0x[0-9a-f]+", "ADDR", s)
    s = re.sub(r"\d+", "N", s)
    return s


def classify(v, detail):
    tag = v["tag"]
    if tag == "C14.crash":
        txt = detail or str(v["obs"])
        m = re.search(r'Assertion "([^"]+)"', txt)
        if m:
            return tag + "/assert:" + m.group(1)[:80]
        m = re.search(r"AddressSanitizer: (\S+)", str(v["obs"]))
        if m:
            fr = re.findall(r"<(\w+)", str(v["obs"]))
            fr = [f for f in fr if not f.startswith("__")]
            return tag + "/asan:" + m.group(1) + ":" + ">".join(fr[:3])
        return tag + "/" + norm(str(v["obs"]))[:60]
    exp = v["exp"]
    head = exp[0] if isinstance(exp, list) and exp and isinstance(exp[0], str) else exp
    if isinstance(exp, list) and len(exp) >= 2 and isinstance(exp[1], str) and tag == "C14.reply":
        head = exp[1] if exp[1] in ("confirm", "rejection", "errno", "type", "value hash", "len") else head
        if exp[1] in ("confirm", "rejection", "errno", "type", "value hash", "len"):
            head = "get " + exp[1]
    return tag + "/" + norm(str(head))[:70]


def describe(v, detail):
    s = "%s expected %s, observed %s" % (v["tag"], json.dumps(v["exp"])[:220], json.dumps(v["obs"])[:300])
    if detail:
        s += " [" + detail[:200] + "]"
    return s


def scenario_text(script):
    f = script.split("\n", 1)[0].split()
    return "%s/%s/%s" % (f[2], f[3], f[4])


def verdicts(allv, execs, details):
    byx = dict(execs)
    classes, notes, internal = {}, collections.Counter(), []
    for v in allv:
        if v["tag"].startswith("NOTE."):
            notes[v["tag"]] += 1
            continue
        if v["tag"] == "INTERNAL":
            internal.append(v)
            continue
        det = details.get(v["x"], "") if v["tag"] == "C14.crash" else ""
        key = classify(v, det)
        classes.setdefault(key, []).append((len(byx.get(v["x"], "")), v["x"], v, det))
    if internal:
        v = internal[0]
        raise InternalError("harness could not execute %s (%s): expected %s observed %s\n%s"
                            % (v["x"], scenario_text(byx.get(v["x"], "X 0 ? ? ?")), v["exp"], v["obs"], byx.get(v["x"], "")[:1500]))
    reports = []
    for key in sorted(classes):
        items = sorted(classes[key], key=lambda t: (t[0], t[1]))
        first = items[0]
        scen = collections.Counter(scenario_text(byx[i[1]]) for i in items if i[1] in byx)
        xs = []
        for i in items:
            if i[1] not in xs:
                xs.append(i[1])
        reports.append(dict(key=key, tag=first[2]["tag"], count=len(items), x=first[1], v=first[2], detail=first[3], xs=xs[:3],
                            scenarios=dict(scen.most_common(8)), text=describe(first[2], first[3])))
    return reports, dict(notes)


def split_execs(txt):
    execs = []
    for p in re.split(r"(?m)^(?=X \d+ )", txt):
        if not p.strip():
            continue
        xid = int(p.split()[1])
        if not p.rstrip().endswith("E"):
            p = p.rstrip() + "\nE\n"
        execs.append((xid, p if p.endswith("\n") else p + "\n"))
    return execs


GETALL_CLASS = "C14.first_request/reply type of get-all whatever preceded it"
# the canonical pair for the history dependence of the reply type: get-all as the first request of a session, and
# get-all after a get on the same session (the comparison is across executions, so one execution alone cannot show it)
GETALL_PAIR = ("X 900001 ux cli small again\nc 1\nq 1 all 0\np 4\nr 1\nf\nz\nE\n"
               "X 900002 ux cli small again\nc 1\nq 1 get %s 0\np 4\nr 1\nq 1 all 0\np 4\nr 1\nf\nz\nE\n" % "78636d2e74797065")


def confirm(binary, rep, byx, idx):
    """A mismatch class is reported only if running one of its executions again, alone, shows the same tag
    (machine load or an unsettled environment must never turn into a verdict)."""
    if rep["key"] == GETALL_CLASS:
        byx[900001] = GETALL_PAIR
        rep["xs"] = [900001]
    for j, x in enumerate(rep["xs"]):
        d = vlib.fresh_dir("%s/%s_confirm/%d_%d" % (vlib.RUN, PID, idx, j))
        trace, details = run_harness(binary, split_execs(byx[x]), d + "/r", 600)
        vl, _, _ = validate(trace, "confirm%d_%d" % (idx, j))
        for v in vl:
            if v["tag"] == rep["tag"] and classify(v, details.get(v["x"], "") if v["tag"] == "C14.crash" else "") == rep["key"]:
                rep["x"] = x
                return True
    return False


# ============================================================ main ================
def probe(binary, creds, scs):
    """one trivial execution per scenario: does it set up here, which attributes does the owner have"""
    execs = [(i + 1, "\n".join(scen_header(i + 1, sc, creds)) + "\nE\n") for i, sc in enumerate(scs)]
    d = vlib.fresh_dir("%s/%s_probe" % (vlib.RUN, PID))
    trace, details = run_harness(binary, execs, d + "/p", 300)
    info = {}
    for rec, _ in read_trace(trace):
        if rec["ev"] == "x":
            sc = scs[rec["x"] - 1]
            if rec["a"] != 0:
                raise InternalError("scenario %s/%s/%s cannot be set up in this environment" % sc)
            info[sc] = dict(oal=rec["oal"], msgsz=rec["sv"][2], valmax=rec["sv"][3], maxattrs=rec["sv"][4], files=len(rec["fl"]))
    if details:
        raise InternalError("the library crashed while merely creating sockets: %s" % details)
    if len(info) != len(scs):
        raise InternalError("probe covered %d of %d scenarios" % (len(info), len(scs)))
    return info


def model_check(tier):
    T = TIERS[tier]
    res = {}

    def mc():
        cfg = write_cfg("mc", T["mc"], dict(inv=INVS, props=["PassiveStep"]))
        return run_tlc("mc", cfg, max(2, vlib.NCPU // 2), "-coverage 1")

    def live():
        cfg = write_cfg("live", T["live"], dict(spec="FairSpec", props=["Answered"]))
        return run_tlc("live", cfg, 2)

    def emit():
        cfg = write_cfg("emit", T["emit"], dict(inv=["BoundedSessions", "FifoReplies", "Passive"], emit=True))
        return run_tlc("emit", cfg, 3)

    with concurrent.futures.ThreadPoolExecutor(max_workers=3) as ex:
        fs = {"mc": ex.submit(mc), "live": ex.submit(live), "emit": ex.submit(emit)}
        for k, f in fs.items():
            res[k] = f.result()
    return res


def recorded_deviations(pid, known):
    """DESIGN 6.4: a recorded (unrepaired) finding that names a deviation flag of Ctl.tla must still be a
    counterexample of the property in the model that follows the code; otherwise the entry is stale."""
    for f in vlib.load_findings().get("findings", []):
        if f.get("property") != pid or not f.get("dev"):
            continue
        flag, inv = f["dev"], f.get("dev_invariant", "FirstRequestAny")
        cfg = write_cfg("dev_" + flag, dict(Sess="{1, 2}", Kinds='{"get", "all"}', MaxReq=2, MaxTotal=2, MaxApp=0,
                                            Dev='{"%s"}' % flag), dict(inv=[inv]))
        r = run_tlc("dev_" + flag, cfg, 2)
        if inv not in r["violated"]:
            raise InternalError("known finding %s is stale: Ctl.tla with Dev = {%s} does not violate %s" % (f.get("id"), flag, inv))
        known.append("property=%s %s (design model with deviation %s violates %s)" % (pid, f.get("what", flag), flag, inv))


def simulate(tier, seed):
    T = TIERS[tier]
    cfg = write_cfg("sim", T["sim"], dict(inv=["BoundedSessions", "FifoReplies", "Passive"], emit=True))
    return run_tlc("sim", cfg, 1, "-simulate num=%d -depth %d -seed %d" % (T["sim"]["num"], T["sim"]["depth"], seed))


def check(pid, tier, seed):
    t0 = time.time()
    if tier not in TIERS:
        tier = "quick"
    T = TIERS[tier]
    rnd = random.Random(seed)
    binary = vlib.build(["ctl_exec"])[0]
    creds = ensure_creds()
    scs = scenarios()
    if os.path.isdir(vlib.REPLAYS):      # replay files of an earlier run of this check
        for f in os.listdir(vlib.REPLAYS):
            if f.startswith(pid + "_"):
                os.unlink(os.path.join(vlib.REPLAYS, f))

    violations, known = [], []
    with concurrent.futures.ThreadPoolExecutor(max_workers=3) as ex:
        f_mc = ex.submit(model_check, tier)
        f_sim = ex.submit(simulate, tier, seed)
        f_probe = ex.submit(probe, binary, creds, scs)
        res = f_mc.result()
        sim = f_sim.result()
        info = f_probe.result()

    phases = {"model+probe": round(time.time() - t0, 1)}
    # ---- the design ------------------------------------------------------------------
    mc = res["mc"]
    cov = vlib.tlc_coverage(mc["out"])
    states = mc["distinct"] + res["live"]["distinct"] + res["emit"]["distinct"]
    transitions = mc["generated"] + res["live"]["generated"] + res["emit"]["generated"]
    for name in ("mc", "live", "emit"):
        r = res[name]
        if r["violated"]:
            rp = vlib.save_replay(pid, "tlc_%s.txt" % name, r["out"][-20000:])
            violations.append(("design", "TLC: %s of Ctl.tla violated in configuration %s" % (",".join(r["violated"]), name), rp))
    if not violations:
        if mc["distinct"] < T["min_states"]:
            raise InternalError("bounded model explored only %d states (vacuous)" % mc["distinct"])
        for a in ACTIONS:
            if cov.get(a, (0, 0))[0] == 0:
                raise InternalError("action %s never taken in the bounded model (vacuous): %s" % (a, cov))
        if res["live"]["distinct"] < 1000:
            raise InternalError("liveness configuration explored only %d states" % res["live"]["distinct"])

    recorded_deviations(pid, known)

    # ---- behaviours -> scripts ----------------------------------------------------------
    p_exh = maximal(parse_paths(res["emit"]["out"]))
    p_sim = maximal(parse_paths(sim["out"]))
    for r in (res["mc"], res["live"], res["emit"], sim):
        r["out"] = r["out"][-4000:]
    if len(p_exh) < 1000 or len(p_sim) < 50:
        raise InternalError("TLC emitted too few behaviours: %d exhaustive, %d simulated" % (len(p_exh), len(p_sim)))
    n_sim = min(len(p_sim), T["n_exec"] // 3)
    chosen_sim, g_sim = pick_paths(p_sim, n_sim, rnd)
    chosen_exh, g_exh = pick_paths(p_exh, T["n_exec"] - len(chosen_sim), rnd)
    chosen = chosen_exh + chosen_sim
    rnd.shuffle(chosen)
    order = list(scs)
    rnd.shuffle(order)
    execs = []
    for i, p in enumerate(chosen):
        sc = order[i % len(order)]
        execs.append((i + 1, script_for(p, i + 1, sc, info[sc], creds, rnd, info[sc]["msgsz"])))
    # two sessions with events pending in the same round: on an established connection of every transport (2 x quick, 6 x thorough)
    pairs = pair_paths()
    est = [sc for sc in scs if sc[1] in ("cli", "acc") and sc[2] in ("small", "big")]
    for j, p in enumerate(flood_paths() * (1 if tier == "quick" else 3)):
        for sc in (est[j % len(est)], est[(j * 5 + 2) % len(est)]):
            xid = len(execs) + 1
            execs.append((xid, script_for(p, xid, sc, info[sc], creds, rnd, info[sc]["msgsz"])))
            chosen.append(p)
    for rep_ in range(1 if tier == "quick" else 3):
        for j, p in enumerate(pairs):
            for sc in (est[(j + rep_) % len(est)], est[(j * 7 + 3 + rep_) % len(est)]):
                xid = len(execs) + 1
                execs.append((xid, script_for(p, xid, sc, info[sc], creds, rnd, info[sc]["msgsz"])))
                chosen.append(p)

    # ---- real library, trace validation ---------------------------------------------------
    t1 = time.time()
    d, allv, stats, lines, details = run_all(binary, execs, "%s_%s" % (pid, tier), T["nproc"], 1800)
    phases["replay+validation"] = round(time.time() - t1, 1)
    # vacuity is judged by what was ASKED (generator and model side), never by what the code answered
    asked = collections.Counter()
    for _, sc_txt in execs:
        for ln in sc_txt.splitlines():
            f = ln.split()
            if f[0] == "q":
                asked["raw_" + f[2]] += 1
                if f[2] == "get":
                    nm = bytes.fromhex(f[3]).decode() if f[3] != "-" else ""
                    asked["get_key" if nm == "tls.key" else "get_named"] += 1
            elif f[0] in ("lg", "la", "lo", "d", "lc", "a", "p"):
                asked[f[0]] += 1
    stats.update({"asked_" + k: v for k, v in asked.items()})
    need = dict(x=len(execs), app=10, close=50, third=10, midx=5, firstall=3, big=5, many=3, key=3, odd=3, bad=5,
                asked_get_named=100, asked_get_key=5, asked_raw_all=20, asked_raw_short=5, asked_raw_unk=5, asked_raw_long=3,
                asked_raw_unterm=3, asked_lg=10, asked_la=10, asked_d=20, asked_p=100)
    short = {k: (stats.get(k, 0), v) for k, v in need.items() if stats.get(k, 0) < v}
    if short:
        raise InternalError("vacuous run (observed, needed): %s" % short)
    reports, notes = verdicts(allv, execs, details)

    byx = dict(execs)
    t1 = time.time()
    with concurrent.futures.ThreadPoolExecutor(max_workers=6) as ex:
        confirmed = list(ex.map(lambda t: confirm(binary, t[1], byx, t[0]), enumerate(reports)))
    phases["confirmation"] = round(time.time() - t1, 1)
    unreproduced = {}
    for rep, ok in zip(list(reports), confirmed):
        if not ok:
            unreproduced[rep["key"]] = rep["count"]
            reports.remove(rep)
    for rep in reports:
        sig = {"tag": rep["tag"], "class": rep["key"], "detail": json.dumps(rep["v"]["exp"]), "why": rep["detail"] or str(rep["v"]["obs"])}
        f = vlib.match_finding(pid, sig)
        if f:
            k = "property=%s %s (%d recorded executions, e.g. %s)" % (pid, f["what"], rep["count"], scenario_text(byx[rep["x"]]))
            if not any(f["what"] in x for x in known):
                known.append(k)
            continue
        body = "# %s\n# class %s: %d mismatching steps in this run (scenarios: %s)\n# replay: bin/check %s --replay <this file>\n%s" \
               % (rep["text"], rep["key"], rep["count"], json.dumps(rep["scenarios"]), pid, byx[rep["x"]])
        name = re.sub(r"[^A-Za-z0-9]+", "_", rep["key"].replace("C14.", "")).strip("_")[:70] + ".scr"
        rp = vlib.save_replay(pid, name, body)
        violations.append(("conformance", "%s [%d steps; %s]" % (rep["text"], rep["count"], scenario_text(byx[rep["x"]])), rp))

    # ---- evidence -----------------------------------------------------------------------------
    nontrivial = sum(1 for _, s in execs if re.search(r"^(q \d+ (short|unk|long|unterm)|d \d|lc \d|la \d|q \d+ all|z\n(.*\n)*f$)", s, re.M)
                     or len(re.findall(r"^(c|lo) ", s, re.M)) > 2)
    samples = [{"behaviour": list(chosen[i]), "scenario": scenario_text(execs[i][1]), "script": execs[i][1].split("\n")[:30]}
               for i in sorted(set([0, len(execs) // 2, len(execs) - 1]))]
    for rep in reports[:5]:
        samples.append({"mismatch": rep["text"][:500], "steps": rep["count"], "scenarios": rep["scenarios"]})
    coverage = dict(
        states=states, transitions=transitions, traces_validated_against_impl=len(execs), samples=samples,
        evaluations=lines, distinct_nontrivial=nontrivial,
        rule="one execution = one TLC-generated behaviour replayed on a real socket and validated line by line by TLC "
             "against CtlTrace/Ctl; non-trivial = contains a malformed or abnormal request, a get-all, a disconnect, an "
             "xcm_close in mid-behaviour or more than two sessions; evaluations = recorded steps validated",
        model=dict(check=dict(distinct=mc["distinct"], generated=mc["generated"], depth=mc["depth"], wall=round(mc["wall"], 1)),
                   liveness=dict(distinct=res["live"]["distinct"], wall=round(res["live"]["wall"], 1)),
                   emission=dict(distinct=res["emit"]["distinct"], transitions=res["emit"]["generated"],
                                 behaviours=len(p_exh), feature_classes=g_exh),
                   simulation=dict(behaviours=len(p_sim), feature_classes=g_sim),
                   action_coverage={a: cov.get(a, (0, 0))[0] for a in ACTIONS}),
        scenarios=len(scs), recorded=stats, crashes=len(details), phase_wall_s=phases,
        mismatch_classes={r["key"]: r["count"] for r in reports}, unreproduced_mismatch_classes=unreproduced, notes=notes,
        known_findings=known, exhaustive=False)
    vlib.write_evidence(pid, tier, seed, "model_checking", coverage, time.time() - t0, violations=len(violations),
                        assumptions=["the in-process answer taken with the protocol's value capacity (512 bytes) is the reference; "
                                     "attributes larger than that may be absent from a get-all reply",
                                     "tcp.rtt / tcp.total_retrans / tcp.segs_in / tcp.segs_out are compared by type and length only",
                                     "no reply on a connection whose operations fail permanently (peer closed) is not judged",
                                     "a time-out inside libxcmctl (300 ms) is never a verdict",
                                     "memory safety rests on ASan/UBSan instrumentation of the replayed behaviours",
                                     "TLC and the Json/IOUtils community modules are trusted"])
    return violations, known


def replay(pid, path):
    binary = vlib.build(["ctl_exec"])[0]
    ensure_creds()
    txt = "".join(ln for ln in open(path) if not ln.startswith("#"))
    if not re.search(r"^X \d+ ", txt, re.M):
        raise InternalError("not a C14 replay script (TLC counterexamples are re-checked by running the check): " + path)
    execs = split_execs(txt)
    d = vlib.fresh_dir("%s/replay_%s" % (vlib.RUN, pid))
    trace, details = run_harness(binary, execs, d + "/r", 600)
    vl, stat, n = validate(trace, "replay")
    bad = []
    for v in vl:
        det = details.get(v["x"], "") if v["tag"] == "C14.crash" else ""
        print("MISMATCH" if v["tag"].startswith("C14.") else "note", "x=%s n=%s" % (v["x"], v["n"]), describe(v, det))
        if v["tag"].startswith("C14."):
            bad.append(v)
        elif v["tag"] == "INTERNAL":
            raise InternalError("harness could not execute the script: %s" % v)
    print("replayed %d executions, %d recorded steps, trace %s" % (len(execs), n, trace))
    return bad
