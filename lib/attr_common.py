"""Shared machinery of the attribute checks C10 and C11 (spec/Attr.tla, AttrMC.tla, AttrTrace.tla, harness/attr_exec.c).

  TLC (AttrMC, Mode "vec")  -> attribute vectors  -> attr_exec on real sockets -> NDJSON -> TLC (AttrTrace) -> @V lines
  TLC (AttrMC, Mode "life") -> behaviours (paths) -> attr_exec (held connects)  -> NDJSON -> TLC (AttrTrace) -> @V lines

Nothing here computes an expected value: Python moves cases from TLC to the harness and results from the harness
to TLC, groups the mismatches TLC reports into classes and writes the evidence.
"""
import atexit
import collections
import concurrent.futures
import json
import os
import re
import shutil
import subprocess
import time

import vlib
from vlib import InternalError

ALL_TPS = ["ux", "uxf", "tcp", "tcp6", "tls", "utls", "utlsx", "btcp", "btls"]
LIFE_TPS = ["tcp", "btcp", "tls", "btls", "utls", "ux", "uxf"]
TYPE_NAMES = {1: "bool", 2: "int64", 3: "str", 4: "bin", 5: "double"}
ASAN_ENV = {"ASAN_OPTIONS": "detect_leaks=0:abort_on_error=0:exitcode=99:detect_stack_use_after_return=1",
            "XCM_CTL": "/nonexistent-verif"}
EXIT_UNSETTLED = 4


# ------------------------------------------------------------------ credentials ---------
def clean_java_tmp():
    """left-overs of runs that were killed"""
    try:
        for fn in os.listdir(vlib.TLCDIR):
            p = os.path.join(vlib.TLCDIR, fn)
            if fn.startswith("attr_tmp.") and time.time() - os.path.getmtime(p) > 7200:
                shutil.rmtree(p, ignore_errors=True)
    except FileNotFoundError:
        pass


def ensure_creds():
    """A self-signed certificate with every kind of subject alternative name, so that the list attributes exist."""
    d = vlib.BUILD + "/creds/attr"
    if os.path.exists(d + "/.done"):
        return d
    os.makedirs(d, exist_ok=True)
    conf = """base-path: %s

certs:
  a:
    subject_names: [localhost, second.example]
    san_dns: [third.example]
    san_email: [one@example.com, two@example.com]
    san_dir: ["CN=dirone,O=verif", "O=nocn"]

files:
  - type: cert
    id: a
    path: cert.pem
  - type: key
    id: a
    path: key.pem
  - type: bundle
    certs:
      - a
    path: tc.pem
""" % d
    p = subprocess.run(["/usr/bin/python3", vlib.V + "/bin/gencert.py"], input=conf, text=True, stdout=subprocess.PIPE,
                       stderr=subprocess.STDOUT)
    if p.returncode != 0 or not os.path.exists(d + "/cert.pem"):
        raise InternalError("credential generation failed:\n" + p.stdout[-2000:])
    open(d + "/.done", "w").close()
    return d


def harness_env(rundir):
    e = dict(os.environ)
    e.update(ASAN_ENV)
    e["UBSAN_OPTIONS"] = "print_stacktrace=1:halt_on_error=1:suppressions=%s/shim/ubsan.supp" % vlib.V
    e["XCM_TLS_CERT"] = ensure_creds()
    e["VERIF_RUN_DIR"] = rundir
    return e


# ------------------------------------------------------------------ names ----------------
def bad_names(rnd, n_random):
    """Names outside the attribute table: unknown, malformed, long, deep.  Inputs only - what must happen with each
    is decided by Attr!Syn (spec/AttrPath.tla)."""
    fixed = ["", ".", "x", "xcm", "xcm.", ".xcm", "xcm..blocking", "xcm.blocking.", "xcm.blocking.x", "xcm.blocking[0]", "xcm[0]",
             "[0]", "xcm.nosuch", "nosuch", "tcp.keepalive_tim", "tcp.keepalive_timer", "XCM.BLOCKING", "xcm.blocking ",
             " xcm.blocking", "xcm blocking", "tls.peer.cert.san.dns", "tls.peer.cert.san.dns[", "tls.peer.cert.san.dns[]",
             "tls.peer.cert.san.dns[0", "tls.peer.cert.san.dns[0]]", "tls.peer.cert.san.dns[-1]", "tls.peer.cert.san.dns[+0]",
             "tls.peer.cert.san.dns[ 0]", "tls.peer.cert.san.dns[0 ]", "tls.peer.cert.san.dns[00]", "tls.peer.cert.san.dns[0x0]",
             "tls.peer.cert.san.dns[99999999999999999999999]", "tls.peer.cert.san.dns[4294967296]", "tls.peer.cert.san.dns[0][0]",
             "tls.peer.cert.san.dns[0].cn", "tls.peer.cert.san.dirs[0]", "tls.peer.cert.san.dirs[0].", "tls.peer.cert.san.dirs[0].x",
             "tls.peer.cert.san.dirs[0][0]", "tls.peer.cert.san.dirs.cn", "%s%s%s%n", "xcm.%s", "xcm.blocking%n", "a" * 255, "a" * 256,
             "a" * 1000, "xcm." + "b" * 251, "xcm." + "b" * 252, ".".join("a" * 64), ".".join("a" * 65), ".".join("a" * 100),
             "a" + "[0]" * 63, "a" + "[0]" * 64, "a" + "[0]" * 84, "a." * 127 + "a", "[" * 200, "]" * 200, "a[" + "9" * 250 + "]",
             "xcm.blocking\t", "\x7f", "\xe9\xe9.\xe9", "xcm.bl\xf6cking"]
    out = [s.encode("latin-1") for s in fixed]
    seeds = [b"xcm.blocking", b"tcp.keepalive_time", b"tls.peer.cert.san.dns[0]", b"tls.peer.cert.san.dirs[0].cn", b"xcm.local_addr"]
    chars = b".[]0 9a-+%\xe9"
    for _ in range(n_random):
        s = bytearray(rnd.choice(seeds))
        for _ in range(rnd.choice((1, 1, 2, 3))):
            op = rnd.randrange(5)
            pos = rnd.randrange(len(s) + 1)
            if op == 0 and s:
                s[pos % len(s)] = rnd.choice(chars)
            elif op == 1:
                s.insert(pos, rnd.choice(chars))
            elif op == 2 and s:
                del s[pos % len(s)]
            elif op == 3:
                s[pos:pos] = bytes([rnd.choice(chars)]) * rnd.choice((2, 30, 250))
            else:
                del s[pos:]
        out.append(bytes(s[:1200]))
    seen, res = set(), []
    for b in out:
        b = bytes(c for c in b if c != 0)
        if b not in seen:
            seen.add(b)
            res.append(b)
    return res


# ------------------------------------------------------------------ TLC: enumeration ------
def tla_set(xs):
    return "{" + ", ".join('"%s"' % x if isinstance(x, str) else str(x) for x in xs) + "}"


def _mc_files(tag, consts, extra_defs, cfg_tail):
    d = vlib.BUILD + "/cfg"
    os.makedirs(d, exist_ok=True)
    mod = "AttrMCx_%s_%d" % (tag, os.getpid())
    with open("%s/%s.tla" % (d, mod), "w") as f:
        f.write("---- MODULE %s ----\nEXTENDS AttrMC\n%s\n====\n" % (mod, extra_defs))
    lines = ["SPECIFICATION Spec", "CONSTANTS"]
    for k, v in consts.items():
        lines.append("  %s %s" % (k, v))
    lines += cfg_tail + ["CHECK_DEADLOCK FALSE"]
    cfg = "%s/%s.cfg" % (d, mod)
    with open(cfg, "w") as f:
        f.write("\n".join(lines) + "\n")
    return d, mod, cfg


def java_tmp():
    """TLC unpacks its standard modules into java.io.tmpdir on every start: keep that out of /tmp"""
    d = "%s/attr_tmp.%d" % (vlib.TLCDIR, os.getpid())
    if not os.path.isdir(d):
        os.makedirs(d, exist_ok=True)
        atexit.register(shutil.rmtree, d, True)
    return d


def _run_mc(d, mod, cfg, workers, timeout, heap="4g"):
    try:
        r = vlib.tlc("%s/%s" % (d, mod), cfg, workers=workers, timeout=timeout,
                     env={"JAVA_TOOL_OPTIONS": "-Xmx%s -XX:ParallelGCThreads=4 -DTLA-Library=%s -Djava.io.tmpdir=%s"
                                               % (heap, vlib.SPEC, java_tmp())},
                     metadir="%s/%s" % (vlib.TLCDIR, mod))
    finally:
        for fn in os.listdir(d):
            if fn.startswith(mod):
                os.unlink(os.path.join(d, fn))
        for fn in os.listdir(vlib.SPEC):
            if fn.startswith(mod) and "_TTrace_" in fn:
                os.unlink(os.path.join(vlib.SPEC, fn))
    return r


def enumerate_vectors(tps, names, reduced, tag, light=()):
    """TLC on AttrMC (Mode "vec") for a group of transports -> (tlc result, list of vector dicts)."""
    defs = "BadNamesDef == {%s}" % ", ".join("<<%s>>" % ", ".join(str(c) for c in b) for b in names)
    consts = {"Mode": '= "vec"', "TpSet": "= " + tla_set(tps), "BadNames": "<- BadNamesDef", "Reduced": "= TRUE" if reduced else "= FALSE",
              "LightTps": "= " + tla_set([t for t in tps if t in light]), "LTp": '= "tcp"', "MaxSets": "= 0", "MaxSteps": "= 0", "EmitPaths": '= "none"'}
    d, mod, cfg = _mc_files("v" + tag, consts, defs, ["INVARIANTS InvWriteBound InvOverflow InvSetErrors InvCreationOnly EmitVec"])
    r = _run_mc(d, mod, cfg, 3, 1200)
    if r["error"]:
        raise InternalError("TLC failed on AttrMC (vectors %s):\n%s" % (tag, r["error"]))
    vecs = []
    for ln in r["out"].splitlines():
        if ln.startswith('"@G ') or ln.startswith('"@W '):
            try:
                vecs.append(json.loads(json.loads(ln)[3:]))
            except ValueError:
                raise InternalError("unparsable vector line from TLC: %s" % ln[:200])
    r["out_tail"] = r["out"][-6000:]
    r["out"] = ""
    return r, vecs


def enumerate_paths(tp, max_sets, max_steps, emit, tag):
    """TLC on AttrMC (Mode "life") for one transport -> (tlc result, list of paths)."""
    consts = {"Mode": '= "life"', "TpSet": "= {}", "BadNames": "= {}", "Reduced": "= TRUE", "LightTps": "= {}", "LTp": '= "%s"' % tp,
              "MaxSets": "= %d" % max_sets, "MaxSteps": "= %d" % max_steps, "EmitPaths": '= "%s"' % emit}
    tail = ["VIEW view", "INVARIANTS InvInForce InvNoKernBeforeFd InvWantOk InvInherit" + (" EmitS" if emit == "state" else ""),
            "PROPERTY CreationOnlyKeeps"]
    if emit == "transition":
        tail.append("ACTION_CONSTRAINT EmitT")
    d, mod, cfg = _mc_files("l" + tag, consts, "", tail)
    r = _run_mc(d, mod, cfg, 3, 1500, heap="6g")
    if r["error"]:
        raise InternalError("TLC failed on AttrMC (life %s):\n%s" % (tp, r["error"]))
    paths = []
    for ln in r["out"].splitlines():
        if ln.startswith('"@P '):
            try:
                paths.append(json.loads(json.loads(ln)[3:]))
            except ValueError:
                raise InternalError("unparsable path line from TLC: %s" % ln[:200])
    r["out_tail"] = r["out"][-6000:]
    r["out"] = ""
    return r, paths


def maximal_paths(paths):
    """drop duplicates and paths that are a proper prefix of another one"""
    keys = sorted(set(json.dumps(p) for p in paths))
    ps = sorted((json.loads(k) for k in keys), key=lambda p: json.dumps(p))
    ps = sorted(ps, key=lambda p: [json.dumps(s) for s in p])
    out = []
    for i, p in enumerate(ps):
        if i + 1 < len(ps) and ps[i + 1][:len(p)] == p:
            continue
        out.append(p)
    return out


# ------------------------------------------------------------------ scripts -----------------
def vec_line(v, vid):
    name = v["n"] if v["n"] != "" else "hex:" + bytes(v["nb"]).hex()
    if v["n"] == "" and not v["nb"]:
        name = "hex:"
    if v["op"] == "g":
        return "g %d %s %s %s %s" % (vid, name, v["ic"], v["acc"], v["cc"])
    return "s %d %s %s %d %s %s" % (vid, name, v["ic"], v["ty"], v["lc"], v["vc"])


def sit_key(v):
    return tuple(v["sit"])


def vector_scripts(vecs, nchunks, rnd):
    """Number the vectors, group them by socket situation and deal the situations to nchunks scripts.
    -> (list of scripts, {id: (vector, sit line)}); a script is a list of ("sit"|"vec", line, id)."""
    groups = collections.OrderedDict()
    for v in sorted(vecs, key=lambda v: json.dumps(v, sort_keys=True)):
        groups.setdefault(sit_key(v), []).append(v)
    items = []
    sid = 0
    # large situations are split so that the chunks are even
    for k, vs in groups.items():
        for i in range(0, len(vs), 700):
            sid += 1
            items.append((sid, k, vs[i:i + 700]))
    rnd.shuffle(items)
    items.sort(key=lambda it: -len(it[2]))
    scripts = [[] for _ in range(nchunks)]
    loads = [0] * nchunks
    byid = {}
    vid = 0
    for sid, k, vs in items:
        c = loads.index(min(loads))
        # held connects and TLS handshakes cost more to build than a read costs
        loads[c] += len(vs) + 50
        sl = "sit %d %s %s %s" % (sid, k[0], k[1], k[2])
        scripts[c].append(("sit", sl, 0))
        for v in vs:
            vid += 1
            scripts[c].append(("vec", vec_line(v, vid), vid))
            byid[vid] = (v, sl)
    return [s for s in scripts if s], byid


def path_script(p, x, tp):
    lines = ["P %d %s" % (x, tp)]
    for st in p:
        op = st[0]
        if op == "c":
            m = st[2]
            lines.append("c %d %d %s" % (st[1], len(m), " ".join("%s %d" % (e[0], e[1]) for e in m)))
        elif op in ("S", "A"):
            m = st[1]
            lines.append("%s %d %s" % (op, len(m), " ".join("%s %d" % (e[0], e[1]) for e in m)))
        elif op in ("t", "T", "o"):
            lines.append("%s %s %d" % (op, st[1], st[2]))
        elif op == "b":
            lines.append("b %d" % st[1])
        elif op in ("e", "p"):
            lines.append(op)
        else:
            raise InternalError("unknown path step %r" % (st,))
    lines.append("E")
    return lines


# ------------------------------------------------------------------ execution ---------------
VEC_CRASH = ('{"op":"crash","id":%d,"sid":0,"kind":"","tp":"","life":"","tn":"","nb":[],"acc":"","cc":"","cap":0,"ty":0,"lc":"","vc":"",'
             '"len":0,"r0":[0,0,0],"ret":0,"err":0,"rty":0,"rb":[0,0],"wr":0,"pre":0,"nul":-1,"same":0,"a2":[0,0],"chg":[],"kchg":0,'
             '"gas":-1,"names":[],"why":%s}\n')
PATH_CRASH = ('{"op":"crash","x":%d,"n":0,"tp":"","act":"","an":"","a":[],"m":[],"ret":0,"err":0,"g":[-1,-1,-1,-1,-1],'
              '"k":[-1,-1,-1,-1,-1],"blk":-1,"isb":-1,"src":-1,"psrc":-1,"tls":[-1,-1,-1,-1],"nm":-1,"stls":[-1,-1,-1,-1],"sblk":-1,'
              '"chg":[],"why":%s}\n')


def complete_lines(path):
    try:
        with open(path) as f:
            data = f.read()
    except FileNotFoundError:
        return []
    lines = data.split("\n")
    lines.pop()
    return [ln + "\n" for ln in lines if ln]


def crash_reason(rc, err):
    for ln in err.splitlines():
        if "ERROR: AddressSanitizer" in ln or "runtime error" in ln or "Assertion" in ln or "assert" in ln.lower():
            return re.sub(r"0x[0-9a-f]+", "0x..", ln.strip())[:200]
    return "time-out" if rc in (-999, -14) else "exit status %d" % rc


def run_once(binary, lines, base, timeout, watchdog=45):
    sf, of, ef = base + ".script", base + ".out", base + ".err"
    with open(sf, "w") as f:
        f.write("\n".join(lines) + "\n")
    for p in (of, ef):
        if os.path.exists(p):
            os.unlink(p)
    env = harness_env(os.path.dirname(base))
    if watchdog:
        env["VERIF_ALARM"] = str(watchdog)
    with open(ef, "w") as errf:
        try:
            p = subprocess.run([binary, sf, of], stdout=errf, stderr=subprocess.STDOUT, env=env, timeout=timeout)
            rc = p.returncode
        except subprocess.TimeoutExpired:
            rc = -999
    with open(ef, errors="replace") as f:
        err = f.read()
    last = None
    for m in re.finditer(r"^@RUN (\d+)$", err, re.M):
        last = int(m.group(1))
    return rc, err, complete_lines(of), last


def run_vector_chunk(binary, script, base, timeout):
    """script: list of (kind, line, id).  A crash becomes a crash line and the run continues behind it.
    -> (trace path, number of lines, crashes [(id, why)], skipped ids (situation never settled))"""
    out, crashes, skipped = [], [], []
    todo = list(script)
    rounds = 0
    unsettled_tries = collections.Counter()
    outside = 0
    while todo:
        rounds += 1
        if rounds > 400:
            raise InternalError("vector chunk %s does not terminate (more than 400 restarts)" % base)
        rc, err, lines, last = run_once(binary, [x[1] for x in todo], "%s.r%d" % (base, rounds), timeout)
        out.extend(lines)
        done = set()
        for ln in lines:
            m = re.match(r'\{"op":"[gs]","id":(\d+),', ln)
            if m:
                done.add(int(m.group(1)))
        if rc == 0:
            missing = [x for x in todo if x[0] == "vec" and x[2] not in done]
            if missing:
                raise InternalError("harness ended normally but %d vectors have no result (first: %s)" % (len(missing), missing[0][1]))
            break
        if rc == 2:
            raise InternalError("harness rejected its input:\n%s" % err[-2000:])
        # where did it stop?  the first vector without a result, and the situation it belongs to
        idx = next((i for i, x in enumerate(todo) if x[0] == "vec" and x[2] not in done), None)
        if idx is None:
            break       # everything has a result; the failure came with the tear-down
        sit_idx = max(i for i in range(idx + 1) if todo[i][0] == "sit") if any(x[0] == "sit" for x in todo[:idx + 1]) else None
        if sit_idx is None:
            raise InternalError("vector without situation in %s" % base)
        nxt_sit = next((i for i in range(idx + 1, len(todo)) if todo[i][0] == "sit"), len(todo))
        if rc == EXIT_UNSETTLED:
            key = todo[sit_idx][1]
            unsettled_tries[key] += 1
            if unsettled_tries[key] <= 3:
                todo = [todo[sit_idx]] + todo[idx:]
                continue
            skipped.extend(x[2] for x in todo[idx:nxt_sit])
            todo = todo[nxt_sit:]
            continue
        culprit = todo[idx]
        if rc not in (-999, -14) and last != culprit[2]:
            # died before the vector was started (while a socket situation was built or torn down): nothing that can
            # be held against a vector; rebuild and go on, give up if it keeps happening
            outside += 1
            if outside > 3:
                raise InternalError("the harness dies outside any vector (%s):\n%s" % (crash_reason(rc, err), err[-3000:]))
            todo = [todo[sit_idx]] + todo[idx:]
            continue
        if rc in (-999, -14):
            rc2, err2, l2, _ = run_once(binary, [todo[sit_idx][1], culprit[1]], "%s.solo%d" % (base, rounds), 150, watchdog=0)
            if rc2 == 0 and any('"id":%d,' % culprit[2] in ln for ln in l2):
                out.extend(ln for ln in l2 if '"id":%d,' % culprit[2] in ln)
                todo = [todo[sit_idx]] + todo[idx + 1:]
                continue
            rc, err = rc2, err2
        why = crash_reason(rc, err)
        with open("%s.crash%d.txt" % (base, culprit[2]), "w") as f:
            f.write(err[-20000:])
        out.append(VEC_CRASH % (culprit[2], json.dumps(why)))
        crashes.append((culprit[2], why))
        todo = [todo[sit_idx]] + todo[idx + 1:]
        if len(crashes) > 3000:
            raise InternalError("more than 3000 crashes in one chunk; first: %s" % (crashes[0],))
    with open(base + ".ndjson", "w") as f:
        f.write("".join(out))
    return base + ".ndjson", len(out), crashes, skipped


def run_path_chunk(binary, paths, base, timeout):
    """paths: list of (x, script lines).  -> (trace path, lines, crashes [(x, why)])"""
    out, crashes = [], []
    todo = list(paths)
    rounds = 0
    while todo:
        rounds += 1
        if rounds > 200:
            raise InternalError("path chunk %s does not terminate" % base)
        lines = [ln for _, sl in todo for ln in sl]
        rc, err, got, last = run_once(binary, lines, "%s.r%d" % (base, rounds), timeout)
        out.extend(got)
        done = set()
        for ln in got:
            m = re.match(r'\{"op":"\w+","x":(\d+),', ln)
            if m:
                done.add(int(m.group(1)))
        if rc == 0:
            missing = [x for x, _ in todo if x not in done]
            if missing:
                raise InternalError("harness ended normally but %d paths have no result (first %d)" % (len(missing), missing[0]))
            break
        if rc == 2:
            raise InternalError("harness rejected its input:\n%s" % err[-2000:])
        rest = [(x, sl) for x, sl in todo if x not in done]
        if not rest:
            break
        culprit = last if last is not None and any(x == last for x, _ in rest) else rest[0][0]
        if rc in (-999, -14):
            solo = [sl for x, sl in rest if x == culprit][0]
            rc2, err2, l2, _ = run_once(binary, solo, "%s.solo%d" % (base, rounds), 150, watchdog=0)
            if rc2 == 0 and l2:
                out.extend(l2)
                todo = [(x, sl) for x, sl in rest if x != culprit]
                continue
            rc, err = rc2, err2
        why = crash_reason(rc, err)
        with open("%s.crash%d.txt" % (base, culprit), "w") as f:
            f.write(err[-20000:])
        out.append(PATH_CRASH % (culprit, json.dumps(why)))
        crashes.append((culprit, why))
        todo = [(x, sl) for x, sl in rest if x != culprit]
    with open(base + ".ndjson", "w") as f:
        f.write("".join(out))
    return base + ".ndjson", len(out), crashes


def validate(trace, n):
    r = vlib.tlc("AttrTrace", "AttrTrace.cfg", workers=1, timeout=1500, dfs=True,
                 env={"TRACE": trace, "JAVA_TOOL_OPTIONS": "-Xmx3g -XX:ParallelGCThreads=2 -XX:CICompilerCount=2 "
                                                           "-Dtlc2.tool.queue.IStateQueue=StateDeque -Djava.io.tmpdir=%s" % java_tmp()},
                 metadir="%s/attrtv.%s.%d" % (vlib.TLCDIR, os.path.basename(trace), os.getpid()))
    vl, stat = [], None
    for ln in r["out"].splitlines():
        if ln.startswith('"@V '):
            v = json.loads(json.loads(ln)[3:])
            vl.append(dict(id=v[0], n=v[1], tag=v[2], x=v[3], o=v[4]))
        elif ln.startswith('"@STAT '):
            stat = json.loads(json.loads(ln)[6:])
    if n == 0:
        return [], {}, r
    if r["error"] or stat is None or r["distinct"] != n + 1 or "Postcondition" in r["out"]:
        raise InternalError("trace validation did not consume %s (%d lines, %d states):\n%s"
                            % (trace, n, r["distinct"], (r["error"] or r["out"][-3000:])))
    return vl, stat, r


def parallel(jobs, fn, workers=None):
    with concurrent.futures.ThreadPoolExecutor(max_workers=workers or vlib.NCPU) as ex:
        return list(ex.map(fn, jobs))


# ------------------------------------------------------------------ vectors: whole pipeline ----
def execute_vectors(binary, vecs, tag, rnd, nchunks, timeout):
    ensure_creds()
    d = vlib.fresh_dir("%s/%s" % (vlib.RUN, tag))
    scripts, byid = vector_scripts(vecs, nchunks, rnd)
    t0 = time.time()

    def job(i):
        trace, n, cr, sk = run_vector_chunk(binary, scripts[i], "%s/c%d" % (d, i), timeout)
        t1 = time.time()
        vl, stat, r = validate(trace, n)
        return vl, stat, cr, sk, n, r["distinct"], t1, time.time()

    allv, stats, crashes, skipped, lines, states = [], collections.Counter(), [], [], 0, 0
    t_exec = t_val = 0.0
    for vl, stat, cr, sk, n, ds, t1, t2 in parallel(range(len(scripts)), job):
        allv.extend(vl)
        stats.update(stat)
        crashes.extend(cr)
        skipped.extend(sk)
        lines += n
        states += ds
        t_exec = max(t_exec, t1 - t0)
        t_val = max(t_val, t2 - t1)
    return dict(dir=d, byid=byid, mismatches=allv, stats=dict(stats), crashes=crashes, skipped=skipped, lines=lines,
                tv_states=states, t_exec=round(t_exec, 1), t_val=round(t_val, 1))


def vec_text(v):
    sit = "%s/%s/%s" % tuple(v["sit"])
    name = v["n"] if v["n"] else repr(bytes(v["nb"])[:60])
    if v["ic"] not in ("-", ""):
        name += " (index %s)" % {"0": "0", "l": "last", "n": "past the end"}[v["ic"]]
    if v["op"] == "g":
        call = {"gen": "xcm_attr_get", "gen0": "xcm_attr_get(type=NULL)", "fgen": "xcm_attr_getf", "bool": "xcm_attr_get_bool",
                "int64": "xcm_attr_get_int64", "double": "xcm_attr_get_double", "str": "xcm_attr_get_str", "bin": "xcm_attr_get_bin",
                "fstr": "xcm_attr_getf_str", "fbin": "xcm_attr_getf_bin", "fbool": "xcm_attr_getf_bool",
                "fint64": "xcm_attr_getf_int64", "fdouble": "xcm_attr_getf_double"}[v["acc"]]
        cap = "" if v["acc"] in ("bool", "int64", "double", "fbool", "fint64", "fdouble") else ", capacity %s" % v["cc"]
        return "%s(%s%s) on %s" % (call, name, cap, sit)
    how = "attribute map of the creating call" if v["sit"][2] == "fresh" else "xcm_attr_set"
    return "%s(%s, type %s, length %s, value %s) on %s" % (how, name, TYPE_NAMES.get(v["ty"], v["ty"]), v["lc"], v["vc"], sit)


def table_type(v, types):
    return types.get(v["n"], "-")


SUBCHECK = {20: "not_refused", 21: "refused", 22: "errno", 30: "no_value", 2: "not_refused", 3: "errno", 6: "changed", 9: "changed_other"}


def classify_vec(m, v, types):
    """class key of a mismatch: tag / what was called / what kind of attribute.  Coarse on purpose: one defect of
    the library should give one class (an accessor family that ignores the capacity shows through every entry point)."""
    tag = m["tag"]
    t = table_type(v, types)
    prefix = v["n"].split(".")[0] if v["n"] else "-"
    if v["op"] == "g":
        fam = "get"
        if tag == "C10.errno":
            fam = "get.%s%s" % ("f." if v["acc"] in ("fstr", "fbin") and m["n"] == 22 else "", SUBCHECK.get(m["n"], str(m["n"])))
        return "%s/%s/%s" % (tag, fam, t)
    where = ("map" if v["sit"][2] == "fresh" else "set") + (".server" if v["sit"][0] == "server" else "")
    if tag == "C10.crash":
        return "%s/%s/%s.%s" % (tag, where, TYPE_NAMES.get(v["ty"], "?"), v["lc"])
    if tag in ("C10.errno", "C10.accepts", "C10.side_effect"):
        return "%s/%s.%s/%s%s" % (tag, where, SUBCHECK.get(m["n"], str(m["n"])), prefix, "" if v["lc"] == "ok" else "." + v["lc"])
    return "%s/%s/%s" % (tag, where, prefix)


def group_mismatches(mism, byid, pid, types, describe, max_examples=5):
    """-> (reports for tags of this property, notes counter, other-property counter).  INTERNAL raises."""
    classes, notes, other = {}, collections.Counter(), collections.Counter()
    for m in mism:
        tag = m["tag"]
        if tag == "INTERNAL":
            what = byid.get(m["id"])
            raise InternalError("the machinery could not interpret a result: %s / %s" % (json.dumps(m)[:400], what[0] if what else "situation"))
        if tag.startswith("NOTE."):
            notes[tag] += 1
            continue
        if not tag.startswith(pid + "."):
            other[tag] += 1
            continue
        v, sl = byid[m["id"]]
        key = classify_vec(m, v, types)
        rank = (v.get("acc", "") not in ("gen", ""), v["sit"][1] not in ("tcp", "tls"), v["sit"][2] != "established", len(json.dumps(v)))
        classes.setdefault(key, []).append((rank, m["id"], m))
    reports = []
    for key in sorted(classes):
        items = sorted(classes[key], key=lambda x: (x[0], x[1]))
        ids = []
        for _, i, _m in items:
            if i not in ids:
                ids.append(i)
            if len(ids) >= max_examples:
                break
        first = items[0][2]
        tag, fam, det = key.split("/", 2)
        reports.append(dict(key=key, tag=tag, family=fam, detail=det, count=len(items), first=first, ids=ids,
                            text=describe(first, byid[first["id"]][0])))
    return reports, dict(notes), dict(other)


def describe_vec(m, v):
    return "%s %s; expected %s, observed %s" % (m["tag"], vec_text(v), json.dumps(m["x"])[:160], json.dumps(m["o"])[:200])


def replay_body(pid, rep, byid):
    lines = ["# %s" % rep["text"], "# class %s: %d mismatching calls in this run; smallest examples below" % (rep["key"], rep["count"]),
             "# replay: bin/check %s --replay <this file>" % pid]
    last = None
    for i in rep["ids"]:
        v, sl = byid[i]
        if sl != last:
            lines.append(sl)
            last = sl
        lines.append(vec_line(v, i))
    return "\n".join(lines) + "\n"


def table_types():
    """name -> type name, read from the specification text (for class names and messages only)"""
    types = {}
    tn = {"TBool": "bool", "TInt": "int64", "TStr": "str", "TBin": "bin", "TDouble": "double"}
    for m in re.finditer(r'@@ \("([^"]+)"\s*:> Row\((\w+),', open(vlib.SPEC + "/Attr.tla").read()):
        types[m.group(1)] = tn.get(m.group(2), m.group(2))
    if len(types) < 40:
        raise InternalError("cannot read the attribute table from Attr.tla")
    return types


def replay_vectors(pid, path, binary):
    script, byid = [], {}
    sit = None
    n = 0
    for ln in open(path):
        ln = ln.strip()
        if not ln or ln.startswith("#"):
            continue
        f = ln.split()
        if f[0] == "sit":
            sit = ln
            script.append(("sit", ln, 0))
        elif f[0] in ("g", "s") and sit:
            n += 1
            f[1] = str(n)
            script.append(("vec", " ".join(f), n))
            byid[n] = " ".join(f) + "   [" + sit + "]"
        else:
            return None
    if not byid:
        return None
    d = vlib.fresh_dir("%s/replay_%s" % (vlib.RUN, pid))
    trace, nl, crashes, skipped = run_vector_chunk(binary, script, d + "/r", 180)
    vl, stat, r = validate(trace, nl)
    bad = []
    for m in vl:
        what = byid.get(m["id"], "situation")
        if m["tag"] == "INTERNAL":
            raise InternalError("the machinery could not interpret %s: %s" % (what, json.dumps(m)[:300]))
        mine = m["tag"].startswith(pid + ".")
        print("%s %s %s; expected %s, observed %s" % ("MISMATCH" if mine else "note", m["tag"], what, json.dumps(m["x"])[:160],
                                                      json.dumps(m["o"])[:200]))
        if mine:
            bad.append(m)
    print("replayed %d vectors, trace %s" % (len(byid), trace))
    return bad
