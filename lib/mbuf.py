"""mbuf refinement layer (C01, C07): spec/Mbuf.tla (TLC) -> call sequences -> the real libxcm/tp/common/mbuf.h
(harness/mbuf_exec) -> recorded calls -> spec/MbufTrace.tla.

The framing of the messaging transports tcp and tls: every frame sent is built by mbuf_set, every frame received is
assembled from whatever chunks the lower layer returns by asking mbuf_hdr_left / mbuf_payload_left, and mbuf_is_hdr_valid
stands between a hostile length field and the receiver.  The model is a step function mirroring mbuf.h; TLC checks, for a
scaled-down maximum, that a frame fed in any split is complete exactly at its last byte with the length and payload it was
built with, that only lengths 1..max are ever valid, and that the buffer is never overrun; three broken variants must be
refuted.  Every behaviour (one per transition) is replayed on the real header, and directed sequences at the real limits
(65534 / 65535 / 65536 bytes, hostile length fields) are added; the trace specification compares what every query function
answers after every call with the same step function at the real constants."""
import concurrent.futures
import json
import os
import random
import re
import subprocess

import vlib
from vlib import InternalError

INVS = "InvRoundTrip InvBounds InvParse InvReject InvProgress"
BROKEN = {"hdr_short": "InvProgress", "valid_zero": "InvReject", "left_off": "InvBounds"}

TIERS = {
    "quick": dict(mc=[(3, "{0, 1, 2, 3}", "{1, 2, 3, 8}", 14)], emit=(3, "{0, 1, 2, 3}", "{1, 2, 8}", 10), n_exec=1500, big=1),
    "thorough": dict(mc=[(3, "{0, 1, 2, 3}", "{1, 2, 3, 8}", 20), (6, "{0, 1, 5, 6}", "{1, 2, 3, 4, 5, 9}", 16)],
                     emit=(4, "{0, 1, 3, 4}", "{1, 2, 3, 8}", 14), n_exec=30000, big=6),
}


def _cfg(name, mx, lens, chunks, maxops, emit="none", broken="none"):
    d = vlib.BUILD + "/cfg"
    os.makedirs(d, exist_ok=True)
    path = "%s/mbuf_%s_%d.cfg" % (d, name, os.getpid())
    with open(path, "w") as f:
        f.write("SPECIFICATION Spec\nCONSTANTS\n  MsgMax = %d\n  Lens = %s\n  Chunks = %s\n  MaxOps = %d\n  EmitPaths = \"%s\"\n"
                "  Broken = \"%s\"\nVIEW view\nINVARIANTS %s\nCHECK_DEADLOCK FALSE\n" % (mx, lens, chunks, maxops, emit, broken, INVS))
        if emit != "none":
            f.write("ACTION_CONSTRAINT Emit\n")
    return path


def _tlc(name, cfg, workers=2, timeout=1500):
    try:
        r = vlib.tlc("Mbuf", cfg, workers=workers, timeout=timeout, heap="3g", metadir="%s/mbuf.%s.%d" % (vlib.TLCDIR, name, os.getpid()))
    finally:
        if os.path.exists(cfg):
            os.unlink(cfg)
    if r["error"] and not r["violated"]:
        raise InternalError("TLC failed on Mbuf/%s:\n%s" % (name, r["error"]))
    return r


def parse_paths(out):
    res = []
    for ln in out.splitlines():
        if ln.startswith('"@P '):
            try:
                res.append(tuple((s[0], s[1], s[2], s[3], tuple(s[4])) for s in json.loads(json.loads(ln)[3:])))
            except (ValueError, IndexError):
                raise InternalError("unparsable behaviour line from TLC: %s" % ln[:200])
    return res


def maximal(paths):
    ps = sorted(set(paths))
    out = []
    for i, p in enumerate(ps):
        if i + 1 < len(ps) and ps[i + 1][:len(p)] == p:
            continue
        out.append(p)
    return out


def model_check(tier):
    T = TIERS[tier]
    jobs = {}
    for i, (mx, lens, chunks, mo) in enumerate(T["mc"]):
        jobs["mc%d" % i] = _cfg("mc%d" % i, mx, lens, chunks, mo)
    for b in BROKEN:
        jobs["broken_" + b] = _cfg("b_" + b, 3, "{0, 1, 2, 3}", "{1, 2, 3, 8}", 14, broken=b)
    e = T["emit"]
    jobs["emit"] = _cfg("emit", e[0], e[1], e[2], e[3], emit="transition")
    with concurrent.futures.ThreadPoolExecutor(max_workers=3) as ex:
        futs = {n: ex.submit(_tlc, n, c, 1 if n == "emit" else 2) for n, c in jobs.items()}
        res = {n: f.result() for n, f in futs.items()}
    summary, states, transitions, violated = {}, 0, 0, []
    for n, r in res.items():
        summary["Mbuf/" + n] = dict(distinct=r["distinct"], generated=r["generated"], violated=r["violated"])
        if n.startswith("mc"):
            states += r["distinct"]
            transitions += r["generated"]
            if r["violated"]:
                violated.append((n, r))
        elif n.startswith("broken_"):
            want = BROKEN[n[7:]]
            if want not in r["violated"]:
                raise InternalError("the broken variant %s of Mbuf.tla is not rejected by %s (vacuous): %s" % (n[7:], want, r["violated"]))
    paths = maximal(parse_paths(res["emit"]["out"]))
    if len(paths) < 100:
        raise InternalError("TLC emitted too few mbuf behaviours: %d" % len(paths))
    for r in res.values():
        r["out"] = r["out"][-3000:]
    return summary, states, transitions, violated, paths


def be(n):
    return [(n >> 24) & 255, (n >> 16) & 255, (n >> 8) & 255, n & 255]


def feed_lines(hdr, npay, chunks, valid):
    """the receiver's calls for a frame with header bytes hdr and npay payload bytes under way, asked for as the transports
    do (hdr_left, then payload_left if the header is valid), delivered in the given chunk sizes (cyclic)"""
    out, have_h, have_p, i = [], 0, 0, 0
    declared = (hdr[2] << 8 | hdr[3]) if hdr[0] == 0 and hdr[1] == 0 else -1
    while True:
        if have_h < 4:
            ask = 4 - have_h
        elif valid and have_p < declared:
            ask = declared - have_p
        else:
            break
        avail = (4 - have_h) + (npay - have_p)
        k = min(ask, chunks[i % len(chunks)], avail)
        i += 1
        if k <= 0:
            break
        hk = min(4 - have_h, k)
        hb = hdr[have_h:have_h + hk]
        out.append("r spare %d" % ask)
        out.append("r app %d %s" % (k, ",".join(str(v) for v in hb) if hb else "-"))
        have_h += hk
        have_p += k - hk
    out.append("r reset")
    return out


def directed(rnd, big):
    """sequences at the real limits, beyond what the scaled-down model enumerates"""
    ex = []
    sizes = [1, 2, 3, 255, 256, 257, 4096, 65534, 65535]
    for rep_ in range(big):
        for n in sizes:
            for chunks in ([1], [4, 1 << 20], [2, 3, 7], [3, 1, 65000], [rnd.randint(1, 9), rnd.randint(1, 70000), rnd.randint(1, 300)]):
                if n > 300 and max(chunks) < 100:
                    chunks = chunks + [n // 7 + 1]      # keep the number of calls per frame small
                ex.append(["t reset", "t set %d" % n] + feed_lines(be(n), n, chunks, True))
    for _ in range(60 * big):
        n = min(65535, max(1, int(2 ** rnd.uniform(0, 16))))
        chunks = [max(1, int(2 ** rnd.uniform(0, 14))) for _ in range(rnd.randint(1, 4))] + [n // 12 + 1]
        ex.append(["t reset", "t set %d" % n] + feed_lines(be(n), n, chunks, True))
    # lengths the API layer refuses before mbuf_set is reached: the frame built for them must not be taken for a message
    ex.append(["t reset", "t set 0"] + feed_lines(be(0), 0, [4], False))
    ex.append(["t reset", "t set 65536"])                       # capacity assert
    ex.append(["t set 5", "t set 2", "t reset", "t set 9"])     # re-use of one buffer
    for h in ([0, 0, 0, 0], [0, 1, 0, 0], [255, 255, 255, 255], [128, 0, 0, 1], [0, 0, 255, 255], [0, 0, 0, 1], [0, 1, 0, 1],
              [1, 0, 0, 0], [0, 0, 1, 0], [127, 255, 255, 255], [255, 255, 255, 252]):
        valid = h[0] == 0 and h[1] == 0 and (h[2] or h[3])
        for chunks in ([4], [1], [3, 1], [2, 2]):
            ex.append(feed_lines(h, 2, chunks, bool(valid)))
    ex.append(["r cap 4", "r app 5 0,0,0,1"])                   # more appended than there is room for: assert
    ex.append(["r cap 65539", "r cap 10", "r spare 65539", "r app 4 0,0,255,255", "r spare 65535", "r app 65535 -", "r spare 1"])
    ex.append(["r cap 65540"])                                  # capacity assert
    return ex


def script_of_path(p):
    out = []
    for b, o, n, cs, hb in p:
        if o in ("reset",):
            out.append("%s reset" % b)
        elif o == "app":
            out.append("%s app %d %s" % (b, n, ",".join(str(v) for v in hb) if hb else "-"))
        else:
            out.append("%s %s %d" % (b, o, n))
    return out


def run(binary, execs, tag, nproc=6):
    d = vlib.fresh_dir("%s/%s" % (vlib.RUN, tag))
    nproc = max(1, min(nproc, len(execs)))
    env = dict(os.environ)
    env.update({"ASAN_OPTIONS": "detect_leaks=0:abort_on_error=0:handle_abort=0:exitcode=3",
                "UBSAN_OPTIONS": "print_stacktrace=1:halt_on_error=1"})
    crashes = []

    def worker(i):
        """a sanitizer report costs one execution: the rest is run by a fresh process"""
        tp = "%s/w%d.ndjson" % (d, i)
        rest = execs[i::nproc]
        attempt = 0
        with open(tp, "w") as tout:
            while rest and attempt < 30:
                sp, part = "%s/w%d.%d.script" % (d, i, attempt), "%s/w%d.%d.part" % (d, i, attempt)
                with open(sp, "w") as f:
                    for x, lines in rest:
                        f.write("X %d\n%s\nE\n" % (x, "\n".join(lines)))
                log = "%s/w%d.%d.log" % (d, i, attempt)
                rc = subprocess.call(["timeout", "600", binary, sp, part], env=env, stdout=open(log, "w"), stderr=subprocess.STDOUT)
                got = []
                if os.path.exists(part):
                    for l in open(part):
                        try:
                            got.append(json.loads(l))
                        except ValueError:
                            pass
                attempt += 1
                if rc == 0:
                    for o in got:
                        tout.write(json.dumps(o) + "\n")
                    break
                if not got:
                    raise InternalError("mbuf_exec ended with status %d before its first call (%s)" % (rc, open(log).read()[-1500:]))
                last = got[-1]["x"]
                for o in got:
                    if o["x"] != last:
                        tout.write(json.dumps(o) + "\n")
                why = re.sub(r"\s+", " ", open(log).read()[-600:])
                crashes.append((last, why))
                ids = [x for x, _ in rest]
                rest = rest[ids.index(last) + 1:] if last in ids else []
        return tp

    with concurrent.futures.ThreadPoolExecutor(max_workers=nproc) as ex:
        return d, list(ex.map(worker, range(nproc))), crashes


def validate(trace):
    n = sum(1 for _ in open(trace))
    r = vlib.tlc("MbufTrace", "MbufTrace.cfg", workers=1, env={"TRACE": trace}, timeout=1500, heap="3g", dfs=True,
                 metadir="%s/mbuftv.%s.%d" % (vlib.TLCDIR, os.path.basename(trace), os.getpid()))
    vl = []
    for ln in r["out"].splitlines():
        if ln.startswith('"@V '):
            v = json.loads(json.loads(ln)[3:])
            vl.append(dict(x=v[0], n=v[1], tag=v[2], detail="expected %s, observed %s" % (json.dumps(v[3])[:200], json.dumps(v[4])[:200])))
    if r["error"] or r["distinct"] != n + 1 or "Postcondition" in r["out"]:
        raise InternalError("MbufTrace did not consume %s (%d lines, %d states):\n%s" % (trace, n, r["distinct"], r["error"] or r["out"][-2000:]))
    return vl, n


def selftest(trace, d):
    """binding: falsified answers in recorded lines must be rejected"""
    lines = [l for l in open(trace)][:600]
    out, kinds = [], set()
    for l in lines:
        o = json.loads(l)
        if o["op"] == "app" and not o["crash"]:
            if "hdr_left" not in kinds and o["obs"]["hl"] > 0:
                o["obs"]["hl"] -= 1
                kinds.add("hdr_left")
            elif "payload_left" not in kinds and o["obs"]["pleft"] > 0:
                o["obs"]["pleft"] += 1
                kinds.add("payload_left")
            elif "hdr_valid" not in kinds and o["obs"]["hashdr"] == 1:
                o["obs"]["valid"] = 1 - o["obs"]["valid"]
                kinds.add("hdr_valid")
            elif "state" not in kinds and o["obs"]["complete"] == 1:
                o["obs"]["complete"] = 0
                kinds.add("state")
        elif o["op"] == "set" and not o["crash"] and "payload" not in kinds and o["a"] > 0:
            o["obs"]["ps"] = (o["obs"]["ps"] + 1) % 251
            kinds.add("payload")
        out.append(json.dumps(o))
    p = "%s/falsified.ndjson" % d
    with open(p, "w") as f:
        f.write("\n".join(out) + "\n")
    vl, _ = validate(p)
    got = set(v["tag"].replace("MB.", "") for v in vl)
    missing = kinds - got
    if missing or len(kinds) < 4:
        raise InternalError("MbufTrace accepts falsified records (%s not rejected; falsified: %s)" % (sorted(missing), sorted(kinds)))
    return sorted(kinds)


def part(pid, tier, seed, rnd):
    """-> (violations, coverage, notes) in the form lib/conn_check.py merges into the evidence of C01 / C07"""
    if tier not in TIERS:
        tier = "quick"
    T = TIERS[tier]
    binary = vlib.build(["mbuf_exec"])[0]
    summary, states, transitions, bad, paths = model_check(tier)
    violations, notes = [], []
    for name, r in bad:
        rp = vlib.save_replay(pid, "tlc_mbuf_%s.txt" % name, r["out"][-20000:])
        violations.append(("design", "TLC: %s of Mbuf.tla violated in configuration %s" % (",".join(r["violated"]), name), rp))
    r2 = random.Random(seed * 7919 + 5)
    dirs = directed(r2, T["big"])
    chosen = paths if len(paths) <= T["n_exec"] else r2.sample(paths, T["n_exec"])
    execs = [(i + 1, lines) for i, lines in enumerate(dirs + [script_of_path(p) for p in chosen])]
    d, traces, crashes = run(binary, execs, "mbuf_%s_%s" % (pid, tier))
    with concurrent.futures.ThreadPoolExecutor(max_workers=min(6, len(traces))) as ex:
        res = list(ex.map(validate, traces))
    vl = [v for r in res for v in r[0]]
    nlines = sum(r[1] for r in res)
    falsified = selftest(traces[0], d)
    byx = dict(execs)
    seen = set()
    for v in vl:
        if not v["tag"].startswith("MB.") or v["x"] in seen:
            continue
        seen.add(v["x"])
        if len(seen) > 5:
            continue
        tag = "%s.mbuf_%s" % (pid, v["tag"][3:])
        body = "# %s at call %d: %s\n# replay: bin/check %s --replay <this file>\nX %d\n%s\nE\n" % (tag, v["n"], v["detail"], pid, v["x"], "\n".join(byx[v["x"]]))
        rp = vlib.save_replay(pid, "mbuf_x%d.mbs" % v["x"], body)
        violations.append(("conformance", "%s in mbuf call sequence %d at call %d: %s" % (tag, v["x"], v["n"], v["detail"]), rp))
    for x, why in crashes[:3]:
        body = "# %s.mbuf_crash: %s\n# replay: bin/check %s --replay <this file>\nX %d\n%s\nE\n" % (pid, why[-400:], pid, x, "\n".join(byx[x]))
        rp = vlib.save_replay(pid, "mbuf_crash_x%d.mbs" % x, body)
        violations.append(("conformance", "%s.mbuf_crash: the real mbuf.h died (sanitizer report) in call sequence %d: %s" % (pid, x, why[-200:]), rp))
    ops = {}
    for _, lines in execs:
        for l in lines:
            ops[l.split()[1]] = ops.get(l.split()[1], 0) + 1
    for need in ("set", "app", "spare", "reset"):
        if ops.get(need, 0) < 20:
            raise InternalError("mbuf behaviours contain only %d '%s' calls (vacuous)" % (ops.get(need, 0), need))
    cov = dict(states=states, transitions=transitions, model_configurations=summary, executions=len(execs), calls=nlines,
               calls_by_kind=ops, behaviours_from_model=len(chosen), directed_sequences=len(dirs), binding_selftest=falsified,
               violating_executions=len(seen), crashes=len(crashes))
    return violations, cov, notes


def replay(pid, path):
    lines = [l.rstrip("\n") for l in open(path) if l.strip() and not l.startswith("#")]
    binary = vlib.build(["mbuf_exec"])[0]
    body = [l for l in lines if not l.startswith("X ") and l != "E"]
    d, traces, crashes = run(binary, [(1, body)], "mbuf_replay", nproc=1)
    vl, _ = validate(traces[0])
    for x, why in crashes:
        vl.append(dict(x=x, n=0, tag="MB.crash", detail=why[-300:]))
    for v in vl:
        print("MISMATCH", v["tag"], "call", v["n"], v["detail"])
    return [v for v in vl if v["tag"].startswith("MB.")]
