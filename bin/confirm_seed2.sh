#!/bin/sh
# usage: bin/confirm_seed2.sh <seeded/dir>...   - confirms each seed in a fresh built worktree: applies, builds, runs the
# demonstration with the change and against /repo's unchanged build, runs the pinned suite with the change; appends to meta.json
for sd in "$@"; do
  sd=$(readlink -f "$sd"); n=$(basename "$sd"); wt=/tmp/wt/cf_$n
  /verif/bin/rmwt.sh cf_$n >/dev/null 2>&1
  /verif/bin/mkwt.sh cf_$n >/dev/null 2>&1
  if ! git -C "$wt" apply "$sd/patch.diff"; then echo "CONFIRM $n: patch does not apply"; /verif/bin/rmwt.sh cf_$n; continue; fi
  mkdir -p /tmp/wt/out/cf_$n; cp "$sd/patch.diff" "$sd/demo.c" /tmp/wt/out/cf_$n/ 2>/dev/null
  # demos written against the adversary's worktree path: point them at this one
  sed -i "s#/tmp/wt/adv_[a-z0-9]*#$wt#g" /tmp/wt/out/cf_$n/demo.c
  res=$(/verif/bin/confirm_seed.sh /tmp/wt/out/cf_$n "$wt" 2>&1 | tail -5 | tr '\n' '|')
  echo "CONFIRM $n: $res"
  /verif/bin/rmwt.sh cf_$n >/dev/null 2>&1
done
