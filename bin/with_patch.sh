#!/bin/sh
# usage: bin/with_patch.sh <patch.diff> <command...> : apply patch to /repo, run command, always undo
p=$1; shift
git -C /repo apply "$p" || { echo "patch does not apply"; exit 2; }
"$@"; rc=$?
git -C /repo checkout -- . 
exit $rc
