#!/bin/sh
# usage: bin/seedrun.sh <seeded/dir or patch.diff> <PID> [tier]
# Applies a seeded change to a scratch copy of /repo's HEAD (never to /repo), runs the check of <PID> against it and
# prints one line:  SEED <name> <PID> <tier> exit=<rc> DETECTED|MISSED|ERROR   (full output in /tmp/wt/out/<name>.<PID>.log)
p="$1"; pid="$2"; tier="${3:-quick}"
[ -d "$p" ] && p="$p/patch.diff"
name=$(basename "$(dirname "$(readlink -f "$p")")")_$pid
mkdir -p /tmp/wt/out
d=/tmp/wt/sr_$name
git -C /repo worktree remove --force "$d" 2>/dev/null; rm -rf "$d"; git -C /repo worktree prune
git -C /repo worktree add -q --detach "$d" HEAD || { echo "SEED $name $pid $tier ERROR worktree"; exit 2; }
if ! git -C "$d" apply "$(readlink -f "$p")" 2>/tmp/wt/out/$name.apply.err; then
  echo "SEED $name $pid $tier ERROR patch does not apply: $(head -1 /tmp/wt/out/$name.apply.err)"
  git -C /repo worktree remove --force "$d"; exit 2
fi
VERIF_REPO="$d" VERIF_BUILD="$d/_vb" /verif/bin/check "$pid" --tier "$tier" > /tmp/wt/out/$name.log 2>&1
rc=$?
v=MISSED; [ $rc -eq 1 ] && v=DETECTED; [ $rc -ge 2 ] && v=ERROR
echo "SEED $name $pid $tier exit=$rc $v  $(grep -m1 '^VIOLATION\|^ERROR' /tmp/wt/out/$name.log | cut -c1-220)"
git -C /repo worktree remove --force "$d" 2>/dev/null; rm -rf "$d"; git -C /repo worktree prune
exit 0
