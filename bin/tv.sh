#!/bin/sh
# usage: bin/tv.sh <Spec> <cfg> <trace.ndjson> [metadir]  -- TLC trace validation, prints @V lines and a summary
S=$1; C=$2; T=$3; M=${4:-/verif/build/tlc/tv.$$}
cd /verif/spec
TRACE=$T JAVA_TOOL_OPTIONS=-Dtlc2.tool.queue.IStateQueue=StateDeque timeout ${TV_TIMEOUT:-600} tlc -noGenerateSpecTE -workers 1 -metadir $M -config $C $S.tla 2>&1
rc=$?
rm -rf $M
exit $rc
