#!/bin/sh
# usage: bin/rmwt.sh <name>
git -C /repo worktree remove --force /tmp/wt/$1 2>/dev/null || rm -rf /tmp/wt/$1
git -C /repo worktree prune
