#!/bin/sh
# usage: bin/soak.sh <tag> [seed] [ids...]  - runs the quick command of every check against /repo with a separate build/evidence
# directory (build/soak_<tag>) and prints one line per check; anything but OK on the unchanged tree needs attention
tag="$1"; seed="${2:-1}"; shift 2 2>/dev/null
ids="$@"; [ -z "$ids" ] && ids="C01 C02 C03 C04 C05 C06 C07 C08 C09 C10 C11 C12 C13 C14 C15 C16 C17 C18 C19 C20"
for p in $ids; do
  t0=$(date +%s)
  out=$(VERIF_SEED=$seed VERIF_BUILD=/verif/build/soak_$tag /verif/bin/check $p --tier quick 2>&1)
  rc=$?
  t1=$(date +%s)
  echo "SOAK $tag seed=$seed $p rc=$rc $((t1-t0))s $(echo "$out" | grep -m2 'VIOLATION\|^ERROR' | cut -c1-220 | tr '\n' ' ')"
done
