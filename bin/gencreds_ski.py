#!/usr/bin/python3
"""usage: gencreds_ski.py <dir>: self-signed certificates whose subjectKeyIdentifier is not a 20-byte hash (32 bytes, empty,
2000 bytes, 21 bytes), each under <dir>/<name>/{cert,key,tc}.pem - what a hostile TLS peer may present (C07)."""
import datetime, os, sys
from cryptography import x509
from cryptography.hazmat.primitives import hashes, serialization
from cryptography.hazmat.primitives.asymmetric import ec
from cryptography.x509.oid import NameOID

out = sys.argv[1]
now = datetime.datetime.now(datetime.timezone.utc)
for name, ski in (("ski32", bytes(range(32))), ("ski0", b""), ("ski2000", bytes(i % 251 for i in range(2000))), ("ski21", bytes(range(21)))):
    key = ec.generate_private_key(ec.SECP256R1())
    subj = x509.Name([x509.NameAttribute(NameOID.COMMON_NAME, "localhost")])
    cert = (x509.CertificateBuilder().subject_name(subj).issuer_name(subj).public_key(key.public_key())
            .serial_number(x509.random_serial_number()).not_valid_before(now - datetime.timedelta(days=1))
            .not_valid_after(now + datetime.timedelta(days=3650))
            .add_extension(x509.SubjectAlternativeName([x509.DNSName("localhost")]), critical=False)
            .add_extension(x509.SubjectKeyIdentifier(ski), critical=False)
            .sign(key, hashes.SHA256()))
    d = os.path.join(out, name)
    os.makedirs(d, exist_ok=True)
    pem = cert.public_bytes(serialization.Encoding.PEM)
    open(d + "/cert.pem", "wb").write(pem)
    open(d + "/tc.pem", "wb").write(pem)
    open(d + "/key.pem", "wb").write(key.private_bytes(serialization.Encoding.PEM, serialization.PrivateFormat.TraditionalOpenSSL,
                                                         serialization.NoEncryption()))
