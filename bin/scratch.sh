#!/bin/sh
# usage: bin/scratch.sh <name> [patch.diff]  -> bare scratch worktree of /repo's HEAD under /tmp/wt/<name> (no build products),
#        optionally with a patch applied.  Run a check against it without touching /repo:
#          VERIF_REPO=/tmp/wt/<name> VERIF_BUILD=/tmp/wt/<name>/_vb bin/check C12 --tier quick
#        remove with bin/rmwt.sh <name>
set -e
n="$1"; d=/tmp/wt/$n
mkdir -p /tmp/wt
git -C /repo worktree add -q --detach "$d" HEAD
[ -n "$2" ] && git -C "$d" apply "$(readlink -f "$2")"
echo "$d"
