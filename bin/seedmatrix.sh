#!/bin/sh
# usage: bin/seedmatrix.sh [tier] [seed dirs...]   -> runs every seeded change against the check of its property (scratch copies,
# /repo untouched), sequentially; prints one SEED line each and appends them to build/seedmatrix.txt
tier="${1:-quick}"; [ $# -gt 0 ] && shift
dirs="$@"; [ -z "$dirs" ] && dirs=$(ls -d /verif/seeded/*/)
mkdir -p /verif/build
for d in $dirs; do
  pid=$(python3 -c "import json,sys; print(json.load(open('$d/meta.json'))['property'])" 2>/dev/null)
  [ -z "$pid" ] && continue
  /verif/bin/seedrun.sh "$d" "$pid" "$tier" | tee -a /verif/build/seedmatrix.txt
done
