#!/usr/bin/python3

# SPDX-License-Identifier: BSD-3-Clause
# Copyright(c) 2020-2023 Ericsson AB

import datetime
import enum
import os.path
import sys
import yaml

from cryptography import x509
from cryptography.hazmat.backends import default_backend
from cryptography.hazmat.primitives import hashes
from cryptography.hazmat.primitives import serialization
from cryptography.hazmat.primitives.asymmetric import rsa
from cryptography.x509.oid import NameOID


PUBLIC_EXPONENT = 65537
KEY_SIZE = 2048

DEFAULT_VALIDITY_START = datetime.timedelta(0)
DEFAULT_VALIDITY_END = datetime.timedelta(days=365*10)

DEFAULT_CRL_LAST_UPDATE = datetime.timedelta(0)
DEFAULT_CRL_NEXT_UPDATE = datetime.timedelta(days=365*10)

def usage(name):
    print("%s [<cert.yaml>]" % name)


def gen_private_key():
    return rsa.generate_private_key(public_exponent=PUBLIC_EXPONENT,
                                    key_size=KEY_SIZE,
                                    backend=default_backend())

class Usage(enum.Enum):
    CLIENT = "client"
    SERVER = "server"

now = datetime.datetime.now(datetime.timezone.utc)

def create_cert(subject_names, san_dns, san_email, san_dir, ca,
                issuer_key, issuer_cert, usage, validity):
    private_key = gen_private_key()

    public_key = private_key.public_key()

    name = \
        x509.Name([x509.NameAttribute(NameOID.COMMON_NAME, subject_names[0])])

    constraints = x509.BasicConstraints(ca=ca, path_length=None)

    alt_name = x509.SubjectAlternativeName(
        [x509.DNSName(dns_name) for dns_name in (subject_names + san_dns)] +
        [x509.RFC822Name(email_name) for email_name in san_email] +
        [x509.DirectoryName(x509.Name.from_rfc4514_string(dir_name)) \
         for dir_name in san_dir]
    )

    ski = x509.SubjectKeyIdentifier.from_public_key(public_key)

    if issuer_key is not None and issuer_cert is not None:
        sign_key = issuer_key
        issuer = issuer_cert.subject
    else:
        sign_key = private_key
        issuer = name

    not_valid_before = now + validity[0]
    not_valid_after = now + validity[1]

    builder = (
        x509.CertificateBuilder()
        .subject_name(name)
        .issuer_name(issuer)
        .not_valid_before(not_valid_before)
        .not_valid_after(not_valid_after)
        .serial_number(x509.random_serial_number())
        .public_key(public_key)
        .add_extension(constraints, critical=True)
        .add_extension(ski, critical=False)
        .add_extension(alt_name, critical=False)
    )

    if usage is not None:
        l = []
        if Usage.CLIENT in usage:
            l.append(x509.oid.ExtendedKeyUsageOID.CLIENT_AUTH)
        if Usage.SERVER in usage:
            l.append(x509.oid.ExtendedKeyUsageOID.SERVER_AUTH)

        builder = builder.add_extension(x509.ExtendedKeyUsage(l),
                                        critical=True)

    if issuer_cert is not None:
        issuer_ski = issuer_cert.extensions.\
            get_extension_for_class(x509.SubjectKeyIdentifier)
        aki = x509.AuthorityKeyIdentifier.\
            from_issuer_subject_key_identifier(issuer_ski.value)
        builder = builder.add_extension(aki, critical=False)
    else:
        aki = x509.AuthorityKeyIdentifier.from_issuer_public_key(public_key)
        builder = builder.add_extension(aki, critical=False)

    cert = builder.sign(private_key=sign_key, algorithm=hashes.SHA256(),
                        backend=default_backend())

    return private_key, cert


def get_subject_names(conf):
    if 'subject_name' in conf:
        return [conf['subject_name']]
    else:
        return conf['subject_names']
    

def get_san_dns(conf):
    if 'dns_name' in conf:
        return [conf['dns_name']]
    elif 'san_dns' in conf:
        return conf['san_dns']
    else:
        return []


def get_san_email(conf):
    if 'email_name' in conf:
        return [conf['email_name']]
    elif 'san_email' in conf:
        return conf['san_email']
    else:
        return []


def get_san_dir(conf):
    if 'dir_name' in conf:
        return [conf['dir_name']]
    elif 'san_dir' in conf:
        return conf['san_dir']
    else:
        return []


def get_usage(conf):
    server_auth = conf.get('server_auth')
    client_auth = conf.get('client_auth')

    if server_auth is None and client_auth is None:
        return None

    usage = []
    if server_auth:
        usage.append(Usage.SERVER)
    if client_auth:
        usage.append(Usage.CLIENT)

    return usage

def get_validity(conf):
    validity = conf.get('validity')

    if validity is None:
        return DEFAULT_VALIDITY_START, DEFAULT_VALIDITY_END

    validity_start = datetime.timedelta(seconds=validity[0])
    validity_end = datetime.timedelta(seconds=validity[1])

    return validity_start, validity_end

def create_certs(conf_certs):
    keys = {}
    certs = {}
    for id, params in conf_certs.items():
        subject_names = get_subject_names(params)
        san_dns = get_san_dns(params)
        san_email = get_san_email(params)
        san_dir = get_san_dir(params)
        ca = params.get('ca', False)

        issuer = params.get('issuer')
        if issuer is not None:
            issuer_key = keys[issuer]
            issuer_cert = certs[issuer]
        else:
            issuer_key = None
            issuer_cert = None

        validity = get_validity(params)

        usage = get_usage(params)

        keys[id], certs[id] = \
            create_cert(subject_names, san_dns, san_email, san_dir, ca,
                        issuer_key, issuer_cert, usage, validity)

    return keys, certs

def create_crl(issuer_cert, issuer_key, last_update, next_update,
               revoked_certs):
    crl_builder = (
        x509.CertificateRevocationListBuilder()
        .last_update(last_update)
        .next_update(next_update)
        .issuer_name(issuer_cert.subject)
    )

    revocation_date = last_update

    for revoked_cert in revoked_certs:
        revoked_cert_entry_builder = (
            x509.RevokedCertificateBuilder()
            .serial_number(revoked_cert.serial_number)
            .revocation_date(revocation_date)
        )
        revoked_cert_entry = revoked_cert_entry_builder.build(default_backend())

        crl_builder = crl_builder.add_revoked_certificate(revoked_cert_entry)

    crl = crl_builder.sign(private_key=issuer_key, algorithm=hashes.SHA256(),
                           backend=default_backend())
    return crl

def get_abs_time(conf, name, default):
    delta_s = conf.get(name)

    if delta_s is not None:
        return now + datetime.timedelta(seconds=delta_s)
    else:
        return now + default

def create_crls(conf_crls, keys, certs):
    crls = {}
    for crl_id, params in conf_crls.items():
        issuer_id = params['issuer']
        issuer_cert = certs[issuer_id]
        issuer_key = keys[issuer_id]

        last_update = get_abs_time(params, 'last_update',
                                   DEFAULT_CRL_LAST_UPDATE)
        next_update = get_abs_time(params, 'next_update',
                                   DEFAULT_CRL_NEXT_UPDATE)

        revoked_certs = [certs[cert_id] for cert_id in params['revokes']]

        crls[crl_id] = create_crl(issuer_cert, issuer_key, last_update,
                                  next_update, revoked_certs)

    return crls

def assure_dir(file_path):
    os.makedirs(os.path.dirname(file_path), exist_ok=True)


def write_key(key_file, key):
    assure_dir(key_file)
    key_pem = key.private_bytes(
        encoding=serialization.Encoding.PEM,
        format=serialization.PrivateFormat.TraditionalOpenSSL,
        encryption_algorithm=serialization.NoEncryption()
    )
    open(key_file, "wb").write(key_pem)


def write_cert(cert_file, cert):
    assure_dir(cert_file)
    cert_pem = cert.public_bytes(encoding=serialization.Encoding.PEM)
    open(cert_file, "wb").write(cert_pem)


def write_bundle(bundle_file, bundle):
    assure_dir(bundle_file)
    with open(bundle_file, "wb") as f:
        for item in bundle:
            item_pem = item.public_bytes(encoding=serialization.Encoding.PEM)
            f.write(item_pem)


def get_paths(conf):
    if 'path' in conf:
        return [conf['path']]
    else:
        return conf['paths']


def write_files(base_path, files_conf, keys, certs, crls):
    for file_conf in files_conf:
        type = file_conf['type']
        if type == 'key':
            key = keys[file_conf['id']]
            for path in get_paths(file_conf):
                write_key(os.path.join(base_path, path), key)
        elif type == 'cert':
            cert = certs[file_conf['id']]
            for path in get_paths(file_conf):
                write_cert(os.path.join(base_path, path), cert)
        elif type == 'bundle':
            cert_ids = file_conf.get('certs', [])
            bundle_tc_certs = [certs[cert_id] for cert_id in cert_ids]

            crl_ids = file_conf.get('crls', [])
            bundle_crls = [crls[crl_id] for crl_id in crl_ids]

            for path in get_paths(file_conf):
                write_bundle(os.path.join(base_path, path),
                             bundle_tc_certs + bundle_crls)
        elif type == 'crl':
            crl = crls[file_conf['id']]
            for path in get_paths(file_conf):
                write_cert(os.path.join(base_path, path), crl)
        elif type == 'ski':
            cert = certs[file_conf['id']]
            ski = cert.extensions.get_extension_for_oid(
                x509.oid.ExtensionOID.SUBJECT_KEY_IDENTIFIER
            ).value.digest
            for path in get_paths(file_conf):
                open(os.path.join(base_path, path), "wb").write(ski)


if len(sys.argv) == 1:
    input = sys.stdin
elif len(sys.argv) == 2 and sys.argv[1] != '-h':
    input = open(sys.argv[1])
else:
    usage(sys.argv[0])
    sys.exit(1)

conf = yaml.load(input, Loader=yaml.Loader)

base_path = conf['base-path']

keys, certs = create_certs(conf['certs'])

if 'crls' in conf:
    crls = create_crls(conf['crls'], keys, certs)
else:
    crls = {}

write_files(base_path, conf['files'], keys, certs, crls)
