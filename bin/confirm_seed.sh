#!/bin/sh
# usage: bin/confirm_seed.sh <out-dir with patch.diff demo.c meta.json> <worktree with the change applied and built>
# Confirms: patch == worktree diff, builds, demo fails with the change and passes against /repo's unchanged build, suite result.
o="$1"; wt="$2"
cd "$wt" || exit 2
git diff > /tmp/wt/out/_cur.$$.diff
if ! diff -q /tmp/wt/out/_cur.$$.diff "$o/patch.diff" >/dev/null; then echo "NOTE: patch.diff differs from worktree diff (using worktree diff)"; cp /tmp/wt/out/_cur.$$.diff "$o/patch.diff"; fi
make -j4 >/dev/null 2>&1 && make -j4 xcmtest >/dev/null 2>&1 || { echo "BUILD FAILED"; exit 1; }
demo="$o/demo.c"
if [ -f "$demo" ]; then
  gcc -Wall -I "$wt/include" "$demo" -o "$o/demo_with" -L"$wt/.libs" -lxcm -lpthread -Wl,-rpath,"$wt/.libs" 2>/dev/null || { echo "DEMO BUILD (with) FAILED"; }
  gcc -Wall -I /repo/include "$demo" -o "$o/demo_without" -L/repo/.libs -lxcm -lpthread -Wl,-rpath,/repo/.libs 2>/dev/null || { echo "DEMO BUILD (without) FAILED"; }
  (cd "$o" && timeout 120 ./demo_with > demo_with.out 2>&1; echo "demo WITH change: exit $? : $(tail -1 demo_with.out | cut -c1-160)")
  (cd "$o" && timeout 120 ./demo_without > demo_without.out 2>&1; echo "demo WITHOUT change: exit $? : $(tail -1 demo_without.out | cut -c1-160)")
elif [ -f "$o/demo.sh" ]; then
  echo "demo.sh present: run manually"
fi
make -k -j4 check VERBOSE=1 > "$o/check.log" 2>&1
grep -a "tests run in" "$o/check.log" | tail -1
grep -a "FAILED\|TIMED OUT" "$o/check.log" | sed 's/\x1b\[[0-9;]*m//g' | awk '{print $1}' | sort -u | tr '\n' ' '; echo
