#!/bin/sh
# usage: bin/mkwt.sh <name>   -> scratch git worktree of /repo under /tmp/wt/<name>, ready for `make` / `make check`
set -e
n="$1"; d=/tmp/wt/$n
mkdir -p /tmp/wt
git -C /repo worktree add -q --detach "$d" HEAD
rsync -a --exclude .git --exclude '*.o' --exclude '*.lo' --exclude '.libs' --exclude '*.la' --exclude xcmtest --ignore-existing /repo/ "$d"/
sed -i "s#/repo#$d#g" "$d"/Makefile
echo "$d"
(cd "$d" && make -j4 >/dev/null 2>&1 && make -j4 xcmtest >/dev/null 2>&1) || echo "warning: build in $d failed" >&2
