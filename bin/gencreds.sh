#!/bin/sh
# Generates the test credentials the TLS harnesses need under /verif/build/creds (offline, /usr/bin/python3 + cryptography).
# bin/gencert.py is a copy of /repo/test/tools/gencert.py (BSD-3-Clause, Ericsson AB).
set -e
D=${VERIF_BUILD:-/verif/build}/creds
[ -f $D/.done ] && [ -f $D/.done_ski ] && exit 0
if [ -f $D/.done ]; then /usr/bin/python3 /verif/bin/gencreds_ski.py $D && touch $D/.done_ski; exit 0; fi
mkdir -p $D
cat <<YAML | /usr/bin/python3 /verif/bin/gencert.py
base-path: $D

certs:
  default:
    subject_name: localhost

files:
  - type: cert
    id: default
    path: default/cert.pem
  - type: key
    id: default
    path: default/key.pem
  - type: bundle
    certs:
      - default
    path: default/tc.pem
YAML
touch $D/.done
/usr/bin/python3 /verif/bin/gencreds_ski.py $D && touch $D/.done_ski
