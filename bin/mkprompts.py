#!/usr/bin/env python3
"""usage: bin/mkprompts.py <round> : writes /tmp/wt/out/prompt<round>_CXX.txt for every property from the previous round's
prompts (/tmp/wt/out/prompt<round-1>_CXX.txt), with the list of changes already explored for the property rebuilt from
seeded/*/meta.json (title and site only - nothing about how or whether they were detected)."""
import glob, json, os, re, sys
rnd = int(sys.argv[1])
for i in range(1, 21):
    pid = "C%02d" % i
    prev = open("/tmp/wt/out/prompt%d_%s.txt" % (rnd - 1, pid)).read()
    prev = prev.replace("adv%d_c%02d" % (rnd - 1, i), "adv%d_c%02d" % (rnd, i)).replace("a%d_c%02d" % (rnd - 1, i), "a%d_c%02d" % (rnd, i))
    items = []
    for d in sorted(glob.glob("/verif/seeded/*_c%02d" % i)):
        try:
            m = json.load(open(d + "/meta.json"))
        except Exception:
            continue
        files = m.get("files") or []
        if isinstance(files, str):
            files = [files]
        if not str(m.get("title", "")).strip():
            continue
        items.append("%s [%s]" % (re.sub(r"\s+", " ", str(m.get("title", "")))[:260], ", ".join(os.path.basename(f) for f in files)))
    lst = " ".join("(%d) %s;" % (k + 1, t) for k, t in enumerate(items))
    new = re.sub(r"Changes that have ALREADY been explored.*?\n( \* The existing suite)",
                 "Changes that have ALREADY been explored by others for this property (choose a different site AND a different "
                 "mechanism; ideally a different transport, layer, phase or source file): " + lst.replace("\\", "/") + r"\n\1", prev, flags=re.S)
    if new == prev:
        print("warning: no explored-list found in", pid)
    open("/tmp/wt/out/prompt%d_%s.txt" % (rnd, pid), "w").write(new)
print("done")
