#!/usr/bin/python3
"""Credential universe for the C09 TLS policy matrix (run with /usr/bin/python3: needs `cryptography`).

usage: gencreds_c09.py <output directory>

Writes, for every name N used by spec/TlsPolicy.tla (operators Present / Trust / CrlOf):
    N.pem      certificate (leaf first, then the chain certificates the peer sends along)
    N.key      private key of the leaf
    tc_*.pem   trust bundles, crl_*.pem CRL bundles (some deliberately missing / empty / not PEM)
    manifest.json   the *measured* properties of what was written (re-parsed from the PEM files):
                    per certificate file: validity relative to now, issuer chain, EKU, names, SKI;
                    per CRL bundle: issuers, revoked serials, staleness.
                    lib/check_c09.py compares it with the Facts table printed by TLC.

Validity windows are absolute and far from `now` (years), so no check depends on the wall clock moving
while it runs: valid = [now-1d, now+10y], expired = [now-3y, now-1y], not yet valid = [now+5y, now+10y].
"""
import datetime
import hashlib
import json
import os
import sys

from cryptography import x509
from cryptography.hazmat.backends import default_backend
from cryptography.hazmat.primitives import hashes, serialization
from cryptography.hazmat.primitives.asymmetric import ec, rsa, padding
from cryptography.x509.oid import ExtendedKeyUsageOID, NameOID

NOW = datetime.datetime.utcnow().replace(microsecond=0)
DAY = datetime.timedelta(days=1)
YEAR = datetime.timedelta(days=365)
WINDOWS = {"ok": (NOW - DAY, NOW + 10 * YEAR), "expired": (NOW - 3 * YEAR, NOW - YEAR),
           "future": (NOW + 5 * YEAR, NOW + 10 * YEAR)}

W3 = "w.c09.example"        # a second expected name, with three labels (wildcard patterns need two dots)
EXPECT = "localhost"          # the name every verifying side expects (tls.peer_names / host part of the address)

keys, certs = {}, {}


def new_key(kind):
    if kind == "rsa":
        return rsa.generate_private_key(public_exponent=65537, key_size=2048, backend=default_backend())
    return ec.generate_private_key(ec.SECP256R1(), default_backend())


def make(cid, cn, issuer=None, ca=False, window="ok", san=None, eku=None, aki=True, key="ec", subject_cn=None):
    """issuer None = self signed.  san: list of DNS names or None (no SAN extension)."""
    k = new_key(key)
    subj = x509.Name([x509.NameAttribute(NameOID.ORGANIZATION_NAME, "verif-c09"),
                      x509.NameAttribute(NameOID.COMMON_NAME, subject_cn or cn)])
    if issuer is None:
        ikey, iname, icert = k, subj, None
    else:
        ikey, icert = keys[issuer], certs[issuer]
        iname = icert.subject
    nb, na = WINDOWS[window]
    b = (x509.CertificateBuilder().subject_name(subj).issuer_name(iname).not_valid_before(nb).not_valid_after(na)
         .serial_number(x509.random_serial_number()).public_key(k.public_key())
         .add_extension(x509.BasicConstraints(ca=ca, path_length=None), critical=True)
         .add_extension(x509.SubjectKeyIdentifier.from_public_key(k.public_key()), critical=False))
    if san is not None:
        b = b.add_extension(x509.SubjectAlternativeName([x509.DNSName(n) for n in san]), critical=False)
    if eku is not None:
        b = b.add_extension(x509.ExtendedKeyUsage(eku), critical=True)
    if aki:
        pub = (icert.public_key() if icert is not None else k.public_key())
        b = b.add_extension(x509.AuthorityKeyIdentifier.from_issuer_public_key(pub), critical=False)
    keys[cid] = k
    certs[cid] = b.sign(private_key=ikey, algorithm=hashes.SHA256(), backend=default_backend())


def pem(c):
    return c.public_bytes(serialization.Encoding.PEM)


def key_pem(k):
    return k.private_bytes(encoding=serialization.Encoding.PEM, format=serialization.PrivateFormat.TraditionalOpenSSL,
                           encryption_algorithm=serialization.NoEncryption())


def make_crl(issuer, revoked, stale=False):
    lu, nu = (NOW - 2 * YEAR, NOW - YEAR) if stale else (NOW - DAY, NOW + 10 * YEAR)
    b = x509.CertificateRevocationListBuilder().issuer_name(certs[issuer].subject).last_update(lu).next_update(nu)
    for r in revoked:
        b = b.add_revoked_certificate(x509.RevokedCertificateBuilder().serial_number(certs[r].serial_number)
                                      .revocation_date(lu).build(default_backend()))
    return b.sign(private_key=keys[issuer], algorithm=hashes.SHA256(), backend=default_backend())


def main(out):
    os.makedirs(out, exist_ok=True)
    L = [EXPECT]
    # ---- certification authorities (RSA) ------------------------------------------------------------------
    make("rootA", "c09 root A", ca=True, key="rsa")
    make("rootA2", "c09 root A", ca=True, key="rsa")              # same name, another key: forgeries
    make("rootX", "c09 root X", ca=True, key="rsa")               # never trusted by a verifying side
    make("rootO", "c09 root O", ca=True, key="rsa")               # issues the certificates of the non-subject side
    make("rootExp", "c09 root expired", ca=True, window="expired", key="rsa")
    make("rootFut", "c09 root future", ca=True, window="future", key="rsa")
    make("subA", "c09 sub A", issuer="rootA", ca=True, key="rsa")
    make("subR", "c09 sub R", issuer="rootA", ca=True, key="rsa")   # revoked by rootA's CRL
    make("subX", "c09 sub X", issuer="rootX", ca=True, key="rsa")
    make("subExp", "c09 sub expired", issuer="rootA", ca=True, window="expired", key="rsa")
    make("leafca", "c09 leaf used as ca", issuer="rootA", ca=False, key="rsa", san=["leafca"])
    # ---- leaves ---------------------------------------------------------------------------------------------
    make("good_c", EXPECT, issuer="rootO", san=L, key="rsa")       # what a non-subject client presents
    make("good_s", EXPECT, issuer="rootO", san=L, key="rsa")       # what a non-subject server presents
    make("l_ok", EXPECT, issuer="rootA", san=L, key="rsa")
    make("l_sub", EXPECT, issuer="subA", san=L)
    make("l_x", EXPECT, issuer="rootX", san=L)
    make("l_subx", EXPECT, issuer="subX", san=L)
    make("l_self", EXPECT, san=L)
    make("l_forged", EXPECT, issuer="rootA2", san=L, aki=False)
    make("l_notca", EXPECT, issuer="leafca", san=L)
    make("l_exp", EXPECT, issuer="rootA", san=L, window="expired")
    make("l_fut", EXPECT, issuer="rootA", san=L, window="future")
    make("l_caexp", EXPECT, issuer="rootExp", san=L)
    make("l_cafut", EXPECT, issuer="rootFut", san=L)
    make("l_subexp", EXPECT, issuer="subExp", san=L)
    make("l_rev", EXPECT, issuer="rootA", san=L)
    make("l_sub_rev", EXPECT, issuer="subA", san=L)
    make("l_subr", EXPECT, issuer="subR", san=L)
    S, C = ExtendedKeyUsageOID.SERVER_AUTH, ExtendedKeyUsageOID.CLIENT_AUTH
    make("l_eku_server", EXPECT, issuer="rootA", san=L, eku=[S])
    make("l_eku_client", EXPECT, issuer="rootA", san=L, eku=[C])
    make("l_eku_both", EXPECT, issuer="rootA", san=L, eku=[S, C])
    make("l_eku_other", EXPECT, issuer="rootA", san=L, eku=[ExtendedKeyUsageOID.CODE_SIGNING])
    make("l_name_san", "foo", issuer="rootA", san=["bar", EXPECT])
    make("l_name_cn", EXPECT, issuer="rootA", san=["bar"])
    make("l_name_cnonly", EXPECT, issuer="rootA", san=None)
    make("l_name_none", "foo", issuer="rootA", san=["bar"])
    make("l_exp_rev", EXPECT, issuer="rootA", san=L, window="expired")
    make("l_exp_x", EXPECT, issuer="rootX", san=L, window="expired")
    make("l_exp_name_none", "foo", issuer="rootA", san=["bar"], window="expired")
    make("l_rev_name_none", "foo", issuer="rootA", san=["bar"])
    # a three-label expected name (W3) and wildcard patterns that would cover it: xcm.h disables wildcard matching
    make("l_name_w3", "foo", issuer="rootA", san=["bar", W3])
    make("l_name_wild", "foo", issuer="rootA", san=["bar", "*." + W3.split(".", 1)[1]])
    make("l_name_wcn", "*." + W3.split(".", 1)[1], issuer="rootA", san=None)

    files = {}          # file name -> list of cert ids (leaf first)
    for cid in certs:
        files[cid] = [cid]
    files.update({"l_sub_chain": ["l_sub", "subA"], "l_x_chain": ["l_x", "rootX"], "l_subx_chain": ["l_subx", "subX"],
                  "l_notca_chain": ["l_notca", "leafca"], "l_subexp_chain": ["l_subexp", "subExp"],
                  "l_sub_rev_chain": ["l_sub_rev", "subA"], "l_subr_chain": ["l_subr", "subR"]})
    for name, ids in files.items():
        with open("%s/%s.pem" % (out, name), "wb") as f:
            f.write(b"".join(pem(certs[i]) for i in ids))
        with open("%s/%s.key" % (out, name), "wb") as f:
            f.write(key_pem(keys[ids[0]]))
        with open("%s/%s.ski" % (out, name), "w") as f:
            f.write(certs[ids[0]].extensions.get_extension_for_class(x509.SubjectKeyIdentifier).value.digest.hex())

    bundles = {"tc_A": ["rootA"], "tc_A_subA": ["rootA", "subA"], "tc_subA": ["subA"], "tc_exp": ["rootExp"],
               "tc_fut": ["rootFut"], "tc_O": ["rootO"],
               "tc_all": ["rootA", "rootX", "rootO", "rootExp", "rootFut", "subA", "subR", "subX", "subExp", "l_self"]}
    for name, ids in bundles.items():
        with open("%s/%s.pem" % (out, name), "wb") as f:
            f.write(b"".join(pem(certs[i]) for i in ids))
    open(out + "/tc_empty.pem", "wb").close()
    with open(out + "/tc_garbage.pem", "wb") as f:
        f.write(b"this is not a PEM bundle\n" * 8)
    # tc_missing.pem is deliberately absent

    revoked_by = {"rootA": ["l_rev", "subR", "l_exp_rev", "l_rev_name_none"], "subA": ["l_sub_rev"]}
    cas = ["rootA", "subA", "subR", "rootExp", "rootFut", "subExp", "rootX", "subX", "rootO", "rootA2", "leafca"]
    crls = {"crl_full": [(ca, revoked_by.get(ca, []), False) for ca in cas],
            "crl_norev": [(ca, [], False) for ca in cas],
            "crl_rootonly": [("rootA", revoked_by["rootA"], False)],
            "crl_stale": [(ca, [], True) for ca in cas]}
    crlobjs = {}
    for name, lst in crls.items():
        crlobjs[name] = [make_crl(ca, rv, stale) for ca, rv, stale in lst]
        with open("%s/%s.pem" % (out, name), "wb") as f:
            f.write(b"".join(c.public_bytes(serialization.Encoding.PEM) for c in crlobjs[name]))
    open(out + "/crl_empty.pem", "wb").close()
    with open(out + "/crl_garbage.pem", "wb") as f:
        f.write(b"-----BEGIN X509 CRL-----\nbm90IGEgQ1JM\n-----END X509 CRL-----\n")
    # crl_missing.pem is deliberately absent

    # ---- manifest: measured from the files just written -------------------------------------------------------
    def load_chain(path):
        data = open(path, "rb").read()
        parts = [p for p in data.split(b"-----END CERTIFICATE-----") if b"BEGIN CERTIFICATE" in p]
        return [x509.load_pem_x509_certificate(p + b"-----END CERTIFICATE-----\n", default_backend()) for p in parts]

    def signed_by(c, issuer):
        if c.issuer != issuer.subject:
            return False
        pub = issuer.public_key()
        try:
            if isinstance(pub, rsa.RSAPublicKey):
                pub.verify(c.signature, c.tbs_certificate_bytes, padding.PKCS1v15(), c.signature_hash_algorithm)
            else:
                pub.verify(c.signature, c.tbs_certificate_bytes, ec.ECDSA(c.signature_hash_algorithm))
            return True
        except Exception:
            return False

    def timeclass(c):
        if c.not_valid_after < NOW:
            return "expired"
        if c.not_valid_before > NOW:
            return "future"
        return "ok"

    def is_ca(c):
        try:
            return c.extensions.get_extension_for_class(x509.BasicConstraints).value.ca
        except x509.ExtensionNotFound:
            return False

    def describe(c):
        try:
            e = c.extensions.get_extension_for_class(x509.ExtendedKeyUsage).value
            eku = sorted({S: "server", C: "client"}.get(o, "other") for o in e)
        except x509.ExtensionNotFound:
            eku = None
        try:
            san = [n.lower() for n in c.extensions.get_extension_for_class(x509.SubjectAlternativeName)
                   .value.get_values_for_type(x509.DNSName)]
        except x509.ExtensionNotFound:
            san = None
        cn = [a.value for a in c.subject.get_attributes_for_oid(NameOID.COMMON_NAME)]
        return {"time": timeclass(c), "eku": eku, "san": san, "cn": cn[0] if cn else None, "ca": is_ca(c),
                "serial": str(c.serial_number), "subject": c.subject.rfc4514_string(),
                "ski": c.extensions.get_extension_for_class(x509.SubjectKeyIdentifier).value.digest.hex()}

    man = {"generated": NOW.isoformat(), "expect": EXPECT, "certs": {}, "trust": {}, "crls": {}}
    for name in files:
        chain = load_chain("%s/%s.pem" % (out, name))
        man["certs"][name] = {"leaf": describe(chain[0]), "sent": [describe(c) for c in chain[1:]]}
    for name in bundles:
        man["trust"][name] = [describe(c) for c in load_chain("%s/%s.pem" % (out, name))]
    for name, objs in crlobjs.items():
        lst = []
        for c in x509.load_pem_x509_crl(b"", default_backend()) if False else []:
            pass
        data = open("%s/%s.pem" % (out, name), "rb").read()
        parts = [p + b"-----END X509 CRL-----\n" for p in data.split(b"-----END X509 CRL-----") if b"BEGIN X509 CRL" in p]
        for part in parts:
            c = x509.load_pem_x509_crl(part, default_backend())
            signers = []
            for cid in files:
                if len(files[cid]) == 1:
                    cert = load_chain("%s/%s.pem" % (out, cid))[0]
                    try:
                        if c.issuer == cert.subject and c.is_signature_valid(cert.public_key()):
                            signers.append(cid)
                    except Exception:
                        pass
            lst.append({"issuer": c.issuer.rfc4514_string(), "signed_by": signers,
                        "revoked": [str(r.serial_number) for r in c], "stale": c.next_update < NOW})
        man["crls"][name] = lst

    # chain analysis per (presented file, trust bundle): does a path of valid signatures through CA certificates reach
    # a self-signed certificate of the bundle ("root"), only a non-self-signed one ("partial"), or nothing ("none")?
    def analyse(name, tcname):
        chain = load_chain("%s/%s.pem" % (out, name))
        tc = load_chain("%s/%s.pem" % (out, tcname))
        leaf, pool = chain[0], chain[1:]
        best = {"anchor": "none", "path": []}
        rank = {"none": 0, "partial": 1, "root": 2}
        fp = lambda c: c.fingerprint(hashes.SHA256())
        tcfp = set(fp(t) for t in tc)

        def walk(c, path):
            if len(path) > 6:
                return
            here = path + [c]
            if fp(c) in tcfp:
                kind = "root" if signed_by(c, c) else "partial"
                if rank[kind] > rank[best["anchor"]]:
                    best.update(anchor=kind, path=[describe(x) for x in here])
            if signed_by(c, c):
                return
            for cand in tc + pool:
                if signed_by(c, cand) and is_ca(cand) and all(fp(cand) != fp(x) for x in here):
                    walk(cand, here)

        walk(leaf, [])
        return best

    man["analysis"] = {}
    for name in files:
        for tcname in bundles:
            a = analyse(name, tcname)
            man["analysis"]["%s|%s" % (name, tcname)] = {"anchor": a["anchor"],
                                                        "ca_time": sorted(set(d["time"] for d in a["path"][1:])),
                                                        "path_serials": [d["serial"] for d in a["path"]],
                                                        "path_subjects": [d["subject"] for d in a["path"]]}
    with open(out + "/manifest.json", "w") as f:
        json.dump(man, f, indent=1, sort_keys=True)
    with open(out + "/.done", "w") as f:
        f.write(hashlib.sha256(open(__file__, "rb").read()).hexdigest() + " " + NOW.isoformat() + "\n")


if __name__ == "__main__":
    if len(sys.argv) != 2:
        print(__doc__)
        sys.exit(2)
    main(sys.argv[1])
