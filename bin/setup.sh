#!/bin/sh
# Run once in /verif after a fresh restore, offline.  Builds the harnesses from files on disk and
# verifies that the tools the checks need are present.  Fetches nothing.
set -e
cd /verif
command -v tlc >/dev/null || { echo "tlc missing"; exit 1; }
command -v gcc >/dev/null || { echo "gcc missing"; exit 1; }
mkdir -p build/run build/tlc build/cfg evidence/replays
make -C /verif -j16 VARIANT=asan /verif/build/asan/bin/conn_exec >/dev/null
[ -x bin/gencreds.sh ] && bin/gencreds.sh >/dev/null 2>&1 || true
echo "setup ok"
