---------------------------- MODULE TlsPolicyTrace ----------------------------
(***************************************************************************)
(* Trace specification for C09: validates cells of the TLS policy matrix    *)
(* that harness/tlsmx_exec replayed as real handshakes.  One line per cell:  *)
(*   [cell |-> the cell as printed by TlsPolicyMC, o |-> what was observed]  *)
(* Monitor style: MustReject / ConfigValid are re-evaluated here from the    *)
(* cell with the operators of TlsPolicy and compared with the observations;  *)
(* every mismatch is printed as                                              *)
(*      "@V [<cell number>, <sub index>, <tag>, <expected>, <observed>]"      *)
(* Tags "C09.*" violate the property statement (only the fail-open direction *)
(* and the errno / EINVAL clauses), "NOTE.*" go to the evidence only,        *)
(* "INTERNAL" is a machinery problem.                                        *)
(***************************************************************************)
EXTENDS TlsPolicy, Json, IOUtils

Lines == ndJsonDeserialize(IOEnv.TRACE)
NL == Len(Lines)

VARIABLES l, st
vars == <<l, st>>

EINVAL == 22
EPROTO == 71

St0 == [cells |-> 0, both |-> 0, data |-> 0, must |-> 0, mustc |-> 0, musts |-> 0, refused |-> 0, einval |-> 0,
        einval_refused |-> 0, unusable |-> 0, pred |-> 0, pred_ok |-> 0, stuck |-> 0, failopen |-> 0]
Init == l = 1 /\ st = St0

Chk(c, n, t, x, o) == [c |-> c, n |-> n, t |-> t, x |-> x, o |-> o]
Failed(cs) == SelectSeq(cs, LAMBDA r : ~r.c)
Report(id, cs) ==
  LET f == Failed(cs) IN
  IF f = <<>> THEN TRUE
  ELSE \A i \in 1..Len(f) : PrintT("@V " \o ToJson(<<id, f[i].n, f[i].t, f[i].x, f[i].o>>))

\* ---- observations -----------------------------------------------------------------------------
\* a side was usable: xcm_finish succeeded, or it handed received application data to the application, or
\* application data it transmitted was received by the peer
UsableC(o) == o.c_est = 1 \/ o.c_rx >= 1 \/ (o.c_tx = 1 /\ o.s_rx >= 1)
UsableS(o) == o.s_est = 1 \/ o.s_rx >= 1 \/ (o.s_tx = 1 /\ o.c_rx >= 1)
\* the errno a side reported: from the creating call or from the first failing call afterwards (0: none)
ErrC(o) == IF o.cc \notin {0, -1} THEN o.cc ELSE o.c_fe
ErrS(o) == IF o.ac \notin {0, -1} THEN o.ac ELSE o.s_fe

\* one creation call against the model's outcome; obs: 0 = created, -1 = not attempted, else errno
Creation(n, what, out, unusable, obs) ==
  <<Chk(~(out.st = "einval" /\ obs = 0), n, "C09.einval", <<what, "EINVAL">>, "created"),
    Chk(~(out.st = "einval" /\ obs \notin {0, -1, EINVAL}), n, "NOTE.errno_creation", <<what, EINVAL>>, obs),
    \* unusable trust anchors / CRLs: the creation should fail; what the property demands is that a socket created
    \* nevertheless never becomes usable (checked below), so this is a note
    Chk(~(unusable /\ obs = 0), n, "NOTE.unusable_material_accepted", <<what, "unusable trust anchors or CRLs: EPROTO">>, "created"),
    Chk(~(out.st = "eproto" /\ obs \notin {0, -1, EPROTO}), n, "NOTE.errno_creation", <<what, EPROTO>>, obs),
    Chk(~(out.st = "eproto" /\ ~unusable /\ obs = 0), n, "NOTE.model", <<what, "EPROTO">>, "created"),
    Chk(~(out.st = "ok" /\ obs = EINVAL), n, "NOTE.einval_unexpected", <<what, "created">>, obs),
    Chk(~(out.st = "ok" /\ obs \notin {0, -1, EINVAL, EPROTO}), n, "NOTE.errno_creation", <<what, "created">>, obs),
    \* out.st = "none": the model stops earlier (a preceding creation is refused there); if the implementation went on
    \* anyway that preceding call has been reported, nothing is expected of this one
    Chk(TRUE, n, "NOTE.none", what, obs)>>

Checks(ln) ==
  LET cell == ln.cell
      o == ln.o
      ev == Eval(cell)
      uc == UsableC(o)
      us == UsableS(o)
      \* MustReject including "created although its trust anchors / CRLs are unusable"
      mustc == ev.mrc \/ ev.unusable.c
      musts == ev.mrs \/ ev.unusable.s \/ ev.unusable.a
      \* the peer has no reason of its own to tear the connection down first
      cleanS == ev.ao.st = "ok" /\ ev.mays
      cleanC == ev.co.st = "ok" /\ ev.mayc
  IN
  <<Chk(o.utx = 0, 0, "INTERNAL", "utls over its TLS leg", "ux"),
    Chk((o.sc = 0 \/ o.cc = -1) /\ (o.cc = 0 \/ o.ac = -1), 0, "INTERNAL", "no call after a failed creation", <<o.sc, o.cc, o.ac>>),
    \* writes to the server socket after its creation are refused with EACCES (creation-only attributes, property C11);
    \* here only noted - the evaluation above already assumes that they change nothing
    Chk(o.late = (IF cell.L = EmptyMap THEN 0 ELSE 13), 0, "NOTE.late_set", IF cell.L = EmptyMap THEN 0 ELSE 13, o.late)>>
  \o Creation(10, "xcm_server_a", ev.so, ev.unusable.s, o.sc)
  \o Creation(11, "xcm_connect_a", ev.co, ev.unusable.c, IF o.sc # 0 THEN -1 ELSE o.cc)
  \o Creation(12, "xcm_accept_a", ev.ao, ev.unusable.a, IF o.sc # 0 \/ o.cc # 0 THEN -1 ELSE o.ac)
  \o <<\* the property: a side whose policy is not met never becomes usable
       Chk(~(mustc /\ uc), 1, "C09.fail_open", <<"client", "rejects", ev.ps, IF ev.unusable.c THEN "unusable material" ELSE "">>,
           <<"finish", o.c_est, "received", o.c_rx, "sent", o.c_tx, "peer received", o.s_rx>>),
       Chk(~(musts /\ us), 2, "C09.fail_open", <<"accepting side", "rejects", ev.pc, IF ev.unusable.s \/ ev.unusable.a THEN "unusable material" ELSE "">>,
           <<"finish", o.s_est, "received", o.s_rx, "sent", o.s_tx, "peer received", o.c_rx>>),
       \* ... and reports EPROTO (where the peer is not about to fail for a reason of its own, and the run settled)
       Chk(~(ev.mrc /\ ~uc /\ cleanS /\ o.stuck = 0 /\ o.ac = 0 /\ ErrC(o) # EPROTO), 3, "C09.errno", <<"client", EPROTO>>,
           <<ErrC(o), o.c_fop>>),
       Chk(~(ev.mrs /\ ~us /\ cleanC /\ o.stuck = 0 /\ ErrS(o) # EPROTO), 4, "C09.errno", <<"accepting side", EPROTO>>,
           <<ErrS(o), o.s_fop>>),
       Chk(~(ev.mrc /\ ~uc /\ ~cleanS /\ ErrC(o) \notin {0, EPROTO}), 3, "NOTE.errno_peer_first", EPROTO, ErrC(o)),
       Chk(~(ev.mrs /\ ~us /\ ~cleanC /\ ErrS(o) \notin {0, EPROTO}), 4, "NOTE.errno_peer_first", EPROTO, ErrS(o)),
       \* the other direction is not demanded: notes
       Chk(~(ev.predc /\ o.c_est = 0 /\ o.sc = 0 /\ o.cc = 0 /\ o.ac = 0), 5, "NOTE.policy_met_but_rejected", <<"client", ev.ps>>,
           <<ErrC(o), o.c_fop, o.stuck>>),
       Chk(~(ev.preds /\ o.s_est = 0 /\ o.sc = 0 /\ o.cc = 0 /\ o.ac = 0), 6, "NOTE.policy_met_but_rejected", <<"accepting side", ev.pc>>,
           <<ErrS(o), o.s_fop, o.stuck>>),
       Chk(~(~ev.mayc /\ ~ev.mrc /\ o.c_est = 1), 7, "NOTE.model", <<"client", "not established", ev.ps>>, "established"),
       Chk(~(~ev.mays /\ ~ev.mrs /\ o.s_est = 1), 8, "NOTE.model", <<"accepting side", "not established", ev.pc>>, "established"),
       \* whose certificate the established side saw (C18 territory: a note here)
       Chk(~(o.c_est = 1 /\ o.c_pk # "" /\ ev.ps # "none" /\ o.c_pk # CertInfo(ev.ps).leaf), 9, "NOTE.identity", CertInfo(ev.ps).leaf, o.c_pk),
       Chk(~(o.s_est = 1 /\ o.s_pk # "" /\ ev.pc # "none" /\ o.s_pk # CertInfo(ev.pc).leaf), 9, "NOTE.identity", CertInfo(ev.pc).leaf, o.s_pk),
       Chk(o.c_rx # 2 /\ o.s_rx # 2, 9, "NOTE.garbled", "the peer's message", <<o.c_rx, o.s_rx>>)>>

B2N(b) == IF b THEN 1 ELSE 0
Count(ln) ==
  LET o == ln.o
      ev == Eval(ln.cell)
      both == o.c_est = 1 /\ o.s_est = 1
      anyEinval == "einval" \in {ev.so.st, ev.co.st, ev.ao.st}
      einvalSeen == (ev.so.st = "einval" /\ o.sc = EINVAL) \/ (ev.co.st = "einval" /\ o.cc = EINVAL)
                    \/ (ev.ao.st = "einval" /\ o.ac = EINVAL)
  IN [st EXCEPT !.cells = @ + 1,
                !.both = @ + B2N(both),
                !.data = @ + B2N(both /\ o.c_rx = 1 /\ o.s_rx = 1),
                !.must = @ + B2N(ev.mrc \/ ev.mrs),
                !.mustc = @ + B2N(ev.mrc), !.musts = @ + B2N(ev.mrs),
                !.refused = @ + B2N((ev.mrc /\ ~UsableC(o) /\ ErrC(o) = EPROTO) \/ (ev.mrs /\ ~UsableS(o) /\ ErrS(o) = EPROTO)),
                !.einval = @ + B2N(anyEinval), !.einval_refused = @ + B2N(einvalSeen),
                !.unusable = @ + B2N(ev.unusable.s \/ ev.unusable.c \/ ev.unusable.a),
                !.pred = @ + B2N(ev.predc /\ ev.preds), !.pred_ok = @ + B2N(ev.predc /\ ev.preds /\ both),
                !.stuck = @ + o.stuck,
                !.failopen = @ + B2N(((ev.mrc \/ ev.unusable.c) /\ UsableC(o)) \/ ((ev.mrs \/ ev.unusable.s \/ ev.unusable.a) /\ UsableS(o)))]

Next ==
  /\ l <= NL
  /\ l' = l + 1
  /\ LET ln == Lines[l]
         cs == Checks(ln)
     IN /\ Report(ln.cell.n, cs)
        /\ st' = Count(ln)
        /\ (l < NL \/ PrintT("@STAT " \o ToJson(Count(ln))))

Spec == Init /\ [][Next]_vars

\* the whole trace was consumed (a line the specification cannot process stops it early)
Accepted == TLCGet("stats").diameter = NL + 1
=============================================================================
