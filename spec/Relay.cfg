\* Example configuration (intended design, one relayed connection).  lib/check_c20.py generates the
\* configurations it runs under build/cfg: Dev = {} must satisfy all invariants; one flag of
\* {"relay_close_loss", "relay_noflush", "epipe_closes"} in Dev makes TLC exhibit the CloseAfterData counterexample.
SPECIFICATION Spec
CONSTANTS
  NConn = 1
  MaxMsg = 3
  Cap = 1
  LBuf = TRUE
  Hup = FALSE
  Dev = {}
  Mut = {}
  Quiet = {}
  NoClose = {}
  Gen = FALSE
  EmitMod = 1
INVARIANTS TypeOK Transparent CloseAfterData RelayAlive NoStall NoOrphanCallback
CHECK_DEADLOCK FALSE
