-------------------------------- MODULE Attr --------------------------------
(***************************************************************************)
(* Socket attributes of libxcm (properties C10 and C11).                   *)
(*                                                                         *)
(* Part 1 - the attribute TABLE, read off build_attr_tree (xcm.c),          *)
(*   xcm_tp.c populate_*, xcm_tp_btcp.c populate_*, xcm_tp_btls.c           *)
(*   populate_*, xcm_tp_utls.c, xcm_tp_ux.c (no attributes of its own) and  *)
(*   the tables in include/xcm.h: name -> type, size, which sockets carry   *)
(*   it, when it is writable, whether accept inherits it.                   *)
(* Part 2 - what a read (xcm_attr_get and its typed / formatted variants)   *)
(*   and a write (xcm_attr_set, attribute maps) must answer: ExpectGet,     *)
(*   SetErrnos.  Used symbolically by AttrMC (vector enumeration) and with  *)
(*   the measured sizes by AttrTrace (validation of the real library).      *)
(* Part 3 - the life of a connection with respect to the attributes that    *)
(*   must "take effect" (C11): pure step functions on a state record;       *)
(*   AttrMC enumerates behaviours from them, AttrTrace replays the same     *)
(*   functions over what harness/attr_exec recorded.                        *)
(*                                                                         *)
(* Names are templates: a list index is written "[]".                      *)
(***************************************************************************)
EXTENDS Integers, Sequences, FiniteSets, TLC

ENOENT == 2
EBADF == 9
EAGAIN == 11
EACCES == 13
EINVAL == 22
EOVERFLOW == 75

\* ---- sockets --------------------------------------------------------------
\* transports: "utls" is a UTLS server, or a UTLS connection that runs over TLS; "utlsx" a UTLS
\* connection that runs over UX; "tcp6" is tcp over ::1 (the only place ipv6.scope has a value)
Tps == {"ux", "uxf", "tcp", "tcp6", "tls", "utls", "utlsx", "btcp", "btls"}
Kinds == {"server", "conn", "acc"}
\* life points.  "fresh": between init and connect/server/accept, reachable only through the
\* attribute map of xcm_connect_a / xcm_server_a / xcm_accept_a
ConnLives == {"connecting", "handshaking", "established", "peer_closed", "failed"}
AccLives == {"handshaking", "established", "peer_closed"}
Lives == ConnLives \cup {"server", "fresh"}

\* at "fresh" a UTLS connection still has both sub-sockets: it looks like the TLS one
TcpFam(tp, life) == tp \in {"tcp", "tcp6", "tls", "utls", "btcp", "btls"} \/ (tp = "utlsx" /\ life = "fresh")
TlsFam(tp, life) == tp \in {"tls", "utls", "btls"} \/ (tp = "utlsx" /\ life = "fresh")
ByteStream(tp) == tp \in {"btcp", "btls"}
HasConnecting(tp) == tp \in {"tcp", "tcp6", "tls", "utls", "btcp", "btls"}
HasHandshake(tp) == tp \in {"tls", "utls", "btls"}

SitOk(kind, tp, life) ==
  CASE kind = "server" -> life = "server" /\ tp # "utlsx"
    [] kind = "conn" -> /\ life \in ConnLives
                        /\ (life = "connecting" => HasConnecting(tp))
                        /\ (life = "handshaking" => HasHandshake(tp))
    [] kind = "acc" -> /\ life \in AccLives
                       /\ (life = "handshaking" => HasHandshake(tp))

\* ---- types -----------------------------------------------------------------
TBool == 1
TInt == 2
TStr == 3
TBin == 4
TDouble == 5
Types == {TBool, TInt, TStr, TBin, TDouble}
FixedSize(t) == CASE t = TBool -> 1 [] t = TInt -> 8 [] t = TDouble -> 8 [] OTHER -> 0   \* 0: variable

\* ---- the table ---------------------------------------------------------------
\* grp: which sockets carry the attribute (see Present); mode: "r" | "rw" | "create" (writable
\* only at creation, i.e. at "fresh"); vol: the value may change between two reads without any
\* API call; inh: an accepted socket starts with the server socket's value
Row(t, grp, mode, vol, inh) == [t |-> t, grp |-> grp, mode |-> mode, vol |-> vol, inh |-> inh]

Table ==
  [n \in {} |-> Row(0, "", "", FALSE, FALSE)]
  @@ ("xcm.type"              :> Row(TStr, "all", "r", FALSE, FALSE))
  @@ ("xcm.transport"         :> Row(TStr, "all", "r", FALSE, FALSE))
  @@ ("xcm.service"           :> Row(TStr, "all", "create", FALSE, TRUE))
  @@ ("xcm.blocking"          :> Row(TBool, "all", "rw", FALSE, TRUE))
  @@ ("xcm.local_addr"        :> Row(TStr, "all", "create", FALSE, FALSE))
  @@ ("xcm.remote_addr"       :> Row(TStr, "conn", "r", FALSE, FALSE))
  @@ ("xcm.max_msg_size"      :> Row(TInt, "msgconn", "r", FALSE, FALSE))
  @@ ("xcm.from_app_bytes"    :> Row(TInt, "conn", "r", FALSE, FALSE))
  @@ ("xcm.to_app_bytes"      :> Row(TInt, "conn", "r", FALSE, FALSE))
  @@ ("xcm.from_lower_bytes"  :> Row(TInt, "conn", "r", TRUE, FALSE))
  @@ ("xcm.to_lower_bytes"    :> Row(TInt, "conn", "r", TRUE, FALSE))
  @@ ("xcm.from_app_msgs"     :> Row(TInt, "msgconn", "r", FALSE, FALSE))
  @@ ("xcm.to_app_msgs"       :> Row(TInt, "msgconn", "r", FALSE, FALSE))
  @@ ("xcm.from_lower_msgs"   :> Row(TInt, "msgconn", "r", FALSE, FALSE))
  @@ ("xcm.to_lower_msgs"     :> Row(TInt, "msgconn", "r", FALSE, FALSE))
  @@ ("ipv6.scope"            :> Row(TInt, "tcpall", "create", FALSE, TRUE))
  @@ ("dns.timeout"           :> Row(TDouble, "tcpconn", "create", FALSE, FALSE))
  @@ ("dns.algorithm"         :> Row(TStr, "tcpconn", "create", FALSE, FALSE))
  @@ ("tcp.connect_timeout"   :> Row(TDouble, "tcpconn", "create", FALSE, FALSE))
  @@ ("tcp.rtt"               :> Row(TInt, "tcpconn", "r", TRUE, FALSE))
  @@ ("tcp.total_retrans"     :> Row(TInt, "tcpconn", "r", TRUE, FALSE))
  @@ ("tcp.segs_in"           :> Row(TInt, "tcpconn", "r", TRUE, FALSE))
  @@ ("tcp.segs_out"          :> Row(TInt, "tcpconn", "r", TRUE, FALSE))
  @@ ("tcp.keepalive"         :> Row(TBool, "tcpconn", "rw", FALSE, FALSE))
  @@ ("tcp.keepalive_time"    :> Row(TInt, "tcpconn", "rw", FALSE, FALSE))
  @@ ("tcp.keepalive_interval" :> Row(TInt, "tcpconn", "rw", FALSE, FALSE))
  @@ ("tcp.keepalive_count"   :> Row(TInt, "tcpconn", "rw", FALSE, FALSE))
  @@ ("tcp.user_timeout"      :> Row(TInt, "tcpconn", "rw", FALSE, FALSE))
  @@ ("tls.client"            :> Row(TBool, "tlsall", "create", FALSE, TRUE))
  @@ ("tls.auth"              :> Row(TBool, "tlsall", "create", FALSE, TRUE))
  @@ ("tls.check_crl"         :> Row(TBool, "tlsall", "create", FALSE, TRUE))
  @@ ("tls.check_time"        :> Row(TBool, "tlsall", "create", FALSE, TRUE))
  @@ ("tls.verify_peer_name"  :> Row(TBool, "tlsall", "create", FALSE, TRUE))
  @@ ("tls.peer_names"        :> Row(TStr, "tlsall", "create", FALSE, TRUE))
  @@ ("tls.cert_file"         :> Row(TStr, "tlsall", "create", FALSE, TRUE))
  @@ ("tls.key_file"          :> Row(TStr, "tlsall", "create", FALSE, TRUE))
  @@ ("tls.tc_file"           :> Row(TStr, "tlsall", "create", FALSE, TRUE))
  @@ ("tls.crl_file"          :> Row(TStr, "tlsall", "create", FALSE, TRUE))
  @@ ("tls.cert"              :> Row(TBin, "tlsall", "create", FALSE, TRUE))
  @@ ("tls.key"               :> Row(TBin, "tlsall", "create", FALSE, TRUE))
  @@ ("tls.tc"                :> Row(TBin, "tlsall", "create", FALSE, TRUE))
  @@ ("tls.crl"               :> Row(TBin, "tlsall", "create", FALSE, TRUE))
  @@ ("tls.peer_subject_key_id"     :> Row(TBin, "tlsconn", "r", FALSE, FALSE))
  @@ ("tls.peer.cert.subject.cn"    :> Row(TStr, "tlsconn", "r", FALSE, FALSE))
  @@ ("tls.peer.cert.san.dns[]"     :> Row(TStr, "tlsconn", "r", FALSE, FALSE))
  @@ ("tls.peer.cert.san.emails[]"  :> Row(TStr, "tlsconn", "r", FALSE, FALSE))
  @@ ("tls.peer.cert.san.dirs[].cn" :> Row(TStr, "tlsconn", "r", FALSE, FALSE))

Names == DOMAIN Table
\* interior nodes of the tree (dictionaries and lists): they exist but have no value
Interior == {"xcm", "tcp", "tls", "dns", "ipv6", "tls.peer", "tls.peer.cert", "tls.peer.cert.subject", "tls.peer.cert.san",
             "tls.peer.cert.san.dns", "tls.peer.cert.san.emails", "tls.peer.cert.san.dirs", "tls.peer.cert.san.dirs[]"}
IsListElem(n) == n \in {"tls.peer.cert.san.dns[]", "tls.peer.cert.san.emails[]", "tls.peer.cert.san.dirs[].cn"}

\* the socket's attribute tree has a node of this name
Present(kind, tp, life, n) ==
  LET g == Table[n].grp IN
  CASE g = "all" -> TRUE
    [] g = "conn" -> kind # "server"
    [] g = "msgconn" -> kind # "server" /\ ~ByteStream(tp)
    [] g = "tcpall" -> TcpFam(tp, life)
    [] g = "tcpconn" -> TcpFam(tp, life) /\ kind # "server"
    [] g = "tlsall" -> TlsFam(tp, life)
    [] g = "tlsconn" -> TlsFam(tp, life) /\ kind # "server"

\* the setter exists (the node is not read-only)
HasSetter(kind, tp, n) ==
  /\ Table[n].mode # "r"
  /\ (n = "xcm.local_addr" => kind # "server")

\* ... and accepts a write at this point of the socket's life (documented modes; "Writable only at
\* socket creation" / "only at the time of the xcm_connect_a() call")
\* a UTLS socket being created carries the attributes of its TLS half; if the connection then runs over UX
\* they are ignored, so what a value does is not settled here
Ignored(tp, life, n) == tp = "utlsx" /\ life = "fresh" /\ (Table[n].grp \in {"tcpall", "tcpconn", "tlsall", "tlsconn"} \/ n = "xcm.local_addr")
WritableAt(kind, tp, life, n) ==
  \/ (HasSetter(kind, tp, n) /\ Ignored(tp, life, n))
  \/ (/\ HasSetter(kind, tp, n)
      /\ (Table[n].mode = "create" => life = "fresh")
      /\ (n = "xcm.local_addr" => kind = "conn" /\ TcpFam(tp, life))
      /\ (n \in {"dns.timeout", "dns.algorithm", "tcp.connect_timeout"} => kind = "conn"))

\* does a read give a value?  "yes" | "no" | "maybe" (depends on the kernel, the certificates, or on
\* details this model does not follow).  A disagreement is a note, never a violation.
Avail(kind, tp, life, n) ==
  LET fd == life # "connecting"            \* the kernel descriptor is in the socket's hands
      tlsready == life = "established"
  IN
  CASE n \in {"xcm.type", "xcm.transport", "xcm.service", "xcm.blocking", "xcm.max_msg_size",
              "xcm.from_app_bytes", "xcm.to_app_bytes", "xcm.from_lower_bytes", "xcm.to_lower_bytes",
              "xcm.from_app_msgs", "xcm.to_app_msgs", "xcm.from_lower_msgs", "xcm.to_lower_msgs",
              "tcp.keepalive", "tcp.keepalive_time", "tcp.keepalive_interval", "tcp.keepalive_count", "tcp.user_timeout",
              "tls.client", "tls.auth", "tls.check_crl", "tls.check_time", "tls.verify_peer_name",
              "tls.peer_subject_key_id", "tls.peer.cert.subject.cn"} -> "yes"
    [] n = "xcm.local_addr" -> IF kind = "server" THEN "yes"
                               ELSE IF tp \in {"ux", "uxf", "utlsx"} THEN "maybe"
                               ELSE IF fd THEN "yes" ELSE "no"
    [] n = "xcm.remote_addr" -> IF tp \in {"ux", "uxf", "utlsx"} \/ life = "failed" THEN "maybe"
                                ELSE IF fd THEN "yes" ELSE "no"
    [] n = "ipv6.scope" -> IF tp = "tcp6" THEN (IF fd THEN "yes" ELSE "maybe") ELSE "no"
    [] n \in {"dns.timeout", "dns.algorithm", "tcp.connect_timeout"} -> IF kind = "conn" THEN "yes" ELSE "no"
    [] n \in {"tcp.rtt", "tcp.total_retrans"} -> IF fd THEN "yes" ELSE "no"
    [] n \in {"tcp.segs_in", "tcp.segs_out"} -> IF fd THEN "maybe" ELSE "no"
    [] n = "tls.peer_names" -> IF kind # "server" /\ tlsready THEN "maybe" ELSE "maybe"
    [] OTHER -> "maybe"

\* ---- name syntax (spec/AttrPath.tla, property C19) ------------------------------------
AP == INSTANCE AttrPath WITH Alphabet <- {}, MaxLen <- 0, EmitVec <- FALSE, str <- <<>>, aut <- <<>>
\* "valid": inside the documented syntax; "invalid": outside it or too long; "free": nothing demanded
Syn(nb) == LET c == AP!Parse(nb, TRUE).cls IN
           IF c = "valid" THEN "valid" ELSE IF c \in {"invalid", "long"} THEN "invalid" ELSE "free"

\* ---- reads ----------------------------------------------------------------------
\* accessors: "gen" xcm_attr_get, "gen0" the same with type = NULL, "fgen" xcm_attr_getf,
\* "bool" "int64" "double" "str" "bin" the typed getters, "fstr" "fbin" xcm_attr_getf_str / _bin,
\* "fbool" "fint64" "fdouble" xcm_attr_getf_bool / _int64 / _double
Accessors == {"gen", "gen0", "fgen", "bool", "int64", "double", "str", "bin", "fstr", "fbin", "fbool", "fint64", "fdouble"}
AccType(a) == CASE a \in {"bool", "fbool"} -> TBool [] a \in {"int64", "fint64"} -> TInt [] a \in {"double", "fdouble"} -> TDouble
                [] a \in {"str", "fstr"} -> TStr [] a \in {"bin", "fbin"} -> TBin [] OTHER -> 0
\* the typed getters of the fixed-size types supply the buffer themselves
AccCap(a) == CASE a \in {"bool", "fbool"} -> 1 [] a \in {"int64", "double", "fint64", "fdouble"} -> 8 [] OTHER -> -1
CapClasses == {"0", "1", "sz-1", "sz", "sz+1", "8", "4096"}
CapOf(cc, n) == CASE cc = "0" -> 0 [] cc = "1" -> 1 [] cc = "8" -> 8 [] cc = "4096" -> 4096
                  [] cc = "sz-1" -> (IF n > 0 THEN n - 1 ELSE 0) [] cc = "sz" -> n [] cc = "sz+1" -> n + 1

\* A read of an attribute that HAS a value of type t and size n, through accessor a with a buffer of
\* cap bytes:  ret = the value's size or -1; errs = the errno values the statement admits (more than one
\* where two of its clauses apply at once); first = the one the code order gives; wmax = upper bound on
\* the bytes written.
ExpectGet(t, n, a, cap) ==
  LET at == AccType(a)
      fits == cap >= n
      wrongtype == at # 0 /\ at # t
  IN IF wrongtype
     THEN [ret |-> -1, errs |-> IF fits THEN {ENOENT} ELSE {ENOENT, EOVERFLOW}, first |-> ENOENT, wmax |-> IF fits THEN n ELSE 0]
     ELSE IF fits THEN [ret |-> n, errs |-> {}, first |-> 0, wmax |-> n]
     ELSE [ret |-> -1, errs |-> {EOVERFLOW}, first |-> EOVERFLOW, wmax |-> 0]

\* the design never lets a read write beyond the buffer, and reports the size only if all of it was written
LawWriteBound(t, n, a, cap) == LET e == ExpectGet(t, n, a, cap) IN
                                /\ e.wmax <= cap
                                /\ (e.ret >= 0 => e.ret = n /\ e.wmax = n /\ n <= cap)
LawOverflow(t, n, a, cap) == LET e == ExpectGet(t, n, a, cap) IN
                              /\ (cap < n /\ (AccType(a) \in {0, t})) => (e.ret = -1 /\ e.errs = {EOVERFLOW})
                              /\ (AccType(a) \notin {0, t}) => (e.ret = -1 /\ ENOENT \in e.errs)

\* ---- writes ----------------------------------------------------------------------
LenClasses == {"ok", "zero", "short", "long", "nonul"}
\* Length classes, per type of the value passed:
\*   fixed-size types: "ok" the size, "zero" 0, "short" size - 1, "long" size + 1
\*   strings: "ok" strlen + 1 (with the NUL), "zero" 0, "nonul" strlen (the last byte is not NUL)
\*   binaries: "ok", "zero" (an empty value)
\* is a value of type t and this length class well-formed (independent of the attribute)?
LenOk(t, lc) == lc = "ok" \/ (t = TBin /\ lc = "zero")
LenClassesOf(t) == CASE t \in {TBool, TInt, TDouble} -> {"ok", "zero", "short", "long"}
                     [] t = TStr -> {"ok", "zero", "nonul"}
                     [] OTHER -> {"ok", "zero"}
\* value classes (the harness maps (name, class) to bytes; see attr_exec.c value_for):
\*   "cur" the current value, "alt" another admissible value, "zero" 0 / 0.0, "neg" -1 / -1.0,
\*   "huge" 3000000, "kmax" 40000 (beyond what the kernel takes for the keepalive options), "junk" an
\*   inadmissible string / a binary with a NUL inside
ValClasses == {"cur", "alt", "zero", "neg", "huge", "kmax", "junk"}
ValClassesOf(t) == CASE t = TBool -> {"cur", "alt"}
                     [] t = TInt -> {"cur", "alt", "zero", "neg", "huge", "kmax"}
                     [] t = TDouble -> {"cur", "alt", "zero", "neg"}
                     [] OTHER -> {"cur", "alt", "junk"}
\* hasfd: a kernel descriptor exists, so what the kernel refuses is refused by the call itself
ValOk(n, vc, hasfd) ==
  CASE vc \in {"cur", "alt"} -> TRUE
    [] n \in {"tcp.keepalive_time", "tcp.keepalive_interval", "tcp.keepalive_count"} ->
         vc \in {"huge", "kmax"} /\ ~hasfd           \* nobody can tell yet
    [] n = "tcp.user_timeout" -> vc = "kmax"          \* 40000 s = 4 * 10^7 ms fits
    [] n \in {"dns.timeout", "tcp.connect_timeout"} -> vc = "zero"
    [] n = "ipv6.scope" -> vc \in {"zero", "huge"}
    [] n \in Names /\ Table[n].t = TBool -> vc = "zero"
    [] OTHER -> FALSE
HasFdAt(tp, life) == TcpFam(tp, life) /\ life \notin {"fresh", "connecting", "server"}

\* errno values the statement admits for xcm_attr_set(name, type ty, length class lc, value class vc) on a
\* socket (kind, tp, life); {} = the write must succeed.  syn: "valid" | "invalid" | "free" (syntax class
\* of the name, from AttrPath; "free": nothing demanded).  n = "" for a name outside the table.
SetErrnos(kind, tp, life, n, syn, ty, lc, vc) ==
  LET inTable == n \in Names
      present == inTable /\ Present(kind, tp, life, n)
  IN
  (IF ~LenOk(ty, lc) THEN {EINVAL} ELSE {})
  \cup (IF syn = "invalid" THEN {EINVAL} ELSE {})
  \cup (IF syn = "valid" /\ ~present /\ n \notin Interior THEN {ENOENT} ELSE {})
  \cup (IF n \in Interior THEN {EACCES, ENOENT} ELSE {})
  \cup (IF present /\ ~WritableAt(kind, tp, life, n) THEN {EACCES} ELSE {})
  \cup (IF present /\ IsListElem(n) THEN {ENOENT} ELSE {})          \* the list has as many elements as the certificate has names
  \cup (IF present /\ HasSetter(kind, tp, n) /\ Table[n].t # ty THEN {EINVAL} ELSE {})
  \cup (IF present /\ HasSetter(kind, tp, n) /\ Table[n].t = ty /\ LenOk(ty, lc) /\ ~ValOk(n, vc, HasFdAt(tp, life)) THEN {EINVAL} ELSE {})
  \cup (IF syn = "free" THEN {EINVAL, ENOENT, EACCES} ELSE {})

\* the order the code applies (attr_tree_set_value): length, syntax, existence, value node, writable, type, setter
SetFirst(kind, tp, life, n, syn, ty, lc, vc) ==
  LET inTable == n \in Names
      present == inTable /\ Present(kind, tp, life, n)
      lenbad == CASE ty \in {TBool, TInt, TDouble} -> lc # "ok" [] ty = TStr -> lc = "zero" [] OTHER -> FALSE
  IN IF lenbad THEN EINVAL
     ELSE IF syn = "invalid" THEN EINVAL
     ELSE IF n \in Interior THEN EACCES
     ELSE IF ~present THEN ENOENT
     ELSE IF ~HasSetter(kind, tp, n) THEN EACCES
     ELSE IF Table[n].t # ty THEN EINVAL
     ELSE IF ~WritableAt(kind, tp, life, n) THEN EACCES
     ELSE IF ~LenOk(ty, lc) \/ ~ValOk(n, vc, HasFdAt(tp, life)) THEN EINVAL
     ELSE 0

LawSetErrors(kind, tp, life, n, syn, ty, lc, vc) ==
  LET es == SetErrnos(kind, tp, life, n, syn, ty, lc, vc)
      f == SetFirst(kind, tp, life, n, syn, ty, lc, vc)
  IN /\ es \subseteq {ENOENT, EACCES, EINVAL}
     /\ (syn # "free" => ((f = 0) <=> (es = {})))
     /\ (f # 0 /\ syn # "free" => f \in es)

\* Writes through the attribute map of the creating call (life "fresh"): does a single entry (n, vc) of the
\* right type and length decide the outcome on its own?  "good": creation must succeed and the value be
\* there afterwards; "bad": creation must fail; "skip": depends on other attributes or on the environment
\* (certificate files, CRLs, address families), nothing is demanded here.
FreshDemand(kind, tp, n, vc) ==
  IF ~WritableAt(kind, tp, "fresh", n) THEN "bad"
  ELSE IF Ignored(tp, "fresh", n) THEN "skip"
  ELSE CASE n = "xcm.blocking" -> IF vc = "zero" \/ (vc = "alt" /\ ~TlsFam(tp, "fresh") /\ kind # "acc") THEN "good" ELSE "skip"
         [] n = "xcm.service" -> IF vc = "alt" THEN "good" ELSE IF vc = "junk" THEN "bad" ELSE "skip"
         [] n = "xcm.local_addr" -> IF vc = "alt" /\ tp # "tcp6" THEN "good" ELSE IF vc = "junk" THEN "bad" ELSE "skip"
         [] n \in {"tcp.keepalive"} -> IF vc \in {"zero", "alt"} THEN "good" ELSE "skip"
         [] n \in {"tcp.keepalive_time", "tcp.keepalive_interval", "tcp.keepalive_count"} ->
              IF vc = "alt" THEN "good" ELSE IF vc \in {"zero", "neg"} THEN "bad" ELSE "skip"
         [] n = "tcp.user_timeout" -> IF vc \in {"alt", "kmax"} THEN "good" ELSE IF vc \in {"zero", "neg", "huge"} THEN "bad" ELSE "skip"
         [] n = "dns.timeout" -> IF vc \in {"alt", "zero"} THEN "good" ELSE IF vc = "neg" THEN "bad" ELSE "skip"
         [] n = "tcp.connect_timeout" -> IF vc = "alt" THEN "good" ELSE IF vc = "neg" THEN "bad" ELSE "skip"
         [] n = "dns.algorithm" -> IF vc = "alt" THEN "good" ELSE IF vc = "junk" THEN "bad" ELSE "skip"
         [] n = "ipv6.scope" -> IF vc = "neg" THEN "bad" ELSE IF vc = "zero" /\ tp = "tcp6" THEN "good" ELSE "skip"
         [] n \in {"tls.client", "tls.auth", "tls.check_time"} -> IF vc \in {"zero", "alt"} THEN "good" ELSE "skip"
         [] n \in {"tls.check_crl", "tls.verify_peer_name"} -> IF vc = "zero" THEN "good" ELSE "skip"
         [] n = "tls.peer_names" -> IF vc = "junk" THEN "bad" ELSE "skip"
         [] n \in {"tls.cert_file", "tls.key_file", "tls.tc_file"} -> IF vc = "alt" THEN "good" ELSE IF vc = "junk" THEN "bad" ELSE "skip"
         [] n \in {"tls.cert", "tls.key", "tls.tc"} -> IF vc = "alt" THEN "good" ELSE IF vc = "junk" THEN "bad" ELSE "skip"
         [] n = "tls.crl" -> IF vc = "junk" THEN "bad" ELSE "skip"
         [] OTHER -> "skip"
\* after a successful write the attribute reads back as written - except where the documentation says
\* the value read is something else ("any" reads as the actual service, the local address as the bound one)
\* credentials are held either as a file name or by value: writing one form drops the other
Coupled(n) == CASE n = "tls.cert" -> {n, "tls.cert_file"} [] n = "tls.cert_file" -> {n, "tls.cert"}
                [] n = "tls.key" -> {n, "tls.key_file"} [] n = "tls.key_file" -> {n, "tls.key"}
                [] n = "tls.tc" -> {n, "tls.tc_file"} [] n = "tls.tc_file" -> {n, "tls.tc"}
                [] n = "tls.crl" -> {n, "tls.crl_file"} [] n = "tls.crl_file" -> {n, "tls.crl"}
                [] OTHER -> {n}
GasDemanded(n) == n \notin {"xcm.service", "xcm.local_addr"}

\* which property a missed refusal belongs to: creation-only attributes are C11's clause
SetTag(kind, tp, life, n) ==
  IF n \in Names /\ Present(kind, tp, life, n) /\ HasSetter(kind, tp, n) /\ Table[n].mode = "create" /\ life # "fresh"
  THEN "C11" ELSE "C10"

\* ---- part 3: values that must take effect (C11) --------------------------------------
\* the five TCP options, as xcm_attr_get must report them (want) and as the kernel must have them (kern);
\* user_timeout is in seconds in the attribute and in milliseconds in the kernel
TcpAttrs == <<"tcp.keepalive", "tcp.keepalive_time", "tcp.keepalive_interval", "tcp.keepalive_count", "tcp.user_timeout">>
TcpDefault == <<1, 1, 1, 3, 3>>
TcpIdx(n) == CHOOSE i \in 1..5 : TcpAttrs[i] = n
KernOf(w) == <<w[1], w[2], w[3], w[4], w[5] * 1000>>
NoKern == <<-1, -1, -1, -1, -1>>
TcpValOk(i, v) == IF i = 1 THEN v \in {0, 1}
                  ELSE IF i = 5 THEN v >= 1 /\ v <= 2147483
                  ELSE v >= 1 /\ v <= (IF i = 4 THEN 127 ELSE 32767)
\* what the library can check itself (a value the kernel refuses is only found out when a descriptor exists)
TcpValLibOk(i, v) == IF i = 1 THEN v \in {0, 1} ELSE IF i = 5 THEN v >= 1 /\ v <= 2147483 ELSE v >= 1

\* TLS settings that accept inherits: <<auth, check_time, verify_peer_name, client>> and the peer-name list code
TlsDefaultConn == <<1, 1, 0, 1>>
TlsDefaultSrv == <<1, 1, 0, 0>>
TlsAttrs == <<"tls.auth", "tls.check_time", "tls.verify_peer_name", "tls.client">>
TlsIdx(n) == CHOOSE i \in 1..4 : TlsAttrs[i] = n

\* state of the socket under observation (the "subject") and of the server socket it may come from
\*   ph: "init" | "server" (only a server socket so far) | "connecting" | "established" | "peer_closed" | "dead" (creation refused)
St0(tp) == [tp |-> tp, ph |-> "init", role |-> "none", want |-> TcpDefault, snap |-> TcpDefault, kern |-> NoKern,
            blk |-> 1, src |-> 0, tls |-> TlsDefaultConn, names |-> 0,
            srv |-> [up |-> FALSE, tls |-> TlsDefaultSrv, names |-> 0, blk |-> 1]]

IsTcp(tp) == tp \in {"tcp", "tls", "utls", "btcp", "btls"}
IsTls(tp) == tp \in {"tls", "utls", "btls"}
Service(tp) == IF ByteStream(tp) THEN 3 ELSE 2          \* codes: 1 "any", 2 "messaging", 3 "bytestream", 4 junk
ServiceOk(tp, code) == code = 1 \/ code = Service(tp)

\* One entry <<name, value code>> of an attribute map applied to a socket that is being created.
\* Returns [ok, st]: ok = FALSE: the entry is refused and creation fails.
MapEntry(st, kind, e) ==
  LET n == e[1]
      v == e[2]
      tp == st.tp
  IN
  CASE n \in {TcpAttrs[i] : i \in 1..5} ->
         IF kind = "server" \/ ~IsTcp(tp) THEN [ok |-> FALSE, st |-> st]
         ELSE LET i == TcpIdx(n) IN
              IF TcpValOk(i, v) THEN [ok |-> TRUE, st |-> [st EXCEPT !.want[i] = v]] ELSE [ok |-> FALSE, st |-> st]
    [] n = "xcm.blocking" -> IF kind = "server" THEN [ok |-> TRUE, st |-> [st EXCEPT !.srv.blk = v]]
                             ELSE [ok |-> TRUE, st |-> [st EXCEPT !.blk = v]]
    [] n = "xcm.service" -> [ok |-> ServiceOk(tp, v), st |-> st]
    [] n = "xcm.local_addr" -> IF kind = "conn" /\ IsTcp(tp) THEN [ok |-> TRUE, st |-> [st EXCEPT !.src = v]]
                               ELSE [ok |-> FALSE, st |-> st]
    [] n \in {TlsAttrs[i] : i \in 1..4} ->
         IF ~IsTls(tp) THEN [ok |-> FALSE, st |-> st]
         ELSE LET i == TlsIdx(n) IN
              IF kind = "server" THEN [ok |-> TRUE, st |-> [st EXCEPT !.srv.tls[i] = v]]
              ELSE [ok |-> TRUE, st |-> [st EXCEPT !.tls[i] = v]]
    [] n = "tls.peer_names" ->
         IF ~IsTls(tp) THEN [ok |-> FALSE, st |-> st]
         ELSE IF kind = "server" THEN [ok |-> TRUE, st |-> [st EXCEPT !.srv.names = v]]
         ELSE [ok |-> TRUE, st |-> [st EXCEPT !.names = v]]
    [] OTHER -> [ok |-> FALSE, st |-> st]

RECURSIVE ApplyMap(_, _, _, _)
ApplyMap(st, kind, m, i) ==
  IF i > Len(m) THEN [ok |-> TRUE, st |-> st]
  ELSE LET r == MapEntry(st, kind, m[i]) IN
       IF r.ok THEN ApplyMap(r.st, kind, m, i + 1) ELSE [ok |-> FALSE, st |-> st]

\* TLS configuration that finalize_tls_conf / enable_hostname_validation refuse (EINVAL at creation):
\* a connection: name verification without authentication or without any name; names given although
\* verification is off.  A server socket is only checked for the last one (the rest shows at accept).
TlsConfOk(t, names) ==
  /\ (t[3] = 1 => t[1] = 1 /\ names # 0)
  /\ (names # 0 => t[3] = 1)
SrvConfOk(t, names) == names # 0 => t[3] = 1
InMap(m, n) == \E i \in 1..Len(m) : m[i][1] = n
\* a map without xcm.service asks for the default service, "messaging" (set_default_attrs): a byte-stream
\* transport refuses that.  (An accepted socket's default is its server socket's service.)
DefaultServiceOk(tp, m) == InMap(m, "xcm.service") \/ ~ByteStream(tp)

\* xcm_connect_a(map); hold: the TCP handshake is kept pending, so the call returns a socket that is connecting
StepConnect(st, hold, m) ==
  LET r == ApplyMap([st EXCEPT !.role = "conn", !.blk = 1], "conn", m, 1)
      s == r.st
      good == r.ok /\ DefaultServiceOk(st.tp, m) /\ (IsTls(st.tp) => TlsConfOk(s.tls, s.names))
  IN IF ~good THEN [ok |-> FALSE, st |-> [st EXCEPT !.ph = "dead"]]
     ELSE [ok |-> TRUE,
           st |-> [s EXCEPT !.ph = IF hold THEN "connecting" ELSE "established",
                            !.snap = s.want,
                            !.kern = IF hold \/ ~IsTcp(st.tp) THEN NoKern ELSE KernOf(s.want)]]

\* xcm_server_a(map)
StepServer(st, m) ==
  LET r == ApplyMap([st EXCEPT !.srv.blk = 1], "server", m, 1)
      s == r.st
      good == r.ok /\ DefaultServiceOk(st.tp, m) /\ (IsTls(st.tp) => SrvConfOk(s.srv.tls, s.srv.names))
  IN IF ~good THEN [ok |-> FALSE, st |-> [st EXCEPT !.ph = "dead"]]
     ELSE [ok |-> TRUE, st |-> [s EXCEPT !.ph = "server", !.srv.up = TRUE]]

\* xcm_accept_a(server, map) with a client waiting: the new socket starts from the server socket's
\* inheritable values, the map overrides; inherited names are dropped when verification is switched off
StepAccept(st, m) ==
  LET base == [st EXCEPT !.role = "acc", !.blk = st.srv.blk, !.tls = st.srv.tls, !.names = st.srv.names,
                         !.want = TcpDefault]
      r == ApplyMap(base, "acc", m, 1)
      s0 == r.st
      s == IF s0.tls[3] = 0 /\ ~InMap(m, "tls.peer_names") THEN [s0 EXCEPT !.names = 0] ELSE s0
      good == r.ok /\ (IsTls(st.tp) => TlsConfOk(s.tls, s.names))
  IN IF ~good THEN [ok |-> FALSE, st |-> st]          \* the server socket lives on, nothing was accepted
     ELSE [ok |-> TRUE, st |-> [s EXCEPT !.ph = "established", !.snap = s.want,
                                         !.kern = IF IsTcp(st.tp) THEN KernOf(s.want) ELSE NoKern]]

HasFd(st) == st.ph \in {"established", "peer_closed"} /\ IsTcp(st.tp)

\* xcm_attr_set of one of the five TCP options on the subject
StepSetTcp(st, i, v) ==
  LET ok == IF HasFd(st) THEN TcpValOk(i, v) ELSE TcpValLibOk(i, v) IN
  IF ~IsTcp(st.tp) THEN [ret |-> -1, errs |-> {ENOENT}, st |-> st]
  ELSE IF ~ok THEN [ret |-> -1, errs |-> {EINVAL}, st |-> st]
  ELSE [ret |-> 0, errs |-> {},
        st |-> [st EXCEPT !.want[i] = v, !.kern = IF HasFd(st) THEN KernOf([st.want EXCEPT ![i] = v]) ELSE @]]

\* the pending TCP handshake completes and the library notices: every value accepted meanwhile is now in force
StepEstablish(st) == [st EXCEPT !.ph = "established", !.kern = KernOf(st.want), !.snap = st.want]

StepPeerClose(st) == [st EXCEPT !.ph = "peer_closed"]

\* xcm.blocking written as an attribute or through xcm_set_blocking: the same switch
StepSetBlocking(st, v) == [st EXCEPT !.blk = v]

\* a write to a creation-only attribute after creation: EACCES, nothing changes
StepSetCreationOnly(st) == [ret |-> -1, errs |-> {EACCES}, st |-> st]

\* ---- the properties on a state ---------------------------------------------------------
InForce(st) == HasFd(st) => st.kern = KernOf(st.want)
=============================================================================
