\* liveness: with the server polled fairly and clients reading, answerable requests of accepted sessions are answered
SPECIFICATION FairSpec
CONSTANTS
  Sess = {1, 2, 3}
  Kinds = {"get", "all", "bad"}
  MaxClients = 2
  BacklogCap = 3
  MaxReq = 2
  MaxTotal = 2
  MaxApp = 0
  Dev = {}
VIEW View
PROPERTY Answered
CHECK_DEADLOCK FALSE
