SPECIFICATION TSpec
CONSTANTS
  Fds = {1, 2, 3}
  MaxOps = 0
  EmitPaths = "none"
  Broken = "none"
POSTCONDITION Accepted
CHECK_DEADLOCK FALSE
