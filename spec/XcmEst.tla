------------------------------- MODULE XcmEst -------------------------------
(***************************************************************************)
(* Establishment of one connection, seen from the application.             *)
(*                                                                         *)
(* A connecting socket runs through the phases of xcm_tp_btcp.c /          *)
(* tconnect.c / xcm_tp_btls.c:                                             *)
(*    conn  (TCP or AF_UNIX connect in progress; tconnect registers the    *)
(*           kernel descriptor for EPOLLOUT and a timerfd for               *)
(*           tcp.connect_timeout)                                          *)
(*    hs    (TLS handshake; the kernel descriptor is registered for what   *)
(*           OpenSSL last asked for - ssl_wants)                            *)
(*    ready | closed | bad(errno)                                          *)
(* A server socket has an accept queue.  The environment (kernel, peer,    *)
(* timer) makes events available; the library only notices them inside an *)
(* API call.  The application follows the documented protocol: it calls    *)
(* the library only when xcm_fd is readable.                               *)
(*                                                                         *)
(* Safety  (C04, C16): an event the library has not processed yet makes    *)
(*         the descriptor readable; with nothing to process it is quiet.   *)
(* Liveness (C04): every attempt eventually reports established or its     *)
(*         errno; every pending connection is eventually accepted.         *)
(* Non-blocking (C05): every API call is ONE action - there is no state    *)
(*         "inside a call" in which the thread waits for the environment.  *)
(***************************************************************************)
EXTENDS Integers, Sequences, TLC

CONSTANTS Tls,        \* TRUE: a TLS handshake follows the TCP connect
          Peer,       \* what the remote address does: "accept" | "refuse" | "silent" | "late" | "mute" | "garbage"
          Broken      \* "none" | "no_timer" (the connect timeout is not armed) | "hs_no_in" (handshake waits for writability only)

NONE == 0  UP == 1
EAGAIN == 11  ECONNREFUSED == 111  ETIMEDOUT == 110  EPROTO == 71  ECONNRESET == 104  EPIPE == 32

VARIABLES ph,       \* phase of the connecting socket
          why,      \* errno once bad
          kev,      \* event the kernel holds for the socket that the library has not consumed:
                    \* "none" | "up" | "refused" | "data" (handshake bytes) | "garbage" | "eof"
          timer,    \* "off" | "armed" | "fired"
          wants,    \* hs phase: "r" | "w": what OpenSSL asked for last
          peerst,   \* environment: "idle" | "answered" | "closed"
          rep,      \* what the application has been told: NONE | UP | errno
          backlog,  \* server side: connections waiting in the accept queue
          accepted  \* server side: connections handed to the application

vars == <<ph, why, kev, timer, wants, peerst, rep, backlog, accepted>>

Init == /\ ph = "conn" /\ why = 0 /\ kev = "none"
        /\ timer = IF Broken = "no_timer" THEN "off" ELSE "armed"
        /\ wants = "r" /\ peerst = "idle" /\ rep = NONE /\ backlog = 0 /\ accepted = 0

\* ---- readiness of the connecting socket's descriptor (transcribed registrations) ----
ConnReadable ==
  CASE ph = "conn"  -> kev \in {"up", "refused"} \/ timer = "fired"      \* EPOLLOUT / EPOLLERR on the socket, or the timerfd
    [] ph = "hs"    -> IF wants = "r" /\ Broken # "hs_no_in" THEN kev \in {"data", "garbage", "eof"} ELSE FALSE
    [] ph = "ready" -> kev \in {"data", "eof"}                              \* application awaits RECEIVABLE
    [] OTHER        -> TRUE                                                 \* closed / bad: the bell rings
ServerReadable == backlog > 0     \* the application awaits ACCEPTABLE

\* ---- environment ------------------------------------------------------------
EnvAnswer ==      \* the remote end reacts to the SYN
  /\ ph = "conn" /\ kev = "none" /\ peerst = "idle" /\ Peer \in {"accept", "refuse", "late", "mute", "garbage"}
  /\ kev' = (IF Peer = "refuse" THEN "refused" ELSE "up")
  /\ peerst' = "answered"
  /\ backlog' = IF Peer \in {"accept", "late"} THEN backlog + 1 ELSE backlog
  /\ UNCHANGED <<ph, why, timer, wants, rep, accepted>>
EnvTimer ==       \* tcp.connect_timeout expires (never before the late peer answers in the "late" case - the harness keeps it that way)
  /\ ph = "conn" /\ timer = "armed" /\ Peer = "silent"
  /\ timer' = "fired"
  /\ UNCHANGED <<ph, why, kev, wants, peerst, rep, backlog, accepted>>
EnvHs ==          \* the peer's handshake flight (or garbage) arrives
  /\ ph = "hs" /\ kev = "none" /\ peerst = "answered" /\ Peer \in {"accept", "late", "garbage"}
  /\ kev' = (IF Peer = "garbage" THEN "garbage" ELSE "data")
  /\ UNCHANGED <<ph, why, timer, wants, peerst, rep, backlog, accepted>>
EnvClose ==       \* a mute peer eventually gives up
  /\ ph \in {"hs", "ready"} /\ kev = "none" /\ peerst = "answered" /\ Peer = "mute"
  /\ kev' = "eof" /\ peerst' = "closed"
  /\ UNCHANGED <<ph, why, timer, wants, rep, backlog, accepted>>

\* ---- the library, inside one API call (finish / send / receive): try_establish + handshake ----
\* returns the new phase; consumes the kernel event
Progress ==
  CASE ph = "conn" /\ kev = "up"       -> [ph |-> IF Tls THEN "hs" ELSE "ready", why |-> 0, kev |-> "none"]
    [] ph = "conn" /\ kev = "refused"  -> [ph |-> "bad", why |-> ECONNREFUSED, kev |-> "none"]
    [] ph = "conn" /\ timer = "fired"  -> [ph |-> "bad", why |-> ETIMEDOUT, kev |-> kev]
    [] ph = "hs" /\ kev = "data"       -> [ph |-> "ready", why |-> 0, kev |-> "none"]
    [] ph = "hs" /\ kev = "garbage"    -> [ph |-> "bad", why |-> EPROTO, kev |-> "none"]
    [] ph = "hs" /\ kev = "eof"        -> [ph |-> "bad", why |-> ECONNRESET, kev |-> "none"]   \* envelope: closed or an errno
    [] OTHER                           -> [ph |-> ph, why |-> why, kev |-> kev]

Result(p) == CASE p.ph = "ready"  -> UP
               [] p.ph = "bad"    -> p.why
               [] p.ph = "closed" -> EPIPE
               [] OTHER           -> EAGAIN

\* one API call of the event-loop application: only when the descriptor is readable (documented protocol)
AppCall ==
  /\ ConnReadable /\ rep = NONE
  /\ LET p == Progress IN
     /\ ph' = p.ph /\ why' = p.why /\ kev' = p.kev
     /\ rep' = (IF Result(p) = EAGAIN THEN NONE ELSE Result(p))
  /\ UNCHANGED <<timer, wants, peerst, backlog, accepted>>

\* an application may also call at any other time (C05: such a call returns at once, EAGAIN or the outcome)
SpuriousCall ==
  /\ ~ConnReadable /\ rep = NONE
  /\ LET p == Progress IN
     /\ ph' = p.ph /\ why' = p.why /\ kev' = p.kev
     /\ rep' = (IF Result(p) = EAGAIN THEN NONE ELSE Result(p))
  /\ UNCHANGED <<timer, wants, peerst, backlog, accepted>>

Accept ==
  /\ ServerReadable
  /\ backlog' = backlog - 1 /\ accepted' = accepted + 1
  /\ UNCHANGED <<ph, why, kev, timer, wants, peerst, rep>>

Next == EnvAnswer \/ EnvTimer \/ EnvHs \/ EnvClose \/ AppCall \/ SpuriousCall \/ Accept
Spec == Init /\ [][Next]_vars
FairSpec == Spec /\ WF_vars(EnvAnswer) /\ WF_vars(EnvTimer) /\ WF_vars(EnvHs) /\ WF_vars(EnvClose)
                 /\ WF_vars(AppCall) /\ WF_vars(Accept)

(***************************************************************************)
(* Properties                                                              *)
(***************************************************************************)
\* something the library could act on is waiting: the descriptor must be readable
Owed == \/ (ph = "conn" /\ (kev \in {"up", "refused"} \/ timer = "fired"))
        \/ (ph = "hs" /\ kev \in {"data", "garbage", "eof"})
        \/ ph \in {"bad", "closed"}
NoLostWakeup == (rep = NONE /\ Owed) => ConnReadable
\* nothing to do: quiet (an event loop does not spin)
Quiet == (ph \in {"conn", "hs"} /\ kev = "none" /\ timer # "fired") => ~ConnReadable
ServerQuiet == backlog = 0 => ~ServerReadable
\* the outcome the application is told is the one the environment determines
Outcome == /\ (rep = UP => (Peer \in {"accept", "late"} \/ ~Tls))
           /\ (rep = ECONNREFUSED => Peer = "refuse")
           /\ (rep = ETIMEDOUT => Peer = "silent")
           /\ (rep = EPROTO => Peer = "garbage")

\* the errno the documentation promises for each behaviour of the remote address (used by XcmEstTrace)
Promised(peer) == CASE peer = "refuse" -> ECONNREFUSED [] peer = "silent" -> ETIMEDOUT [] peer = "garbage" -> EPROTO [] OTHER -> 0
\* every attempt is eventually reported; every pending connection eventually accepted
Reported == <>(rep # NONE)
AllAccepted == (Peer \in {"accept", "late"}) => <>(accepted = 1)
=============================================================================
