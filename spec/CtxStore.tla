------------------------------ MODULE CtxStore ------------------------------
(***************************************************************************)
(* C18 - each TLS connection uses the credentials designated at that moment*)
(*                                                                         *)
(* Bounded model of libxcm/tp/tls/ctx_store.c + the designation rules of   *)
(* xcm_tp_btls.c (finalize_tls_conf / inherit_tls_conf).                   *)
(*                                                                         *)
(*   fs      the credential files (content token + stamp), the directory   *)
(*           link L and the per-file links in F            (CtxCore)       *)
(*   env     XCM_TLS_CERT                                                  *)
(*   socks   per socket: state, kind, what was designated, the resolved    *)
(*           designation, the cache entry it holds and - ghost - the       *)
(*           material it runs on                                           *)
(*   cache   set of entries [key, mat, use]                                *)
(*   ld      per thread: position in ctx_store_get_ctx's                   *)
(*           hash -> look up -> load item by item -> re-hash -> install    *)
(*           loop (pc, key of the first hash, data loaded so far, number   *)
(*           of files read) and - ghost - every material snapshot the      *)
(*           designation denoted while the call was in progress            *)
(*   lock    the cache mutex (0 = free)                                    *)
(*                                                                         *)
(* File updates and environment changes interleave with every step of the  *)
(* loop.  An ordinary update gives the file a new stamp.  Named deviations *)
(* (constant Dev), excluded from the property run:                         *)
(*   ctx_meta_key       an update that keeps the stamp (the key is meta-   *)
(*                      data, not content)                                 *)
(*   aba_load           the directory link is flipped away and back while  *)
(*                      one load is in progress (both hashes see the same  *)
(*                      metadata)                                          *)
(*   accept_env_frozen  an accepted connection inherits the server         *)
(*                      socket's RESOLVED file names (the directory of     *)
(*                      xcm_server time) instead of consulting             *)
(*                      XCM_TLS_CERT at xcm_accept time                    *)
(*                                                                         *)
(* The ghost variable path (hidden by the VIEW) is the replay script for   *)
(* harness/creds_exec: one entry per API call / update; an update made     *)
(* while a call is in progress carries its position in the loop as         *)
(* (number of credential files read so far, kind of the next access).      *)
(***************************************************************************)
EXTENDS CtxCore, Json

CONSTANTS Socks,         \* socket ids, e.g. {1, 2, 3}
          Threads,       \* calling threads, e.g. {1} or {1, 2}
          ConnProfiles,  \* names of the configurations xcm_connect_a may be given
          ServProfiles,  \*   "      xcm_server_a
          AccOverrides,  \* names of the attribute maps xcm_accept_a may be given
          UpdKinds,      \* subset of {"put", "pair", "bad", "flipL", "flipF", "env", "same"}
          UpdDirs, UpdItems, BadKinds, EnvSet,
          MaxUpd, MaxOpens, MaxEnv,
          Dev,           \* named deviations switched on
          EmitPaths      \* "none" | "ret" (a replay path for every completed call / close)

VARIABLES fs, env, socks, cache, ld, lock, cnt, path
vars == <<fs, env, socks, cache, ld, lock, cnt, path>>
view == <<fs, env, socks, cache, ld, lock, cnt>>

\* ---- configurations --------------------------------------------------------------
F1 == DFile("d1")
F2 == DFile("d2")
Prof(n) ==
  CASE n = "def"     -> Des4(DDef, DDef, DDef, DOff)
    [] n = "defcrl"  -> Des4(DDef, DDef, DDef, DDef)
    [] n = "noauth"  -> Des4(DDef, DDef, DOff, DOff)
    [] n = "f1"      -> Des4(F1, F1, F1, DOff)
    [] n = "f2"      -> Des4(F2, F2, F2, DOff)
    [] n = "fL"      -> Des4(DFile("L"), DFile("L"), DFile("L"), DOff)
    [] n = "fF"      -> Des4(DFile("F"), DFile("F"), DFile("F"), DOff)
    [] n = "f1tc2"   -> Des4(F1, F1, F2, DOff)
    [] n = "f1crl1"  -> Des4(F1, F1, F1, F1)
    [] n = "f1crl2"  -> Des4(F1, F1, F1, F2)
    [] n = "f1crld"  -> Des4(F1, F1, F1, DDef)
    [] n = "v1"      -> Des4(DVal("cA1"), DVal("kA1"), DVal("tA"), DOff)
    [] n = "v2"      -> Des4(DVal("cA2"), DVal("kA2"), DVal("tB"), DOff)
    [] n = "v1tB"    -> Des4(DVal("cA1"), DVal("kA1"), DVal("tB"), DOff)
    [] n = "v1crlE"  -> Des4(DVal("cA1"), DVal("kA1"), DVal("tA"), DVal("rE"))
    [] n = "v1crlP"  -> Des4(DVal("cA1"), DVal("kA1"), DVal("tA"), DVal("rP"))
    [] n = "vf"      -> Des4(DVal("cA1"), DVal("kA1"), DDef, DOff)
    [] n = "fv"      -> Des4(F1, F1, DVal("tB"), DOff)
    [] n = "dv"      -> Des4(DDef, DDef, DVal("tAB"), DOff)
    [] n = "vbad"    -> Des4(DVal("bad"), DVal("kA1"), DVal("tA"), DOff)
    [] n = "vmis"    -> Des4(DVal("cA1"), DVal("kA2"), DVal("tA"), DOff)
    [] n = "fnx"     -> Des4(DFile("nx"), F1, F1, DOff)
Ovr(n) ==
  CASE n = "none"    -> Des4(DInh, DInh, DInh, DInh)
    [] n = "cf2"     -> Des4(F2, F2, DInh, DInh)                       \* other files for this connection
    [] n = "cf1"     -> Des4(F1, F1, DInh, DInh)
    [] n = "cv2"     -> Des4(DVal("cA2"), DVal("kA2"), DInh, DInh)     \* by value over whatever the server has
    [] n = "cv3"     -> Des4(DVal("cA3"), DVal("kA3"), DInh, DInh)
    [] n = "tcv"     -> Des4(DInh, DInh, DVal("tB"), DInh)
    [] n = "tcf2"    -> Des4(DInh, DInh, F2, DInh)
    [] n = "allf2"   -> Des4(F2, F2, F2, DInh)

NextTok(it, c) ==
  CASE it = "cert" -> (CASE c = "cA1" -> "cA2" [] c = "cA2" -> "cA3" [] OTHER -> "cA1")
    [] it = "key"  -> (CASE c = "kA1" -> "kA2" [] c = "kA2" -> "kA3" [] OTHER -> "kA1")
    [] it = "tc"   -> (CASE c = "tA" -> "tB" [] c = "tB" -> "tAB" [] OTHER -> "tA")
    [] it = "crl"  -> (CASE c = "rE" -> "rP" [] OTHER -> "rE")

\* ---- initial state: two directories holding two generations ------------------------
Gen(d, it) == IF d = "d1"
              THEN (CASE it = "cert" -> "cA1" [] it = "key" -> "kA1" [] it = "tc" -> "tA" [] it = "crl" -> "rE")
              ELSE (CASE it = "cert" -> "cA2" [] it = "key" -> "kA2" [] it = "tc" -> "tB" [] it = "crl" -> "rP")
InitPuts == <<<<"d1", "cert">>, <<"d1", "key">>, <<"d1", "tc">>, <<"d1", "crl">>,
              <<"d2", "cert">>, <<"d2", "key">>, <<"d2", "tc">>, <<"d2", "crl">>>>
RECURSIVE PutAll(_, _)
PutAll(f, i) == IF i > Len(InitPuts) THEN f
                ELSE PutAll(FsPut(f, InitPuts[i][1], "", InitPuts[i][2], Gen(InitPuts[i][1], InitPuts[i][2])), i + 1)
FsInit == LET f == PutAll(Fs0, 1)
              g == FsFlipF(FsFlipF(FsFlipF(FsFlipF(f, "cert", "d1"), "key", "d1"), "tc", "d1"), "crl", "d1")
          IN g

\* the same, as the first steps of every replay script
NoPos == [k |-> -1, m |-> ""]
InitPath == [i \in 1..Len(InitPuts) |-> [a |-> "put", d |-> InitPuts[i][1], it |-> InitPuts[i][2],
                                          c |-> Gen(InitPuts[i][1], InitPuts[i][2]), how |-> "rename", pos |-> NoPos]]
            \o <<[a |-> "flipL", d |-> "d1", pos |-> NoPos]>>
            \o [i \in 1..4 |-> [a |-> "flipF", it |-> Items[i], d |-> "d1", pos |-> NoPos]]
            \o <<[a |-> "env", d |-> "d1", pos |-> NoPos]>>

NoKey == <<>>
Sock0 == [st |-> "closed", kind |-> "", par |-> 0, des |-> Unresolved(Des4(DOff, DOff, DOff, DOff)),
          res |-> Unresolved(Des4(DOff, DOff, DOff, DOff)), ent |-> NoKey, mat |-> NoMat, fresh |-> TRUE, err |-> ""]
Ld0 == [pc |-> "idle", s |-> 0, res |-> Sock0.res, ires |-> Sock0.res, h1 |-> NoKey, data |-> NoMat, i |-> 1, nf |-> 0,
        snaps |-> {}, dirty |-> FALSE,
        tr |-> 0]     \* deviation retry_bound only: load attempts of this call that ended with changed files

Init == /\ fs = FsInit
        /\ env = "d1"
        /\ socks = [s \in Socks |-> Sock0]
        /\ cache = {}
        /\ ld = [t \in Threads |-> Ld0]
        /\ lock = 0
        /\ cnt = [upd |-> 0, opens |-> 0, env |-> 0]
        /\ path = <<>>

Active(t) == ld[t].pc # "idle"
\* first index >= i of an item designated by file (5: none)
NextFile(res, i) == LET c == {j \in i..4 : res[Items[j]].t = "file"} IN
                    IF c = {} THEN 5 ELSE CHOOSE j \in c : \A k \in c : j <= k

\* ---- xcm_connect_a / xcm_server_a / xcm_accept_a: finalize the configuration, then ctx_store_get_ctx ------
Begin(t, s, kind, par, name) ==
  LET attrs == IF kind = "accept" THEN Ovr(name) ELSE Prof(name)
      pdes == IF "accept_env_frozen" \in Dev THEN socks[par].res ELSE socks[par].des
      des == IF kind = "accept" THEN Inherit(attrs, pdes) ELSE Unresolved(attrs)
      res == ResolveR(des, env, "")
      \* what the property demands: the server socket's word, the environment as it stands NOW
      ires == IF kind = "accept" THEN ResolveR(Inherit(attrs, socks[par].des), env, "") ELSE res
  IN /\ UNCHANGED <<fs, env, cache, lock>>
     /\ ~Active(t) /\ socks[s].st = "closed" /\ cnt.opens < MaxOpens
     /\ (kind = "accept") => (par \in Socks /\ socks[par].st = "open" /\ socks[par].kind = "server")
     /\ (kind # "accept") => par = 0
     /\ socks' = [socks EXCEPT ![s] = [Sock0 EXCEPT !.st = "opening", !.kind = kind, !.par = par, !.des = des, !.res = res]]
     /\ ld' = [ld EXCEPT ![t] = [Ld0 EXCEPT !.pc = "lock", !.s = s, !.res = res, !.ires = ires, !.snaps = {Mat(fs, ires)}]]
     /\ cnt' = [cnt EXCEPT !.opens = @ + 1]
     /\ path' = Append(path, [a |-> "open", s |-> s, k |-> kind, p |-> par, c |-> name, t |-> t,
                              at |-> <<attrs.cert, attrs.key, attrs.tc, attrs.crl>>])

Acquire(t) ==
  /\ UNCHANGED <<fs, env, socks, cache, cnt, path>>
  /\ ld[t].pc = "lock" /\ lock = 0
  /\ lock' = t
  /\ ld' = [ld EXCEPT ![t].pc = "hash1"]

\* the call returns: ok with an entry, or -1 / EPROTO
Finish(t, ok, key, m) ==
  LET s == ld[t].s
      good == {x \in ld[t].snaps : LoadOk(x)}
      fresh == IF ok THEN m \in good ELSE good # ld[t].snaps
  IN /\ socks' = [socks EXCEPT ![s] = IF ok THEN [@ EXCEPT !.st = "open", !.ent = key, !.mat = m, !.fresh = fresh]
                                      ELSE [@ EXCEPT !.st = "closed", !.err = "EPROTO", !.fresh = fresh]]
     /\ ld' = [ld EXCEPT ![t] = Ld0]
     /\ lock' = 0
     /\ path' = Append(path, [a |-> "ret", s |-> s, ok |-> ok])

Hash1(t) ==
  /\ UNCHANGED <<fs, env, cnt>>
  /\ ld[t].pc = "hash1" /\ lock = t
  /\ IF HashFails(fs, ld[t].res)
     THEN Finish(t, FALSE, NoKey, NoMat) /\ UNCHANGED cache
     ELSE /\ ld' = [ld EXCEPT ![t].pc = "lookup", ![t].h1 = KeyOf(fs, ld[t].res), ![t].dirty = FALSE]
          /\ UNCHANGED <<socks, cache, lock, path>>

Lookup(t) ==
  /\ UNCHANGED <<fs, env, cnt>>
  /\ ld[t].pc = "lookup" /\ lock = t
  /\ IF \E e \in cache : e.key = ld[t].h1
     THEN LET e == CHOOSE x \in cache : x.key = ld[t].h1 IN
          /\ cache' = (cache \ {e}) \cup {[e EXCEPT !.use = @ + 1]}
          /\ Finish(t, TRUE, e.key, e.mat)
     ELSE /\ ld' = [ld EXCEPT ![t].pc = IF NextFile(ld[t].res, 1) = 5 THEN "install" ELSE "load",
                              ![t].i = NextFile(ld[t].res, 1),
                              ![t].data = [it \in ItemSet |-> IF ld[t].res[it].t = "file" THEN "" ELSE Mat1(fs, ld[t].res[it], it)]]
          /\ UNCHANGED <<socks, cache, lock, path>>

\* item_load of the next item designated by file
Load(t) ==
  LET it == Items[ld[t].i]
      c == Cont(fs, ld[t].res[it], it)
      j == NextFile(ld[t].res, ld[t].i + 1)
  IN /\ UNCHANGED <<fs, env, cnt>>
     /\ ld[t].pc = "load" /\ lock = t
     /\ IF c \in Unreadable
        THEN Finish(t, FALSE, NoKey, NoMat) /\ UNCHANGED cache
        ELSE /\ ld' = [ld EXCEPT ![t].data[it] = c, ![t].i = j, ![t].nf = @ + 1,
                                 ![t].pc = IF j = 5 THEN "hash2" ELSE "load"]
             /\ UNCHANGED <<socks, cache, lock, path>>

RetryBound == 3
\* "retry if the files changed during the process"
Hash2(t) ==
  /\ UNCHANGED <<fs, env, cnt>>
  /\ ld[t].pc = "hash2" /\ lock = t
  /\ IF HashFails(fs, ld[t].res)
     THEN Finish(t, FALSE, NoKey, NoMat) /\ UNCHANGED cache
     ELSE LET changed == KeyOf(fs, ld[t].res) # ld[t].h1
              \* NAMED DEVIATION retry_bound (a vacuity guard, not a property of the code): the loop is bounded, and when
              \* the last attempt still saw a change, what it read is installed under the key computed AFTER the read
              giveup == "retry_bound" \in Dev /\ changed /\ ld[t].tr + 1 >= RetryBound
          IN
          /\ ld' = [ld EXCEPT ![t].pc = IF ~changed \/ giveup THEN "install" ELSE "lookup",
                              ![t].h1 = KeyOf(fs, ld[t].res), ![t].dirty = FALSE,
                              ![t].tr = IF "retry_bound" \in Dev /\ changed THEN @ + 1 ELSE @]
          /\ UNCHANGED <<socks, cache, lock, path>>

Install(t) ==
  LET m == ld[t].data IN
  /\ UNCHANGED <<fs, env, cnt>>
  /\ ld[t].pc = "install" /\ lock = t
  /\ IF ~LoadOk(m)
     THEN Finish(t, FALSE, NoKey, NoMat) /\ UNCHANGED cache
     ELSE /\ cache' = cache \cup {[key |-> ld[t].h1, mat |-> m, use |-> 1, mixed |-> m \notin ld[t].snaps]}
          /\ Finish(t, TRUE, ld[t].h1, m)

\* xcm_close: ctx_store_put
Close(s) ==
  LET e == CHOOSE x \in cache : x.key = socks[s].ent IN
  /\ UNCHANGED <<fs, env, ld, lock, cnt>>
  /\ socks[s].st = "open"
  /\ \A t \in Threads : ~Active(t) \/ ld[t].pc = "lock"      \* the mutex: no put while a get holds it
  /\ cache' = IF e.use = 1 THEN cache \ {e} ELSE (cache \ {e}) \cup {[e EXCEPT !.use = @ - 1]}
  /\ socks' = [socks EXCEPT ![s] = Sock0]
  /\ path' = Append(path, [a |-> "close", s |-> s])

\* ---- the environment: file updates, link flips, XCM_TLS_CERT -------------------------
\* where, inside the call in progress, the harness has to place the update: after k credential files
\* have been opened, at the next fopen ("fopen") or at the next access of any kind ("any")
Pos == LET act == {t \in Threads : Active(t) /\ lock = t}
           t == CHOOSE x \in act : TRUE
       IN IF act = {} THEN (IF \E x \in Threads : Active(x) THEN [k |-> 0, m |-> "any"] ELSE [k |-> -1, m |-> ""])
          ELSE CASE ld[t].pc \in {"hash1"} -> [k |-> 0, m |-> "any"]
                 [] ld[t].pc \in {"lookup", "load"} -> [k |-> ld[t].nf, m |-> "fopen"]
                 [] ld[t].pc = "hash2" -> [k |-> ld[t].nf, m |-> "any"]
                 [] OTHER -> [k |-> ld[t].nf, m |-> "never"]

MidLoad(t) == ld[t].pc \in {"lookup", "load", "hash2"}
\* the second hash would see the metadata of the first although something else was loaded in between
Aba(f2) == \E t \in Threads : MidLoad(t) /\ ld[t].dirty /\ ~HashFails(f2, ld[t].res) /\ KeyOf(f2, ld[t].res) = ld[t].h1

FsStep(f2, step) ==
  /\ UNCHANGED <<env, socks, cache, lock>>
  /\ cnt.upd < MaxUpd
  /\ "aba_load" \in Dev \/ ~Aba(f2)
  /\ fs' = f2
  /\ ld' = [t \in Threads |-> IF Active(t)
                              THEN [ld[t] EXCEPT !.snaps = @ \cup {Mat(f2, ld[t].ires)},
                                                 !.dirty = @ \/ (MidLoad(t) /\ (HashFails(f2, ld[t].res) \/ KeyOf(f2, ld[t].res) # ld[t].h1))]
                              ELSE ld[t]]
  /\ cnt' = [cnt EXCEPT !.upd = @ + 1]
  /\ path' = Append(path, step @@ [pos |-> Pos])

Cur(d, it) == fs.files[<<d, "", it>>].c
Put(d, it, how) ==
  /\ "put" \in UpdKinds
  /\ FsStep(FsPut(fs, d, "", it, NextTok(it, Cur(d, it))),
            [a |-> "put", d |-> d, it |-> it, c |-> NextTok(it, Cur(d, it)), how |-> how])
\* a new leaf with its key (two files; between the two writes nothing else happens)
PutPair(d) ==
  LET c == NextTok("cert", Cur(d, "cert")) IN
  /\ "pair" \in UpdKinds
  /\ FsStep(FsPut(FsPut(fs, d, "", "cert", c), d, "", "key", KeyFor(c)), [a |-> "pair", d |-> d, c |-> c])
PutBad(d, it, b) ==
  /\ "bad" \in UpdKinds /\ Cur(d, it) # b
  /\ FsStep(FsPut(fs, d, "", it, b), [a |-> "put", d |-> d, it |-> it, c |-> b, how |-> "inplace"])
PutSame(d, it) ==
  /\ "same" \in UpdKinds /\ "ctx_meta_key" \in Dev
  /\ FsStep(FsPutSame(fs, d, "", it, NextTok(it, Cur(d, it))),
            [a |-> "put", d |-> d, it |-> it, c |-> NextTok(it, Cur(d, it)), how |-> "same"])
FlipL ==
  /\ "flipL" \in UpdKinds
  /\ FsStep(FsFlipL(fs, OtherDir(fs.link)), [a |-> "flipL", d |-> OtherDir(fs.link)])
FlipF(it) ==
  /\ "flipF" \in UpdKinds
  /\ FsStep(FsFlipF(fs, it, OtherDir(fs.fl[it].to)), [a |-> "flipF", it |-> it, d |-> OtherDir(fs.fl[it].to)])
SetEnv(d) ==
  /\ UNCHANGED <<fs, socks, cache, ld, lock>>
  /\ "env" \in UpdKinds /\ d # env /\ cnt.env < MaxEnv
  /\ env' = d
  /\ cnt' = [cnt EXCEPT !.env = @ + 1]
  /\ path' = Append(path, [a |-> "env", d |-> d, pos |-> Pos])

Next ==
  \/ \E t \in Threads, s \in Socks :
        \/ \E n \in ConnProfiles : Begin(t, s, "connect", 0, n)
        \/ \E n \in ServProfiles : Begin(t, s, "server", 0, n)
        \/ \E p \in Socks, n \in AccOverrides : Begin(t, s, "accept", p, n)
  \/ \E t \in Threads : Acquire(t) \/ Hash1(t) \/ Lookup(t) \/ Load(t) \/ Hash2(t) \/ Install(t)
  \/ \E s \in Socks : Close(s)
  \/ \E d \in UpdDirs, it \in UpdItems : Put(d, it, "inplace") \/ Put(d, it, "rename") \/ PutSame(d, it)
  \/ \E d \in UpdDirs : PutPair(d)
  \/ \E d \in UpdDirs, it \in UpdItems, b \in BadKinds : PutBad(d, it, b)
  \/ FlipL
  \/ \E it \in UpdItems : FlipF(it)
  \/ \E d \in EnvSet : SetEnv(d)

Spec == Init /\ [][Next]_vars

\* ---- the properties ---------------------------------------------------------------------
Open(s) == socks[s].st = "open"
\* the material of a new connection / server socket is what its designation denoted at some moment of the call
\* (exactly the moment of the call when nothing changed meanwhile) ...
Fresh == \A s \in Socks : Open(s) => socks[s].fresh
\* ... and the call fails (EPROTO) only when what was designated was unreadable, malformed or mismatching
Eproto == \A s \in Socks : (socks[s].st = "closed" /\ socks[s].err = "EPROTO") => socks[s].fresh
\* every entry consists of ONE snapshot of its configuration
NoMix == \A e \in cache : ~e.mixed
\* sockets sharing an entry are configured with the same material; one entry per key
Distinct == /\ \A s, t \in Socks : (Open(s) /\ Open(t) /\ socks[s].ent = socks[t].ent) => socks[s].mat = socks[t].mat
            /\ \A e1, e2 \in cache : e1.key = e2.key => e1 = e2
\* an entry lives exactly as long as it has users
Released == /\ \A e \in cache : e.use >= 1 /\ e.use = Cardinality({s \in Socks : Open(s) /\ socks[s].ent = e.key})
            /\ \A s \in Socks : Open(s) => \E e \in cache : e.key = socks[s].ent /\ e.mat = socks[s].mat
            /\ ((\A s \in Socks : socks[s].st = "closed") => cache = {})
Mutex == \A t \in Threads : ld[t].pc \in {"hash1", "lookup", "load", "hash2", "install"} => lock = t
\* nothing that happens later changes what an established connection runs on
EstablishedUnaffected ==
  [][\A s \in Socks : (socks[s].st = "open" /\ socks'[s].st = "open") =>
        (socks'[s].mat = socks[s].mat /\ socks'[s].ent = socks[s].ent)]_vars

\* deviation runs: print the history that breaks the property, then fail
CE(name, ok) == ok \/ (PrintT(<<"@CE", name, ToJson(path)>>) /\ FALSE)
FreshCE == CE("Fresh", Fresh)
EprotoCE == CE("Eproto", Eproto)
NoMixCE == CE("NoMix", NoMix)

\* ---- replay path emission ----------------------------------------------------------------
Emit == (EmitPaths = "ret" /\ path' # path /\ path'[Len(path')].a \in {"ret", "close"}) => PrintT(<<"@P", ToJson(path')>>)
\* the steps that set up the initial state, printed once (the initial state is the only one with an empty path)
EmitInit == path # <<>> \/ EmitPaths = "none" \/ PrintT(<<"@I", ToJson(InitPath)>>)
=============================================================================
