SPECIFICATION FairSpec
CONSTANTS
  Clients = {1, 2, 3}
  UxReach = {1, 2}
INVARIANTS LegChoice AcceptAgrees NoneLost
PROPERTIES AllAccepted
CHECK_DEADLOCK FALSE
