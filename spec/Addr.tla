-------------------------------- MODULE Addr --------------------------------
(***************************************************************************)
(* XCM address strings (property C12): the documented grammar, the         *)
(* components of a valid address, the constructor Make and the laws that    *)
(* tie them together.  Pure operators; the bounded model that enumerates    *)
(* strings and constructor calls is AddrMC, the monitor that validates      *)
(* recorded calls of the real library is AddrTrace.                         *)
(*                                                                         *)
(* A string is a sequence of bytes (integers 1..255).  The grammar is       *)
(* three-valued (DESIGN 7.1):                                               *)
(*   "valid"   - documented syntax: must be accepted, with these components *)
(*   "invalid" - a rejection the documentation demands (reason in `why`)    *)
(*   "lenient" - the documentation does not settle it: accepting or         *)
(*               rejecting is fine, an acceptance is only noted             *)
(* Sources: include/xcm.h "Address Syntax", include/xcm_addr.h,             *)
(* common/xcm_addr_limits.h.                                                *)
(***************************************************************************)
EXTENDS Integers, Sequences, FiniteSets, TLC

\* ---- characters ------------------------------------------------------------
COLON == 58
DOT   == 46
LBR   == 91
RBR   == 93
STAR  == 42
MINUS == 45
PLUS  == 43
ZERO  == 48

IsDigit(c)  == c \in 48..57
IsLetter(c) == c \in 65..90 \/ c \in 97..122
IsHex(c)    == IsDigit(c) \/ c \in 65..70 \/ c \in 97..102
IsSpace(c)  == c \in {9, 10, 11, 12, 13, 32}          \* isspace() in the C locale
IsNameCh(c) == IsLetter(c) \/ IsDigit(c) \/ c = MINUS

\* ---- limits (xcm_addr_limits.h, xcm_addr.h) ----------------------------------
ProtoMax == 32
AddrMax  == 32 + 512 + 32 + 2        \* XCM_ADDR_MAX
NameMax  == 253                      \* "Max DNS name length is 253 characters"
LabelMax == 63
UxMax    == 107                      \* UNIX_PATH_MAX - 1
PortMax  == 65535

EINVAL       == 22
ENAMETOOLONG == 36

Transports == <<"tcp", "tls", "utls", "sctp", "ux", "uxf", "btcp", "btls">>
TSet == {Transports[i] : i \in 1..8}
IsUxT(t) == t \in {"ux", "uxf"}

PBytes(t) ==
  CASE t = "tcp"  -> <<116, 99, 112>>
    [] t = "tls"  -> <<116, 108, 115>>
    [] t = "utls" -> <<117, 116, 108, 115>>
    [] t = "sctp" -> <<115, 99, 116, 112>>
    [] t = "ux"   -> <<117, 120>>
    [] t = "uxf"  -> <<117, 120, 102>>
    [] t = "btcp" -> <<98, 116, 99, 112>>
    [] t = "btls" -> <<98, 116, 108, 115>>

\* ---- sequences -----------------------------------------------------------------
MinOf(S) == CHOOSE x \in S : \A y \in S : x <= y
MaxOf(S) == CHOOSE x \in S : \A y \in S : x >= y
Idx(s, c) == {i \in 1..Len(s) : s[i] = c}
FirstIdx(s, c) == LET I == Idx(s, c) IN IF I = {} THEN 0 ELSE MinOf(I)
LastIdx(s, c)  == LET I == Idx(s, c) IN IF I = {} THEN 0 ELSE MaxOf(I)
Rep(c, n) == [i \in 1..n |-> c]
HasSpace(s) == \E i \in 1..Len(s) : IsSpace(s[i])
IsPrefix(a, b) == Len(a) <= Len(b) /\ \A i \in 1..Len(a) : a[i] = b[i]

\* fields of s separated by c (always at least one, possibly empty, field)
Split(s, c) ==
  LET I == Idx(s, c)
      n == Cardinality(I)
      pos == [k \in 1..n |-> CHOOSE i \in I : Cardinality({j \in I : j < i}) = k - 1]
  IN [k \in 1..(n + 1) |-> SubSeq(s, IF k = 1 THEN 1 ELSE pos[k - 1] + 1,
                                     IF k = n + 1 THEN Len(s) ELSE pos[k] - 1)]

\* ---- numbers ---------------------------------------------------------------------
Pow10(k) == CASE k = 0 -> 1 [] k = 1 -> 10 [] k = 2 -> 100 [] k = 3 -> 1000 [] k = 4 -> 10000 [] k = 5 -> 100000
Pow16(k) == CASE k = 0 -> 1 [] k = 1 -> 16 [] k = 2 -> 256 [] k = 3 -> 4096

\* value of at most 9 decimal digits
DecVal(d) == LET f[i \in 0..Len(d)] == IF i = 0 THEN 0 ELSE f[i - 1] * 10 + (d[i] - ZERO) IN f[Len(d)]
HexDig(c) == IF IsDigit(c) THEN c - 48 ELSE IF c >= 97 THEN c - 87 ELSE c - 55
HexVal(d) == LET f[i \in 0..Len(d)] == IF i = 0 THEN 0 ELSE f[i - 1] * 16 + HexDig(d[i]) IN f[Len(d)]
StripZ(d) == LET nz == {i \in 1..Len(d) : d[i] # ZERO} IN IF nz = {} THEN <<>> ELSE SubSeq(d, MinOf(nz), Len(d))

NDec(n) == IF n < 10 THEN 1 ELSE IF n < 100 THEN 2 ELSE IF n < 1000 THEN 3 ELSE IF n < 10000 THEN 4 ELSE 5
Dec(n) == [i \in 1..NDec(n) |-> ZERO + ((n \div Pow10(NDec(n) - i)) % 10)]
NHex(n) == IF n < 16 THEN 1 ELSE IF n < 256 THEN 2 ELSE IF n < 4096 THEN 3 ELSE 4
HexCh(v) == IF v < 10 THEN 48 + v ELSE 87 + v
Hex(n) == [i \in 1..NHex(n) |-> HexCh((n \div Pow16(NHex(n) - i)) % 16)]

\* ---- port -------------------------------------------------------------------------
\* [c, why, v]: an empty or non-numeric port and a number outside 0..65535 (however
\* many digits it has: nothing wraps) must be rejected; a sign or leading zeros in
\* front of a number inside the range are not settled by the documentation.
PortClass(p) ==
  IF p = <<>> THEN [c |-> "invalid", why |-> "port.empty", v |-> 0]
  ELSE LET signed == p[1] \in {PLUS, MINUS}
           d == IF signed THEN Tail(p) ELSE p
       IN IF d = <<>> \/ \E i \in 1..Len(d) : ~IsDigit(d[i])
          THEN [c |-> "invalid", why |-> "port.nonnumeric", v |-> 0]
          ELSE LET sig == StripZ(d)
                   big == Len(sig) > 5 \/ DecVal(sig) > PortMax
                   v == IF big THEN 0 ELSE DecVal(sig)
               IN IF big \/ (p[1] = MINUS /\ sig # <<>>)
                  THEN [c |-> "invalid", why |-> IF Len(sig) >= 10 THEN "port.wrap" ELSE "port.range", v |-> 0]
                  ELSE IF signed THEN [c |-> "lenient", why |-> "port.sign", v |-> v]
                  ELSE IF Len(d) > 1 /\ d[1] = ZERO THEN [c |-> "lenient", why |-> "port.leadzero", v |-> v]
                  ELSE [c |-> "valid", why |-> "", v |-> v]

\* ---- IPv4: dotted decimal, exactly four numbers 0..255, no leading zeros -----------
OctetOk(f) == /\ Len(f) \in 1..3
              /\ \A i \in 1..Len(f) : IsDigit(f[i])
              /\ (Len(f) = 1 \/ f[1] # ZERO)
              /\ DecVal(f) <= 255
BadIp4 == [ok |-> FALSE, b |-> <<>>]
Ip4Parse(h) ==
  LET fs == Split(h, DOT) IN
  IF Len(fs) = 4 /\ \A i \in 1..4 : OctetOk(fs[i])
  THEN [ok |-> TRUE, b |-> [i \in 1..4 |-> DecVal(fs[i])]]
  ELSE BadIp4
Ip4Text(b) == Dec(b[1]) \o <<DOT>> \o Dec(b[2]) \o <<DOT>> \o Dec(b[3]) \o <<DOT>> \o Dec(b[4])

\* ---- IPv6 (RFC 4291 text forms; no zone) ---------------------------------------------
BadIp6 == [ok |-> FALSE, w |-> <<>>]
HexField(f) == Len(f) \in 1..4 /\ \A i \in 1..Len(f) : IsHex(f[i])
\* a part without "::" -> its 16-bit words; only the last field may be a dotted IPv4 address
Groups(str) ==
  IF str = <<>> THEN [ok |-> TRUE, w |-> <<>>]
  ELSE LET fs == Split(str, COLON)
           n == Len(fs)
           v4 == Ip4Parse(fs[n])
           head == [i \in 1..(n - 1) |-> HexVal(fs[i])]
       IN IF \E i \in 1..(n - 1) : ~HexField(fs[i]) THEN BadIp6
          ELSE IF HexField(fs[n]) THEN [ok |-> TRUE, w |-> head \o <<HexVal(fs[n])>>]
          ELSE IF v4.ok THEN [ok |-> TRUE, w |-> head \o <<v4.b[1] * 256 + v4.b[2], v4.b[3] * 256 + v4.b[4]>>]
          ELSE BadIp6
Ip6Parse(x) ==
  IF \E i \in 1..Len(x) : ~(IsHex(x[i]) \/ x[i] \in {COLON, DOT}) THEN BadIp6
  ELSE LET dc == {i \in 1..(Len(x) - 1) : x[i] = COLON /\ x[i + 1] = COLON} IN
       IF dc = {} THEN LET g == Groups(x) IN IF g.ok /\ Len(g.w) = 8 THEN g ELSE BadIp6
       ELSE IF Cardinality(dc) > 1 THEN BadIp6
       ELSE LET i == CHOOSE j \in dc : TRUE
                left == SubSeq(x, 1, i - 1)
                L == Groups(left)
                R == Groups(SubSeq(x, i + 2, Len(x)))
            IN IF L.ok /\ R.ok /\ Idx(left, DOT) = {} /\ Len(L.w) + Len(R.w) <= 7
               THEN [ok |-> TRUE, w |-> L.w \o Rep(0, 8 - Len(L.w) - Len(R.w)) \o R.w]
               ELSE BadIp6
WordsToBytes(w) == [i \in 1..16 |-> IF i % 2 = 1 THEN w[(i + 1) \div 2] \div 256 ELSE w[i \div 2] % 256]
BytesToWords(b) == [i \in 1..8 |-> b[2 * i - 1] * 256 + b[2 * i]]

\* canonical text (what inet_ntop prints): lower case, the first longest run of two
\* or more zero words compressed, IPv4 notation for ::a.b.c.d and ::ffff:a.b.c.d
ZRun(w, i) == \* length of the zero run starting at i
  LET nz == {j \in i..8 : w[j] # 0} IN IF nz = {} THEN 9 - i ELSE MinOf(nz) - i
BestRun(w) ==
  LET starts == {i \in 1..8 : w[i] = 0 /\ (i = 1 \/ w[i - 1] # 0) /\ ZRun(w, i) >= 2} IN
  IF starts = {} THEN <<0, 0>>
  ELSE LET ml == MaxOf({ZRun(w, i) : i \in starts})
           b == MinOf({i \in starts : ZRun(w, i) = ml})
       IN <<b, ml>>
Ip6Text(b) ==
  LET w == BytesToWords(b)
      best == BestRun(w)
      inrun(i) == best[1] # 0 /\ i >= best[1] /\ i < best[1] + best[2]
      v4tail == best[1] = 1 /\ (best[2] = 6 \/ (best[2] = 5 /\ w[6] = 65535))
      piece(i) ==
        IF inrun(i) THEN (IF i = best[1] THEN <<COLON>> ELSE <<>>)
        ELSE IF v4tail /\ i = 8 THEN <<>>
        ELSE (IF i # 1 THEN <<COLON>> ELSE <<>>) \o
             (IF v4tail /\ i = 7 THEN Ip4Text(SubSeq(b, 13, 16)) ELSE Hex(w[i]))
  IN piece(1) \o piece(2) \o piece(3) \o piece(4) \o piece(5) \o piece(6) \o piece(7) \o piece(8)
     \o (IF best[1] # 0 /\ best[1] + best[2] = 9 THEN <<COLON>> ELSE <<>>)

\* ---- host --------------------------------------------------------------------------
\* [c, why, k, b]   k in {"ip4", "ip6", "name"}, b = address bytes or the name
HV(k, b) == [c |-> "valid", why |-> "", k |-> k, b |-> b]
HI(w)    == [c |-> "invalid", why |-> w, k |-> "none", b |-> <<>>]
HL(w)    == [c |-> "lenient", why |-> w, k |-> "none", b |-> <<>>]

LabelOk(l) == Len(l) \in 1..LabelMax /\ l[1] # MINUS /\ l[Len(l)] # MINUS
NameOk(h) == /\ Len(h) \in 1..NameMax
             /\ \A i \in 1..Len(h) : IsNameCh(h[i]) \/ h[i] = DOT
             /\ \E i \in 1..Len(h) : ~(IsDigit(h[i]) \/ h[i] = DOT)
             /\ LET ls == Split(h, DOT) IN \A i \in 1..Len(ls) : LabelOk(ls[i])

HostClass(h) ==
  IF h = <<>> THEN HL("host.empty")
  ELSE IF \E i \in 1..Len(h) : h[i] \in {LBR, RBR, COLON} THEN
         \* an IP literal in brackets, or a malformed one
         IF Len(h) >= 2 /\ h[1] = LBR /\ h[Len(h)] = RBR THEN
            LET inner == SubSeq(h, 2, Len(h) - 1) IN
            IF inner = <<STAR>> THEN HV("ip6", Rep(0, 16))
            ELSE LET r == Ip6Parse(inner) IN
                 IF r.ok THEN HV("ip6", WordsToBytes(r.w)) ELSE HI("host.ip6")
         ELSE HI("host.ipliteral")
  ELSE IF h = <<STAR>> THEN HV("ip4", <<0, 0, 0, 0>>)
  ELSE IF Ip4Parse(h).ok THEN HV("ip4", Ip4Parse(h).b)
  ELSE IF Len(h) > NameMax THEN HI("host.toolong")
  ELSE IF \A i \in 1..Len(h) : IsDigit(h[i]) \/ h[i] = DOT THEN HL("host.ip4like")
  ELSE IF \E i \in 1..Len(h) : ~(IsNameCh(h[i]) \/ h[i] = DOT) THEN HL("host.namechars")
  ELSE IF NameOk(h) THEN HV("name", h)
  ELSE HL("host.labels")

\* ---- addresses -----------------------------------------------------------------------
\* components: [k, b, port]; k = "ip4" | "ip6" | "name" | "ux" ("none": no components)
NoComp == [k |-> "none", b |-> <<>>, port |-> 0]
CV(comp) == [c |-> "valid", why |-> "", comp |-> comp]
CI(w)    == [c |-> "invalid", why |-> w, comp |-> NoComp]
CL(w)    == [c |-> "lenient", why |-> w, comp |-> NoComp]

ProtoSplit(s) ==
  LET i == FirstIdx(s, COLON) IN
  IF i = 0 THEN [ok |-> FALSE, p |-> <<>>, rest |-> <<>>]
  ELSE [ok |-> TRUE, p |-> SubSeq(s, 1, i - 1), rest |-> SubSeq(s, i + 1, Len(s))]

\* <t>:(<DNS domain name>|<IPv4 address>|[<IPv6 address>]|[*]|*):<port>
ClassHP(t, s) ==
  LET ps == ProtoSplit(s) IN
  IF ~ps.ok THEN CI("proto.none")
  ELSE IF ps.p # PBytes(t) THEN CI(IF Len(ps.p) > ProtoMax THEN "proto.toolong" ELSE "proto.other")
  ELSE IF Len(s) > AddrMax THEN CI("total.toolong")
  ELSE IF HasSpace(s) THEN CI("space")
  ELSE LET j == LastIdx(ps.rest, COLON) IN
       IF j = 0 THEN CI("port.missing")
       ELSE LET hc == HostClass(SubSeq(ps.rest, 1, j - 1))
                pc == PortClass(SubSeq(ps.rest, j + 1, Len(ps.rest)))
            IN IF pc.c = "invalid" THEN CI(pc.why)
               ELSE IF hc.c = "invalid" THEN CI(hc.why)
               ELSE IF hc.c = "lenient" THEN CL(hc.why)
               ELSE IF pc.c = "lenient" THEN CL(pc.why)
               ELSE CV([k |-> hc.k, b |-> hc.b, port |-> pc.v])

\* ux:<name>   uxf:<path>
ClassUX(t, s) ==
  LET ps == ProtoSplit(s) IN
  IF ~ps.ok THEN CI("proto.none")
  ELSE IF ps.p # PBytes(t) THEN CI(IF Len(ps.p) > ProtoMax THEN "proto.toolong" ELSE "proto.other")
  ELSE IF Len(s) > AddrMax THEN CI("total.toolong")
  ELSE IF Len(ps.rest) > UxMax THEN CI("ux.toolong")
  ELSE IF ps.rest = <<>> THEN CL("ux.empty")
  ELSE IF HasSpace(s) THEN CL("ux.space")
  ELSE CV([k |-> "ux", b |-> ps.rest, port |-> 0])

\* what xcm_addr_parse_<t> must do with s
Class(t, s) == IF IsUxT(t) THEN ClassUX(t, s) ELSE ClassHP(t, s)

\* what xcm_addr_is_valid must say: dispatch on the protocol
TOf(p) == IF \E t \in TSet : PBytes(t) = p THEN CHOOSE t \in TSet : PBytes(t) = p ELSE "none"

\* the same classification computed once per string (used by the trace specification;
\* LawDispatch states that it is Class)
Dispatch(s) ==
  LET ps == ProtoSplit(s)
      tt == IF ps.ok THEN TOf(ps.p) ELSE "none"
  IN [tt |-> tt,
      cl |-> IF tt = "none" THEN CI("proto.none") ELSE Class(tt, s),
      other |-> IF ~ps.ok THEN CI("proto.none")
                ELSE CI(IF Len(ps.p) > ProtoMax THEN "proto.toolong" ELSE "proto.other")]
ClassVia(t, d) == IF t = d.tt THEN d.cl ELSE d.other
ValidClass(s) ==
  LET ps == ProtoSplit(s) IN
  IF ~ps.ok THEN "invalid"
  ELSE IF TOf(ps.p) = "none" THEN "invalid"
  ELSE Class(TOf(ps.p), s).c

\* xcm_addr_parse_proto: [c, why, p]
ProtoClass(s) ==
  LET ps == ProtoSplit(s) IN
  IF ~ps.ok THEN [c |-> "invalid", why |-> "proto.none", p |-> <<>>]
  ELSE IF Len(ps.p) > ProtoMax THEN [c |-> "invalid", why |-> "proto.toolong", p |-> <<>>]
  ELSE IF Len(s) > AddrMax \/ HasSpace(s) \/ ps.p = <<>> THEN [c |-> "lenient", why |-> "proto.odd", p |-> ps.p]
  ELSE [c |-> "valid", why |-> "", p |-> ps.p]

\* ---- Make ----------------------------------------------------------------------------
\* components handed to xcm_addr_make_<t>:
\*   "valid"   - must be turned into an address that parses back to them
\*   "invalid" - must be refused (EINVAL): a UNIX name beyond the limit
\*   "lenient" - outside what the statement quantifies over (empty UNIX name, a name
\*               with blanks, a host name that is no DNS name, unknown address family)
CompClass(t, comp) ==
  IF IsUxT(t) THEN
     IF comp.k # "ux" \/ Len(comp.b) > UxMax THEN "invalid"
     ELSE IF comp.b = <<>> \/ HasSpace(comp.b) THEN "lenient"
     ELSE "valid"
  ELSE IF comp.port \notin 0..PortMax THEN "invalid"
  ELSE IF comp.k = "ip4" /\ Len(comp.b) = 4 THEN "valid"
  ELSE IF comp.k = "ip6" /\ Len(comp.b) = 16 THEN "valid"
  ELSE IF comp.k = "name" /\ NameOk(comp.b) THEN "valid"
  ELSE "lenient"

HostText(comp) ==
  CASE comp.k = "ip4" -> Ip4Text(comp.b)
    [] comp.k = "ip6" -> <<LBR>> \o Ip6Text(comp.b) \o <<RBR>>
    [] OTHER -> comp.b

HasText(t, comp) == IF IsUxT(t) THEN comp.k = "ux" ELSE comp.k \in {"ip4", "ip6", "name"}

Full(t, comp) ==
  PBytes(t) \o <<COLON>> \o
  (IF IsUxT(t) THEN comp.b ELSE HostText(comp) \o <<COLON>> \o Dec(comp.port))

\* the buffer must hold the address and its terminating NUL
Make(t, comp, cap) ==
  IF CompClass(t, comp) = "invalid" \/ ~HasText(t, comp) THEN [ok |-> FALSE, err |-> EINVAL, str |-> <<>>]
  ELSE LET f == Full(t, comp) IN
       IF cap > Len(f) THEN [ok |-> TRUE, err |-> 0, str |-> f]
       ELSE [ok |-> FALSE, err |-> ENAMETOOLONG, str |-> f]

\* ---- laws (checked by TLC in AddrMC on every generated string / constructor call) -----
\* a parser accepts only its own protocol, so at most one parser accepts a string,
\* and xcm_addr_is_valid holds exactly when some parser accepts
LawDispatch(s) ==
  /\ \A t \in TSet : Class(t, s).c # "invalid" => ProtoSplit(s).ok /\ ProtoSplit(s).p = PBytes(t)
  /\ \A t1, t2 \in TSet : (Class(t1, s).c # "invalid" /\ Class(t2, s).c # "invalid") => t1 = t2
  /\ \A c \in {"valid", "lenient"} : (ValidClass(s) = c) <=> (\E t \in TSet : Class(t, s).c = c)
  /\ \A t \in TSet : ClassVia(t, Dispatch(s)) = Class(t, s)

\* whatever is valid has well-formed components, Make rebuilds an address from them
\* that parses to the same components, and rebuilding is idempotent
LawParseMake(s) ==
  \A t \in TSet :
    LET r == Class(t, s) IN
    r.c = "valid" =>
      /\ CompClass(t, r.comp) = "valid"
      /\ LET m == Make(t, r.comp, AddrMax + 1)
             r2 == Class(t, m.str)
         IN /\ m.ok
            /\ r2.c = "valid" /\ r2.comp = r.comp
            /\ (r.comp.k \in {"name", "ux"} => m.str = s)

\* Parse(Make(x)) = x, and Make succeeds exactly when capacity > length
LawMakeParse(t, comp, cap) ==
  LET m == Make(t, comp, cap) IN
  IF CompClass(t, comp) = "invalid" THEN ~m.ok /\ m.err = EINVAL
  ELSE IF CompClass(t, comp) = "lenient" THEN TRUE
  ELSE /\ m.ok <=> cap > Len(m.str)
       /\ ~m.ok => m.err = ENAMETOOLONG
       /\ Class(t, m.str).c = "valid"
       /\ Class(t, m.str).comp = comp
       /\ ValidClass(m.str) = "valid"
       /\ Len(m.str) <= AddrMax
=============================================================================
