----------------------------- MODULE XcmBtlsSend -----------------------------
(***************************************************************************)
(* C02 on the send side of btls (xcm_tp_btls.c btls_send over OpenSSL).    *)
(*                                                                         *)
(* The application offers buffers; every byte carries the token of the     *)
(* call that offered it.  btls hands the buffer to SSL_write.  OpenSSL     *)
(* turns (at most RecMax bytes of) it into one record and gives the record *)
(* to the BIO; if the lower layer takes only part of the record, SSL_write *)
(* answers WANT_WRITE and btls reports EAGAIN - but the record stays       *)
(* CAPTURED inside OpenSSL (SSL_MODE_ACCEPT_MOVING_WRITE_BUFFER +          *)
(* ENABLE_PARTIAL_WRITE): the next SSL_write first pushes the rest of that *)
(* record, whatever buffer it is given, and then reports the captured      *)
(* length as written.                                                      *)
(*                                                                         *)
(* Capture = TRUE  models what the code does (named deviation              *)
(*                 "btls_capture", a recorded finding);                    *)
(* Capture = FALSE models the intended design: a refused call leaves       *)
(*                 nothing of its buffer anywhere.                         *)
(*                                                                         *)
(* Property (C02): the bytes on the wire are, in order, bytes of calls     *)
(* that reported them accepted - bytes offered in a call that failed never *)
(* appear in the stream, whatever the application offers next.             *)
(***************************************************************************)
EXTENDS Integers, Sequences, TLC

CONSTANTS RecMax,     \* plaintext bytes per record
          Lens,       \* buffer lengths the application offers
          MaxCalls,
          Capture     \* TRUE: code; FALSE: intended design

VARIABLES wire,      \* tokens of the plaintext bytes whose record bytes are (completely) on the wire... see below
          part,      \* [tok, len, left]: a record partly on the wire: its plaintext token, plaintext length, bytes still to push
          accd,      \* tokens of the bytes xcm_send reported accepted, in order
          ncalls,
          last       \* [tok, len, ret]: the last call

vars == <<wire, part, accd, ncalls, last>>

None == [tok |-> 0, len |-> 0, left |-> 0]
Rep(t, n) == [i \in 1..n |-> t]

Init == wire = <<>> /\ part = None /\ accd = <<>> /\ ncalls = 0 /\ last = [tok |-> 0, len |-> 0, ret |-> 0]

\* one xcm_send(buf of `len` bytes carrying token `tok`) while the lower layer takes `wc` more record bytes
\* (record overhead abstracted away: a record of n plaintext bytes is n bytes on the wire)
Send(tok, len, wc) ==
  /\ ncalls < MaxCalls
  /\ ncalls' = ncalls + 1
  /\ IF part.left > 0
     THEN \* a captured record: OpenSSL continues it, whatever the caller offers now
          IF wc < part.left
          THEN /\ part' = [part EXCEPT !.left = @ - wc]
               /\ wire' = wire /\ accd' = accd /\ last' = [tok |-> tok, len |-> len, ret |-> -1]
          ELSE \* the captured record is complete: its bytes are on the wire; SSL_write reports its length as written
               \* (a shorter buffer than the captured one makes OpenSSL fail with "bad write retry": connection dead)
               /\ part' = None
               /\ wire' = wire \o Rep(part.tok, part.len)
               /\ IF len < part.len
                  THEN accd' = accd /\ last' = [tok |-> tok, len |-> len, ret |-> -2]
                  ELSE accd' = accd \o Rep(tok, part.len) /\ last' = [tok |-> tok, len |-> len, ret |-> part.len]
     ELSE LET n == IF len < RecMax THEN len ELSE RecMax IN
          IF wc >= n
          THEN /\ wire' = wire \o Rep(tok, n) /\ accd' = accd \o Rep(tok, n) /\ part' = None
               /\ last' = [tok |-> tok, len |-> len, ret |-> n]
          ELSE \* refused: EAGAIN
               /\ part' = (IF Capture THEN [tok |-> tok, len |-> n, left |-> n - wc] ELSE None)
               /\ wire' = wire /\ accd' = accd /\ last' = [tok |-> tok, len |-> len, ret |-> -1]

\* the application: after a refusal it may retry the same buffer (same token), a longer one starting with it
\* (same token), or offer different data (fresh token)
Next == \E len \in Lens : \E wc \in 0..RecMax : \E fresh \in BOOLEAN :
          LET tok == IF fresh \/ last.ret # -1 THEN ncalls + 1 ELSE last.tok IN
          Send(tok, len, wc)

Spec == Init /\ [][Next]_vars

IsPrefix(a, b) == Len(a) <= Len(b) /\ \A i \in 1..Len(a) : a[i] = b[i]
\* C02: what is on the wire is what was reported accepted, byte for byte
C02_WireIsAccepted == IsPrefix(wire, accd) /\ IsPrefix(accd, wire)
\* C02: return value range
C02_Range == last.ret # -2 /\ (last.ret >= 0 => last.ret <= last.len)
=============================================================================
