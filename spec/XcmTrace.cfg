SPECIFICATION Spec
CONSTANTS
  HdrLen = 4
  MaxMsg = 65535
  Dev = {"zl_eof", "ux_full_count"}
POSTCONDITION Accepted
CHECK_DEADLOCK FALSE
