SPECIFICATION Spec
CONSTANTS
  HdrLen = 4
  MaxMsg = 65535
  Dev = {}
POSTCONDITION Accepted
CHECK_DEADLOCK FALSE
