SPECIFICATION TSpec
CONSTANTS
  Sess = {1, 2, 3, 4, 5, 6, 7, 8}
  Kinds = {"get", "key", "all", "bad", "odd"}
  MaxClients = 2
  BacklogCap = 3
  MaxReq = 16
  MaxTotal = 64
  MaxApp = 1000000
  Dev = {}
INVARIANT TraceInv
POSTCONDITION Accepted
CHECK_DEADLOCK FALSE
