------------------------------ MODULE XcmCore ------------------------------
(***************************************************************************)
(* Pure operators describing one XCM connection endpoint as a stack of     *)
(* Mealy machines, transcribed from the code:                              *)
(*   L2  tcp / tls framing   libxcm/tp/tcp/xcm_tp_tcp.c, tp/tls/xcm_tp_tls.c*)
(*   L1  btcp                libxcm/tp/tcp/xcm_tp_btcp.c                   *)
(*   L1  ux / uxf            libxcm/tp/ux/xcm_tp_ux.c                      *)
(* Each operator is                                                        *)
(*   (endpoint state, call arguments, what the layer below was willing to  *)
(*    do during this call)  |->  (endpoint state', return value, errno).   *)
(* "What the layer below was willing to do" is a pair of credits:          *)
(*   wc, werr : it takes at most wc more bytes (messages for ux) and then  *)
(*              refuses with errno werr (EAGAIN or a real error);          *)
(*   rc, rterm: it hands over at most rc more bytes and then answers       *)
(*              rterm: EAGAIN, EOF (orderly close) or an errno.            *)
(* The same operators are used by the model-checking specification (the    *)
(* credits are chosen by an adversary) and by the trace specification (the *)
(* credits are what the shim recorded).                                    *)
(***************************************************************************)
EXTENDS Integers, Sequences, FiniteSets, TLC

CONSTANTS HdrLen,       \* 4
          MaxMsg        \* 65535 in trace configs, small in exhaustive ones

EAGAIN     == 11
EINVAL     == 22
EPIPE      == 32
EPROTO     == 71
EMSGSIZE   == 90
ECONNRESET == 104
ETIMEDOUT  == 110
EOFMARK    == -1      \* read terminal: orderly end of stream
INF        == 1000000000

RECEIVABLE == 1
SENDABLE   == 2
EPIN       == 1       \* EPOLLIN
EPOUT      == 4       \* EPOLLOUT

Min(a, b) == IF a < b THEN a ELSE b
Max(a, b) == IF a > b THEN a ELSE b
HasBit(m, b) == (m \div b) % 2 = 1

\* counters: 1 to_app_b 2 from_app_b 3 to_lower_b 4 from_lower_b, +4 = msgs
TO_APP == 1  FROM_APP == 2  TO_LOWER == 3  FROM_LOWER == 4
ZeroCnt == <<0, 0, 0, 0, 0, 0, 0, 0>>
CntMsg(c, w, len) == [c EXCEPT ![w] = @ + len, ![w + 4] = @ + 1]
CntBytes(c, w, len) == [c EXCEPT ![w] = @ + len]

Framing(tp) == tp \in {"tcp", "tls"}
Stream(tp)  == tp \in {"btcp", "btls"}
Seq1(tp)    == tp \in {"ux", "uxf"}

\* A fresh, established endpoint.  l1m = "model": L1 is btcp and is modelled
\* here; "logged": the L1 results in the credits already include L1's own
\* state (tls over btls in trace mode).
NewEp(tp, l1m) ==
  [tp |-> tp, l1m |-> l1m, l1 |-> "ready", l1why |-> 0,
   sbuf |-> 0, sent |-> 0, rbuf |-> 0, bad |-> FALSE, badwhy |-> 0,
   cnt |-> ZeroCnt, cond |-> 0, mask |-> 0, bell |-> FALSE,
   \* btls only (L1 "logged"): what the last SSL_read / SSL_write left behind (ssl_condition, ssl_wants), and
   \* whether the readiness of this endpoint can be predicted yet (SSL_has_pending has been observed)
   sc |-> 0, sw |-> 0, rk |-> FALSE,
   \* ... which needs the awaited condition (ck) and the SSL state (sk) to be known: both are lost in a blocking-mode call
   ck |-> TRUE, sk |-> TRUE]

(***************************************************************************)
(* L1 = btcp underneath a framing layer.                                   *)
(***************************************************************************)
\* try to push req > 0 bytes (the framing layer loops until refused)
L1Write(ep, req, wc, werr) ==
  IF ep.l1m = "model" /\ ep.l1 = "closed" THEN [k |-> 0, hit |-> TRUE, e |-> EPIPE, ep |-> ep]
  ELSE IF ep.l1m = "model" /\ ep.l1 = "bad" THEN [k |-> 0, hit |-> TRUE, e |-> ep.l1why, ep |-> ep]
  ELSE LET k == Min(req, wc) IN
       IF k = req THEN [k |-> k, hit |-> FALSE, e |-> 0, ep |-> ep]
       ELSE [k |-> k, hit |-> TRUE, e |-> werr,
             ep |-> IF werr = EAGAIN THEN ep
                    ELSE IF werr = EPIPE THEN [ep EXCEPT !.l1 = "closed"]
                    ELSE [ep EXCEPT !.l1 = "bad", !.l1why = werr]]

\* one read request of req > 0 bytes
L1Read(ep, req, rc, rterm) ==
  IF ep.l1m = "model" /\ ep.l1 = "closed" THEN [k |-> 0, t |-> EOFMARK, ep |-> ep]
  ELSE IF ep.l1m = "model" /\ ep.l1 = "bad" THEN [k |-> 0, t |-> ep.l1why, ep |-> ep]
  ELSE LET k == Min(req, rc) IN
       IF k > 0 THEN [k |-> k, t |-> 0, ep |-> ep]
       ELSE [k |-> 0, t |-> rterm,
             ep |-> IF rterm = EAGAIN THEN ep
                    ELSE IF rterm = EOFMARK THEN [ep EXCEPT !.l1 = "closed"]
                    ELSE [ep EXCEPT !.l1 = "bad", !.l1why = rterm]]

L1Finish(ep) ==
  CASE ep.l1 = "ready"  -> [rc |-> 0, e |-> 0]
    [] ep.l1 = "closed" -> [rc |-> -1, e |-> EPIPE]
    [] OTHER            -> [rc |-> -1, e |-> ep.l1why]

(***************************************************************************)
(* L2 = tcp / tls framing: try_finish_send, tcp_send, tcp_receive,         *)
(* tcp_finish, tcp_update.                                                 *)
(***************************************************************************)
\* res = 0: nothing left to flush; otherwise errno of the refusal
Flush(ep, wc, werr) ==
  IF ep.sbuf = 0 THEN [ep |-> ep, res |-> 0, used |-> 0]
  ELSE LET left == HdrLen + ep.sbuf - ep.sent
           w == L1Write(ep, left, wc, werr)
       IN IF ~w.hit
          THEN [ep |-> [w.ep EXCEPT !.cnt = CntMsg(@, TO_LOWER, ep.sbuf), !.sbuf = 0, !.sent = 0],
                res |-> 0, used |-> left]
          ELSE [ep |-> [w.ep EXCEPT !.sent = @ + w.k], res |-> w.e, used |-> w.k]

\* started: a frame was put into the send buffer (it occupies wire layout)
TcpSend(ep, len, wc, werr) ==
  IF len > MaxMsg THEN [ep |-> ep, ret |-> -1, err |-> EMSGSIZE, used |-> 0, started |-> FALSE]
  ELSE IF len = 0 THEN [ep |-> ep, ret |-> -1, err |-> EINVAL, used |-> 0, started |-> FALSE]
  ELSE IF ep.bad THEN [ep |-> ep, ret |-> -1, err |-> ep.badwhy, used |-> 0, started |-> FALSE]
  ELSE LET f1 == Flush(ep, wc, werr) IN
       IF f1.res # 0
       THEN [ep |-> f1.ep, ret |-> -1, err |-> f1.res, used |-> f1.used, started |-> FALSE]
       ELSE LET ep2 == [f1.ep EXCEPT !.sbuf = len, !.sent = 0, !.cnt = CntMsg(@, FROM_APP, len)]
                f2 == Flush(ep2, wc - f1.used, werr)
            IN IF f2.res # 0 /\ f2.res # EAGAIN
               THEN [ep |-> f2.ep, ret |-> -1, err |-> f2.res, used |-> f1.used + f2.used, started |-> TRUE]
               ELSE [ep |-> f2.ep, ret |-> 0, err |-> 0, used |-> f1.used + f2.used, started |-> TRUE]

\* h: header value of the inbound frame being assembled (meaningful once the
\* header is complete); zl: what the code does with a zero-length header
\* ("eproto" = intended design; "eof" = recv(len 0) returns 0, looks like a close)
TcpReceive(ep, cap, wc, werr, rc, rterm, h, zl) ==
  LET R(e, ret, err, wu, ru, dl) ==
        [ep |-> e, ret |-> ret, err |-> err, wused |-> wu, rused |-> ru, delivered |-> dl]
  IN
  IF ep.bad THEN R(ep, -1, ep.badwhy, 0, 0, FALSE)
  ELSE LET f == Flush(ep, wc, werr) IN
  IF f.res # 0 /\ f.res # EAGAIN
  THEN (IF f.res = EPIPE THEN R(f.ep, 0, 0, f.used, 0, FALSE) ELSE R(f.ep, -1, f.res, f.used, 0, FALSE))
  ELSE
  LET e1 == f.ep
      hl == IF e1.rbuf < HdrLen THEN HdrLen - e1.rbuf ELSE 0
      r1 == IF hl > 0 THEN L1Read(e1, hl, rc, rterm) ELSE [k |-> 0, t |-> 0, ep |-> e1]
  IN
  IF hl > 0 /\ r1.k = 0
  THEN (IF r1.t = EOFMARK THEN R(r1.ep, 0, 0, f.used, 0, FALSE) ELSE R(r1.ep, -1, r1.t, f.used, 0, FALSE))
  ELSE IF hl > 0 /\ r1.k < hl
  THEN R([r1.ep EXCEPT !.rbuf = @ + r1.k], -1, EAGAIN, f.used, r1.k, FALSE)
  ELSE
  LET e2 == [r1.ep EXCEPT !.rbuf = @ + r1.k]
      rc2 == rc - r1.k
  IN
  IF h > MaxMsg \/ (h = 0 /\ zl = "eproto")
  THEN R([e2 EXCEPT !.bad = TRUE, !.badwhy = EPROTO], -1, EPROTO, f.used, r1.k, FALSE)
  ELSE IF h = 0
  THEN \* zl = "eof": a zero-length read request returns 0; btcp takes it for a close
       R([e2 EXCEPT !.l1 = IF e2.l1 = "ready" THEN "closed" ELSE @], 0, 0, f.used, r1.k, FALSE)
  ELSE
  LET pl == HdrLen + h - e2.rbuf
      r2 == L1Read(e2, pl, rc2, rterm)
  IN
  IF r2.k = 0
  THEN (IF r2.t = EOFMARK THEN R(r2.ep, 0, 0, f.used, r1.k, FALSE) ELSE R(r2.ep, -1, r2.t, f.used, r1.k, FALSE))
  ELSE IF r2.k < pl
  THEN R([r2.ep EXCEPT !.rbuf = @ + r2.k], -1, EAGAIN, f.used, r1.k + r2.k, FALSE)
  ELSE LET u == Min(h, cap) IN
       R([r2.ep EXCEPT !.rbuf = 0, !.cnt = CntMsg(CntMsg(@, FROM_LOWER, h), TO_APP, u)],
         u, 0, f.used, r1.k + r2.k, TRUE)

\* fin: result of the L1 finish call when L1 is not modelled ("logged")
TcpFinish(ep, wc, werr, fin) ==
  IF ep.bad THEN [ep |-> ep, ret |-> -1, err |-> ep.badwhy, used |-> 0]
  ELSE LET f == Flush(ep, wc, werr)
           lf == IF ep.l1m = "model" THEN L1Finish(f.ep) ELSE fin
       IN IF lf.rc < 0 THEN [ep |-> f.ep, ret |-> -1, err |-> lf.e, used |-> f.used]
          ELSE IF f.res # 0 THEN [ep |-> f.ep, ret |-> -1, err |-> f.res, used |-> f.used]
          ELSE [ep |-> f.ep, ret |-> 0, err |-> 0, used |-> f.used]

(***************************************************************************)
(* btcp as the application-visible transport (byte stream).                *)
(***************************************************************************)
BtcpSend(ep, len, wc, werr) ==
  CASE ep.l1 = "bad"    -> [ep |-> ep, ret |-> -1, err |-> ep.l1why, used |-> 0]
    [] ep.l1 = "closed" -> [ep |-> ep, ret |-> -1, err |-> EPIPE, used |-> 0]
    [] OTHER ->
       \* a zero-length send still reaches the kernel, which may report a pending error
       IF len = 0 /\ werr = EAGAIN THEN [ep |-> ep, ret |-> 0, err |-> 0, used |-> 0]
       ELSE LET k == Min(len, wc) IN
            IF k > 0
            THEN [ep |-> [ep EXCEPT !.cnt = CntBytes(CntBytes(@, FROM_APP, k), TO_LOWER, k)],
                  ret |-> k, err |-> 0, used |-> k]
            ELSE [ep |-> IF werr = EAGAIN THEN ep
                         ELSE IF werr = EPIPE THEN [ep EXCEPT !.l1 = "closed"]
                         ELSE [ep EXCEPT !.l1 = "bad", !.l1why = werr],
                  ret |-> -1, err |-> werr, used |-> 0]

BtcpReceive(ep, cap, rc, rterm) ==
  CASE ep.l1 = "bad"    -> [ep |-> ep, ret |-> -1, err |-> ep.l1why, used |-> 0]
    [] ep.l1 = "closed" -> [ep |-> ep, ret |-> 0, err |-> 0, used |-> 0]
    [] OTHER ->
       LET k == Min(cap, rc) IN
       IF k > 0
       THEN [ep |-> [ep EXCEPT !.cnt = CntBytes(CntBytes(@, FROM_LOWER, k), TO_APP, k)],
             ret |-> k, err |-> 0, used |-> k]
       ELSE IF rterm = EAGAIN THEN [ep |-> ep, ret |-> -1, err |-> EAGAIN, used |-> 0]
       ELSE IF rterm = EOFMARK THEN [ep |-> [ep EXCEPT !.l1 = "closed"], ret |-> 0, err |-> 0, used |-> 0]
       ELSE [ep |-> [ep EXCEPT !.l1 = "bad", !.l1why = rterm], ret |-> -1, err |-> rterm, used |-> 0]

BtcpFinish(ep) == LET f == L1Finish(ep) IN [ep |-> ep, ret |-> f.rc, err |-> f.e, used |-> 0]

(***************************************************************************)
(* ux / uxf: one SOCK_SEQPACKET datagram per message; credits in messages. *)
(* A failure of the connection (ECONNRESET) is remembered: l1 = "bad".      *)
(* tr = "min": a truncating receive counts the bytes really delivered      *)
(* (property C17); "full": it counts the whole message.                    *)
(***************************************************************************)
UxSend(ep, len, wc, werr) ==
  IF len > MaxMsg THEN [ep |-> ep, ret |-> -1, err |-> EMSGSIZE, used |-> 0]
  ELSE IF len = 0 THEN [ep |-> ep, ret |-> -1, err |-> EINVAL, used |-> 0]
  ELSE IF ep.l1 = "bad" THEN [ep |-> ep, ret |-> -1, err |-> ep.l1why, used |-> 0]
  ELSE IF wc >= 1
  THEN [ep |-> [ep EXCEPT !.cnt = CntMsg(CntMsg(@, FROM_APP, len), TO_LOWER, len)],
        ret |-> 0, err |-> 0, used |-> 1]
  ELSE [ep |-> IF werr = ECONNRESET THEN [ep EXCEPT !.l1 = "bad", !.l1why = werr] ELSE ep,
        ret |-> -1, err |-> werr, used |-> 0]

\* L: length of the datagram at the head of the queue
UxReceive(ep, cap, rc, rterm, L, tr) ==
  IF ep.l1 = "bad" THEN [ep |-> ep, ret |-> -1, err |-> ep.l1why, used |-> 0]
  ELSE IF rc >= 1
  THEN LET u == Min(L, cap) IN
       [ep |-> [ep EXCEPT !.cnt = CntMsg(CntMsg(@, FROM_LOWER, L), TO_APP, IF tr = "min" THEN u ELSE L)],
        ret |-> u, err |-> 0, used |-> 1]
  ELSE IF rterm = EOFMARK THEN [ep |-> ep, ret |-> 0, err |-> 0, used |-> 0]
  ELSE [ep |-> IF rterm = EAGAIN THEN ep ELSE [ep EXCEPT !.l1 = "bad", !.l1why = rterm],
        ret |-> -1, err |-> rterm, used |-> 0]

UxFinish(ep) == [ep |-> ep, ret |-> 0, err |-> 0, used |-> 0]

(***************************************************************************)
(* update(): recompute what is registered with the socket's epoll instance *)
(* tcp_update + btcp conn_update / ux_update.  Runs after every send,      *)
(* receive, finish (consider_auto_update) and in xcm_await.                *)
(***************************************************************************)
CondMask(c) == (IF HasBit(c, RECEIVABLE) THEN EPIN ELSE 0) + (IF HasBit(c, SENDABLE) THEN EPOUT ELSE 0)

Update(ep) ==
  IF Seq1(ep.tp) THEN [ep EXCEPT !.mask = CondMask(ep.cond), !.bell = FALSE]
  ELSE IF ep.l1m = "logged" THEN ep      \* btls readiness is specified in Btls.tla
  ELSE IF ep.l1 # "ready" THEN [ep EXCEPT !.bell = TRUE]
  ELSE LET c == IF Framing(ep.tp) /\ ep.sbuf # 0 /\ ~HasBit(ep.cond, SENDABLE)
                THEN ep.cond + SENDABLE ELSE ep.cond
       IN [ep EXCEPT !.mask = CondMask(c), !.bell = FALSE]

(***************************************************************************)
(* btls conn_update (xcm_tp_btls.c), connection established.               *)
(*   c  : the condition handed to btls (tls_update adds SENDABLE while a   *)
(*        frame is pending)                                                *)
(*   hp : SSL_has_pending                                                  *)
(* Result: the bell rings, or the condition handed down to btcp (which     *)
(* registers the kernel descriptor accordingly).  When the bell rings      *)
(* btcp is not updated: its registration stays what it was.                *)
(***************************************************************************)
BtlsCond(ep, c, hp) ==
  IF c = 0 THEN [bell |-> FALSE, sub |-> 0]
  ELSE IF HasBit(c, RECEIVABLE) /\ hp THEN [bell |-> TRUE, sub |-> 0]
  ELSE IF ep.sc = 0 THEN [bell |-> TRUE, sub |-> 0]                    \* no SSL_read() / SSL_write() outstanding
  ELSE IF c = ep.sc THEN [bell |-> FALSE, sub |-> ep.sw]
  ELSE IF c = RECEIVABLE + SENDABLE
  THEN (IF ep.sc = SENDABLE /\ ep.sw = RECEIVABLE THEN [bell |-> FALSE, sub |-> RECEIVABLE]
        ELSE [bell |-> FALSE, sub |-> RECEIVABLE + SENDABLE])
  ELSE [bell |-> TRUE, sub |-> 0]                                       \* no overlap between what is awaited and what SSL did last

UpdateTls(ep, hp) ==
  IF ep.l1 # "ready" THEN [ep EXCEPT !.bell = TRUE]
  ELSE LET c == IF Framing(ep.tp) /\ ep.sbuf # 0 /\ ~HasBit(ep.cond, SENDABLE) THEN ep.cond + SENDABLE ELSE ep.cond
           b == BtlsCond(ep, c, hp)
       IN IF b.bell THEN [ep EXCEPT !.bell = TRUE] ELSE [ep EXCEPT !.bell = FALSE, !.mask = CondMask(b.sub)]

\* kr: what poll() reports on the kernel descriptor (POLLIN=1, POLLOUT=4, POLLERR=8, POLLHUP=16)
KernelFires(mask, kr) ==
  mask # 0 /\ (  (HasBit(mask, EPIN) /\ HasBit(kr, 1))
              \/ (HasBit(mask, EPOUT) /\ HasBit(kr, 4))
              \/ HasBit(kr, 8) \/ HasBit(kr, 16))

Readable(ep, kr) == ep.bell \/ KernelFires(ep.mask, kr)

=============================================================================
