-------------------------------- MODULE XPoll --------------------------------
(***************************************************************************)
(* libxcm/core/xpoll.c: the one epoll instance behind xcm_fd().            *)
(*                                                                         *)
(* A transport registers kernel descriptors with an event mask (fd regs)   *)
(* and "bells" (conditions that hold without any descriptor being ready:   *)
(* buffered data, a sticky error).  While a socket has bells, xpoll holds  *)
(* one user of the process-wide always-readable eventfd (active_fd.c) and  *)
(* keeps it in the epoll set with EPOLLIN exactly while some bell rings.   *)
(*                                                                         *)
(* The module is written as a deterministic step function Step(s, op) over *)
(* a state record, mirroring the code function by function (reg_epoll_mod, *)
(* allocate_*_reg_idx, update_active_fd); it yields the new state, the     *)
(* value the call returns and the system calls the call makes, in order.   *)
(* It is the single source of truth: the bounded model below explores it   *)
(* (every op sequence of the application and the environment), and         *)
(* XPollTrace drives it with the calls recorded from the real xpoll.c.     *)
(*                                                                         *)
(* What the application of xpoll (the transports) relies on:               *)
(*   KernelView  the kernel's interest list is exactly the live fd regs     *)
(*               with a non-zero mask (plus the eventfd while a bell rings) *)
(*   Readable    the epoll descriptor is readable iff a bell rings or a     *)
(*               registered descriptor is ready for a registered event      *)
(*   PoolUser    one active_fd user while there are bells, none otherwise   *)
(*   Ids         an id handed out is not in use; ids stay valid until       *)
(*               deleted, whatever else is added or deleted                 *)
(*   Frugal      no system call when nothing changes                        *)
(***************************************************************************)
EXTENDS Integers, Sequences, FiniteSets, TLC, Json

EIN == 1          \* EPOLLIN
EOUT == 4         \* EPOLLOUT
Masks == {0, EIN, EOUT, EIN + EOUT}
AFD == 0          \* the always-readable eventfd of active_fd.c; user descriptors are 1, 2, ...

Min(S) == CHOOSE x \in S : \A y \in S : x <= y
Drop(f, S) == [k \in DOMAIN f \ S |-> f[k]]
Put(f, k, v) == [x \in DOMAIN f \cup {k} |-> IF x = k THEN v ELSE f[x]]
And(a, b) == (IF a % 2 = 1 /\ b % 2 = 1 THEN 1 ELSE 0) + (IF (a \div 4) % 2 = 1 /\ (b \div 4) % 2 = 1 THEN 4 ELSE 0)

\* ---- state ----------------------------------------------------------------------------------
\* fr: index -> [fd, ev] for indices 0 .. cap-1, fd = -1: free slot          (fd_regs, fd_regs_capacity, num_fd_regs)
\* br: index -> [free, ring] for indices 0 .. bcap-1                        (bell_regs, ...)
\* afd / areg: the eventfd held (-1: none) and its fd reg                   (active_fd, active_fd_reg_id)
\* ker: descriptor -> mask: the kernel's interest list of the epoll instance
\* gone: user descriptors closed by their owner while still registered (the kernel dropped them by itself)
\* users: outstanding active_fd_get() of this xpoll;  dead: ut_assert / ut_fatal was hit
S0 == [fr |-> [i \in {} |-> 0], cap |-> 0, br |-> [i \in {} |-> 0], bcap |-> 0, afd |-> -1, areg |-> -1,
       ker |-> [i \in {} |-> 0], gone |-> {}, users |-> 0, dead |-> FALSE]

NumFd(s) == Cardinality({i \in DOMAIN s.fr : s.fr[i].fd # -1})
NumBell(s) == Cardinality({i \in DOMAIN s.br : ~s.br[i].free})
HasFd(s, fd) == \E i \in DOMAIN s.fr : s.fr[i].fd = fd
Ringing(s) == \E i \in DOMAIN s.br : ~s.br[i].free /\ s.br[i].ring
NextCap(c) == (c + 1) * 2

Sys(op, fd, ev, ok) == [op |-> op, fd |-> fd, ev |-> ev, ok |-> ok]
R(s, ret, out) == [s |-> s, ret |-> ret, out |-> out]
Dead(s) == R([s EXCEPT !.dead = TRUE], -1, <<>>)

\* ---- reg_epoll_mod ---------------------------------------------------------------------------
\* -> [s, out]; the kernel refuses ADD / MOD of a descriptor that is closed (EBADF) - ut_assert / ut_fatal;
\* a failing DEL of a vanished descriptor is tolerated
EpollMod(s, i, new) ==
  LET reg == s.fr[i]
      fd == reg.fd
      set == [s EXCEPT !.fr[i].ev = new]
  IN IF reg.ev = new THEN [s |-> s, out |-> <<>>]
     ELSE IF reg.ev = 0 THEN
        IF fd \in s.gone \/ fd \in DOMAIN s.ker THEN [s |-> [s EXCEPT !.dead = TRUE], out |-> <<Sys("ADD", fd, new, FALSE)>>]
        ELSE [s |-> [set EXCEPT !.ker = Put(s.ker, fd, new)], out |-> <<Sys("ADD", fd, new, TRUE)>>]
     ELSE IF new # 0 THEN
        IF fd \notin DOMAIN s.ker THEN [s |-> [s EXCEPT !.dead = TRUE], out |-> <<Sys("MOD", fd, new, FALSE)>>]
        ELSE [s |-> [set EXCEPT !.ker = Put(s.ker, fd, new)], out |-> <<Sys("MOD", fd, new, TRUE)>>]
     ELSE [s |-> [set EXCEPT !.ker = Drop(s.ker, {fd})], out |-> <<Sys("DEL", fd, 0, fd \in DOMAIN s.ker)>>]

\* allocate_fd_reg_idx: the capacity grows only when every slot is taken; otherwise the first free slot
AllocFd(s) ==
  IF NumFd(s) = s.cap
  THEN LET nc == NextCap(s.cap) IN
       [s |-> [s EXCEPT !.cap = nc, !.fr = [i \in 0..(nc - 1) |-> IF i < s.cap THEN s.fr[i] ELSE [fd |-> -1, ev |-> 0]]],
        i |-> s.cap]
  ELSE [s |-> s, i |-> Min({i \in DOMAIN s.fr : s.fr[i].fd = -1})]

\* xpoll_fd_reg_add
FdRegAdd(s, fd, ev) ==
  IF fd < 0 \/ HasFd(s, fd) THEN Dead(s)                   \* ut_assert
  ELSE LET a == AllocFd(s)
           s1 == [a.s EXCEPT !.fr[a.i] = [fd |-> fd, ev |-> 0]]
           m == EpollMod(s1, a.i, ev)
       IN R(m.s, a.i, m.out)

ValidFd(s, i) == i \in DOMAIN s.fr /\ s.fr[i].fd # -1
\* xpoll_fd_reg_mod
FdRegMod(s, i, ev) ==
  IF ~ValidFd(s, i) THEN Dead(s)
  ELSE LET m == EpollMod(s, i, ev) IN R(m.s, 0, m.out)
\* xpoll_fd_reg_del
FdRegDel(s, i) ==
  IF ~ValidFd(s, i) THEN Dead(s)
  ELSE LET m == EpollMod(s, i, 0)
           fd == s.fr[i].fd
       IN R([m.s EXCEPT !.fr[i] = [fd |-> -1, ev |-> 0], !.gone = @ \ {fd}], 0, m.out)

\* update_active_fd
UpdateActive(s) ==
  LET a == IF NumBell(s) = 0 /\ s.afd >= 0
           THEN LET d == FdRegDel(s, s.areg) IN
                [s |-> [d.s EXCEPT !.areg = -1, !.afd = -1, !.users = @ - 1], out |-> d.out \o <<Sys("afd_put", AFD, 0, TRUE)>>]
           ELSE IF NumBell(s) > 0 /\ s.afd < 0
           THEN LET g == [s EXCEPT !.afd = AFD, !.users = @ + 1]
                    r == FdRegAdd(g, AFD, 0)
                IN [s |-> [r.s EXCEPT !.areg = r.ret], out |-> <<Sys("afd_get", AFD, 0, TRUE)>> \o r.out]
           ELSE [s |-> s, out |-> <<>>]
  IN IF a.s.afd >= 0 /\ ~a.s.dead
     THEN LET m == FdRegMod(a.s, a.s.areg, IF Ringing(a.s) THEN EIN ELSE 0) IN [s |-> m.s, out |-> a.out \o m.out]
     ELSE a

AllocBell(s) ==
  IF NumBell(s) = s.bcap
  THEN LET nc == NextCap(s.bcap) IN
       [s |-> [s EXCEPT !.bcap = nc, !.br = [i \in 0..(nc - 1) |-> IF i < s.bcap THEN s.br[i] ELSE [free |-> TRUE, ring |-> FALSE]]],
        i |-> s.bcap]
  ELSE [s |-> s, i |-> Min({i \in DOMAIN s.br : s.br[i].free})]

ValidBell(s, i) == i \in DOMAIN s.br /\ ~s.br[i].free
BellRegAdd(s, ring) ==
  LET a == AllocBell(s)
      s1 == [a.s EXCEPT !.br[a.i] = [free |-> FALSE, ring |-> ring]]
      u == UpdateActive(s1)
  IN R(u.s, a.i, u.out)
BellRegMod(s, i, ring) ==
  IF ~ValidBell(s, i) THEN Dead(s)
  ELSE IF s.br[i].ring = ring THEN R(s, 0, <<>>)
  ELSE LET u == UpdateActive([s EXCEPT !.br[i].ring = ring]) IN R(u.s, 0, u.out)
BellRegDel(s, i) ==
  IF ~ValidBell(s, i) THEN Dead(s)
  ELSE LET u == UpdateActive([s EXCEPT !.br[i] = [free |-> TRUE, ring |-> s.br[i].ring]]) IN R(u.s, 0, u.out)

\* the owner closes a registered descriptor without deleting the registration first: the kernel forgets it
CloseFd(s, fd) == R([s EXCEPT !.ker = Drop(@, {fd}), !.gone = @ \cup {fd}], 0, <<>>)

\* one call: op = [o, a, b]
Step(s, op) ==
  CASE op.o = "fa" -> FdRegAdd(s, op.a, op.b)
    [] op.o = "fm" -> FdRegMod(s, op.a, op.b)
    [] op.o = "fd" -> FdRegDel(s, op.a)
    [] op.o = "ba" -> BellRegAdd(s, op.b = 1)
    [] op.o = "bm" -> BellRegMod(s, op.a, op.b = 1)
    [] op.o = "bd" -> BellRegDel(s, op.a)
    [] op.o = "cl" -> CloseFd(s, op.a)
    [] OTHER -> R(s, 0, <<>>)

\* ---- what the user of xpoll may assume -----------------------------------------------------------
LiveRegs(s) == {i \in DOMAIN s.fr : s.fr[i].fd # -1 /\ s.fr[i].ev # 0 /\ s.fr[i].fd \notin s.gone}
KernelView(s) == /\ DOMAIN s.ker = {s.fr[i].fd : i \in LiveRegs(s)}
                 /\ \A i \in LiveRegs(s) : s.ker[s.fr[i].fd] = s.fr[i].ev
\* rdy: user descriptors that are readable at the moment (every descriptor of the harness is always writable)
Ready(fd, rdy) == IF fd = AFD THEN EIN ELSE (IF fd \in rdy THEN EIN ELSE 0) + EOUT
EpollReadable(s, rdy) == \E fd \in DOMAIN s.ker : And(s.ker[fd], Ready(fd, rdy)) # 0
Meaning(s, rdy) == Ringing(s) \/ \E i \in DOMAIN s.fr : /\ s.fr[i].fd \notin {-1, AFD} /\ s.fr[i].fd \notin s.gone
                                                         /\ And(s.fr[i].ev, Ready(s.fr[i].fd, rdy)) # 0
PoolUser(s) == /\ s.users = (IF NumBell(s) > 0 THEN 1 ELSE 0)
               /\ (s.afd >= 0) = (NumBell(s) > 0)
               /\ (s.afd >= 0) => (ValidFd(s, s.areg) /\ s.fr[s.areg].fd = AFD /\ s.fr[s.areg].ev = (IF Ringing(s) THEN EIN ELSE 0))
               /\ (s.afd < 0) => (s.areg = -1 /\ ~HasFd(s, AFD))
Shape(s) == /\ DOMAIN s.fr = 0..(s.cap - 1) /\ DOMAIN s.br = 0..(s.bcap - 1)
            /\ \A i, j \in DOMAIN s.fr : (i # j /\ s.fr[i].fd # -1) => s.fr[i].fd # s.fr[j].fd

\* ---- the bounded model ------------------------------------------------------------------------
CONSTANTS Fds,        \* user descriptors
          MaxOps,     \* calls per behaviour
          EmitPaths,  \* "none" | "transition"
          Broken      \* "none", or a deliberately wrong variant that the invariants must reject (vacuity guard)

VARIABLES st, rdy, last, path
vars == <<st, rdy, last, path>>

Op(o, a, b) == [o |-> o, a |-> a, b |-> b]
\* what a caller that respects the interface may do in state s (no assert is provoked)
Legal(s, op) ==
  CASE op.o = "fa" -> op.a \in Fds /\ ~HasFd(s, op.a) /\ op.a \notin s.gone
    [] op.o = "fm" -> ValidFd(s, op.a) /\ s.fr[op.a].fd # AFD /\ (s.fr[op.a].fd \notin s.gone \/ op.b = 0)
    [] op.o = "fd" -> ValidFd(s, op.a) /\ s.fr[op.a].fd # AFD
    [] op.o = "ba" -> TRUE
    [] op.o \in {"bm", "bd"} -> ValidBell(s, op.a)
    [] op.o = "cl" -> op.a \in Fds /\ HasFd(s, op.a) /\ op.a \notin s.gone
    [] OTHER -> FALSE
Ops(s) == {Op("fa", fd, m) : fd \in Fds, m \in Masks} \cup {Op("fm", i, m) : i \in DOMAIN s.fr, m \in Masks}
          \cup {Op("fd", i, 0) : i \in DOMAIN s.fr} \cup {Op("ba", 0, r) : r \in {0, 1}}
          \cup {Op("bm", i, r) : i \in DOMAIN s.br, r \in {0, 1}} \cup {Op("bd", i, 0) : i \in DOMAIN s.br}
          \cup {Op("cl", fd, 0) : fd \in Fds}

\* deliberately broken variants
BStep(s, op) ==
  LET r == Step(s, op) IN
  CASE Broken = "del_keeps" /\ op.o = "fd" ->          \* the slot is freed but the descriptor stays in the epoll set
         R([s EXCEPT !.fr[op.a] = [fd |-> -1, ev |-> 0]], 0, <<>>)
    [] Broken = "bell_silent" /\ op.o = "bm" ->         \* a bell that starts ringing does not reach the eventfd
         R([s EXCEPT !.br[op.a].ring = (op.b = 1)], 0, <<>>)
    [] Broken = "afd_kept" /\ op.o = "bd" /\ NumBell(s) = 1 ->   \* the pool user is not returned with the last bell
         R([r.s EXCEPT !.users = s.users], r.ret, r.out)
    [] OTHER -> r

Init == st = S0 /\ rdy = {} /\ last = R(S0, 0, <<>>) /\ path = <<>>
Call == /\ Len(path) < MaxOps
        /\ \E op \in Ops(st) :
             /\ Legal(st, op)
             /\ last' = BStep(st, op)
             /\ st' = last'.s
             /\ path' = Append(path, <<op.o, op.a, op.b>>)
             /\ rdy' = (IF op.o = "cl" THEN rdy \ {op.a} ELSE rdy)      \* a closed descriptor is ready for nothing
Flip == /\ Len(path) < MaxOps
        /\ \E fd \in Fds : /\ HasFd(st, fd) /\ fd \notin st.gone
                           /\ rdy' = (IF fd \in rdy THEN rdy \ {fd} ELSE rdy \cup {fd})
                           /\ path' = Append(path, <<"rd", fd, IF fd \in rdy THEN 0 ELSE 1>>)
        /\ UNCHANGED <<st, last>>
Next == Call \/ Flip
Spec == Init /\ [][Next]_vars

InvKernel == KernelView(st)
InvReadable == EpollReadable(st, rdy) = Meaning(st, rdy)
InvPool == PoolUser(st)
InvShape == Shape(st)
InvNoAbort == ~st.dead                               \* a caller that respects the interface never provokes an assert
\* an id handed out was free, and no other registration moved
InvIds == [][\A i \in DOMAIN st.fr : (st.fr[i].fd # -1 /\ i \in DOMAIN st'.fr /\ st'.fr[i].fd # -1 /\ st.fr[i].fd # AFD
                                      /\ ~(path' # path /\ path'[Len(path')][1] = "fd" /\ path'[Len(path')][2] = i))
                                     => st'.fr[i].fd = st.fr[i].fd]_vars
\* no system call without a change of the interest list; at most the eventfd's and one user descriptor's entry change
InvFrugal == \A k \in 1..Len(last.out) : last.out[k].op \in {"ADD", "MOD", "DEL", "afd_get", "afd_put"}
InvFrugalStep == [][(path' # path /\ path'[Len(path')][1] # "rd" /\ st'.ker = st.ker /\ st'.gone = st.gone) =>
                      \A k \in 1..Len(last'.out) : last'.out[k].op \in {"afd_get", "afd_put"} \/ ~last'.out[k].ok]_vars

Emit == (EmitPaths = "transition" /\ path' # path) => PrintT("@P " \o ToJson(path'))
view == <<st, rdy, last>>
=============================================================================
