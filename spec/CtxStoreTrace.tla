--------------------------- MODULE CtxStoreTrace ---------------------------
(***************************************************************************)
(* Trace specification for C18: validates what harness/creds_exec did and  *)
(* observed on the real library against CtxCore (the definitions shared    *)
(* with the bounded model CtxStore).  Monitor style, one line per step.    *)
(*                                                                         *)
(* The specification keeps its own file system, environment and sockets,   *)
(* applies the SAME update operators as the model (FsPut, FsFlipL, ...),   *)
(* and for every API call computes what the property demands:              *)
(*                                                                         *)
(*   open   the material the socket's designation denoted at the moment    *)
(*          of the call (snapsI: every snapshot, when files were changed   *)
(*          while the call was in progress).  The call must fail with      *)
(*          EPROTO exactly when that material does not load.  What the     *)
(*          socket really runs on is not visible yet; but the identity of  *)
(*          the TLS context it was given is: a context has ONE material,   *)
(*          so the candidates of a context shared by several sockets must  *)
(*          intersect (Distinct), and the number of live contexts is the   *)
(*          number of contexts held by live sockets (Released).            *)
(*   drive  the handshake outcome and the subject key id each side sees    *)
(*          must be what Establishes / SeenByClient / SeenByServer give    *)
(*          for some pair of candidates (Fresh).                           *)
(*   chk    an established pair still works and shows the same identities  *)
(*          whatever happened to the files since (EstablishedUnaffected).  *)
(*   close  the context is freed exactly when its last user goes.          *)
(*                                                                         *)
(* Candidates carry a label: "" = what the property demands; a deviation   *)
(* name = what the code is known / suspected to do instead.  When only a   *)
(* labelled candidate explains the observation the mismatch is printed     *)
(* with that label and the monitor continues with the explained state.     *)
(*   @V <x> <n> <tag> <label> <expected> <observed>                        *)
(***************************************************************************)
EXTENDS CtxCore, Json, IOUtils

TraceLog == ndJsonDeserialize(IOEnv.TRACE)
NL == Len(TraceLog)

VARIABLES l, fs, env, nsn, socks, ctxs, cur, base, mm, nv, stat
tvars == <<l, fs, env, nsn, socks, ctxs, cur, base, mm, nv, stat>>

EPROTO == 71
SockIds == 1..63
NoRes == Unresolved(Des4(DOff, DOff, DOff, DOff))
TSock0 == [live |-> FALSE, kind |-> "", des |-> NoRes, res |-> NoRes, ctx |-> -1, est |-> -1, idc |-> "", ids |-> ""]
Cur0 == [active |-> FALSE, s |-> 0, p |-> 0, kind |-> "", des |-> NoRes, ires |-> NoRes, fres |-> NoRes,
         snapsI |-> {}, snapsF |-> {}, k0 |-> <<>>, mids |-> 0]
Stat0 == [x |-> 0, open_ok |-> 0, open_fail |-> 0, reuse |-> 0, drive_est |-> 0, drive_rej |-> 0, chk |-> 0, close |-> 0,
          freed_on_close |-> 0, mid |-> 0, retry |-> 0, incon |-> 0, dev |-> 0, share_note |-> 0, accept |-> 0,
          byval |-> 0, ns |-> 0]

Init == /\ l = 1 /\ fs = Fs0 /\ env = "unset" /\ nsn = "" /\ socks = [s \in SockIds |-> TSock0]
        /\ ctxs = [x \in {} |-> 0] /\ cur = Cur0 /\ base = 0 /\ mm = FALSE /\ nv = 0 /\ stat = Stat0

ToSet(s) == {s[i] : i \in 1..Len(s)}
DesOf(e) == Des4(D(e.des[1][1], e.des[1][2]), D(e.des[2][1], e.des[2][2]),
                 D(e.des[3][1], e.des[3][2]), D(e.des[4][1], e.des[4][2]))
EnvDir(d) == IF d \in DirNames THEN d ELSE "nx"       \* unset / anything else: no such directory

\* ---- reporting --------------------------------------------------------------------
Chk(c, t, w, x, o) == [c |-> c, t |-> t, w |-> w, x |-> x, o |-> o]
Failed(cs) == SelectSeq(cs, LAMBDA r : ~r.c)
\* a mismatch nobody can explain ends the reporting for this execution (later ones may be consequences)
Plain(r) == r.w \notin {"accept_env_frozen", "ctx_meta_key", "aba_load", "load_errno", "value_concat"}
Report(e, cs) ==
  LET f == Failed(cs) IN
  /\ IF f = <<>> \/ mm THEN TRUE ELSE PrintT("@V " \o ToJson(<<e.x, e.n, f[1].t, f[1].w, f[1].x, f[1].o>>))
  /\ mm' = (mm \/ (f # <<>> /\ Plain(f[1])))
  /\ nv' = nv + (IF f # <<>> /\ ~mm THEN 1 ELSE 0)
NoReport == mm' = mm /\ nv' = nv

Cand(m, w) == [m |-> m, why |-> w]
Mats(cs) == {c.m : c \in cs}
Held(sk) == {sk[t].ctx : t \in {u \in SockIds : sk[u].live}}

\* ---- updates --------------------------------------------------------------------------
\* while a call is in progress every update adds the snapshot the designation now denotes
Snap(f2, c) == IF c.active THEN [c EXCEPT !.snapsI = @ \cup {Mat(f2, c.ires)}, !.snapsF = @ \cup {Mat(f2, c.fres)},
                                           !.mids = @ + 1]
               ELSE c
FsEvent(e, f2) ==
  /\ fs' = f2
  /\ cur' = Snap(f2, cur)
  /\ stat' = [stat EXCEPT !.mid = @ + (IF e.mid = 1 /\ cur.active THEN 1 ELSE 0)]
  /\ Report(e, <<Chk(e.ok = 1, "INTERNAL", "update_failed", 1, e.why)>>)
  /\ UNCHANGED <<env, nsn, socks, ctxs, base>>

Put(e) == FsEvent(e, IF e.how = "same" THEN FsPutSame(fs, e.d, e.ns, e.it, e.c) ELSE FsPut(fs, e.d, e.ns, e.it, e.c))
FlipL(e) == FsEvent(e, FsFlipL(fs, e.d))
FlipF(e) == FsEvent(e, FsFlipF(fs, e.it, e.d))
\* the directory is read when the call is made: a change during the call does not concern it
SetEnv(e) == /\ env' = EnvDir(e.d) /\ NoReport
             /\ stat' = [stat EXCEPT !.mid = @ + (IF e.mid = 1 /\ cur.active THEN 1 ELSE 0)]
             /\ UNCHANGED <<fs, nsn, socks, ctxs, cur, base>>
SetNs(e) == /\ nsn' = e.ns
            /\ Report(e, <<Chk(e.ok = 1, "INTERNAL", "ns_failed", 1, e.why)>>)
            /\ stat' = [stat EXCEPT !.ns = @ + 1]
            /\ UNCHANGED <<fs, env, socks, ctxs, cur, base>>

Reset(e) ==
  /\ fs' = Fs0 /\ env' = "nx" /\ nsn' = "" /\ socks' = [s \in SockIds |-> TSock0] /\ ctxs' = [x \in {} |-> 0]
  /\ cur' = Cur0 /\ base' = e.live /\ mm' = FALSE /\ nv' = nv
  /\ stat' = [stat EXCEPT !.x = @ + 1]

\* ---- a call begins: what is designated, by the property's reading and by the code's -------------
OBeg(e) ==
  LET attrs == DesOf(e)
      acc == e.k = "accept"
      des == IF acc THEN Inherit(attrs, socks[e.p].des) ELSE Unresolved(attrs)
      ires == ResolveR(des, env, nsn)
      fres == IF acc THEN ResolveR(Inherit(attrs, socks[e.p].res), env, nsn) ELSE ires
  IN /\ cur' = [active |-> TRUE, s |-> e.s, p |-> e.p, kind |-> e.k, des |-> des, ires |-> ires, fres |-> fres,
                snapsI |-> {Mat(fs, ires)}, snapsF |-> {Mat(fs, fres)}, k0 |-> KeyOf(fs, fres), mids |-> 0]
     /\ Report(e, <<Chk(~socks[e.s].live, "INTERNAL", "socket_in_use", 0, e.s),
                    Chk(e.live - base = Cardinality(Held(socks)), "INTERNAL", "live_before_call",
                        Cardinality(Held(socks)), e.live - base)>>)
     /\ UNCHANGED <<fs, env, nsn, socks, ctxs, base, stat>>

\* ---- the call returns ------------------------------------------------------------------------
\* the scaffolding asked for a connection that an earlier failure made impossible: nothing happened
OpenSkipped(e) ==
  /\ cur' = Cur0 /\ NoReport
  /\ UNCHANGED <<fs, env, nsn, socks, ctxs, base, stat>>

OpenDone(e) ==
  LET okI == {m \in cur.snapsI : LoadOk(m)}
      badI == cur.snapsI \ okI
      okF == {m \in cur.snapsF : LoadOk(m)}
      badF == cur.snapsF \ okF
      X == e.ctx
      known == X \in DOMAIN ctxs
      \* material put together from several snapshots: no moment at which it was designated
      mixes == IF Cardinality(cur.snapsI) > 1
               THEN {m \in {MatOf(a.cert, b.key, c.tc, d.crl) : a \in cur.snapsI, b \in cur.snapsI,
                                                                  c \in cur.snapsI, d \in cur.snapsI} : LoadOk(m)}
                    \ (okI \cup okF)
               ELSE {}
      mixLabel == IF ~HashFails(fs, cur.fres) /\ KeyOf(fs, cur.fres) = cur.k0 THEN "aba_load" ELSE "mix"
      fresh == {Cand(m, "") : m \in okI} \cup {Cand(m, "accept_env_frozen") : m \in okF \ okI}
               \cup {Cand(m, mixLabel) : m \in mixes}
      inter == IF known THEN {c \in ctxs[X].cands : c.m \in okI} ELSE {}
      interF == IF known THEN {c \in ctxs[X].cands : c.m \in okF} ELSE {}
      ok == e.ret = 0
      \* which label explains a context shared although the designated material differs
      staleKey == known /\ FileItems(cur.fres) # {} /\ ~HashFails(fs, cur.fres) /\ ctxs[X].key = KeyOf(fs, cur.fres)
      \* the cache key still fits, and NOTHING has been written since the call that made the context returned: the context was
      \* installed under the key of a file generation other than the one it was read from (no named deviation of the library)
      staleInstall == staleKey /\ ctxs[X].fsb = fs
      shareWhy == IF interF # {} THEN "accept_env_frozen"
                  ELSE IF staleInstall THEN "stale_install"
                  ELSE IF staleKey THEN "ctx_meta_key"
                  ELSE IF known /\ AllByValue(cur.fres) /\ ctxs[X].flat = Flat(cur.fres) THEN "value_concat"
                  ELSE "shared"
      newc == IF ~ok THEN ctxs
              ELSE IF known
                   \* candidates that name a deviation stay until an observation contradicts them
                   THEN [ctxs EXCEPT ![X].cands = IF inter # {} THEN inter \cup {c \in @ : c.why # ""} ELSE @]
                   ELSE [x \in DOMAIN ctxs \cup {X} |->
                           IF x = X THEN [cands |-> IF fresh = {} THEN {Cand(NoMat, "?")} ELSE fresh,
                                          key |-> IF HashFails(fs, cur.fres) THEN <<>> ELSE KeyOf(fs, cur.fres),
                                          flat |-> IF AllByValue(cur.fres) THEN Flat(cur.fres) ELSE <<"-">>,
                                          fsb |-> fs]
                           ELSE ctxs[x]]
      sk == IF ok THEN [socks EXCEPT ![cur.s] = [TSock0 EXCEPT !.live = TRUE, !.kind = cur.kind, !.des = cur.des,
                                                                !.res = cur.fres, !.ctx = X]]
            ELSE socks
      H == Held(sk)
      \* the bad token that makes the designated material fail, for the report
      badToks == UNION {{m[it] : it \in ItemSet} \cap BadToks : m \in badI}
      badTok == IF badToks \cap Unreadable # {} THEN CHOOSE x \in badToks \cap Unreadable : TRUE
                ELSE IF badToks # {} THEN CHOOSE x \in badToks : TRUE ELSE "mismatch"
      \* a file that can be stat'ed but not read, or that vanishes between the hash and the read
      failWhy == IF badToks \cap Unreadable # {} /\ cur.kind # "accept" THEN "load_errno" ELSE "errno"
      predictedReuse == ~HashFails(fs, cur.fres) /\ \E x \in DOMAIN ctxs : ctxs[x].key = KeyOf(fs, cur.fres)
      cs ==
        <<Chk(cur.active /\ cur.s = e.s, "INTERNAL", "open_without_begin", cur.s, e.s),
          Chk(e.ok = 1, "INTERNAL", "ctx_store_seam_not_hit", 1, e.ok),
          Chk(e.why = "", "INTERNAL", "harness", "", e.why),
          Chk(cur.kind # "accept" \/ (socks[cur.p].live /\ socks[cur.p].kind = "server"), "INTERNAL", "no_server", 0, cur.p),
          Chk(ok \/ e.err # 11, "INTERNAL", "eagain", 0, e.err),
          Chk(~ok \/ X > 0, "INTERNAL", "context_not_identified", 1, X),
          \* EPROTO exactly when the designated material is unreadable, malformed or mismatching
          Chk(~ok \/ okI # {}, "C18.eproto", IF okF # {} THEN "accept_env_frozen" ELSE IF staleKey THEN "ctx_meta_key" ELSE "accepted_bad",
              <<"EPROTO", IF badI = {} THEN "" ELSE badTok>>, <<"opened", cur.kind>>),
          Chk(ok \/ badI # {}, "C18.fresh", IF badF # {} THEN "accept_env_frozen" ELSE "spurious_failure",
              <<"opened", cur.kind>>, <<"failed", e.err>>),
          Chk(ok \/ badI = {} \/ e.err = EPROTO, "C18.eproto", failWhy,
              <<"EPROTO", IF badI = {} THEN "" ELSE badTok, cur.kind>>, <<"errno", e.err>>),
          \* a context handed to this socket although it was made of other material
          Chk(~ok \/ ~known \/ okI = {} \/ inter # {}, IF shareWhy \in {"shared", "value_concat"} THEN "C18.distinct" ELSE "C18.fresh", shareWhy,
              <<"designated", okI>>, <<"context", X, IF known THEN Mats(ctxs[X].cands) ELSE {}>>),
          \* no context without a user, no user without its context
          Chk(ToSet(e.freed) \cap H = {}, "C18.released", "freed_in_use", H, e.freed),
          Chk(e.live - base = Cardinality(H), "C18.released", IF e.live - base > Cardinality(H) THEN "leak" ELSE "freed_in_use",
              Cardinality(H), e.live - base)>>
  IN /\ Report(e, cs)
     \* the model of the cache key predicts more than the property demands: whether a context is shared is only noted
     /\ IF ok /\ predictedReuse # known THEN PrintT("@N " \o ToJson(<<e.x, e.n, "share", predictedReuse, known>>)) ELSE TRUE
     \* the use count the library's own hook reports (if compiled in) = number of sockets holding the context
     /\ IF ok /\ e.uc >= 0 /\ e.uc # Cardinality({t \in SockIds : sk[t].live /\ sk[t].ctx = X})
        THEN PrintT("@N " \o ToJson(<<e.x, e.n, "use_count", Cardinality({t \in SockIds : sk[t].live /\ sk[t].ctx = X}), e.uc>>))
        ELSE TRUE
     /\ ctxs' = [x \in DOMAIN newc \ (ToSet(e.freed) \ H) |-> newc[x]]
     /\ socks' = sk
     /\ cur' = Cur0
     /\ stat' = [stat EXCEPT !.open_ok = @ + (IF ok THEN 1 ELSE 0), !.open_fail = @ + (IF ok THEN 0 ELSE 1),
                             !.reuse = @ + (IF ok /\ known THEN 1 ELSE 0),
                             !.retry = @ + (IF cur.mids > 0 /\ e.nfo > Cardinality(FileItems(cur.fres)) THEN 1 ELSE 0),
                             !.accept = @ + (IF ok /\ cur.kind = "accept" THEN 1 ELSE 0),
                             !.byval = @ + (IF ok /\ \E it \in ItemSet : cur.fres[it].t = "val" THEN 1 ELSE 0),
                             !.share_note = @ + (IF ok /\ predictedReuse # known THEN 1 ELSE 0)]
     /\ UNCHANGED <<fs, env, nsn, base>>

Open(e) == IF e.why = "skipped" THEN OpenSkipped(e) ELSE OpenDone(e)

\* ---- handshake and identities ------------------------------------------------------------
Cons(a, b, e) == /\ Establishes(a, b) = (e.est = 1)
                 /\ (e.est = 1) => (e.idc = SeenByClient(a, b) /\ e.ids = SeenByServer(a, b))
Drive(e) ==
  LET c == e.s
      s == e.s2
      xc == socks[c].ctx
      xs == socks[s].ctx
      A == IF xc \in DOMAIN ctxs THEN ctxs[xc].cands ELSE {}
      B == IF xs \in DOMAIN ctxs THEN ctxs[xs].cands ELSE {}
      Pairs == {p \in A \X B : (xc # xs \/ p[1] = p[2]) /\ Cons(p[1].m, p[2].m, e)}
      Clean == {p \in Pairs : p[1].why = "" /\ p[2].why = ""}
      Use == Pairs            \* every explanation, labelled or not, that fits what was seen
      labels == {p[1].why : p \in Pairs} \cup {p[2].why : p \in Pairs}
      why == IF Pairs = {} THEN "unexplained"
             ELSE IF "accept_env_frozen" \in labels THEN "accept_env_frozen"
             ELSE IF "aba_load" \in labels THEN "aba_load"
             ELSE IF "mix" \in labels THEN "mix" ELSE "other"
      \* what the property's candidates predict, for the report
      pred == {<<Establishes(a.m, b.m), SeenByClient(a.m, b.m), SeenByServer(a.m, b.m)>> :
                  a \in {q \in A : q.why = ""}, b \in {q \in B : q.why = ""}}
      ready == socks[c].live /\ socks[s].live /\ xc \in DOMAIN ctxs /\ xs \in DOMAIN ctxs
      incon == e.est = -2
      skip == e.est = -3
  IN /\ Report(e, <<Chk(ready # skip, "INTERNAL", "drive_without_sockets", 0, <<c, s>>),
                    Chk(~ready \/ incon \/ skip \/ Clean # {}, "C18.fresh", why, pred, <<e.est = 1, e.idc, e.ids, e.ec, e.es>>)>>)
     /\ ctxs' = IF ~ready \/ incon \/ skip \/ Use = {} THEN ctxs
                ELSE [x \in DOMAIN ctxs |-> IF x = xc /\ x = xs THEN [ctxs[x] EXCEPT !.cands = {p[1] : p \in Use}]
                                            ELSE IF x = xc THEN [ctxs[x] EXCEPT !.cands = {p[1] : p \in Use}]
                                            ELSE IF x = xs THEN [ctxs[x] EXCEPT !.cands = {p[2] : p \in Use}]
                                            ELSE ctxs[x]]
     /\ socks' = IF ~ready \/ skip THEN socks
                 ELSE [socks EXCEPT ![c].est = e.est, ![c].idc = e.idc, ![c].ids = e.ids]
     /\ stat' = [stat EXCEPT !.drive_est = @ + (IF e.est = 1 THEN 1 ELSE 0), !.drive_rej = @ + (IF e.est = 0 THEN 1 ELSE 0),
                             !.incon = @ + (IF incon THEN 1 ELSE 0),
                             !.dev = @ + (IF ready /\ ~incon /\ Clean = {} /\ Pairs # {} THEN 1 ELSE 0)]
     /\ UNCHANGED <<fs, env, nsn, cur, base>>

\* an established connection is not affected by anything that happened since
Check(e) ==
  LET c == e.s
      was == socks[c].live /\ socks[e.s2].live /\ socks[c].est = 1
  IN /\ Report(e, <<Chk(~was \/ e.est = -2 \/ (e.est = 1 /\ e.idc = socks[c].idc /\ e.ids = socks[c].ids), "C18.established",
                        "after_update", <<TRUE, socks[c].idc, socks[c].ids>>, <<e.est = 1, e.idc, e.ids, e.ec, e.es>>)>>)
     /\ stat' = [stat EXCEPT !.chk = @ + (IF was THEN 1 ELSE 0)]
     /\ UNCHANGED <<fs, env, nsn, socks, ctxs, cur, base>>

CloseSkipped(e) ==
  /\ Report(e, <<Chk(~socks[e.s].live, "INTERNAL", "close_skipped_of_live", 0, e.s)>>)
  /\ UNCHANGED <<fs, env, nsn, socks, ctxs, cur, base, stat>>

CloseDone(e) ==
  LET X == socks[e.s].ctx
      sk == [socks EXCEPT ![e.s] = TSock0]
      H == Held(sk)
      fr == ToSet(e.freed)
  IN /\ Report(e, <<Chk(socks[e.s].live, "INTERNAL", "close_of_closed", 0, e.s),
                    \* xcm_close and xcm_cleanup alike give the socket's reference to its context back
                    Chk(e.ok = 1, "C18.released", "reference_kept", <<"ctx_store_put by", IF e.why = "cleanup" THEN "xcm_cleanup" ELSE "xcm_close">>, e.ok),
                    Chk(fr \cap H = {}, "C18.released", "freed_in_use", H, e.freed),
                    Chk(X \in H \/ X \in fr, "C18.released", "leak", <<"freed", X>>, e.freed),
                    Chk(e.live - base = Cardinality(H), "C18.released", IF e.live - base > Cardinality(H) THEN "leak" ELSE "freed_in_use",
                        Cardinality(H), e.live - base)>>)
     /\ IF e.uc >= 0 /\ e.uc # Cardinality({t \in SockIds : sk[t].live /\ sk[t].ctx = X})
        THEN PrintT("@N " \o ToJson(<<e.x, e.n, "use_count", Cardinality({t \in SockIds : sk[t].live /\ sk[t].ctx = X}), e.uc>>))
        ELSE TRUE
     /\ socks' = sk
     /\ ctxs' = [x \in DOMAIN ctxs \ (fr \ H) |-> ctxs[x]]
     /\ stat' = [stat EXCEPT !.close = @ + 1, !.freed_on_close = @ + (IF fr # {} THEN 1 ELSE 0)]
     /\ UNCHANGED <<fs, env, nsn, cur, base>>

Close(e) == IF e.why = "skipped" THEN CloseSkipped(e) ELSE CloseDone(e)

End(e) ==
  /\ Report(e, <<Chk(e.live - base = 0, "C18.released", "leak_at_end", 0, e.live - base),
                 Chk(Held(socks) = {}, "INTERNAL", "sockets_left", {}, Held(socks)),
                 Chk(e.ok = 0, "C18.released", "foreign_context_freed", 0, e.ok)>>)
  /\ UNCHANGED <<fs, env, nsn, socks, ctxs, cur, base, stat>>

Crash(e) ==
  /\ IF mm THEN TRUE ELSE PrintT("@V " \o ToJson(<<e.x, e.n, "C18.crash", "crash", "", e.why>>))
  /\ mm' = TRUE /\ nv' = nv + (IF mm THEN 0 ELSE 1)
  /\ UNCHANGED <<fs, env, nsn, socks, ctxs, cur, base, stat>>

TNext ==
  /\ l <= NL
  /\ l' = l + 1
  /\ LET e == TraceLog[l] IN
     CASE e.ev = "reset" -> Reset(e)
       [] e.ev = "put" -> Put(e)
       [] e.ev = "flipL" -> FlipL(e)
       [] e.ev = "flipF" -> FlipF(e)
       [] e.ev = "env" -> SetEnv(e)
       [] e.ev = "ns" -> SetNs(e)
       [] e.ev = "obeg" -> OBeg(e)
       [] e.ev = "open" -> Open(e)
       [] e.ev = "drive" -> Drive(e)
       [] e.ev = "chk" -> Check(e)
       [] e.ev = "close" -> Close(e)
       [] e.ev = "end" -> End(e)
       [] e.ev = "crash" -> Crash(e)
  /\ IF l < NL THEN TRUE ELSE PrintT("@STAT " \o ToJson(stat'))

TSpec == Init /\ [][TNext]_tvars
\* the whole trace was consumed (a line the specification cannot follow stops it early)
Accepted == TLCGet("stats").diameter = NL + 1
=============================================================================
