------------------------------ MODULE TConnect ------------------------------
(***************************************************************************)
(* Name resolution and multi-address connect of the TCP based transports   *)
(* (property C13).  Transcribed from                                        *)
(*   libxcm/tp/tcp/tconnect.c     tracks, track_connect_next,               *)
(*                                track_process_*, tconnect_connect,        *)
(*                                tconnect_get_connected_fd                 *)
(*   libxcm/tp/tcp/xcm_tp_btcp.c  btcp_connect, begin_connect,              *)
(*                                try_finish_resolution, try_finish_connect,*)
(*                                try_establish, btcp_finish/send/receive   *)
(*   libxcm/tp/tcp/xcm_tp_tcp.c   tcp_finish/send/receive (the send buffer) *)
(*   libxcm/tp/dns/xcm_dns_cares.c  xcm_dns_resolve, process_in_progress,   *)
(*                                xcm_dns_query_result, xcm_dns_resolve_sync*)
(*   libxcm/core/timer_mgr.c      schedule / has_expired (now > expiry)     *)
(*   libxcm/core/xcm.c            xcm_connect_a, socket_finish (blocking)   *)
(*                                                                         *)
(* The library state is one record L; every API call is a function         *)
(* (scenario, time, resolver state, L) -> L'.  The same operators are used  *)
(* by the model-checking specification (TConnectMC) and by the trace        *)
(* specification (TConnectTrace) that validates recorded executions of the  *)
(* real library.                                                            *)
(*                                                                         *)
(* Environment (what harness/tconn_exec + shim/shim_tconn.c provide):       *)
(*  - the resolver answers with the address list sc.ips; each address has a *)
(*    behaviour: accept, refuse, silent, unreach;                           *)
(*  - connect() to an accepting / refusing address returns EINPROGRESS and  *)
(*    its outcome is visible to every later probe; a silent address never   *)
(*    answers; an unreachable one fails at once with errno sc.ue;           *)
(*  - time is in milliseconds and passes only in Advance steps.             *)
(***************************************************************************)
EXTENDS Integers, Sequences, FiniteSets, TLC

\* errno values (Linux)
ENOENT == 2
EAGAIN == 11
EINVAL == 22
EAFNOSUPPORT == 97
ENETUNREACH == 101
ETIMEDOUT == 110
ECONNREFUSED == 111
EHOSTUNREACH == 113
EINPROGRESS == 115

\* behaviours of an address
ACCEPT == 1
REFUSE == 2
SILENT == 3
UNREACH == 4

HappyDelay == 200          \* HAPPY_EYEBALLS_INITIAL_IPV4_DELAY
MaxResult == 32            \* XCM_DNS_MAX_RESULT_SIZE
DefaultDnsTimeout == 10000 \* DEFAULT_OVERALL_TIMEOUT, SYNC_DNS_TIMEOUT

MinOf(S) == CHOOSE x \in S : \A y \in S : x <= y
MinN(a, b) == IF a <= b THEN a ELSE b

(***************************************************************************)
(* A scenario is a record                                                   *)
(*  [mode, kind, tp, alg, res, loc, cto, dto, ue, blk, rot, ips]            *)
(*  alg  "none" (attribute not given), "single", "sequential", "happy"      *)
(*  res  "ip" (address literal), "sync", "later" (answer arrives later),    *)
(*       "fail", "faillater", "silent"                                      *)
(*  loc  "none", "v4", "v4p" (with a port), "v6", "name4" (a name that      *)
(*       resolves to the v4 address), "namex" (a name that does not)        *)
(*  ips  sequence of <<family, behaviour>>                                  *)
(***************************************************************************)
Fam(sc, i) == sc.ips[i][1]
Beh(sc, i) == sc.ips[i][2]
EffAlg(sc) == IF sc.alg = "none" THEN "single" ELSE sc.alg
NCand(sc) == IF EffAlg(sc) = "single" THEN MinN(1, Len(sc.ips)) ELSE MinN(Len(sc.ips), MaxResult)
LocFam(sc) == CASE sc.loc \in {"v4", "v4p", "name4"} -> 4
                [] sc.loc = "v6" -> 6
                [] OTHER -> 0
Dto(sc) == IF sc.dto <= 0 THEN DefaultDnsTimeout ELSE sc.dto
Named(sc) == sc.res # "ip"
ResolvesOk(sc) == sc.res \in {"ip", "sync", "later"}

\* ---- library state -------------------------------------------------------------
\* track: fams  families of the sockets it owns; n  number of candidates it may look at
NewTrack(fams, n) == [fams |-> fams, st |-> "connecting", idx |-> 0, why |-> 0, tmr |-> -1, n |-> n]

Fresh == [ph |-> "none",      \* none, resolving, connecting, ready, bad, gone (connect failed: no socket)
          why |-> 0,
          q |-> "none",        \* none, inprog, ok, failed
          qexp |-> -1,         \* expiry of the overall resolution timer
          tr |-> <<>>,
          pend |-> FALSE,      \* tcp: a message waits in the send buffer
          bound |-> {},        \* families whose socket has been bound to the local address
          resolved |-> FALSE,  \* ghost: an address list was obtained (resolver answered in time, or a literal)
          conn |-> 0,          \* index of the address the connection goes to
          order |-> <<>>,      \* ghost: indices of all connect() attempts so far
          sys |-> <<>>,        \* bind/connect calls made during the current API call
          ret |-> 0, err |-> 0]

SetTr(L, t, T) == [L EXCEPT !.tr[t] = T]
\* sys entries: <<kind (1 bind, 2 connect), index, result, errno, family of the socket>>
\* for a bind the index is 1: the address is the configured local address
AddSys(L, es) == [L EXCEPT !.sys = @ \o es]

\* ---- tconnect.c: track_connect_next -----------------------------------------------
RECURSIVE ConnectNext(_, _, _, _)
ConnectNext(sc, nw, L, t) ==
  LET T == L.tr[t]
      cands == {i \in (T.idx + 1)..T.n : Fam(sc, i) \in T.fams}
  IN
  IF cands = {} THEN
     SetTr(L, t, [T EXCEPT !.st = "bad", !.why = IF T.why = 0 THEN ENOENT ELSE T.why])
  ELSE
     LET i == MinOf(cands)
         f == Fam(sc, i)
         T1 == [T EXCEPT !.idx = i]
         \* a socket is bound to the local address before its first attempt; it keeps the address over
         \* the disconnects between the attempts (binding a bound socket again is an error: EINVAL)
         needBind == LocFam(sc) # 0 /\ f \notin L.bound
         bindOk == LocFam(sc) = f
         sysB == IF ~needBind THEN <<>>
                 ELSE <<<<1, 1, IF bindOk THEN 0 ELSE -1, IF bindOk THEN 0 ELSE EAFNOSUPPORT, f>>>>
         Lb == IF needBind /\ bindOk THEN [L EXCEPT !.bound = @ \cup {f}] ELSE L
     IN
     IF needBind /\ ~bindOk THEN
        \* bind() refuses an address of the other family: this candidate is skipped
        ConnectNext(sc, nw, AddSys(SetTr(Lb, t, [T1 EXCEPT !.why = EAFNOSUPPORT]), sysB), t)
     ELSE IF Beh(sc, i) = UNREACH THEN
        ConnectNext(sc, nw,
                    [AddSys(SetTr(Lb, t, [T1 EXCEPT !.why = sc.ue]), sysB \o <<<<2, i, -1, sc.ue, f>>>>)
                       EXCEPT !.order = Append(@, i)], t)
     ELSE
        [AddSys(SetTr(Lb, t, [T1 EXCEPT !.tmr = nw + sc.cto]), sysB \o <<<<2, i, -1, EINPROGRESS, f>>>>)
           EXCEPT !.order = Append(@, i)]

\* ---- tconnect.c: track_process (initial delay, then the attempt in flight) ---------
ProcessTrack(sc, nw, L, t) ==
  LET T == L.tr[t]
      L1 == IF T.st = "delay" /\ nw > T.tmr
            THEN ConnectNext(sc, nw, SetTr(L, t, [T EXCEPT !.st = "connecting", !.tmr = -1]), t)
            ELSE L
      T1 == L1.tr[t]
  IN
  IF T1.st # "connecting" THEN L1
  ELSE IF nw > T1.tmr THEN
     \* the time-out is looked at before the socket
     ConnectNext(sc, nw, SetTr(L1, t, [T1 EXCEPT !.why = ETIMEDOUT, !.tmr = -1]), t)
  ELSE CASE Beh(sc, T1.idx) = ACCEPT -> SetTr(L1, t, [T1 EXCEPT !.st = "connected"])
         [] Beh(sc, T1.idx) = REFUSE ->
              ConnectNext(sc, nw, SetTr(L1, t, [T1 EXCEPT !.why = ECONNREFUSED, !.tmr = -1]), t)
         [] OTHER -> L1

\* ---- tconnect.c: tconnect_get_connected_fd ---------------------------------------------
\* the first track that is connected wins and ends the loop; EAGAIN while any is in progress;
\* otherwise the errno of the last track looked at that failed
RECURSIVE GetConnected(_, _, _, _, _, _)
GetConnected(sc, nw, L, t, inprog, fatal) ==
  IF t > Len(L.tr) THEN [L |-> L, rc |-> IF inprog THEN EAGAIN ELSE fatal, t |-> 0]
  ELSE LET L1 == ProcessTrack(sc, nw, L, t)
           T == L1.tr[t]
       IN CASE T.st = "connected" -> [L |-> SetTr(L1, t, [T EXCEPT !.st = "finished"]), rc |-> 0, t |-> t]
            [] T.st \in {"connecting", "delay"} -> GetConnected(sc, nw, L1, t + 1, TRUE, fatal)
            [] OTHER -> GetConnected(sc, nw, L1, t + 1, inprog, T.why)

\* ---- xcm_tp_btcp.c: try_finish_connect ---------------------------------------------------
TryFinishConnect(sc, nw, L) ==
  LET r == GetConnected(sc, nw, L, 1, FALSE, ENOENT) IN
  IF r.rc = 0 THEN [r.L EXCEPT !.ph = "ready", !.conn = r.L.tr[r.t].idx, !.tr = <<>>]
  ELSE IF r.rc = EAGAIN THEN r.L
  ELSE [r.L EXCEPT !.ph = "bad", !.why = r.rc]

\* ---- tconnect.c: tconnect_connect (single / sequential / happy eyeballs) ---------------------
HasFam(sc, f, n) == \E i \in 1..n : Fam(sc, i) = f

AddTrack(sc, nw, L, fams, n, delay) ==
  LET t == Len(L.tr) + 1 IN
  IF delay > 0 THEN [L EXCEPT !.tr = Append(@, [NewTrack(fams, n) EXCEPT !.st = "delay", !.tmr = nw + delay])]
  ELSE ConnectNext(sc, nw, [L EXCEPT !.tr = Append(@, NewTrack(fams, n))], t)

\* ---- xcm_tp_btcp.c: begin_connect -----------------------------------------------------------
BeginConnect(sc, nw, L) ==
  LET n == NCand(sc) IN
  IF sc.loc = "namex" THEN
     \* the local address is a name that does not resolve
     [L EXCEPT !.ph = "bad", !.why = ENOENT]
  ELSE
  LET L1 == IF EffAlg(sc) # "happy" THEN AddTrack(sc, nw, L, {4, 6}, n, 0)
            ELSE LET h4 == HasFam(sc, 4, n)
                     h6 == HasFam(sc, 6, n)
                     La == IF h4 THEN AddTrack(sc, nw, L, {4}, n, IF h6 THEN HappyDelay ELSE 0) ELSE L
                 IN IF h6 THEN AddTrack(sc, nw, La, {6}, n, 0) ELSE La
  IN TryFinishConnect(sc, nw, L1)

\* ---- xcm_dns_cares.c: process_in_progress; xcm_tp_btcp.c: try_finish_resolution ---------------
\* rel: the resolver's answer has arrived on its socket
QueryProcess(sc, nw, rel, L) ==
  IF L.q # "inprog" THEN L
  ELSE LET q1 == IF rel /\ sc.res \in {"later", "faillater"}
                 THEN (IF sc.res = "later" THEN "ok" ELSE "failed") ELSE "inprog"
           q2 == IF q1 # "ok" /\ nw > L.qexp THEN "failed" ELSE q1
       IN [L EXCEPT !.q = q2]

TryFinishResolution(sc, nw, L) ==
  CASE L.q = "failed" -> [L EXCEPT !.ph = "bad", !.why = ENOENT, !.q = "none", !.qexp = -1]
    [] L.q = "ok" -> BeginConnect(sc, nw, [L EXCEPT !.ph = "connecting", !.q = "none", !.qexp = -1, !.resolved = TRUE])
    [] OTHER -> L

TryEstablish(sc, nw, rel, L) ==
  CASE L.ph = "resolving" -> TryFinishResolution(sc, nw, QueryProcess(sc, nw, rel, L))
    [] L.ph = "connecting" -> TryFinishConnect(sc, nw, L)
    [] OTHER -> L

\* ---- results of the byte-stream layer after try_establish -----------------------------------------
\* <<ok, errno>> of btcp_finish / a btcp_send of n > 0 bytes / btcp_receive with nothing to read
Establishing(L) == L.ph \in {"resolving", "connecting"}
BFinish(L) == IF L.ph = "ready" THEN <<TRUE, 0>> ELSE IF Establishing(L) THEN <<FALSE, EAGAIN>> ELSE <<FALSE, L.why>>
BSend(L) == BFinish(L)
BReceive(L) == IF L.ph = "ready" \/ Establishing(L) THEN <<FALSE, EAGAIN>> ELSE <<FALSE, L.why>>

Res(L, ret, err) == [L EXCEPT !.ret = ret, !.err = err]

\* ---- the polling calls: xcm_finish, xcm_send (4 bytes), xcm_receive ---------------------------------
SendLen == 4
\* btls sits on btcp like btcp itself; tls and utls frame messages like tcp (one buffered message).
\* Without a TLS peer a TLS transport never gets beyond the handshake: only its tcp leg is modelled
\* (every call runs one handshake step, which goes down to btcp_send -> try_establish).
ByteStream(tp) == tp \in {"btcp", "btls"}
TlsFam(tp) == tp \in {"tls", "btls", "utls"}
\* a send of the layer below: btls_send looks at its state before the handshake step, so the call in
\* which the failure is found still says EAGAIN
SendRes(sc, Lpre, L1) ==
  IF TlsFam(sc.tp) /\ ((Establishing(Lpre) /\ L1.ph = "bad") \/ L1.ph = "ready") THEN <<FALSE, EAGAIN>> ELSE BSend(L1)
FinishRes(sc, L1) == IF TlsFam(sc.tp) /\ L1.ph = "ready" THEN <<FALSE, EAGAIN>> ELSE BFinish(L1)

PollCall(sc, nw, rel, L, op) ==
  IF ByteStream(sc.tp) THEN
     LET L1 == TryEstablish(sc, nw, rel, L)
         r == CASE op = "finish" -> FinishRes(sc, L1) [] op = "send" -> SendRes(sc, L, L1) [] OTHER -> BReceive(L1)
     IN IF r[1] THEN Res(L1, IF op = "send" THEN SendLen ELSE 0, 0) ELSE Res(L1, -1, r[2])
  ELSE
     \* tcp: try_finish_send() first whenever a message is buffered (it goes down to btcp_send)
     LET L1 == IF L.pend THEN TryEstablish(sc, nw, rel, L) ELSE L
         f1 == IF L.pend THEN SendRes(sc, L, L1) ELSE <<TRUE, 0>>
         L1b == IF L.pend /\ f1[1] THEN [L1 EXCEPT !.pend = FALSE] ELSE L1
     IN
     CASE op = "finish" ->
            LET L2 == TryEstablish(sc, nw, rel, L1b)
                f2 == FinishRes(sc, L2)
            IN IF f1[1] /\ f2[1] THEN Res(L2, 0, 0)
               ELSE Res(L2, -1, IF ~f2[1] THEN f2[2] ELSE f1[2])
       [] op = "send" ->
            IF ~f1[1] THEN Res(L1b, -1, f1[2])
            ELSE LET L2 == TryEstablish(sc, nw, rel, L1b)
                     f2 == SendRes(sc, L1b, L2)
                 IN IF f2[1] THEN Res([L2 EXCEPT !.pend = FALSE], 0, 0)
                    ELSE IF f2[2] = EAGAIN THEN Res([L2 EXCEPT !.pend = TRUE], 0, 0)
                    ELSE Res([L2 EXCEPT !.pend = TRUE], -1, f2[2])
       [] OTHER ->   \* receive
            IF ~f1[1] /\ f1[2] # EAGAIN THEN Res(L1b, -1, f1[2])
            ELSE LET L2 == TryEstablish(sc, nw, rel, L1b)
                     f2 == BReceive(L2)
                 IN Res(L2, -1, f2[2])

\* ---- readiness of the socket's descriptor while establishing ----------------------------------------
\* 1: something is pending for the application (a poll on xcm_fd must return), 0: nothing, -1: not stated
Wake(sc, nw, rel, L) ==
  CASE L.ph = "resolving" ->
         IF (rel /\ sc.res \in {"later", "faillater"} /\ L.q = "inprog") \/ L.q \in {"ok", "failed"} \/ nw > L.qexp
         THEN 1 ELSE 0
    [] L.ph = "connecting" ->
         IF \E t \in 1..Len(L.tr) :
              LET T == L.tr[t] IN
              \/ (T.st = "delay" /\ nw > T.tmr)
              \/ (T.st = "connecting" /\ (nw > T.tmr \/ Beh(sc, T.idx) \in {ACCEPT, REFUSE}))
              \/ T.st = "connected"
         THEN 1 ELSE 0
    [] L.ph = "bad" -> 1
    [] OTHER -> -1

\* the earliest timer that has not fired yet (-1: none)
Timers(L, nw) ==
  (IF L.ph = "resolving" /\ L.q = "inprog" /\ L.qexp >= nw THEN {L.qexp} ELSE {}) \cup
  (IF L.ph = "connecting"
   THEN {L.tr[t].tmr : t \in {u \in 1..Len(L.tr) : L.tr[u].st \in {"delay", "connecting"} /\ L.tr[u].tmr >= nw}}
   ELSE {})
NextTimer(L, nw) == IF Timers(L, nw) = {} THEN -1 ELSE MinOf(Timers(L, nw))

CanRelease(sc, rel, L) == ~rel /\ sc.res \in {"later", "faillater"} /\ L.ph = "resolving" /\ L.q = "inprog"

\* ---- xcm.c: blocking mode (socket_finish: finish, wait on the descriptor, finish, ...) ------------------
\* the wait ends when the descriptor is readable; otherwise the resolver's answer arrives,
\* otherwise time passes until the next timer; otherwise the call would never return
RECURSIVE RunBlocking(_, _, _, _, _)
RunBlocking(sc, nw, rel, L, fuel) ==
  IF ~Establishing(L) THEN [L |-> L, now |-> nw, rel |-> rel, hang |-> FALSE]
  ELSE IF fuel = 0 THEN [L |-> L, now |-> nw, rel |-> rel, hang |-> TRUE]
  ELSE IF Wake(sc, nw, rel, L) = 1 THEN
     RunBlocking(sc, nw, rel, PollCall(sc, nw, rel, L, "finish"), fuel - 1)
  ELSE IF CanRelease(sc, rel, L) THEN
     RunBlocking(sc, nw, TRUE, PollCall(sc, nw, TRUE, L, "finish"), fuel - 1)
  ELSE IF NextTimer(L, nw) # -1 THEN
     LET n2 == NextTimer(L, nw) + 1 IN
     RunBlocking(sc, n2, rel, PollCall(sc, n2, rel, L, "finish"), fuel - 1)
  ELSE [L |-> L, now |-> nw, rel |-> rel, hang |-> TRUE]

Fuel(sc) == 2 * Len(sc.ips) + 8

\* ---- xcm_connect_a -----------------------------------------------------------------------------------
\* returns [L, now, rel, hang]
ConnectCall(sc, nw, rel) ==
  LET L0 == Fresh
      L1 == IF sc.res = "ip" THEN BeginConnect(sc, nw, [L0 EXCEPT !.ph = "connecting", !.resolved = TRUE])
            ELSE [L0 EXCEPT !.ph = "resolving", !.qexp = nw + Dto(sc),
                            !.q = CASE sc.res = "sync" -> "ok" [] sc.res = "fail" -> "failed" [] OTHER -> "inprog"]
      L2a == TryEstablish(sc, nw, rel, L1)
      \* btls_connect: the first handshake step follows at once (one more try_establish)
      L2 == IF TlsFam(sc.tp) /\ L2a.ph # "bad" THEN TryEstablish(sc, nw, rel, L2a) ELSE L2a
      Gone(L, now2, rel2, hang) == [L |-> Res([L EXCEPT !.ph = "gone"], -1, L.why), now |-> now2, rel |-> rel2, hang |-> hang]
  IN
  IF L2.ph = "bad" THEN Gone(L2, nw, rel, FALSE)
  ELSE IF sc.blk = 0 THEN [L |-> Res(L2, 0, 0), now |-> nw, rel |-> rel, hang |-> FALSE]
  ELSE LET r == RunBlocking(sc, nw, rel, PollCall(sc, nw, rel, L2, "finish"), Fuel(sc)) IN
       IF r.L.ph = "ready" THEN [r EXCEPT !.L = Res(r.L, 0, 0)]
       ELSE IF r.hang THEN r
       ELSE Gone(r.L, r.now, r.rel, FALSE)

\* ---- xcm_server_a on a name (xcm_dns_resolve_sync) --------------------------------------------------------
\* <<ret, errno, time consumed>>
ServerCall(sc) ==
  CASE sc.res \in {"sync", "later"} -> <<0, 0, 0>>
    [] sc.res \in {"fail", "faillater"} -> <<-1, ENOENT, 0>>
    [] OTHER -> <<-1, ENOENT, DefaultDnsTimeout + 1>>

(***************************************************************************)
(* The properties (C13), stated on a scenario and the final library state. *)
(* prompt: the application never let a timer pass while the descriptor     *)
(* was readable (no attempt was timed out although its outcome was there). *)
(***************************************************************************)
Eligible(sc) == {i \in 1..NCand(sc) : LocFam(sc) \in {0, Fam(sc, i)}}
Accepting(sc) == {i \in Eligible(sc) : Beh(sc, i) = ACCEPT}
\* errno with which a single attempt at address i fails
ErrOf(sc, i) == CASE LocFam(sc) \notin {0, Fam(sc, i)} -> EAFNOSUPPORT
                  [] Beh(sc, i) = REFUSE -> ECONNREFUSED
                  [] Beh(sc, i) = SILENT -> ETIMEDOUT
                  [] Beh(sc, i) = UNREACH -> sc.ue
                  [] OTHER -> 0
Decided(L) == L.ph \in {"ready", "bad", "gone"}
Failed(L) == L.ph \in {"bad", "gone"}
FailErr(L) == IF L.ph = "gone" THEN L.err ELSE L.why

IsPrefixOf(s, t) == Len(s) <= Len(t) /\ \A i \in 1..Len(s) : s[i] = t[i]
\* the indices in S in ascending order
RECURSIVE AscSeq(_)
AscSeq(S) == IF S = {} THEN <<>> ELSE <<MinOf(S)>> \o AscSeq(S \ {MinOf(S)})
\* attempts reach connect() only for eligible addresses
Connectable(sc) == AscSeq(Eligible(sc))

\* -- the four pieces of the statement; L may be the model's state or a state reconstructed from an
\* -- observed history (fields ph, conn, order, why, err, resolved, sys)
Settled(sc, L, prompt) == Decided(L) /\ prompt /\ L.resolved /\ sc.loc # "namex"

\* order: "single" tries only the first address, "sequential" tries the addresses in list order
\* (those its local address allows), happy eyeballs tries listed addresses, none twice
POrder(sc, L) ==
  /\ \A k \in 1..Len(L.order) : L.order[k] \in 1..NCand(sc)
  /\ (EffAlg(sc) = "single" => \A k \in 1..Len(L.order) : L.order[k] = 1)
  /\ (EffAlg(sc) = "sequential" /\ sc.loc # "namex" => IsPrefixOf(L.order, Connectable(sc)))
  /\ (EffAlg(sc) = "happy" =>
        /\ \A k \in 1..Len(L.order) : L.order[k] \in Eligible(sc)
        /\ \A j, k \in 1..Len(L.order) : j < k => L.order[j] # L.order[k])

\* outcome: connected exactly when the algorithm has an accepting address to find
ExpectOk(sc) == IF EffAlg(sc) = "single" THEN 1 \in Accepting(sc) ELSE Accepting(sc) # {}
POutcome(sc, L, prompt) == Settled(sc, L, prompt) => (L.ph = "ready") = ExpectOk(sc)

\* which: the first address in list order that accepts (happy eyeballs: one that accepts)
PWhich(sc, L, prompt) ==
  Settled(sc, L, prompt) /\ L.ph = "ready" =>
    IF EffAlg(sc) = "happy" THEN L.conn \in Accepting(sc)
    ELSE Accepting(sc) # {} /\ L.conn = MinOf(Accepting(sc))

\* errno: that of the last failed attempt (happy eyeballs: of one of the failed attempts);
\* ENOENT when the resolution failed or did not answer within dns.timeout
PErrno(sc, L, prompt) ==
  /\ (Settled(sc, L, prompt) /\ Failed(L) /\ ~ExpectOk(sc) =>
        IF EffAlg(sc) = "happy" THEN FailErr(L) \in {ErrOf(sc, i) : i \in 1..NCand(sc)}
        ELSE FailErr(L) = ErrOf(sc, NCand(sc)))
  /\ (Decided(L) /\ (~L.resolved \/ sc.loc = "namex") => Failed(L) /\ FailErr(L) = ENOENT)

\* every attempt is made from a socket that was bound to the local address before (model state)
PBoundLocal(sc, L) ==
  LocFam(sc) # 0 => /\ \A k \in 1..Len(L.order) : Fam(sc, L.order[k]) \in L.bound
                    /\ L.bound \subseteq {LocFam(sc)}

\* the same on an observed sequence of bind/connect calls, given the families bound before:
\* ok - every connect() came from a bound socket; bound - families bound afterwards;
\* canon - the sequence without repeated successful binds of a socket that was bound already
RECURSIVE BoundScan(_, _, _, _, _)
BoundScan(sys, k, bound, ok, canon) ==
  IF k > Len(sys) THEN [ok |-> ok, bound |-> bound, canon |-> canon]
  ELSE LET e == sys[k] IN
       IF e[1] = 1 THEN
          IF e[3] = 0 /\ e[2] = 1 THEN
             IF e[5] \in bound THEN BoundScan(sys, k + 1, bound, ok, canon)
             ELSE BoundScan(sys, k + 1, bound \cup {e[5]}, ok, Append(canon, e))
          ELSE BoundScan(sys, k + 1, bound, ok, Append(canon, e))
       ELSE BoundScan(sys, k + 1, bound, ok /\ e[5] \in bound, Append(canon, e))

\* nothing more can wake the application although no verdict has been given
Stuck(sc, nw, rel, L) ==
  Establishing(L) /\ Wake(sc, nw, rel, L) # 1 /\ ~CanRelease(sc, rel, L) /\ NextTimer(L, nw) = -1

\* time consumed: the resolution time-out, the happy eyeballs delay, one connect time-out per address
Budget(sc) == Dto(sc) + HappyDelay + NCand(sc) * (sc.cto + 1) + 4
=============================================================================
