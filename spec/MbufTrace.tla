----------------------------- MODULE MbufTrace -----------------------------
(***************************************************************************)
(* Validates executions of the real libxcm/tp/common/mbuf.h, recorded by   *)
(* harness/mbuf_exec, against the step function of Mbuf.tla with the real   *)
(* constants (MBUF_MSG_MAX = 65535): after every call on one of the two     *)
(* buffers, what each query function of the header answers - wire length,   *)
(* capacity left, empty / partial / complete, header bytes left, header     *)
(* complete / valid, the declared length (two halves), payload buffered /   *)
(* left - and the checksum of the payload bytes in the buffer must be what  *)
(* the model says; an assert fires exactly where the model says so.         *)
(* Monitor style: one line per call, mismatches printed as "@V" lines.     *)
(***************************************************************************)
EXTENDS Mbuf, IOUtils

TraceLog == ndJsonDeserialize(IOEnv.TRACE)
NL == Len(TraceLog)
WMaxReal == MsgMaxReal + HdrLen

VARIABLES l, mt, mr, nv
tvars == <<l, mt, mr, nv>>

TInit == l = 1 /\ mt = M0 /\ mr = M0 /\ nv = 0 /\ Init

Chk(c, t, x, o) == [c |-> c, t |-> t, x |-> x, o |-> o]
Failed(cs) == SelectSeq(cs, LAMBDA r : ~r.c)
Report(ln, cs) ==
  LET f == Failed(cs) IN
  IF f = <<>> THEN TRUE ELSE \A i \in 1..Len(f) : PrintT("@V " \o ToJson(<<ln.x, ln.n, f[i].t, f[i].x, f[i].o>>))

B(v) == v = 1
TStep(ln) ==
  LET s0 == IF ln.b = "t" THEN mt ELSE mr
      op == [o |-> ln.op, n |-> ln.a, cs |-> ln.cs, hb |-> ln.hb]
      s1 == Step(s0, op, WMaxReal)
      e == Obs(s1, MsgMaxReal, WMaxReal)
      o == ln.obs
      live == ln.crash = 0 /\ ~s1.dead
      cs == <<Chk((ln.crash = 1) = s1.dead, "MB.assert", <<"assert fires", s1.dead>>, <<ln.op, ln.a, "crash", ln.crash>>),
              Chk(~live \/ (o.wl = e.wl /\ o.left = e.left), "MB.len", <<e.wl, e.left>>, <<o.wl, o.left>>),
              Chk(~live \/ (B(o.empty) = e.empty /\ B(o.partial) = e.partial /\ B(o.complete) = e.complete), "MB.state",
                  <<"empty", e.empty, "partial", e.partial, "complete", e.complete>>, <<o.empty, o.partial, o.complete>>),
              Chk(~live \/ (o.hl = e.hl /\ B(o.hashdr) = e.hashdr), "MB.hdr_left", <<e.hl, e.hashdr>>, <<o.hl, o.hashdr>>),
              Chk(~live \/ B(o.valid) = e.valid, "MB.hdr_valid", <<"declared", e.hi, e.lo, "valid", e.valid>>, o.valid),
              Chk(~live \/ (o.hi = e.hi /\ o.lo = e.lo), "MB.declared_len", <<e.hi, e.lo>>, <<o.hi, o.lo>>),
              Chk(~live \/ (o.buf = e.buf /\ o.pleft = e.pleft), "MB.payload_left", <<e.buf, e.pleft>>, <<o.buf, o.pleft>>),
              Chk(~live \/ o.ps = e.ps, "MB.payload", <<"checksum of the payload in the buffer", e.ps>>, o.ps)>>
  IN /\ Report(ln, cs)
     /\ nv' = nv + Len(Failed(cs))
     /\ mt' = IF ln.b = "t" THEN s1 ELSE mt
     /\ mr' = IF ln.b = "r" THEN s1 ELSE mr

TNext ==
  /\ l <= NL
  /\ l' = l + 1
  /\ LET ln == TraceLog[l] IN
     IF ln.op = "X" THEN mt' = M0 /\ mr' = M0 /\ nv' = nv
     ELSE TStep(ln)

TSpec == TInit /\ [][TNext /\ UNCHANGED vars]_<<tvars, vars>>
Accepted == TLCGet("stats").diameter = NL + 1
=============================================================================
