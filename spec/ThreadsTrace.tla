---------------------------- MODULE ThreadsTrace ----------------------------
(***************************************************************************)
(* Trace specification for C15.  Validates what the hooks H5-H7            *)
(* (libxcm/core/verif.h: active_fd.c, ctx_store.c, xcm_tp.c - emitted      *)
(* inside the library's critical sections, after the state change, with a  *)
(* sequence number taken under the mutex) and the per-thread delivery      *)
(* oracles of harness/thr_exec.c recorded, against the shared state of     *)
(* Threads: the recorded events drive the variables pool, cnt, fdopen,     *)
(* entries, ehash, use, ctxlive and next_id of that module through its own *)
(* operators (FirstFree, Lookup, Remove, AfdCloseAt, HoldsAfd, HoldsCtx),  *)
(* and every observed value is compared with what the model says.          *)
(*                                                                         *)
(* Monitor style: one line per step; a mismatch prints                     *)
(*     "@V [x, n, tag, expected, observed]"                                *)
(* and the model steps on with its own expected state.  Tags "C15.*" are   *)
(* violations of the property statement; "NOTE.*" are details the model    *)
(* predicts but the statement does not demand (which descriptor is picked, *)
(* consecutive ids, the counters of C17).                                  *)
(*                                                                         *)
(* Line fields: x execution, n sequence number (order of the global        *)
(* counter taken inside the hook), s subsystem, ev event, t thread,        *)
(* a b c d integers, ov "another thread was inside a hook of the same      *)
(* subsystem", ok "the descriptor is an open, readable eventfd", tp        *)
(* transport.                                                              *)
(***************************************************************************)
EXTENDS Threads, Json, IOUtils

TraceLog == ndJsonDeserialize(IOEnv.TRACE)
NL == Len(TraceLog)

VARIABLES l,      \* next line
          pend,   \* [afd, ctx]: an entry whose count has just reached zero and must be closed / freed next
          live,   \* [afd, ctx]: holders the driver declared since the last peak
          ids,    \* socket ids seen
          st      \* statistics of the current execution

tvars == <<vars, l, pend, live, ids, st>>

St0 == [afd_new |-> 0, afd_get |-> 0, afd_put |-> 0, afd_close |-> 0, ctx_new |-> 0, ctx_hit |-> 0, ctx_put |-> 0,
        ctx_free |-> 0, nids |-> 0, conns |-> 0, msgs |-> 0, maxfds |-> 0, maxctx |-> 0, maxuse |-> 0, maxcnt |-> 0,
        peaks |-> 0, peak_afd |-> 0, peak_ctx |-> 0]
Pend0 == [afd |-> NoFd, ctx |-> NoCtx]
Live0 == [afd |-> 0, ctx |-> 0]

TraceInit == Init /\ l = 1 /\ pend = Pend0 /\ live = Live0 /\ ids = {} /\ st = St0

\* ---- reporting -----------------------------------------------------------------------
Chk(c, tag, x, o) == [c |-> c, t |-> tag, x |-> x, o |-> o]
Report(ln, cs) ==
  LET f == SelectSeq(cs, LAMBDA r : ~r.c) IN
  IF f = <<>> THEN TRUE
  ELSE \A i \in 1..Len(f) : PrintT("@V " \o ToJson(<<ln.x, ln.n, f[i].t, f[i].x, f[i].o>>))

Max(a, b) == IF a >= b THEN a ELSE b
Bump(f, v) == [st EXCEPT ![f] = @ + v]
CntOf(fd) == IF fd \in DOMAIN cnt THEN cnt[fd] ELSE 0
UseOf(c) == IF c \in DOMAIN use THEN use[c] ELSE 0
HashOf(c) == IF c \in DOMAIN ehash THEN ehash[c] ELSE NoKey
SumCnt == SumOver(Range(pool), CntOf)
SumUse == SumOver(Range(entries), UseOf)

\* checks common to all hook events: mutual exclusion, and nothing was left unclosed by the step before
Common(ln) ==
  <<Chk(ln.ov = 0, "C15.mutex", <<"alone inside", ln.s>>, <<"overlap", ln.ev, ln.t>>)>>
NoPendAfd(ln) ==
  <<Chk(pend.afd = NoFd, "C15.afd_leak", <<"afd_close", pend.afd>>, <<ln.ev, ln.a>>)>>
NoPendCtx(ln) ==
  <<Chk(pend.ctx = NoCtx, "C15.ctx_leak", <<"ctx_free", pend.ctx>>, <<ln.ev, ln.c>>)>>

Others == <<afd_lock, ctx_lock, id_lock, nextfd, nextctx, version_logged, cached_proto, issued, nlogged, holds, uses,
            afd_uaf, ctx_uaf, aborted, pc, round, key, myid, myfd, myctx, t, e, p>>
AfdVars == <<pool, cnt, fdopen>>
CtxVars == <<entries, ehash, use, ctxlive>>

\* ---- the eventfd pool ------------------------------------------------------------------
AfdNew(ln) ==
  LET fd == ln.a
      free == FirstFree(pool, cnt, MaxUsers) IN
  /\ Report(ln, Common(ln) \o NoPendAfd(ln) \o
       <<Chk(fd \notin fdopen, "C15.afd_reuse", <<"a descriptor that is not in the pool", Range(pool)>>, fd),
         Chk(ln.b = 1, "C15.afd_cnt", 1, ln.b),
         Chk(ln.ok = 1, "C15.afd_dead", <<"open and readable", fd>>, ln.ok),
         Chk(free = NoFd, "NOTE.afd_choice", <<"reuse", free>>, <<"new", fd>>)>>)
  /\ pool' = <<fd>> \o Remove(pool, fd)
  /\ cnt' = (fd :> 1) @@ cnt
  /\ fdopen' = fdopen \cup {fd}
  /\ pend' = [pend EXCEPT !.afd = NoFd]
  /\ st' = [st EXCEPT !.afd_new = @ + 1, !.maxfds = Max(@, Len(pool) + 1), !.maxcnt = Max(@, 1)]
  /\ UNCHANGED <<CtxVars, next_id, live, ids>>

AfdGet(ln) ==
  LET fd == ln.a
      listed == fd \in Range(pool)
      exp == CntOf(fd) + 1 IN
  /\ Report(ln, Common(ln) \o NoPendAfd(ln) \o
       <<Chk(listed, "C15.afd_uaf", <<"a descriptor of the pool", Range(pool)>>, fd),
         Chk(~listed \/ ln.b = exp, "C15.afd_cnt", exp, ln.b),
         Chk(ln.ok = 1, "C15.afd_dead", <<"open and readable", fd>>, ln.ok),
         Chk(~listed \/ fd = FirstFree(pool, cnt, MaxUsers), "NOTE.afd_choice", FirstFree(pool, cnt, MaxUsers), fd),
         Chk(~listed \/ exp <= MaxUsers, "NOTE.afd_max", MaxUsers, exp)>>)
  /\ pool' = IF listed THEN pool ELSE <<fd>> \o pool
  /\ cnt' = (fd :> exp) @@ cnt
  /\ fdopen' = fdopen \cup {fd}
  /\ pend' = [pend EXCEPT !.afd = NoFd]
  /\ st' = [st EXCEPT !.afd_get = @ + 1, !.maxcnt = Max(@, exp)]
  /\ UNCHANGED <<CtxVars, next_id, live, ids>>

AfdPut(ln) ==
  LET fd == ln.a
      listed == fd \in Range(pool)
      exp == CntOf(fd) - 1 IN
  /\ Report(ln, Common(ln) \o NoPendAfd(ln) \o
       <<Chk(listed, "C15.afd_uaf", <<"a descriptor of the pool", Range(pool)>>, fd),
         Chk(~listed \/ (ln.b = exp /\ exp >= 0), "C15.afd_cnt", exp, ln.b),
         Chk(ln.ok = 1, "C15.afd_dead", <<"open until its last user is gone", fd>>, ln.ok)>>)
  /\ cnt' = IF listed THEN (fd :> Max(exp, 0)) @@ cnt ELSE cnt
  /\ pend' = [pend EXCEPT !.afd = IF listed /\ exp <= AfdCloseAt THEN fd ELSE NoFd]
  /\ st' = Bump("afd_put", 1)
  /\ UNCHANGED <<pool, fdopen, CtxVars, next_id, live, ids>>

AfdClose(ln) ==
  LET fd == ln.a
      listed == fd \in Range(pool) IN
  /\ Report(ln, Common(ln) \o
       <<Chk(pend.afd = NoFd \/ pend.afd = fd, "C15.afd_leak", <<"afd_close", pend.afd>>, <<"afd_close", fd>>),
         Chk(pend.afd = fd \/ ~listed, "C15.afd_early", <<"open while counted", CntOf(fd)>>, <<"closed", fd>>),
         Chk(listed, "C15.afd_uaf", <<"a descriptor of the pool", Range(pool)>>, fd)>>)
  /\ pool' = Remove(pool, fd)
  /\ fdopen' = fdopen \ {fd}
  /\ pend' = [pend EXCEPT !.afd = NoFd]
  /\ st' = Bump("afd_close", 1)
  /\ UNCHANGED <<cnt, CtxVars, next_id, live, ids>>

\* ---- the context cache -----------------------------------------------------------------
CtxNew(ln) ==
  LET c == ln.c
      h == ln.a
      old == Lookup(entries, ehash, h) IN
  /\ Report(ln, Common(ln) \o NoPendCtx(ln) \o
       <<Chk(c \notin ctxlive, "C15.ctx_reuse", <<"an SSL_CTX that is not in the cache", Range(entries)>>, c),
         \* a second entry for the same credentials cannot arise while the look-up and the installation share one
         \* critical section; it would waste memory but break nothing the statement names
         Chk(old = NoCtx, "NOTE.ctx_dup", <<"hit", old>>, <<"new", c, "hash", h>>),
         Chk(ln.b = 1, "C15.ctx_cnt", 1, ln.b)>>)
  /\ entries' = <<c>> \o Remove(entries, c)
  /\ ehash' = (c :> h) @@ ehash
  /\ use' = (c :> 1) @@ use
  /\ ctxlive' = ctxlive \cup {c}
  /\ pend' = [pend EXCEPT !.ctx = NoCtx]
  /\ st' = [st EXCEPT !.ctx_new = @ + 1, !.maxctx = Max(@, Len(entries) + 1), !.maxuse = Max(@, 1)]
  /\ UNCHANGED <<AfdVars, next_id, live, ids>>

CtxHit(ln) ==
  LET c == ln.c
      listed == c \in Range(entries)
      exp == UseOf(c) + 1 IN
  /\ Report(ln, Common(ln) \o NoPendCtx(ln) \o
       <<Chk(listed, "C15.ctx_uaf", <<"an SSL_CTX of the cache", Range(entries)>>, c),
         Chk(~listed \/ HashOf(c) = ln.a, "C15.ctx_wrong", <<"hash", HashOf(c)>>, <<"hash", ln.a>>),
         Chk(~listed \/ c = Lookup(entries, ehash, ln.a), "NOTE.ctx_dup", Lookup(entries, ehash, ln.a), c),
         Chk(~listed \/ ln.b = exp, "C15.ctx_cnt", exp, ln.b)>>)
  /\ entries' = IF listed THEN entries ELSE <<c>> \o entries
  /\ ehash' = IF listed THEN ehash ELSE (c :> ln.a) @@ ehash
  /\ use' = (c :> exp) @@ use
  /\ ctxlive' = ctxlive \cup {c}
  /\ pend' = [pend EXCEPT !.ctx = NoCtx]
  /\ st' = [st EXCEPT !.ctx_hit = @ + 1, !.maxuse = Max(@, exp)]
  /\ UNCHANGED <<AfdVars, next_id, live, ids>>

CtxPut(ln) ==
  LET c == ln.c
      listed == c \in Range(entries)
      exp == UseOf(c) - 1 IN
  /\ Report(ln, Common(ln) \o NoPendCtx(ln) \o
       <<Chk(listed, "C15.ctx_uaf", <<"an SSL_CTX of the cache", Range(entries)>>, c),
         Chk(~listed \/ (ln.b = exp /\ exp >= 0), "C15.ctx_cnt", exp, ln.b)>>)
  /\ use' = IF listed THEN (c :> Max(exp, 0)) @@ use ELSE use
  /\ pend' = [pend EXCEPT !.ctx = IF listed /\ exp <= 0 THEN c ELSE NoCtx]
  /\ st' = Bump("ctx_put", 1)
  /\ UNCHANGED <<entries, ehash, ctxlive, AfdVars, next_id, live, ids>>

CtxFree(ln) ==
  LET c == ln.c
      listed == c \in Range(entries) IN
  /\ Report(ln, Common(ln) \o
       <<Chk(pend.ctx = NoCtx \/ pend.ctx = c, "C15.ctx_leak", <<"ctx_free", pend.ctx>>, <<"ctx_free", c>>),
         Chk(pend.ctx = c \/ ~listed, "C15.ctx_early", <<"alive while in use", UseOf(c)>>, <<"freed", c>>),
         Chk(listed, "C15.ctx_uaf", <<"an SSL_CTX of the cache", Range(entries)>>, c)>>)
  /\ entries' = Remove(entries, c)
  /\ ctxlive' = ctxlive \ {c}
  /\ pend' = [pend EXCEPT !.ctx = NoCtx]
  /\ st' = Bump("ctx_free", 1)
  /\ UNCHANGED <<ehash, use, AfdVars, next_id, live, ids>>

\* ---- socket ids ------------------------------------------------------------------------
SockId(ln) ==
  /\ Report(ln, Common(ln) \o
       <<Chk(ln.a \notin ids, "C15.id_dup", <<"an id not handed out before; next", next_id>>, ln.a),
         Chk(ln.a = next_id /\ ln.b = ln.a + 1, "NOTE.id_seq", <<next_id, next_id + 1>>, <<ln.a, ln.b>>)>>)
  /\ ids' = ids \cup {ln.a}
  /\ next_id' = ln.b
  /\ st' = Bump("nids", 1)
  /\ UNCHANGED <<AfdVars, CtxVars, pend, live>>

\* ---- what the driver knows -------------------------------------------------------------
\* sockets alive while every thread is parked: ln.a connection sockets and ln.b server sockets of transport ln.tp
Live(ln) ==
  /\ live' = [afd |-> live.afd + HoldsAfd(ln.tp, TRUE) * ln.a + HoldsAfd(ln.tp, FALSE) * ln.b,
              ctx |-> live.ctx + HoldsCtx(ln.tp) * (ln.a + ln.b)]
  /\ UNCHANGED <<AfdVars, CtxVars, next_id, pend, ids, st>>

\* cnt = number of holders, use = number of users (nothing moves between the two barriers of the driver)
Peak(ln) ==
  /\ Report(ln, <<Chk(SumCnt = live.afd, "C15.afd_holders", <<"sum of cnt", SumCnt>>, <<"sockets holding one", live.afd>>),
                  Chk(SumUse = live.ctx, "C15.ctx_users", <<"sum of use_cnt", SumUse>>, <<"sockets using one", live.ctx>>),
                  Chk(\A fd \in Range(pool) : CntOf(fd) >= 1, "C15.afd_leak", "every listed descriptor is counted", pool)>>)
  /\ live' = Live0
  /\ st' = [st EXCEPT !.peaks = @ + 1, !.peak_afd = SumCnt, !.peak_ctx = SumUse]
  /\ UNCHANGED <<AfdVars, CtxVars, next_id, pend, ids>>

\* the oracle of one direction of one connection, kept by the thread that owns it:
\* a messages sent, b messages received, c first damaged / out-of-order message (0 none) + 65536 * surplus, d to_app counter
Conn(ln) ==
  /\ Report(ln, <<Chk(ln.a = ln.b /\ ln.c = 0, "C15.delivery", <<"received", ln.a, "damaged", 0>>,
                      <<"received", ln.b, "damaged", ln.c, ln.tp, "thread", ln.t>>),
                  Chk(ln.d < 0 \/ ln.d = ln.b, "NOTE.counter", ln.b, ln.d)>>)
  /\ st' = [st EXCEPT !.conns = @ + 1, !.msgs = @ + ln.b]
  /\ UNCHANGED <<AfdVars, CtxVars, next_id, pend, live, ids>>

\* every socket is closed: nothing may be left
End(ln) ==
  /\ Report(ln, <<Chk(pool = <<>> /\ pend.afd = NoFd, "C15.afd_leak", <<>>, <<pool, pend.afd>>),
                  Chk(entries = <<>> /\ pend.ctx = NoCtx, "C15.ctx_leak", <<>>, <<entries, pend.ctx>>)>>)
  /\ PrintT("@STAT " \o ToJson([x |-> ln.x] @@ st))
  /\ UNCHANGED <<AfdVars, CtxVars, next_id, pend, live, ids, st>>

\* lines the orchestrator adds: the process died / stalled / ThreadSanitizer reported ln.a races
Abnormal(ln) ==
  /\ Report(ln, <<Chk(ln.ev # "crash", "C15.crash", "runs to completion", <<"died", ln.a>>),
                  Chk(ln.ev # "race", "C15.race", <<"reports", 0>>, <<"reports", ln.a>>),
                  Chk(ln.ev # "stall", "STALL", "progress", "none for 240 s")>>)
  /\ (ln.ev # "stall" \/ PrintT("@STAT " \o ToJson([x |-> ln.x] @@ st)))
  /\ UNCHANGED <<AfdVars, CtxVars, next_id, pend, live, ids, st>>

\* the driver's close() wrapper: the library closed a descriptor that was not open (the descriptor table is process-wide:
\* in another schedule the number belongs to another thread's socket by then)
Stray(ln) ==
  /\ Report(ln, <<Chk(FALSE, "C15.stray_close", "the library closes only descriptors it owns",
                      <<"close() of descriptor", ln.a, "which is not open; thread", ln.t>>)>>)
  /\ UNCHANGED <<AfdVars, CtxVars, next_id, pend, live, ids, st>>

\* the driver reads the process's file mode creation mask (without touching it): the library leaves it alone
PState(ln) ==
  /\ Report(ln, <<Chk(FALSE, "C15.process_state", <<"file mode creation mask of the process", ln.b>>,
                      <<"seen by thread", ln.t, ln.c>>)>>)
  /\ UNCHANGED <<AfdVars, CtxVars, next_id, pend, live, ids, st>>

Reset(ln) ==
  /\ pool' = <<>> /\ cnt' = <<>> /\ fdopen' = {}
  /\ entries' = <<>> /\ ehash' = <<>> /\ use' = <<>> /\ ctxlive' = {}
  /\ next_id' = 0 /\ pend' = Pend0 /\ live' = Live0 /\ ids' = {} /\ st' = St0

TraceNext ==
  /\ l <= NL
  /\ l' = l + 1
  /\ UNCHANGED Others
  /\ LET ln == TraceLog[l] IN
     CASE ln.ev = "afd_new"   -> AfdNew(ln)
       [] ln.ev = "afd_get"   -> AfdGet(ln)
       [] ln.ev = "afd_put"   -> AfdPut(ln)
       [] ln.ev = "afd_close" -> AfdClose(ln)
       [] ln.ev = "ctx_new"   -> CtxNew(ln)
       [] ln.ev = "ctx_hit"   -> CtxHit(ln)
       [] ln.ev = "ctx_put"   -> CtxPut(ln)
       [] ln.ev = "ctx_free"  -> CtxFree(ln)
       [] ln.ev = "sock_id"   -> SockId(ln)
       [] ln.ev = "live"      -> Live(ln)
       [] ln.ev = "peak"      -> Peak(ln)
       [] ln.ev = "conn"      -> Conn(ln)
       [] ln.ev = "end"       -> End(ln)
       [] ln.ev = "stray_close" -> Stray(ln)
       [] ln.ev = "pstate"    -> PState(ln)
       [] ln.ev = "setup"     -> UNCHANGED <<AfdVars, CtxVars, next_id, pend, live, ids, st>>   \* the driver gave up setting up
       [] ln.ev = "reset"     -> Reset(ln)
       [] ln.ev \in {"crash", "race", "stall"} -> Abnormal(ln)

TraceSpec == TraceInit /\ [][TraceNext]_tvars

\* the whole trace was consumed (a line the specification cannot process stops it early)
Accepted == TLCGet("stats").diameter = NL + 1

=============================================================================
