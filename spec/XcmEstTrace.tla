----------------------------- MODULE XcmEstTrace -----------------------------
(***************************************************************************)
(* Validates executions recorded by harness/est_exec: establishment of a   *)
(* connection (or its failure) driven by event loops that trust nothing    *)
(* but poll(xcm_fd), on every transport, against the outcomes XcmEst       *)
(* allows for the scenario.  Monitor style, one line per step, "@V" lines. *)
(***************************************************************************)
EXTENDS Integers, Sequences, TLC, Json, IOUtils

Trace == ndJsonDeserialize(IOEnv.TRACE)
NL == Len(Trace)

EAGAIN == 11  ECONNREFUSED == 111  ETIMEDOUT == 110  EPROTO == 71  ENOENT == 2  EPIPE == 32  EMSGSIZE == 90  EINVAL == 22

VARIABLES l,      \* next line
          tp, scen, up,
          srvc,   \* the server socket exists and awaits ACCEPTABLE
          terr,   \* <<e1, e2>>: errno of the first failure of the connection each endpoint has reported (0 = none)
          nv

vars == <<l, tp, scen, up, srvc, terr, nv>>

Init == l = 1 /\ tp = "none" /\ scen = "none" /\ up = 0 /\ srvc = FALSE /\ terr = <<0, 0, 0>> /\ nv = 0

Chk(c, t, x, o) == [c |-> c, t |-> t, x |-> x, o |-> o]
Failed(cs) == SelectSeq(cs, LAMBDA r : ~r.c)
Report(ln, cs) ==
  LET f == Failed(cs) IN
  IF f = <<>> THEN TRUE ELSE \A i \in 1..Len(f) : PrintT(<<"@V", ln.x, ln.n, f[i].t, f[i].x, f[i].o>>)

TlsBased == tp \in {"tls", "btls", "utls", "utlst"}
TcpBased == tp \in {"tcp", "btcp", "tls", "btls", "utls", "utlst"}
\* spec/Utls.tla: the leg a utls connection runs over: ux when the server is a utls server in the client's namespace,
\* tls when only a tls server listens at the address (1 = ux, 2 = tls)
U == INSTANCE Utls WITH Clients <- {1}, UxReach <- {1}, srv <- "up", uxq <- <<>>, tlsq <- <<>>, leg <- <<"none">>, acc <- <<>>, uxerr <- FALSE
LegNo(g) == IF g = "ux" THEN 1 ELSE IF g = "tls" THEN 2 ELSE 0
\* scenarios in which nothing goes wrong: the peer accepts, both sides exchange their messages, one closes
FaultFree == {"normal", "ctlflood", "garbage2", "longidle", "accfail", "ctl3"}

\* what the remote address does in each scenario (Peer of XcmEst) and the errno the documentation promises for it
PeerOf(s) == CASE s \in FaultFree -> "accept" [] s = "refused" -> "refuse" [] s = "silent" -> "silent"
               [] s = "release" -> "late" [] s = "mute" -> "mute" [] s = "garbage" -> "garbage" [] OTHER -> "none"
Promised(peer) == CASE peer = "refuse" -> ECONNREFUSED [] peer = "silent" -> ETIMEDOUT [] peer = "garbage" -> EPROTO [] OTHER -> 0

ApiOps == {"sv", "cn", "cx", "ac", "acx", "f", "s", "r", "a", "fd", "ga", "sa", "cl", "vc", "vf", "vx"}

\* every API call on these non-blocking sockets
StepApi(ln) ==
  LET rdOk(v) == v \in {-1, 0, 1}
      data == ln.op \in {"f", "s", "r"} /\ ln.e \in {1, 2}
      cs == <<
        \* C05: no waiting primitive inside a call on a non-blocking socket, whatever the phase
        Chk(ln.w = 0, "C05.wait", <<ln.op, scen>>, ln.w),
        \* C16: one stable descriptor that only ever signals readability
        Chk(ln.fdc = <<0, 0, 0>>, "C16.fd_changed", 0, ln.fdc),
        Chk(\A i \in 1..3 : rdOk(ln.rd[i]), "C16.writable", 0, ln.rd),
        \* C05 / C04: accept never waits: a connection or EAGAIN
        Chk(ln.op # "ac" \/ ln.ret = 0 \/ ln.err = EAGAIN, "C05.accept", EAGAIN, ln.err),
        \* C16: a server socket awaiting ACCEPTABLE with no connection pending is quiet;
        \* C04: with one pending it is readable (kp: the kernel's own view, sampled on both sides of the poll)
        Chk(~(srvc /\ ln.op # "cl" /\ ln.kp = 0 /\ ln.rd[3] = 1), "C16.spin", 0, ln.rd[3]),
        Chk(~(srvc /\ ln.op # "cl" /\ ln.kp = 1 /\ ln.rd[3] = 0), "C04.lost_wakeup", 1, ln.rd[3]),
        \* in the fault-free scenario no call ever reports a failure of the connection
        Chk(~(scen \in FaultFree /\ ln.op \in {"f", "s", "r"} /\ ln.ret = -1 /\ ln.err # EAGAIN /\ ln.e = 1), "C04.progress", EAGAIN, ln.err),
        Chk(~(scen = "idle" /\ ln.op = "ac") \/ (ln.ret = -1 /\ ln.err = EAGAIN), "C16.accept_idle", EAGAIN, ln.err),
        Chk(ln.op # "a" \/ ln.ret = 0, "MM", 0, ln.ret),
        \* C07: garbage fed to ANOTHER connection of the process must not make a healthy connection fail or lose messages
        Chk(~(scen = "garbage2" /\ data /\ ln.ret = -1 /\ ln.err # EAGAIN), "C07.collateral", EAGAIN, ln.err),
        \* C06: ... nor may the healthy connection report a terminal condition that is not its own (the protocol error
        \* belongs to the other connection of this thread; OpenSSL's error queue is per thread)
        Chk(~(scen = "garbage2" /\ data /\ ln.ret = -1 /\ ln.err # EAGAIN), "C06.spurious", EAGAIN, ln.err),
        \* C07: a connection attempt answered with garbage never becomes established
        Chk(~(ln.op = "vf" /\ ln.ret = 0), "C07.accepted_garbage", EPROTO, 0),
        \* C06: a failure of the connection sticks: no later send / receive succeeds, and on the TCP-based transports
        \* send, receive and finish keep reporting the errno of the first failure
        Chk(~(data /\ terr[ln.e] # 0 /\ ln.op \in {"s", "r"}) \/ ln.ret = -1, "C06.sticky", terr[ln.e], ln.ret),
        Chk(~(data /\ terr[ln.e] # 0 /\ TcpBased /\ ln.ret = -1) \/ ln.err \in {terr[ln.e], EMSGSIZE, EINVAL}, "C06.errno", terr[ln.e], ln.err)
      >>
      fail == data /\ ln.ret = -1 /\ ln.err \notin {EAGAIN, EMSGSIZE, EINVAL} /\ ~(ln.op \in {"s", "f"} /\ ln.err = EPIPE)
  IN /\ Report(ln, cs)
     /\ nv' = nv + Len(Failed(cs))
     /\ srvc' = (IF ln.op = "a" /\ ln.e = 3 /\ ln.ret = 0 THEN TRUE ELSE IF ln.op = "cl" /\ ln.e = 3 THEN FALSE ELSE srvc)
     /\ terr' = (IF fail /\ terr[ln.e] = 0 THEN [terr EXCEPT ![ln.e] = ln.err] ELSE terr)
     /\ UNCHANGED <<tp, scen, up>>

\* the end of the run: what the two event-loop applications have seen
StepQ(ln) ==
  LET peer == PeerOf(scen)
      prom == Promised(peer)
      t1 == ln.term[1]
      cs == <<
        \* C04: a run that got stuck: no descriptor became readable although the attempt could complete or fail
        Chk(ln.stk = 0, "C04.lost_wakeup", scen, <<"est", ln.est, "term", ln.term>>),
        \* normal: established on both sides, everything sent was received in order, the close was seen
        Chk(~(scen \in FaultFree) \/ ln.stk = 1 \/ (ln.est = <<1, 1>> /\ ln.acc = 1), "C04.progress", <<1, 1>>, ln.est),
        Chk(~(scen \in FaultFree) \/ ln.stk = 1 \/ (ln.rcvd[1] = ln.sent[2] /\ ln.rcvd[2] = ln.sent[1] /\ ln.bado = <<0, 0>>), "C01.order", ln.sent, ln.rcvd),
        Chk(~(scen \in FaultFree) \/ ln.stk = 1 \/ ln.cs # 0, "C04.lost_wakeup", "close", ln.cs),
        \* utls delegates to the leg spec/Utls.tla says (both ends agree)
        Chk(~(tp = "utls" /\ scen \in FaultFree /\ ln.stk = 0 /\ ln.est = <<1, 1>> /\ ln.legs[2] # 0)
            \/ ln.legs[2] = LegNo(U!ExpectedLeg("up", TRUE)), "C01.utls_leg", LegNo(U!ExpectedLeg("up", TRUE)), ln.legs),
        Chk(~(tp = "utlst" /\ scen \in FaultFree /\ ln.stk = 0 /\ ln.est = <<1, 1>> /\ ln.legs[2] # 0)
            \/ ln.legs[2] = LegNo(U!ExpectedLeg("tlsonly", TRUE)), "C01.utls_leg", LegNo(U!ExpectedLeg("tlsonly", TRUE)), ln.legs),
        \* failure scenarios: the attempt is reported as failed, never as established
        Chk(~(peer \in {"refuse", "silent", "garbage", "mute"} /\ (peer \notin {"mute", "garbage"} \/ TlsBased)) \/ ln.est[1] = 0, "C06.established", 0, ln.est[1]),
        Chk(~(peer \in {"refuse", "silent"} /\ ln.stk = 0) \/ t1 = prom, "C06.errno", prom, t1),
        \* garbage instead of a handshake: a protocol error (EPROTO); another errno is noted only (the statement names EPROTO for illegal frames)
        Chk(~(peer = "garbage" /\ TlsBased /\ ln.stk = 0 /\ ln.rg = 1) \/ t1 # 0 \/ ln.eofs[1] = 1, "C06.unreported", prom, t1),
        Chk(~(peer = "garbage" /\ TlsBased /\ ln.rg = 1 /\ t1 # 0) \/ t1 = EPROTO, "NOTE.garbage_errno", prom, t1),
        Chk(~(peer = "mute" /\ TlsBased /\ ln.stk = 0 /\ ln.rcl = 1) \/ t1 # 0 \/ ln.eofs[1] = 1, "C06.unreported", "closed or errno", t1),
        \* C01 / C03: what the late peer finds on the wire are the messages xcm_send accepted, in order, and nothing else: a send
        \* refused while the TCP handshake was pending is never delivered later (wire = <<complete units, in order, rest>>)
        \* (wire = <<complete units, accepted ones in order, bytes of an incomplete unit, units of a refused xcm_send>>)
        Chk(~(scen = "release" /\ ln.wire[1] >= 0) \/ (ln.wire[4] = 0 /\ ln.wire[1] <= ln.sent[1]), IF tp = "btcp" THEN "C02.phantom" ELSE "C01.phantom", ln.sent[1], ln.wire),
        Chk(~(scen = "release" /\ ln.wire[1] >= 0) \/ (ln.wire[4] = 0 /\ ln.wire[1] <= ln.sent[1]), "C03.failed_delivered", ln.sent[1], ln.wire),
        Chk(~(scen = "release" /\ ln.wire[1] >= 0) \/ ln.wire[2] = 1, "C01.order", 1, ln.wire),
        \* C07: a peer whose (untrusted) certificate carries an odd subject key identifier is turned down, never established
        Chk(~(scen = "badski") \/ ln.est # <<1, 1>>, "C07.hostile_cert_accepted", "refused", ln.est),
        \* a late answer leads to an established connection
        Chk(~(peer = "late" /\ ln.stk = 0 /\ ~TlsBased) \/ ln.est[1] = 1, "C04.progress", 1, ln.est[1])
      >>
  IN /\ Report(ln, cs)
     /\ nv' = nv + Len(Failed(cs))
     /\ UNCHANGED <<tp, scen, up, srvc, terr>>

\* scenario "longidle": the idle connection, looked at later than tcp.connect_timeout after xcm_connect
StepIdle(ln) ==
  LET cs == <<Chk(ln.spin[1] < 3, "C16.spin", <<"connecting side, ms", ln.ms>>, ln.spin),
              Chk(ln.spin[2] < 3, "C16.spin", <<"accepted side, ms", ln.ms>>, ln.spin)>>
  IN /\ Report(ln, cs)
     /\ nv' = nv + Len(Failed(cs))
     /\ UNCHANGED <<tp, scen, up, srvc, terr>>

\* blocking mode (scenario "blocking"): xcm_accept, xcm_receive, xcm_send and the final xcm_receive of the server side,
\* with a blocking client in another process.  rets: result of each call, -2 = the watchdog fired inside it, -3 = not reached
StepBq(ln) ==
  LET stream == tp \in {"btcp", "btls"}
      cs == <<
        \* C04: blocking calls return once the awaited event has happened
        Chk(\A i \in 1..4 : ln.rets[i] # -2, "C04.blocked", <<"call", ln.phase + 1>>, ln.rets),
        Chk(ln.phase < 4 \/ ln.rets[1] = 0, "C04.progress", 0, <<ln.rets[1], ln.errs[1]>>),
        \* C01: the message arrives whole, the reply is accepted, the close is seen after it
        Chk(ln.phase < 4 \/ ln.rets[1] # 0 \/ ln.rets[2] = 4, "C01.len", 4, <<ln.rets[2], ln.errs[2]>>),
        Chk(ln.phase < 4 \/ ln.rets[1] # 0 \/ ln.rets[3] = (IF stream THEN 4 ELSE 0), "C03.size", 0, <<ln.rets[3], ln.errs[3]>>),
        Chk(ln.phase < 4 \/ ln.rets[1] # 0 \/ ln.rets[4] = 0, "C06.drain", 0, <<ln.rets[4], ln.errs[4]>>),
        Chk(ln.phase < 4 \/ ln.cexit = 0, "C04.progress", 0, ln.cexit)
      >>
  IN /\ Report(ln, cs)
     /\ nv' = nv + Len(Failed(cs))
     /\ UNCHANGED <<tp, scen, up, srvc, terr>>

Next ==
  /\ l <= NL
  /\ l' = l + 1
  /\ LET ln == Trace[l] IN
     CASE ln.op = "X" -> tp' = ln.tp /\ scen' = ln.scen /\ up' = ln.up /\ srvc' = FALSE /\ terr' = <<0, 0, 0>> /\ nv' = nv
       [] ln.op \in ApiOps -> StepApi(ln)
       [] ln.op = "q" -> StepQ(ln)
       [] ln.op = "bq" -> StepBq(ln)
       [] ln.op = "id" -> StepIdle(ln)
       [] ln.op = "crash" -> PrintT(<<"@V", ln.x, ln.n, "CRASH", 0, ln.why>>) /\ nv' = nv + 1 /\ UNCHANGED <<tp, scen, up, srvc, terr>>
       [] OTHER -> UNCHANGED <<tp, scen, up, srvc, terr, nv>>

Spec == Init /\ [][Next]_vars
Accepted == TLCGet("stats").diameter = NL + 1
=============================================================================
