------------------------------- MODULE XcmLive -------------------------------
(***************************************************************************)
(* C04 - the event-loop contract is live.                                  *)
(*                                                                         *)
(* Two applications that follow the documented protocol strictly - declare *)
(* interest with xcm_await, act only when xcm_fd is readable, then call    *)
(* the intended operation or xcm_finish - drive the two endpoints of one   *)
(* connection built from the operators of XcmCore (the same operators the  *)
(* trace specification binds to the code).  The lower layer is an          *)
(* adversary that may cut or refuse any read or write, but it is FAIR: a   *)
(* call that keeps being made is eventually given full credit, and a       *)
(* kernel send buffer that is full eventually drains.                      *)
(*                                                                         *)
(* Safety:  NoLostWakeup - whenever something is owed to an endpoint       *)
(*          (a frame can be flushed, a message / byte / EOF is available   *)
(*          and awaited, the lower layer has failed) its descriptor is     *)
(*          readable.                                                      *)
(* Liveness (under FairSpec): every accepted message is eventually         *)
(*          delivered; a close is eventually seen by the peer.             *)
(***************************************************************************)
EXTENDS XcmCore, Sequences

CONSTANTS TP,        \* "tcp" | "btcp" | "ux"
          N1, N2,    \* messages (or byte chunks) endpoint 1 / 2 wants to send
          MsgLen,    \* length of each message / chunk
          Cap,       \* receive capacity used by the applications
          Closer,    \* 0: nobody closes; e: endpoint e closes once it has sent everything and flushed
          Broken     \* "none"; or a deliberately broken design, used to show that the properties are not vacuous:
                     \* "no_pollout": a pending frame does not make the library wait for writability
                     \* "in_or_out": while SENDABLE is awaited the library registers for writability only

E == {1, 2}
P(e) == 3 - e
NSend == <<N1, N2>>

Upd(ep) ==
  LET u == Update(ep) IN
  IF Broken = "no_pollout" /\ ~HasBit(ep.cond, SENDABLE) /\ HasBit(u.mask, EPOUT) THEN [u EXCEPT !.mask = @ - EPOUT]
  ELSE IF Broken = "in_or_out" /\ HasBit(u.mask, EPOUT) /\ HasBit(u.mask, EPIN) THEN [u EXCEPT !.mask = @ - EPIN]
  ELSE u

VARIABLES eps,      \* XcmCore endpoint records
          open,     \* application has not closed
          frames,   \* lengths of the frames each end started (wire layout)
          wr, rdp,  \* wire units written by e / read by e from its peer's pipe
          nrcv,     \* frames (messages) completely received by e; bytes for streams
          todo,     \* sends the application of e still wants to make
          kw,       \* the kernel send buffer of e takes data (POLLOUT)
          seen      \* e's application has seen end-of-stream (receive returned 0)

vars == <<eps, open, frames, wr, rdp, nrcv, todo, kw, seen>>

Msg == Framing(TP) \/ Seq1(TP)
Avail(e) == wr[P(e)] - rdp[e]
PeerClosed(e) == ~open[P(e)]
HdrOf(e) == LET i == nrcv[e] + 1 IN IF i <= Len(frames[P(e)]) THEN frames[P(e)][i] ELSE 0

\* what poll() says about e's kernel descriptor
KR(e) == (IF Avail(e) > 0 \/ PeerClosed(e) THEN 1 ELSE 0) + (IF kw[e] THEN 4 ELSE 0)
FdReadable(e) == Readable(eps[e], KR(e))

\* the condition an application following the protocol awaits
WantS(sn, td) == (IF sn THEN 0 ELSE RECEIVABLE) + (IF td > 0 THEN SENDABLE ELSE 0)
Want(e, td) == WantS(seen[e], td)

Init ==
  /\ eps = [e \in E |-> Upd([NewEp(TP, "model") EXCEPT !.cond = WantS(FALSE, NSend[e])])]
  /\ open = [e \in E |-> TRUE]
  /\ frames = [e \in E |-> <<>>]
  /\ wr = [e \in E |-> 0] /\ rdp = [e \in E |-> 0] /\ nrcv = [e \in E |-> 0]
  /\ todo = [e \in E |-> NSend[e]]
  /\ kw = [e \in E |-> TRUE]
  /\ seen = [e \in E |-> FALSE]

\* units the next write could use: everything pending plus a new frame
WNeed(e, len) == (IF eps[e].sbuf # 0 THEN HdrLen + eps[e].sbuf - eps[e].sent ELSE 0) +
                 (IF len > 0 THEN (IF Framing(TP) THEN HdrLen + len ELSE IF Stream(TP) THEN len ELSE 1) ELSE 0)
\* a full kernel buffer takes nothing; otherwise the adversary picks any cut; "full" = everything needed
WCredits(e, len, full) == IF ~kw[e] THEN {0} ELSE IF full THEN {INF} ELSE 0..WNeed(e, len)
RCredits(e, full) == IF full THEN {Avail(e)} ELSE 0..Avail(e)
RTerm(e, rc) == IF rc < Avail(e) THEN EAGAIN ELSE IF PeerClosed(e) THEN EOFMARK ELSE EAGAIN

\* ---- the operations an application performs when its descriptor is readable ----
DoSend(e, full) ==
  /\ todo[e] > 0 /\ HasBit(eps[e].cond, SENDABLE)
  /\ \E wc \in WCredits(e, MsgLen, full) :
       LET res == IF Framing(TP) THEN TcpSend(eps[e], MsgLen, wc, EAGAIN)
                  ELSE IF Stream(TP) THEN BtcpSend(eps[e], MsgLen, wc, EAGAIN) @@ [started |-> FALSE]
                  ELSE UxSend(eps[e], MsgLen, IF PeerClosed(e) THEN 0 ELSE wc, IF PeerClosed(e) THEN EPIPE ELSE EAGAIN) @@ [started |-> FALSE]
           started == IF Framing(TP) THEN res.started ELSE Seq1(TP) /\ res.ret = 0
           \* messaging: one send per message; streams: the chunk shrinks by what was accepted (model: all or nothing per credit)
           ok == IF Stream(TP) THEN res.ret = MsgLen ELSE res.ret = 0
           td == IF ok THEN todo[e] - 1 ELSE todo[e]
       IN /\ (Stream(TP) => res.ret \in {-1, MsgLen})     \* keep chunks whole in the model (credit 0 or >= MsgLen)
          /\ eps' = [eps EXCEPT ![e] = Upd([res.ep EXCEPT !.cond = Want(e, td)])]
          /\ frames' = IF started THEN [frames EXCEPT ![e] = Append(@, MsgLen)] ELSE frames
          /\ wr' = [wr EXCEPT ![e] = @ + res.used]
          /\ todo' = [todo EXCEPT ![e] = td]
  /\ UNCHANGED <<open, rdp, nrcv, kw, seen>>

DoReceive(e, full) ==
  /\ HasBit(eps[e].cond, RECEIVABLE)
  /\ \E wc \in WCredits(e, 0, full) : \E rc \in RCredits(e, full) :
       LET rt == RTerm(e, rc)
           res == IF Framing(TP) THEN TcpReceive(eps[e], Cap, wc, EAGAIN, rc, rt, HdrOf(e), "eproto")
                  ELSE IF Stream(TP)
                  THEN LET b == BtcpReceive(eps[e], Cap, rc, rt)
                       IN [ep |-> b.ep, ret |-> b.ret, err |-> b.err, wused |-> 0, rused |-> b.used, delivered |-> b.ret > 0]
                  ELSE LET u == UxReceive(eps[e], Cap, IF rc > 0 THEN 1 ELSE 0, rt, HdrOf(e), "min")
                       IN [ep |-> u.ep, ret |-> u.ret, err |-> u.err, wused |-> 0, rused |-> u.used, delivered |-> u.ret > 0]
           sn == seen[e] \/ res.ret = 0
       IN /\ eps' = [eps EXCEPT ![e] = Upd([res.ep EXCEPT !.cond = (IF sn THEN 0 ELSE RECEIVABLE) + (IF todo[e] > 0 THEN SENDABLE ELSE 0)])]
          /\ wr' = [wr EXCEPT ![e] = @ + res.wused]
          /\ rdp' = [rdp EXCEPT ![e] = @ + res.rused]
          /\ nrcv' = [nrcv EXCEPT ![e] = IF res.delivered THEN (IF Msg THEN @ + 1 ELSE @ + res.ret) ELSE @]
          /\ seen' = [seen EXCEPT ![e] = sn]
  /\ UNCHANGED <<open, frames, todo, kw>>

DoFinish(e, full) ==
  /\ \E wc \in WCredits(e, 0, full) :
       LET res == IF Framing(TP) THEN TcpFinish(eps[e], wc, EAGAIN, [rc |-> 0, e |-> 0])
                  ELSE IF Stream(TP) THEN BtcpFinish(eps[e]) ELSE UxFinish(eps[e])
       IN /\ eps' = [eps EXCEPT ![e] = Upd(res.ep)]
          /\ wr' = [wr EXCEPT ![e] = @ + res.used]
  /\ UNCHANGED <<open, frames, rdp, nrcv, todo, kw, seen>>

\* one turn of e's event loop: only when the descriptor is readable
AppStep(e, full) ==
  /\ open[e] /\ FdReadable(e)
  /\ (DoSend(e, full) \/ DoReceive(e, full) \/ DoFinish(e, full))

\* the closer closes once it has nothing more to send and nothing buffered (it let the socket finish its work)
AppClose(e) ==
  /\ Closer = e /\ open[e] /\ todo[e] = 0 /\ eps[e].sbuf = 0
  /\ open' = [open EXCEPT ![e] = FALSE]
  /\ UNCHANGED <<eps, frames, wr, rdp, nrcv, todo, kw, seen>>

\* environment: the kernel send buffer of e fills up / drains
KFull(e)  == /\ kw[e] /\ open[e] /\ kw' = [kw EXCEPT ![e] = FALSE] /\ UNCHANGED <<eps, open, frames, wr, rdp, nrcv, todo, seen>>
KDrain(e) == /\ ~kw[e] /\ kw' = [kw EXCEPT ![e] = TRUE] /\ UNCHANGED <<eps, open, frames, wr, rdp, nrcv, todo, seen>>

Next == \E e \in E : AppStep(e, TRUE) \/ AppStep(e, FALSE) \/ AppClose(e) \/ KFull(e) \/ KDrain(e)

Spec == Init /\ [][Next]_vars

\* fairness: the event loop runs; a call that keeps being made eventually gets full credit; a full buffer drains
FairSpec == Spec /\ \A e \in E : /\ SF_vars(AppStep(e, TRUE))
                                 /\ WF_vars(KDrain(e))
                                 /\ WF_vars(AppClose(e))

(***************************************************************************)
(* Properties                                                              *)
(***************************************************************************)
\* something is owed to e: the contract says its descriptor must be readable
Owed(e) ==
  \/ (~Seq1(TP) /\ eps[e].l1 # "ready")
  \/ (Framing(TP) /\ eps[e].sbuf # 0 /\ kw[e])
  \/ (HasBit(eps[e].cond, RECEIVABLE) /\ (Avail(e) > 0 \/ PeerClosed(e)))
  \/ (HasBit(eps[e].cond, SENDABLE) /\ kw[e] /\ (Seq1(TP) \/ eps[e].l1 = "ready"))
NoLostWakeup == \A e \in E : open[e] /\ Owed(e) => FdReadable(e)

\* no spinning: an idle endpoint that awaits nothing that can happen is quiet
Quiet == \A e \in E : (open[e] /\ eps[e].l1 = "ready" /\ eps[e].sbuf = 0 /\ Avail(e) = 0 /\ ~PeerClosed(e)
                       /\ ~HasBit(eps[e].cond, SENDABLE)) => ~FdReadable(e)

Delivered(e) == IF Msg THEN nrcv[P(e)] = NSend[e] ELSE nrcv[P(e)] = NSend[e] * MsgLen
\* every message the applications wanted to send is eventually accepted and delivered
AllDelivered == <>[](\A e \in E : todo[e] = 0 /\ Delivered(e))
\* a graceful close is eventually seen by the peer, after everything that was sent
CloseSeen == Closer # 0 => <>(seen[P(Closer)] /\ Delivered(Closer))
=============================================================================
