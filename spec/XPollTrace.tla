----------------------------- MODULE XPollTrace -----------------------------
(***************************************************************************)
(* Validates executions of the real libxcm/core/xpoll.c (+ active_fd.c),   *)
(* recorded by harness/xpoll_exec, against the step function of XPoll.tla: *)
(* every call's return value, the epoll_ctl calls it made (in order, with  *)
(* their outcome), the kernel's interest list afterwards as the kernel     *)
(* itself reports it (/proc/self/fdinfo), whether the epoll descriptor is   *)
(* readable, and the number of active_fd users held.                        *)
(* Monitor style: one line per step, mismatches printed as "@V" lines.     *)
(***************************************************************************)
EXTENDS XPoll, IOUtils

TraceLog == ndJsonDeserialize(IOEnv.TRACE)
NL == Len(TraceLog)

VARIABLES l, ms, mr, nv
tvars == <<l, ms, mr, nv>>

TInit == l = 1 /\ ms = S0 /\ mr = {} /\ nv = 0 /\ Init      \* (the model's own variables stay put)

Chk(c, t, x, o) == [c |-> c, t |-> t, x |-> x, o |-> o]
Failed(cs) == SelectSeq(cs, LAMBDA r : ~r.c)
Report(ln, cs) ==
  LET f == Failed(cs) IN
  IF f = <<>> THEN TRUE ELSE \A i \in 1..Len(f) : PrintT("@V " \o ToJson(<<ln.x, ln.n, f[i].t, f[i].x, f[i].o>>))

\* the logged system calls in the model's form
SysOf(ln) == [k \in 1..Len(ln.sys) |-> Sys(ln.sys[k][1], ln.sys[k][2], ln.sys[k][3], ln.sys[k][4] = 1)]
KerOf(ln) == [fd \in {ln.ker[k][1] : k \in 1..Len(ln.ker)} |->
                (CHOOSE k \in 1..Len(ln.ker) : ln.ker[k][1] = fd) ]
KerMask(ln, fd) == ln.ker[CHOOSE k \in 1..Len(ln.ker) : ln.ker[k][1] = fd][2]
KerEq(ln, s) == /\ {ln.ker[k][1] : k \in 1..Len(ln.ker)} = DOMAIN s.ker
                /\ \A fd \in DOMAIN s.ker : KerMask(ln, fd) = s.ker[fd]

TStep(ln) ==
  LET op == Op(ln.op[1], ln.op[2], ln.op[3])
      r == Step(ms, op)
      s1 == r.s
      rdy1 == IF ln.op[1] = "rd" THEN (IF ln.op[3] = 1 THEN mr \cup {ln.op[2]} ELSE mr \ {ln.op[2]})
              ELSE IF ln.op[1] = "cl" THEN mr \ {ln.op[2]} ELSE mr
      cs == <<Chk(ln.crash = 0, "C16.xpoll_abort", "no assert in a legal call sequence", ln.op),
              Chk(ln.crash = 1 \/ ~s1.dead, "INTERNAL", "script respects the interface", ln.op),
              Chk(ln.crash = 1 \/ ln.op[1] \notin {"fa", "ba"} \/ ln.ret = r.ret, "C16.xpoll_id", r.ret, ln.ret),
              Chk(ln.crash = 1 \/ SysOf(ln) = r.out, "C16.xpoll_sys", r.out, ln.sys),
              Chk(ln.crash = 1 \/ KerEq(ln, s1), "C16.xpoll_kernel", s1.ker, ln.ker),
              Chk(ln.crash = 1 \/ (ln.rd = 1) = Meaning(s1, rdy1), "C16.xpoll_readable", Meaning(s1, rdy1), ln.rd),
              Chk(ln.crash = 1 \/ ln.users = s1.users, "C16.xpoll_pool", s1.users, ln.users),
              \* the model's own invariants on the state the real calls led to
              Chk(KernelView(s1) /\ PoolUser(s1) /\ Shape(s1), "INTERNAL", "model invariants", ln.n)>>
  IN /\ Report(ln, cs)
     /\ nv' = nv + Len(Failed(cs))
     /\ ms' = s1
     /\ mr' = rdy1

TNext ==
  /\ l <= NL
  /\ l' = l + 1
  /\ LET ln == TraceLog[l] IN
     IF ln.op[1] = "X" THEN ms' = S0 /\ mr' = {} /\ nv' = nv
     ELSE IF ln.op[1] = "E" THEN
          \* xpoll_destroy: the eventfd user is returned, nothing of the instance is left
          /\ Report(ln, <<Chk(ln.users = 0, "C16.xpoll_pool", 0, ln.users)>>)
          /\ nv' = nv + (IF ln.users = 0 THEN 0 ELSE 1)
          /\ ms' = S0 /\ mr' = {}
     ELSE TStep(ln)

TSpec == TInit /\ [][TNext /\ UNCHANGED vars]_<<tvars, vars>>
Accepted == TLCGet("stats").diameter = NL + 1
=============================================================================
