-------------------------------- MODULE Mbuf --------------------------------
(***************************************************************************)
(* libxcm/tp/common/mbuf.h: the buffer of one not yet completed message    *)
(* and the wire encoding of the messaging transports tcp and tls (a 4-byte  *)
(* big-endian length, then the payload).  Every frame sent is built by      *)
(* mbuf_set, every frame received is assembled by appending what recv /     *)
(* SSL_read returned and asking mbuf_hdr_left / mbuf_payload_left how much  *)
(* to ask for next; mbuf_is_hdr_valid is the only thing between a hostile   *)
(* length field and the receiver.                                           *)
(*                                                                         *)
(* A deterministic step function over a state record, mirroring the header  *)
(* function by function.  The payload is kept as (length, checksum): the    *)
(* functions never look at payload bytes.  The header is kept byte by byte. *)
(* The 32-bit length is handled as two 16-bit halves (TLC's integers are     *)
(* 32-bit signed).                                                          *)
(*                                                                         *)
(* What the transports rely on:                                             *)
(*   RoundTrip  after mbuf_set(n) the buffer is the complete frame of n      *)
(*              bytes, header valid iff 1 <= n <= MsgMax                     *)
(*   Parse      a frame fed in ANY split, asking hdr_left then payload_left, *)
(*              is complete exactly when its last byte has been appended,    *)
(*              with the length and the payload it was built with            *)
(*   Reject     a header is valid only for 1..MsgMax, whatever its bytes     *)
(*   Bounds     wire_len <= capacity whenever the asked amounts are honoured *)
(***************************************************************************)
EXTENDS Integers, Sequences, FiniteSets, TLC, Json

HdrLen == 4
MsgMaxReal == 65535
CSMOD == 251

\* hdr: the header bytes buffered so far (0..4); pn / ps: payload bytes buffered and their checksum; cap: wire_capacity
\* dead: an assert was hit
M0 == [hdr |-> <<>>, pn |-> 0, ps |-> 0, cap |-> 0, dead |-> FALSE]

WireLen(s) == Len(s.hdr) + s.pn
HdrLeft(s) == IF WireLen(s) < HdrLen THEN HdrLen - WireLen(s) ELSE 0
HasHdr(s) == HdrLeft(s) = 0
\* the declared length as two halves
Hi(s) == s.hdr[1] * 256 + s.hdr[2]
Lo(s) == s.hdr[3] * 256 + s.hdr[4]
HdrValid(s, max) == HasHdr(s) /\ Hi(s) = 0 /\ Lo(s) > 0 /\ Lo(s) <= max
Buffered(s) == IF HasHdr(s) THEN WireLen(s) - HdrLen ELSE 0
Complete(s) == HasHdr(s) /\ Hi(s) = 0 /\ Lo(s) = Buffered(s)
Empty(s) == WireLen(s) = 0
Partial(s) == ~Empty(s) /\ ~Complete(s)
\* only meaningful with a complete header whose upper half is 0 (the real value does not fit TLC's integers otherwise)
PayloadLeft(s) == Lo(s) - Buffered(s)

R(s, out) == [s |-> s, out |-> out]

EnsureCap(s, c, wmax) == IF s.cap < c THEN [s EXCEPT !.cap = c, !.dead = @ \/ c > wmax] ELSE s
BE(n) == <<0, 0, n \div 256, n % 256>>                     \* n <= 65535 in every use
Sum(q) == IF q = <<>> THEN 0 ELSE LET F[i \in 0..Len(q)] == IF i = 0 THEN 0 ELSE (F[i - 1] + q[i]) % CSMOD IN F[Len(q)]

\* mbuf_set(msg of n bytes, checksum cs)
Set(s, n, cs, wmax) ==
  LET s1 == EnsureCap(s, HdrLen + n, wmax) IN [s1 EXCEPT !.hdr = BE(n), !.pn = n, !.ps = cs]
\* the caller wrote n bytes at mbuf_wire_end (the first of them are hb, all of them sum to cs) and calls mbuf_wire_appended(n)
Appended(s, hb, n, cs) ==
  LET k == IF HdrLeft(s) < n THEN HdrLeft(s) ELSE n          \* bytes that complete the header
      hpart == SubSeq(hb, 1, k)
      rest == n - k
      rsum == (cs - Sum(hpart) + CSMOD) % CSMOD
  IN [s EXCEPT !.hdr = @ \o hpart, !.pn = @ + rest, !.ps = (@ + rsum) % CSMOD,
               !.dead = @ \/ (WireLen(s) + n > s.cap)]
Reset(s) == [s EXCEPT !.hdr = <<>>, !.pn = 0, !.ps = 0]

\* op: [o, n, cs, hb]
Step(s, op, wmax) ==
  CASE op.o = "set" -> Set(s, op.n, op.cs, wmax)
    [] op.o = "app" -> Appended(s, op.hb, op.n, op.cs)
    [] op.o = "cap" -> EnsureCap(s, op.n, wmax)
    [] op.o = "spare" -> EnsureCap(s, WireLen(s) + op.n, wmax)
    [] op.o = "reset" -> Reset(s)
    [] OTHER -> s

\* what the query functions answer in state s
Obs(s, max, wmax) ==
  [wl |-> WireLen(s), left |-> wmax - WireLen(s), empty |-> Empty(s), partial |-> Partial(s), hl |-> HdrLeft(s),
   hashdr |-> HasHdr(s), valid |-> HdrValid(s, max), hi |-> IF HasHdr(s) THEN Hi(s) ELSE -1,
   lo |-> IF HasHdr(s) THEN Lo(s) ELSE -1, buf |-> Buffered(s), pleft |-> IF HasHdr(s) /\ Hi(s) = 0 THEN PayloadLeft(s) ELSE -1,
   complete |-> Complete(s), ps |-> s.ps]

\* ---- the bounded model: a sender builds frames, a receiver assembles them from arbitrary chunks ----------------
\* MsgMax is scaled down (the code's constant only enters through HdrValid and the capacity assert)
CONSTANTS MsgMax, Lens, Chunks, MaxOps, EmitPaths, Broken
WMax == MsgMax + HdrLen

VARIABLES tx, rx, feed, sent, path      \* tx / rx: the two mbufs; feed: wire bytes under way [hb, n]; sent: the frame they came from
vars == <<tx, rx, feed, sent, path>>

\* seeded defects of the design (each must violate an invariant)
BHdrLeft(s) == IF Broken = "hdr_short" THEN (IF WireLen(s) < HdrLen - 1 THEN HdrLen - 1 - WireLen(s) ELSE 0) ELSE HdrLeft(s)
BValid(s) == IF Broken = "valid_zero" THEN HasHdr(s) /\ Hi(s) = 0 /\ Lo(s) <= MsgMax ELSE HdrValid(s, MsgMax)
BPayloadLeft(s) == IF Broken = "left_off" THEN PayloadLeft(s) + 1 ELSE PayloadLeft(s)

Min(a, b) == IF a < b THEN a ELSE b
\* every payload byte has the value 1: the checksum of n of them is n
PSum(n) == n % CSMOD
NoFeed == [hb |-> <<>>, n |-> 0]
Init == tx = M0 /\ rx = M0 /\ feed = NoFeed /\ sent = [n |-> -1, cs |-> 0] /\ path = <<>>

\* the sender: mbuf_set of a message (also lengths the API layer would have refused: 0 and MsgMax + 1 where the buffer
\* can hold it), then the wire image goes on its way
Send == /\ Len(path) < MaxOps /\ feed.n = 0 /\ Empty(rx)
        /\ \E n \in Lens :
             /\ n + HdrLen <= WMax
             /\ tx' = Set(Reset(tx), n, PSum(n), WMax)
             /\ feed' = [hb |-> BE(n), n |-> HdrLen + n]
             /\ sent' = [n |-> n, cs |-> PSum(n)]
             /\ path' = path \o << <<"t", "reset", 0, 0, <<>> >>, <<"t", "set", n, PSum(n), <<>> >> >>
        /\ rx' = rx
\* hostile headers are put on the wire directly
Hostile == /\ Len(path) < MaxOps /\ feed.n = 0 /\ Empty(rx)
           /\ \E h \in {<<0, 0, 0, 0>>, <<0, 1, 0, 0>>, <<255, 255, 255, 255>>, <<128, 0, 0, 1>>,
                         <<0, 0, (MsgMax + 1) \div 256, (MsgMax + 1) % 256>>} :
                /\ feed' = [hb |-> h, n |-> HdrLen + 2]
                /\ sent' = [n |-> -2, cs |-> 0]
           /\ UNCHANGED <<tx, rx, path>>
\* the receiver, as xcm_tp_tcp.c does it: ensure room for what is asked, ask for hdr_left, then (header valid) payload_left;
\* the lower layer hands over any non-empty part of what was asked
Recv == /\ Len(path) < MaxOps /\ feed.n > 0 /\ ~rx.dead
        /\ LET ask == IF BHdrLeft(rx) > 0 THEN BHdrLeft(rx) ELSE IF BValid(rx) THEN BPayloadLeft(rx) ELSE 0 IN
           /\ ask > 0
           /\ \E c \in Chunks :
                LET k == Min(Min(c, ask), feed.n)
                    hk == Min(Len(feed.hb), k)
                    hb == SubSeq(feed.hb, 1, hk)
                    cs == (Sum(hb) + PSum(k - hk)) % CSMOD
                    r1 == EnsureCap(rx, WireLen(rx) + ask, WMax)
                IN /\ rx' = Appended(r1, hb, k, cs)
                   /\ feed' = [hb |-> SubSeq(feed.hb, hk + 1, Len(feed.hb)), n |-> feed.n - k]
                   /\ path' = path \o << <<"r", "spare", ask, 0, <<>> >>, <<"r", "app", k, cs, hb>> >>
        /\ UNCHANGED <<tx, sent>>
\* a complete frame is handed to the application
Deliver == /\ Len(path) < MaxOps /\ Complete(rx) /\ BValid(rx)
           /\ rx' = Reset(rx)
           /\ feed' = NoFeed
           /\ path' = Append(path, <<"r", "reset", 0, 0, <<>> >>)
           /\ UNCHANGED <<tx, sent>>
\* an invalid header ends the connection
Drop == /\ Len(path) < MaxOps /\ HasHdr(rx) /\ ~BValid(rx)
        /\ rx' = Reset(rx) /\ feed' = NoFeed
        /\ path' = Append(path, <<"r", "reset", 0, 0, <<>> >>)
        /\ UNCHANGED <<tx, sent>>
Next == Send \/ Hostile \/ Recv \/ Deliver \/ Drop
Spec == Init /\ [][Next]_vars

InvRoundTrip == (sent.n >= 0) => (Complete(tx) /\ Lo(tx) = sent.n /\ tx.ps = sent.cs /\ (HdrValid(tx, MsgMax) <=> (sent.n >= 1 /\ sent.n <= MsgMax)))
InvBounds == ~tx.dead /\ ~rx.dead /\ WireLen(rx) <= rx.cap /\ WireLen(rx) <= WMax
\* complete exactly when everything of a sent frame has arrived, and then it is the frame that was sent
InvParse == (sent.n >= 1 /\ sent.n <= MsgMax) =>
              /\ (Complete(rx) => (feed.n = 0 /\ Lo(rx) = sent.n /\ rx.ps = sent.cs))
              /\ ((feed.n = 0 /\ ~Empty(rx)) => Complete(rx))
\* a frame of declared length 0 or above the maximum is never taken for a message
InvReject == (Complete(rx) /\ BValid(rx)) => (Lo(rx) >= 1 /\ Lo(rx) <= MsgMax /\ sent.n = Lo(rx))
\* the receiver never asks for nothing while something is under way (it would spin or stall)
InvProgress == (feed.n > 0 /\ ~rx.dead) =>
                 \/ BHdrLeft(rx) > 0
                 \/ (HasHdr(rx) /\ ~BValid(rx))
                 \/ (HasHdr(rx) /\ BValid(rx) /\ (BPayloadLeft(rx) > 0 \/ Complete(rx)))

Emit == (EmitPaths = "transition" /\ path' # path) => PrintT("@P " \o ToJson(path'))
view == <<tx, rx, feed, sent>>
=============================================================================
