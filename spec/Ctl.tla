-------------------------------- MODULE Ctl --------------------------------
(***************************************************************************)
(* C14 - the control interface of an XCM socket (libxcm/ctl/ctl.c), as     *)
(* seen by its clients (libxcmctl or anything else that connects to the    *)
(* AF_UNIX SOCK_SEQPACKET socket in the XCM_CTL directory), composed with  *)
(* the application that owns the socket.                                   *)
(*                                                                         *)
(* Shaped like the code:                                                   *)
(*  - the server is passive: it runs only when the owning application      *)
(*    calls into the library (ServerPoll = one ctl_process() round; the    *)
(*    cadence at which the data path grants it - every 256 successful or   *)
(*    5 temporarily failing calls, xcm_tp.c consider_ctl - is not part of  *)
(*    the model: any finite number of application steps may go by);        *)
(*  - at most MaxClients sessions are held in the table clients[]; further *)
(*    sessions wait in the listen backlog, in connect order;               *)
(*  - per round, every session in the table makes ONE step: send the       *)
(*    pending reply, or read one request; a failing step (peer gone,       *)
(*    message of the wrong size, unknown request type) removes the         *)
(*    session (the last table entry moves into the hole) and restarts the  *)
(*    round; then one session is accepted if the table has room;           *)
(*  - one reply buffer per table slot, reused across requests (and across  *)
(*    sessions occupying the slot one after the other).                    *)
(*                                                                         *)
(* All model state is ONE record (variable st) and every step is a pure    *)
(* operator on it, so that spec/CtlTrace.tla drives the very same          *)
(* operators from a recorded execution of the real library.                *)
(***************************************************************************)
EXTENDS Integers, Sequences, FiniteSets, TLC, Json

CONSTANTS Sess,        \* session identities, 1..N in connect order
          Kinds,       \* request kinds a client may send (subset of AllKinds)
          MaxClients,  \* size of the session table (MAX_CLIENTS in ctl.c: 2)
          BacklogCap,  \* sessions the kernel queues in front of accept()
          MaxReq,      \* bound: requests per session
          MaxTotal,    \* bound: requests per behaviour
          MaxApp,      \* bound: application messages per behaviour
          Dev          \* named deviations of the code from the design, see DESIGN 6.4:
                       \*   "getall_type": process_get_all_attr leaves the type of the
                       \*   reply buffer as the previous reply in that slot left it

(* request kinds:                                                          *)
(*   get  well-formed get of some attribute (existing or not)              *)
(*   key  well-formed get of the write-only-for-outsiders attribute        *)
(*        tls.key                                                          *)
(*   all  well-formed get-all                                              *)
(*   bad  message the protocol has no reading for: wrong size (shorter     *)
(*        than the fixed message size, or empty) or unknown request type   *)
(*   odd  message of full size (or longer: the kernel truncates it to the  *)
(*        receive buffer) whose get request is abnormal: over-long         *)
(*        message, attribute name without terminator.  ctl.c processes it  *)
(*        as a get; closing the session instead would be just as good.     *)
AllKinds == {"get", "key", "all", "bad", "odd"}
WellFormed(k) == k \in {"get", "key", "all"}
Closes(k) == k = "bad"
Lenient(k) == k = "odd"

NoRep == [k |-> "none", id |-> 0, ty |-> "none"]

\* reply type the protocol assigns to a request kind, whatever preceded it on the session
ExpectedTy(k) == IF k = "all" THEN "allrep" ELSE "getrep"

\* what the reply to a well-formed request must carry (spec/CtlTrace.tla compares the
\* recorded reply with the in-process answer accordingly)
ReplyClass(k) ==
  CASE k = "get" -> "same_as_in_process"     \* value / type / length of xcm_attr_get, or a rejection with its errno
    [] k = "key" -> "rejection"              \* never the value
    [] k = "all" -> "same_set_as_in_process" \* xcm_attr_get_all minus tls.key
    [] k = "odd" -> "rejection_or_closed"
    [] OTHER -> "closed"

St0 == [ord   |-> <<>>,                       \* sessions whose connect succeeded, in order
        cl    |-> [s \in Sess |-> "init"],    \* client end: init | open | dropped | refused
        sv    |-> [s \in Sess |-> "none"],    \* server end: none | blog | acc | rm
        tbl   |-> <<>>,                       \* clients[0..num_clients-1]
        slot  |-> [i \in 1..MaxClients |-> "none"],  \* type field of each slot's reply buffer
        blog  |-> <<>>,                       \* listen backlog (FIFO)
        inq   |-> [s \in Sess |-> <<>>],      \* requests on their way to the server
        pend  |-> [s \in Sess |-> NoRep],     \* is_response_pending / pending_response
        outq  |-> [s \in Sess |-> <<>>],      \* replies on their way to the client
        sent  |-> [s \in Sess |-> <<>>],      \* ghost: every request the client sent
        got   |-> [s \in Sess |-> <<>>],      \* ghost: every reply the client read
        asent |-> 0, chan |-> <<>>, arcvd |-> <<>>,   \* the owner's data path (sequence numbers)
        open  |-> TRUE,                       \* the socket has not been closed
        file  |-> TRUE]                       \* its control file exists

\* ---- server ------------------------------------------------------------------
\* one step of table entry i (process_client); ok = FALSE: the session must be removed
StepClient(S, i) ==
  LET c == S.tbl[i] IN
  IF S.pend[c] # NoRep THEN                                   \* client_send
    IF S.cl[c] = "dropped" THEN [S |-> S, ok |-> FALSE]       \* EPIPE
    ELSE [S |-> [S EXCEPT !.outq[c] = Append(@, S.pend[c]), !.pend[c] = NoRep], ok |-> TRUE]
  ELSE IF S.inq[c] = <<>> THEN                                \* client_receive, nothing queued
    [S |-> S, ok |-> S.cl[c] # "dropped"]                     \* end of file: disconnected
  ELSE
    LET r == Head(S.inq[c])
        S1 == [S EXCEPT !.inq[c] = Tail(@)]
    IN IF Closes(r.k) THEN [S |-> S1, ok |-> FALSE]
       ELSE LET ty == IF r.k = "all" /\ "getall_type" \in Dev THEN S.slot[i] ELSE ExpectedTy(r.k)
                sl == IF "getall_type" \in Dev /\ r.k # "all" THEN [S.slot EXCEPT ![i] = "getrep"] ELSE S.slot
            IN [S |-> [S1 EXCEPT !.pend[c] = [k |-> r.k, id |-> r.id, ty |-> ty], !.slot = sl], ok |-> TRUE]

\* remove_client: close the descriptor, move the last entry into the hole
Remove(S, i) ==
  LET n == Len(S.tbl)
      c == S.tbl[i]
      t2 == [j \in 1..(n - 1) |-> IF j = i THEN S.tbl[n] ELSE S.tbl[j]]
      s2 == IF i = n THEN S.slot ELSE [S.slot EXCEPT ![i] = S.slot[n]]
  IN [S EXCEPT !.tbl = t2, !.slot = s2, !.sv[c] = "rm", !.pend[c] = NoRep, !.inq[c] = <<>>]

\* accept_client
Accept(S) ==
  IF Len(S.tbl) < MaxClients /\ S.blog # <<>>
  THEN LET c == Head(S.blog) IN [S EXCEPT !.tbl = Append(@, c), !.blog = Tail(@), !.sv[c] = "acc"]
  ELSE S

\* ctl_process: "restart the process for simplicity" after a removal, then carry on with the
\* next index of the (changed) table
RECURSIVE CP(_), Loop(_, _)
CP(S) == Accept(Loop(S, 1))
Loop(S, i) ==
  IF i > Len(S.tbl) THEN S
  ELSE LET r == StepClient(S, i) IN
       IF r.ok THEN Loop(r.S, i + 1) ELSE Loop(CP(Remove(r.S, i)), i + 1)

\* what the server can still do if the application keeps calling and the clients do nothing more:
\* the fixed point of ctl_process (every round that changes anything consumes a request, a pending
\* reply, a backlog entry or a table entry, so it is reached)
RECURSIVE Settled(_)
Settled(S) == LET T == CP(S) IN IF T = S THEN S ELSE Settled(T)

\* xcm_close: ctl_destroy removes every session, closes the listening socket, unlinks the file
Close(S) ==
  [S EXCEPT !.tbl = <<>>, !.blog = <<>>, !.open = FALSE, !.file = FALSE,
            !.sv = [s \in Sess |-> IF S.sv[s] \in {"blog", "acc"} THEN "rm" ELSE S.sv[s]],
            !.pend = [s \in Sess |-> NoRep], !.inq = [s \in Sess |-> <<>>]]

\* ---- clients -----------------------------------------------------------------
Connect(S, c) ==
  IF S.open /\ Len(S.blog) < BacklogCap
  THEN [S EXCEPT !.cl[c] = "open", !.sv[c] = "blog", !.blog = Append(@, c), !.ord = Append(@, c)]
  ELSE [S EXCEPT !.cl[c] = "refused"]

MkReq(S, c, k) == [k |-> k, id |-> Len(S.sent[c]) + 1]

Send(S, c, k) ==
  LET r == MkReq(S, c, k) IN
  [S EXCEPT !.sent[c] = Append(@, r),
            !.inq[c] = IF S.sv[c] = "rm" THEN @ ELSE Append(@, r)]   \* EPIPE once the server has closed

RecvObs(S, c) == IF S.outq[c] # <<>> THEN "reply" ELSE IF S.sv[c] = "rm" THEN "eof" ELSE "none"

Recv(S, c) ==
  IF S.outq[c] # <<>> THEN [S EXCEPT !.got[c] = Append(@, Head(S.outq[c])), !.outq[c] = Tail(@)] ELSE S

Drop(S, c) == [S EXCEPT !.cl[c] = "dropped", !.outq[c] = <<>>]

\* ---- the owner's data path (abstract: a FIFO of sequence numbers) ----------------
AppSend(S) == [S EXCEPT !.asent = @ + 1, !.chan = Append(@, S.asent + 1)]
AppRecv(S) == IF S.chan = <<>> THEN S ELSE [S EXCEPT !.arcvd = Append(@, Head(S.chan)), !.chan = Tail(@)]

\* ---- derived notions -------------------------------------------------------------
\* the requests of a session the protocol has an answer for: those in front of the first
\* message that makes the server close the session
RECURSIVE AnsPrefix(_)
AnsPrefix(q) == IF q = <<>> \/ Closes(Head(q).k) THEN <<>> ELSE <<Head(q)>> \o AnsPrefix(Tail(q))

\* replies produced so far for session c, oldest first
Produced(S, c) == S.got[c] \o S.outq[c] \o (IF S.pend[c] # NoRep THEN <<S.pend[c]>> ELSE <<>>)

\* number of requests of c answered once the server has settled (clients passive from now on)
EventuallyAnswered(S, c) == LET T == Settled(S) IN Len(T.got[c]) + Len(T.outq[c])

-----------------------------------------------------------------------------
(* The bounded model: clients, server rounds and application traffic       *)
(* interleave arbitrarily.  hist is a ghost (hidden by the VIEW): the path *)
(* that led here, printed for every transition by the action constraint    *)
(* Emit and replayed on the real library by harness/ctl_exec.              *)
VARIABLES st, hist
vars == <<st, hist>>

H(a, s, k, e) == <<a, s, k, e>>

Init == st = St0 /\ hist = <<>>

TotalSent(S) == LET RECURSIVE Sum(_)
                    Sum(X) == IF X = {} THEN 0 ELSE LET x == CHOOSE y \in X : TRUE IN Len(S.sent[x]) + Sum(X \ {x})
                IN Sum(Sess)

ClientConnect(c) ==
  /\ st.cl[c] = "init" /\ \A d \in Sess : d < c => st.cl[d] # "init"
  /\ st' = Connect(st, c)
  /\ hist' = Append(hist, H("conn", c, "-", st'.cl[c]))

ClientSend(c, k) ==
  /\ st.cl[c] = "open" /\ Len(st.sent[c]) < MaxReq /\ TotalSent(st) < MaxTotal
  /\ st' = Send(st, c, k)
  /\ hist' = Append(hist, H("send", c, k, "-"))

ClientRecv(c) ==
  /\ st.cl[c] = "open"
  /\ st' = Recv(st, c)
  /\ hist' = Append(hist, H("recv", c, "-", RecvObs(st, c)))

ClientDrop(c) ==
  /\ st.cl[c] = "open"
  /\ st' = Drop(st, c)
  /\ hist' = Append(hist, H("drop", c, "-", "-"))

ServerPoll ==
  /\ st.open
  /\ st' = CP(st)
  /\ hist' = Append(hist, H("poll", 0, "-", "-"))

AppSendA ==
  /\ st.open /\ st.asent < MaxApp
  /\ st' = AppSend(st)
  /\ hist' = Append(hist, H("asend", 0, "-", "-"))

AppRecvA ==
  /\ st.chan # <<>>
  /\ st' = AppRecv(st)
  /\ hist' = Append(hist, H("arecv", 0, "-", "-"))

OwnerClose ==
  /\ st.open
  /\ st' = Close(st)
  /\ hist' = Append(hist, H("close", 0, "-", "-"))

Next ==
  \/ \E c \in Sess : ClientConnect(c) \/ ClientRecv(c) \/ ClientDrop(c)
  \/ \E c \in Sess, k \in Kinds : ClientSend(c, k)
  \/ ServerPoll \/ AppSendA \/ AppRecvA \/ OwnerClose

Spec == Init /\ [][Next]_vars

\* the server keeps getting its opportunities, clients keep reading
FairSpec == Spec /\ WF_vars(ServerPoll) /\ \A c \in Sess : WF_vars(ClientRecv(c) /\ st.outq[c] # <<>>)

View == st

\* ---- properties ---------------------------------------------------------------
TypeOK ==
  /\ st.cl \in [Sess -> {"init", "open", "dropped", "refused"}]
  /\ st.sv \in [Sess -> {"none", "blog", "acc", "rm"}]
  /\ \A c \in Sess : Len(st.outq[c]) <= MaxReq /\ Len(st.inq[c]) <= MaxReq

BoundedSessions ==
  /\ Len(st.tbl) <= MaxClients
  /\ \A i, j \in 1..Len(st.tbl) : i # j => st.tbl[i] # st.tbl[j]
  /\ \A i \in 1..Len(st.tbl) : st.sv[st.tbl[i]] = "acc"
  /\ \A c \in Sess : st.sv[c] = "acc" => \E i \in 1..Len(st.tbl) : st.tbl[i] = c
  /\ \A i \in 1..Len(st.blog) : st.sv[st.blog[i]] = "blog"

\* every reply answers the oldest unanswered answerable request of its session: replies are
\* never duplicated, reordered, invented, or delivered to another session
FifoReplies ==
  \A c \in Sess :
    LET p == IF st.cl[c] = "dropped" THEN st.got[c] ELSE Produced(st, c)
        a == AnsPrefix(st.sent[c])
    IN /\ Len(p) <= Len(a)
       /\ \A i \in 1..Len(p) : p[i].id = a[i].id /\ p[i].k = a[i].k

\* whichever request comes first on a session (and whatever preceded it), the reply has the
\* type of the request
FirstRequestAny ==
  \A c \in Sess : \A i \in 1..Len(st.got[c]) : st.got[c][i].ty = ExpectedTy(st.got[c][i].k)

\* the reply to a request for tls.key is of the class "rejection" (the class is a function of
\* the request alone); a session that only ever sent well-formed requests is never closed by
\* the server while the socket is open
KeyNeverDisclosed == \A c \in Sess : \A i \in 1..Len(st.got[c]) :
                        st.got[c][i].k = "key" => ReplyClass(st.got[c][i].k) = "rejection"
WellBehavedStay ==
  \A c \in Sess : (st.open /\ st.cl[c] = "open" /\ st.sv[c] = "rm") =>
                     \E i \in 1..Len(st.sent[c]) : ~WellFormed(st.sent[c][i].k)

\* the data path: what the application sent is received, in order, whatever the clients do
Passive ==
  /\ \A i \in 1..Len(st.arcvd) : st.arcvd[i] = i
  /\ \A i \in 1..Len(st.chan) : st.chan[i] = Len(st.arcvd) + i
  /\ Len(st.arcvd) + Len(st.chan) = st.asent
PassiveStep ==
  [][(hist' # hist /\ hist'[Len(hist')][1] \notin {"asend", "arecv"})
       => (st'.asent = st.asent /\ st'.chan = st.chan /\ st'.arcvd = st.arcvd)]_vars

FilesGone == ~st.open => (~st.file /\ st.tbl = <<>> /\ st.blog = <<>>)

\* once the clients are passive, an accepted or acceptable session with answerable requests
\* gets every one of them answered (checked on every reachable state through Settled)
SettledServes ==
  \A c \in Sess :
    LET T == Settled(st) IN
    (st.open /\ st.cl[c] = "open" /\ T.sv[c] = "acc")
       => Len(T.got[c]) + Len(T.outq[c]) = Len(AnsPrefix(st.sent[c]))

\* liveness under FairSpec: an accepted session's answerable request is eventually answered
\* unless the client goes away or the socket is closed
Answered ==
  \A c \in Sess : \A i \in 1..MaxReq :
    [](( /\ st.sv[c] = "acc" /\ st.cl[c] = "open"
         /\ Len(AnsPrefix(st.sent[c])) >= i )
        => <>(Len(st.got[c]) >= i \/ st.cl[c] # "open" \/ ~st.open))

\* ---- path emission ---------------------------------------------------------------
Tok(h) == h[1] \o ":" \o ToString(h[2]) \o ":" \o h[3] \o ":" \o h[4]
Emit == PrintT("@P" \o ToJson([i \in 1..Len(hist') |-> Tok(hist'[i])]))
=============================================================================
