\* A small configuration for running TConnectMC by hand (lib/check_c13.py generates its own per tier):
\*   cd /verif/spec && tlc -noGenerateSpecTE -workers 4 -config TConnectMC.cfg TConnectMC.tla
SPECIFICATION Spec
CONSTANTS
  MaxLen = 2
  FullLen = 2
  Seed = 1
  Mod = 100
  Keep = 100
  Algs = {"single", "sequential", "happy"}
  Ress = {"sync", "later"}
  Locs = {"none", "v4", "v6"}
  Tps = {"tcp", "btcp"}
  CrossTp = FALSE
  MaxLate = 1
  Extras = TRUE
  TlsTps = {"tls", "btls", "utls"}
  Emit = FALSE
INVARIANTS InvOrder InvOutcome InvWhich InvErrno InvBoundLocal InvNoHang InvBudget InvEtimedout EmitInv
CHECK_DEADLOCK FALSE
