--------------------------------- MODULE Utls ---------------------------------
(***************************************************************************)
(* The utls transport (libxcm/tp/tls/xcm_tp_utls.c): a hybrid that owns a  *)
(* ux and a tls sub-socket and delegates to the one that is live.          *)
(*                                                                         *)
(*  server : binds the TLS sub-server first (the kernel may allocate the   *)
(*           port), then a UX sub-server whose abstract name is derived    *)
(*           from the TLS address.                                         *)
(*  connect: tries the derived UX name first.  AF_UNIX answers at once:    *)
(*           success -> the connection runs over ux, the tls sub-socket is *)
(*           dropped; ECONNREFUSED (nobody listens on that name in this    *)
(*           network namespace) -> fall back to TLS; any other error ->    *)
(*           the connect fails, TLS is not tried.                          *)
(*  accept : a pending UX connection first, else a pending TLS connection, *)
(*           else EAGAIN; exactly one sub-socket survives in the accepted  *)
(*           connection.                                                   *)
(*  all other operations are those of the surviving sub-socket, and        *)
(*  xcm.transport names it.                                                *)
(***************************************************************************)
EXTENDS Integers, Sequences, FiniteSets, TLC

CONSTANTS Clients,      \* client ids
          UxReach       \* clients that share the server's network namespace (their UX connect reaches the UX sub-server)

VARIABLES srv,          \* "none" | "up": the utls server (both sub-servers bound) | "tlsonly": a plain tls server at that address
          uxq, tlsq,    \* accept queues of the two sub-servers (sequences of client ids)
          leg,          \* leg[c]: "none" | "ux" | "tls" | "failed": what client c's connection runs over
          acc,          \* sequence of [c, leg]: connections handed out by accept, in order
          uxerr         \* the UX connect of the next client fails with an error other than ECONNREFUSED (EACCES, ENOMEM ...)

vars == <<srv, uxq, tlsq, leg, acc, uxerr>>

Init == /\ srv \in {"up", "tlsonly", "none"}
        /\ uxq = <<>> /\ tlsq = <<>>
        /\ leg = [c \in Clients |-> "none"]
        /\ acc = <<>>
        /\ uxerr \in BOOLEAN

\* what the UX connect attempt of client c meets
UxOutcome(c) == IF uxerr THEN "error"
                ELSE IF srv = "up" /\ c \in UxReach THEN "ok" ELSE "refused"

Connect(c) ==
  /\ leg[c] = "none"
  /\ LET u == UxOutcome(c) IN
     CASE u = "ok"      -> /\ leg' = [leg EXCEPT ![c] = "ux"] /\ uxq' = Append(uxq, c) /\ tlsq' = tlsq
       [] u = "refused" -> IF srv = "none"
                           THEN leg' = [leg EXCEPT ![c] = "failed"] /\ UNCHANGED <<uxq, tlsq>>     \* TLS refused as well
                           ELSE leg' = [leg EXCEPT ![c] = "tls"] /\ tlsq' = Append(tlsq, c) /\ uxq' = uxq
       [] OTHER         -> leg' = [leg EXCEPT ![c] = "failed"] /\ UNCHANGED <<uxq, tlsq>>          \* no fallback
  /\ uxerr' \in BOOLEAN
  /\ UNCHANGED <<srv, acc>>

\* utls_accept: UX first
Accept ==
  /\ srv = "up"
  /\ IF uxq # <<>>
     THEN acc' = Append(acc, [c |-> Head(uxq), leg |-> "ux"]) /\ uxq' = Tail(uxq) /\ tlsq' = tlsq
     ELSE IF tlsq # <<>>
     THEN acc' = Append(acc, [c |-> Head(tlsq), leg |-> "tls"]) /\ tlsq' = Tail(tlsq) /\ uxq' = uxq
     ELSE UNCHANGED <<acc, uxq, tlsq>>          \* EAGAIN
  /\ UNCHANGED <<srv, leg, uxerr>>

Next == (\E c \in Clients : Connect(c)) \/ Accept
Spec == Init /\ [][Next]_vars
FairSpec == Spec /\ WF_vars(Accept)

(***************************************************************************)
(* Properties                                                              *)
(***************************************************************************)
\* which leg a connection runs over is determined by where the client is
LegChoice == \A c \in Clients :
   /\ (leg[c] = "ux" => srv = "up" /\ c \in UxReach)
   /\ (leg[c] = "tls" => srv # "none" /\ ~(srv = "up" /\ c \in UxReach))
\* the accepting side sees the same leg as the connecting side, and every client at most once
AcceptAgrees == \A i \in 1..Len(acc) : leg[acc[i].c] = acc[i].leg /\ \A j \in 1..Len(acc) : acc[i].c = acc[j].c => i = j
\* nothing is lost: a connection is pending or has been handed out
NoneLost == \A c \in Clients : (srv = "up" /\ leg[c] \in {"ux", "tls"}) =>
   (\E i \in 1..Len(acc) : acc[i].c = c) \/ (\E i \in 1..Len(uxq) : uxq[i] = c) \/ (\E i \in 1..Len(tlsq) : tlsq[i] = c)
\* every pending connection is eventually accepted (the server keeps calling accept)
AllAccepted == \A c \in Clients : [](srv = "up" /\ leg[c] \in {"ux", "tls"} => <>(\E i \in 1..Len(acc) : acc[i].c = c))

\* used by XcmEstTrace: the leg the specification expects for a client
ExpectedLeg(serverKind, reach) == IF serverKind = "up" /\ reach THEN "ux" ELSE IF serverKind = "none" THEN "failed" ELSE "tls"
=============================================================================
