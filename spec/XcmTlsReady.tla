----------------------------- MODULE XcmTlsReady -----------------------------
(***************************************************************************)
(* C04 / C16 for the TLS transports: is the readiness logic of btls        *)
(* (conn_update in xcm_tp_btls.c, transcribed as BtlsCond / UpdateTls in   *)
(* XcmCore and bound to the code by trace validation after every step)     *)
(* free of lost wake-ups?                                                  *)
(*                                                                         *)
(* One endpoint of an established tls / btls connection.  OpenSSL is an    *)
(* abstract record layer: it may hold decrypted plaintext (pl), a partial  *)
(* inbound record (inr) or a captured outbound record that the kernel has  *)
(* not taken completely (outr).  The kernel descriptor has unread wire     *)
(* bytes (kin) or not and takes data (kout) or not.  The application       *)
(* follows the documented protocol: it acts only when xcm_fd is readable.  *)
(* Byte counts are abstracted away: what matters is which event the        *)
(* library waits for after each SSL_read / SSL_write outcome.              *)
(*                                                                         *)
(* The whole state is one record s, so that the several SSL operations of  *)
(* one API call (tls_receive first flushes a pending frame, then reads)    *)
(* compose as functions from a state to the set of possible next states.   *)
(***************************************************************************)
EXTENDS XcmCore

CONSTANTS Framed,    \* TRUE: tls (framing layer with a pending-frame buffer above btls); FALSE: btls
          Broken     \* "none" | "no_pending" (SSL_has_pending ignored) | "no_idle_bell" (no bell when no SSL operation is outstanding)

VARIABLE s
\* s.ep   XcmCore endpoint record (cond, sbuf, sc, sw, mask, bell, l1)
\* s.pl   decrypted plaintext waiting inside OpenSSL          s.inr  partial inbound record buffered inside OpenSSL
\* s.outr captured outbound record (SSL_write said WANT_WRITE) s.kin  kernel holds unread wire bytes
\* s.kout kernel takes data     s.todo sends the application still wants
\* s.peer messages the peer will still send (bound)

HP(x) == x.pl \/ x.inr                       \* SSL_has_pending
KR(x) == (IF x.kin THEN 1 ELSE 0) + (IF x.kout THEN 4 ELSE 0)
TP == IF Framed THEN "tls" ELSE "btls"

\* update(): runs at the end of every API call
Upd(x) ==
  LET hp == IF Broken = "no_pending" THEN FALSE ELSE HP(x)
      u == UpdateTls(x.ep, hp)
  IN [x EXCEPT !.ep = IF Broken = "no_idle_bell" /\ x.ep.sc = 0 /\ ~(HasBit(x.ep.cond, RECEIVABLE) /\ hp)
                       THEN [u EXCEPT !.bell = FALSE, !.mask = CondMask(x.ep.cond)] ELSE u]

Want(x) == RECEIVABLE + (IF x.todo > 0 THEN SENDABLE ELSE 0)

Init == s = Upd([ep |-> [NewEp(TP, "logged") EXCEPT !.cond = RECEIVABLE + SENDABLE],
                 pl |-> FALSE, inr |-> FALSE, outr |-> FALSE, kin |-> FALSE, kout |-> TRUE, todo |-> 1, peer |-> 2])

FdReadable(x) == Readable(x.ep, KR(x))

SetSsl(x, c, w) == [x EXCEPT !.ep.sc = c, !.ep.sw = w]
\* btls_send / btls_receive clear ssl_condition / ssl_wants before the SSL operation
Clear(x) == SetSsl(x, 0, 0)

\* ---- SSL_read: all outcomes -------------------------------------------------
SslRead(x0) ==
  LET x == Clear(x0) IN
  IF x.pl
  THEN {[SetSsl(x, 0, 0) EXCEPT !.pl = more] : more \in BOOLEAN}
  ELSE IF x.kin
  THEN {[SetSsl(x, 0, 0) EXCEPT !.kin = mk, !.pl = mp, !.inr = FALSE] : mk \in BOOLEAN, mp \in BOOLEAN}   \* a record completes
       \cup {[SetSsl(x, RECEIVABLE, RECEIVABLE) EXCEPT !.kin = FALSE, !.inr = TRUE]}                                    \* only part of one
  ELSE {SetSsl(x, RECEIVABLE, RECEIVABLE)}

\* ---- SSL_write: the record goes out (flag ok), or the kernel refuses part of it: captured, WANT_WRITE ----
SslWrite(x0) ==
  LET x == Clear(x0) IN
  IF x.kout
  THEN {[r |-> [SetSsl(x, 0, 0) EXCEPT !.outr = FALSE, !.kout = k], ok |-> TRUE] : k \in BOOLEAN}
       \cup {[r |-> [SetSsl(x, SENDABLE, SENDABLE) EXCEPT !.outr = TRUE, !.kout = FALSE], ok |-> FALSE]}
  ELSE {[r |-> [SetSsl(x, SENDABLE, SENDABLE) EXCEPT !.outr = TRUE], ok |-> FALSE]}

\* the framing layer's try_finish_send: nothing pending -> no SSL operation at all
FlushF(x) ==
  IF ~(Framed /\ x.ep.sbuf # 0) THEN {[r |-> x, ok |-> TRUE]}
  ELSE {[r |-> IF w.ok THEN [w.r EXCEPT !.ep.sbuf = 0] ELSE w.r, ok |-> w.ok] : w \in SslWrite(x)}

\* ---- API calls -----------------------------------------------------------------
CallReceive(x) ==     \* tls_receive: flush first, then read (a refused flush does not stop the read)
  UNION {SslRead(f.r) : f \in FlushF(x)}

CallSend(x) ==        \* tls_send: flush the old frame; refused -> EAGAIN.  Otherwise buffer the new one and try to flush it
  IF Framed
  THEN UNION {IF ~f.ok THEN {f.r}
              ELSE {IF w.ok THEN [w.r EXCEPT !.todo = @ - 1] ELSE [w.r EXCEPT !.todo = @ - 1, !.ep.sbuf = 1]
                    : w \in SslWrite(f.r)}
              : f \in FlushF(x)}
  ELSE {IF w.ok THEN [w.r EXCEPT !.todo = @ - 1] ELSE w.r : w \in SslWrite(x)}

CallFinish(x) == {f.r : f \in FlushF(x)}

\* the application's turn: only when the descriptor is readable; afterwards it re-declares what it waits for
App ==
  /\ FdReadable(s)
  /\ \E y \in (IF HasBit(s.ep.cond, RECEIVABLE) THEN CallReceive(s) ELSE {})
            \cup (IF HasBit(s.ep.cond, SENDABLE) /\ s.todo > 0 THEN CallSend(s) ELSE {})
            \cup CallFinish(s) :
       s' = Upd([y EXCEPT !.ep.cond = Want(y)])

\* environment
KIn  == /\ ~s.kin /\ s.peer > 0 /\ s' = [s EXCEPT !.kin = TRUE, !.peer = @ - 1]
KOut == /\ ~s.kout /\ s' = [s EXCEPT !.kout = TRUE]

Next == App \/ KIn \/ KOut
Spec == Init /\ [][Next]_s
\* fairness: the event loop runs, a full kernel buffer drains, and a write that keeps being attempted while the kernel
\* takes data eventually goes through (the adversary may not refuse forever)
Progressing == App /\ (s'.todo < s.todo \/ (s.ep.sbuf # 0 /\ s'.ep.sbuf = 0))
FairSpec == Spec /\ WF_s(App) /\ WF_s(KOut) /\ SF_s(Progressing)

(***************************************************************************)
(* Properties                                                              *)
(***************************************************************************)
\* something is owed: the contract says the descriptor must be readable
Owed(x) ==
  \/ (HasBit(x.ep.cond, RECEIVABLE) /\ (x.pl \/ x.kin))          \* a message / byte may be available
  \/ (Framed /\ x.ep.sbuf # 0 /\ x.kout)                           \* a buffered frame can be flushed
  \/ (x.outr /\ x.kout /\ (x.ep.sbuf # 0 \/ HasBit(x.ep.cond, SENDABLE)))   \* a captured record can go out
  \/ (HasBit(x.ep.cond, SENDABLE) /\ x.kout /\ x.ep.sbuf = 0)      \* the application may send
NoLostWakeup == Owed(s) => FdReadable(s)

\* everything the application wanted to send is eventually accepted and flushed, whatever the kernel does meanwhile
SendDone == <>[](s.todo = 0 /\ s.ep.sbuf = 0)
=============================================================================
