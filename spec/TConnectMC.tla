----------------------------- MODULE TConnectMC -----------------------------
(***************************************************************************)
(* Bounded model over TConnect: every scenario of a generated scenario set  *)
(* (address lists up to MaxLen over {v4,v6} x {accept,refuse,silent,        *)
(* unreach}, the algorithms, the resolver behaviours, the local address     *)
(* kinds, two connect time-outs around the happy eyeballs delay) with every *)
(* interleaving of the application's polling calls, the resolver's answer   *)
(* and the timers.  TLC checks the properties of C13 on every reachable     *)
(* state and prints, for every complete behaviour, the scenario, the        *)
(* schedule that produced it and its outcome ("@P" lines): the schedules    *)
(* are replayed into the real library by harness/tconn_exec and the         *)
(* recorded executions are validated against TConnectTrace; the outcomes    *)
(* per scenario are the admissible sets for the real-time runs.             *)
(***************************************************************************)
EXTENDS TConnect, Json

CONSTANTS
  MaxLen,      \* address lists of length 1..MaxLen are enumerated exhaustively ...
  FullLen,     \* ... up to FullLen; longer ones only if their code passes the sample filter
  Seed, Mod, Keep,   \* sample filter: (code * 7919 + Seed) % Mod < Keep
  Algs,        \* subset of {"none", "single", "sequential", "happy"}
  Ress,        \* resolver behaviours crossed with the lists: subset of {"sync", "later"}
  Locs,        \* local address kinds crossed with the lists
  Tps,         \* transports; a scenario gets Tps[code % |Tps|] unless CrossTp
  CrossTp,     \* TRUE: every transport for every scenario
  MaxLate,     \* how many timers the application may let pass although the socket was readable
  Extras,      \* TRUE: the scenarios that do not depend on the list (resolver failures, literals, blocking, ...)
  TlsTps,      \* subset of {"tls", "btls", "utls"}: the tcp leg of the TLS transports, on lists nobody accepts
  Emit         \* TRUE: print the complete behaviours

VARIABLES sc, L, now, rel, polls, dirty, late, hist, hang
vars == <<sc, L, now, rel, polls, dirty, late, hist, hang>>

\* ---- scenario sets --------------------------------------------------------------------
Pairs == {4, 6} \X {ACCEPT, REFUSE, SILENT, UNREACH}
PairCode(p) == (IF p[1] = 4 THEN 0 ELSE 4) + p[2] - 1
RECURSIVE Code(_, _)
Code(s, k) == IF k > Len(s) THEN 0 ELSE PairCode(s[k]) + 8 * Code(s, k + 1)
Sampled(s) == Len(s) <= FullLen \/ ((Code(s, 1) * 7919 + Seed) % Mod) < Keep
Lists == {s \in UNION {[1..k -> Pairs] : k \in 1..MaxLen} : Sampled(s)}

HasBeh(s, b) == \E i \in 1..Len(s) : s[i][2] = b
Mixed(s) == (\E i \in 1..Len(s) : s[i][1] = 4) /\ (\E i \in 1..Len(s) : s[i][1] = 6)
TpSeq == <<"tcp", "btcp">>
TpOf(s) == IF "btcp" \notin Tps THEN "tcp" ELSE IF "tcp" \notin Tps THEN "btcp" ELSE TpSeq[(Code(s, 1) % 2) + 1]
UeOf(s) == IF (Code(s, 1) \div 2) % 2 = 0 THEN ENETUNREACH ELSE EHOSTUNREACH

Scn(tp, alg, res, loc, cto, dto, ue, blk, rot, ips) ==
  [mode |-> "vt", kind |-> "conn", tp |-> tp, alg |-> alg, res |-> res, loc |-> loc, cto |-> cto, dto |-> dto,
   ue |-> ue, blk |-> blk, rot |-> rot, ips |-> ips]

\* the connect time-out on both sides of the happy eyeballs delay matters only when a silent address
\* and both families are present
Ctos(alg, s) == IF alg = "happy" /\ HasBeh(s, SILENT) /\ Mixed(s) THEN {150, 300} ELSE {150}

ListScn ==
  UNION {{Scn(IF CrossTp THEN tp ELSE TpOf(s), alg, res, loc, cto, 300, UeOf(s), 0, (Code(s, 1) + Len(s)) % 3, s) :
            cto \in Ctos(alg, s)} :
         tp \in (IF CrossTp THEN Tps ELSE {"x"}), alg \in Algs, res \in Ress, loc \in Locs, s \in Lists}

One(f, b) == <<<<f, b>>>>
ExtraScn ==
  \* resolver failure, late failure, silence: ENOENT by the connect call or a later call, non-blocking and blocking
  {Scn(tp, alg, res, "none", 150, dto, ENETUNREACH, blk, rot, One(4, ACCEPT)) :
     tp \in Tps, alg \in {"none", "happy"}, res \in {"fail", "faillater", "silent"}, dto \in {300, 0}, blk \in {0, 1},
     rot \in {0, 1, 2}}
  \cup \* address literals: no resolver involved
  {Scn(tp, alg, "ip", loc, 150, 300, ENETUNREACH, blk, rot, One(f, b)) :
     tp \in Tps, alg \in {"none", "sequential", "happy"}, loc \in {"none", "v4", "v6"}, blk \in {0, 1}, rot \in {0, 1},
     f \in {4, 6}, b \in {ACCEPT, REFUSE, SILENT, UNREACH}}
  \cup \* blocking mode over lists of two
  {Scn(tp, alg, res, loc, 150, 300, EHOSTUNREACH, 1, 0, <<p1, p2>>) :
     tp \in Tps, alg \in {"single", "sequential", "happy"}, res \in {"sync", "later"}, loc \in {"none", "v4"},
     p1 \in Pairs, p2 \in Pairs}
  \cup \* a local address with a port, a local address given as a name, an unresolvable local name
  {Scn(tp, alg, res, loc, 150, 300, ENETUNREACH, 0, 0, s) :
     tp \in Tps, alg \in {"single", "sequential", "happy"}, res \in {"sync", "later"}, loc \in {"v4p", "name4", "namex"},
     s \in {One(4, ACCEPT), <<<<4, REFUSE>>, <<4, ACCEPT>>>>, <<<<4, UNREACH>>, <<4, ACCEPT>>>>,
            <<<<4, SILENT>>, <<4, ACCEPT>>>>, <<<<6, SILENT>>, <<4, ACCEPT>>>>, <<<<4, SILENT>>, <<6, REFUSE>>, <<4, ACCEPT>>>>}}

\* the TLS transports run the same algorithm in their btcp layer; without a TLS peer only the
\* failing outcomes are decidable: lists in which no address accepts, and the resolver failures
TlsLists == {One(4, REFUSE), One(6, SILENT), <<<<4, REFUSE>>, <<6, SILENT>>>>, <<<<6, UNREACH>>, <<4, SILENT>>>>,
             <<<<4, SILENT>>, <<4, REFUSE>>>>, <<<<6, REFUSE>>, <<6, UNREACH>>, <<4, REFUSE>>>>}
TlsScn ==
  {Scn(tp, alg, res, loc, 150, 300, EHOSTUNREACH, blk, Len(s) % 3, s) :
     tp \in TlsTps, alg \in {"single", "sequential", "happy"}, res \in {"sync", "later", "silent", "fail"},
     loc \in {"none", "v4"}, blk \in {0, 1}, s \in TlsLists}

Scenarios == ListScn \cup (IF Extras THEN ExtraScn ELSE {}) \cup TlsScn

\* ---- behaviours -----------------------------------------------------------------------------------
OPS == <<"finish", "send", "receive">>
OpOf(n, rot) == OPS[((n + rot) % 3) + 1]

Init == /\ sc \in Scenarios
        /\ L = Fresh /\ now = 0 /\ rel = FALSE /\ polls = 0 /\ dirty = FALSE /\ late = 0
        /\ hist = <<>> /\ hang = FALSE

Connect ==
  /\ L.ph = "none" /\ ~hang
  /\ LET r == ConnectCall(sc, now, rel) IN
     /\ L' = r.L /\ now' = r.now /\ rel' = r.rel /\ hang' = r.hang
  /\ hist' = Append(hist, "c")
  /\ dirty' = FALSE
  /\ UNCHANGED <<sc, polls, late>>

\* the application calls finish / send / receive: the first time unconditionally, later when the descriptor
\* is readable or after something happened
Poll ==
  /\ Establishing(L) /\ ~hang
  /\ (dirty \/ polls = 0 \/ Wake(sc, now, rel, L) = 1)
  /\ L' = PollCall(sc, now, rel, [L EXCEPT !.sys = <<>>], OpOf(polls, sc.rot))
  /\ polls' = polls + 1 /\ dirty' = FALSE
  /\ hist' = Append(hist, "p")
  /\ UNCHANGED <<sc, now, rel, late, hang>>

Release ==
  /\ CanRelease(sc, rel, L) /\ ~hang
  /\ rel' = TRUE /\ dirty' = TRUE
  /\ hist' = Append(hist, "r")
  /\ UNCHANGED <<sc, L, now, polls, late, hang>>

\* time passes until the next timer; "late" if the application had something to do before
Advance ==
  /\ Establishing(L) /\ ~hang
  /\ NextTimer(L, now) # -1
  /\ LET isLate == Wake(sc, now, rel, L) = 1 IN
     /\ (isLate => late < MaxLate)
     /\ late' = IF isLate THEN late + 1 ELSE late
  /\ now' = NextTimer(L, now) + 1
  /\ dirty' = TRUE
  /\ hist' = Append(hist, NextTimer(L, now) + 1)
  /\ UNCHANGED <<sc, L, rel, polls, hang>>

Terminal == L.ph # "none" /\ (~Establishing(L) \/ hang)
Done == Terminal /\ UNCHANGED vars

Next == Connect \/ Poll \/ Release \/ Advance \/ Done
Spec == Init /\ [][Next]_vars

\* ---- the properties ----------------------------------------------------------------------------------
Prompt == late = 0
InvOrder == POrder(sc, L)
InvOutcome == POutcome(sc, L, Prompt)
InvWhich == PWhich(sc, L, Prompt)
InvErrno == PErrno(sc, L, Prompt) /\ (~ResolvesOk(sc) => ~L.resolved)
InvBoundLocal == PBoundLocal(sc, L)
\* never a hang: while no verdict is in, the descriptor is readable, or the resolver can still answer, or a timer runs
InvNoHang == ~hang /\ ~Stuck(sc, now, rel, L)
\* within the configured time bounds
InvBudget == now <= Budget(sc) + late
\* ETIMEDOUT is the errno of an attempt that got no answer, and only after tcp.connect_timeout
InvEtimedout ==
  /\ (Settled(sc, L, Prompt) /\ Failed(L) /\ EffAlg(sc) # "happy" /\ NCand(sc) \in Eligible(sc)
      /\ Beh(sc, NCand(sc)) = SILENT /\ ~ExpectOk(sc) => FailErr(L) = ETIMEDOUT)
  /\ (Decided(L) /\ Failed(L) /\ FailErr(L) = ETIMEDOUT => now > sc.cto)

\* ---- emission -------------------------------------------------------------------------------------------
ScTuple == <<sc.mode, sc.kind, sc.tp, sc.alg, sc.res, sc.loc, sc.cto, sc.dto, sc.ue, sc.blk, sc.rot, sc.ips>>
Outcome == <<IF L.ph = "ready" THEN 1 ELSE 0, IF L.ph = "ready" THEN 0 ELSE FailErr(L), L.order, L.conn, now, late>>
EmitInv == (Emit /\ Terminal) => PrintT("@P " \o ToJson(<<ScTuple, hist, Outcome>>))
=============================================================================
