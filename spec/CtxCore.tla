------------------------------- MODULE CtxCore -------------------------------
(***************************************************************************)
(* Constant-level definitions shared by CtxStore (bounded model, C18) and  *)
(* CtxStoreTrace (validation of executions recorded from the real library):*)
(* the credential universe, the abstract file system, how a socket's       *)
(* credentials are designated, what material a designation denotes in a    *)
(* given file system, which material loads, and who accepts whom.          *)
(*                                                                         *)
(* Content tokens.  harness/creds_exec and lib/check_c18.py generate one   *)
(* PEM file per token under build/creds_c18 (same names), all files of an  *)
(* item class padded to one size, so the meaning given here is the meaning *)
(* of the real bytes:                                                      *)
(*   cA1 cA2 cA3  leaf certificates, subject "sut", issued by CA A, three  *)
(*                GENERATIONS (distinct keys and subject key ids)          *)
(*   cB1          the same subject issued by CA B                          *)
(*   pA  pB       the peers' leaves (issued by A resp. B)                  *)
(*   k<x>         the private key of certificate c<x> / p<x>               *)
(*   tA tB tAB    trusted-CA bundles                                       *)
(*   rE rP        CRL bundles of both CAs: rE revokes nothing, rP revokes  *)
(*                pA and pB                                                *)
(*   bad          a malformed PEM;  missing / dir / dangle : no file / a   *)
(*                directory / a dangling symbolic link in place of the file*)
(***************************************************************************)
EXTENDS Integers, Sequences, FiniteSets, TLC

Items == <<"cert", "key", "tc", "crl">>
ItemSet == {"cert", "key", "tc", "crl"}
RealDirs == {"d1", "d2"}
Nss == {"", "n1"}                     \* network namespace names ("" = unnamed)
OtherDir(d) == IF d = "d1" THEN "d2" ELSE "d1"

\* ---- the credential universe ------------------------------------------------------
CertToks == {"cA1", "cA2", "cA3", "cB1", "pA", "pB"}
KeyFor(c) == CASE c = "cA1" -> "kA1" [] c = "cA2" -> "kA2" [] c = "cA3" -> "kA3"
               [] c = "cB1" -> "kB1" [] c = "pA" -> "kpA" [] c = "pB" -> "kpB" [] OTHER -> "?"
KeyToks == {KeyFor(c) : c \in CertToks}
CaOf(c) == IF c \in {"cB1", "pB"} THEN "B" ELSE "A"
\* by value only: "x+y" are the bytes of x followed by the bytes of y.  tA+tB trusts both CAs; tB+rE given as a
\* CRL bundle is the CRL bundle rE (OpenSSL's PEM reader skips blocks of another type)
TcToks == {"tA", "tB", "tAB", "tA+tB"}
Trust(t) == CASE t = "tA" -> {"A"} [] t = "tB" -> {"B"} [] t \in {"tAB", "tA+tB"} -> {"A", "B"} [] OTHER -> {}
CrlToks == {"rE", "rP", "tB+rE"}
Parts(t) == CASE t = "tA+tB" -> <<"tA", "tB">> [] t = "tB+rE" -> <<"tB", "rE">> [] t = "" -> <<>> [] OTHER -> <<t>>
Revoked(r) == IF r = "rP" THEN {"pA", "pB"} ELSE {}
Unreadable == {"missing", "dir", "dangle"}
BadToks == Unreadable \cup {"bad"}

\* material: which content each item of a context is made of ("" = item not in use)
MatOf(c, k, t, r) == [cert |-> c, key |-> k, tc |-> t, crl |-> r]
NoMat == MatOf("", "", "", "")

\* "unreadable, malformed or mismatching material fails": everything else loads
LoadOk(m) == /\ m.cert \in CertToks
             /\ m.key = KeyFor(m.cert)
             /\ (m.tc = "" \/ m.tc \in TcToks)
             /\ (m.crl = "" \/ m.crl \in CrlToks)

\* does an endpoint made of material m accept a peer presenting certificate pc?
Verifies(m, pc) == \/ m.tc = ""                               \* authentication off
                   \/ (/\ pc \in CertToks
                       /\ CaOf(pc) \in Trust(m.tc)
                       /\ (m.crl = "" \/ pc \notin Revoked(m.crl)))
\* mc: the TLS client's material, ms: the TLS server's
Establishes(mc, ms) == Verifies(mc, ms.cert) /\ Verifies(ms, mc.cert)
SeenByClient(mc, ms) == ms.cert
SeenByServer(mc, ms) == IF ms.tc = "" THEN "" ELSE mc.cert      \* no request, no certificate

\* ---- the abstract file system ------------------------------------------------------
\* fs.files[<<d, ns, it>>] = [c |-> content token, st |-> stamp]   d a real directory; the file is
\*     <d>/<it>.pem (ns = "") or <d>/<it>_<ns>.pem.  The stamp stands for (dev, ino, size, mtime):
\*     every ordinary update draws a new one from fs.clock.
\* fs.link                    target of the directory symbolic link "L"
\* fs.fl[it] = [to, st]       directory "F" holds one symbolic link per item: F/<it>.pem -> <to>/<it>.pem
\* Directory names a designation may use: d1 d2 L F nx (nx does not exist)
DirNames == RealDirs \cup {"L", "F", "nx"}
FileKeys == {<<d, n, it>> : d \in RealDirs, n \in Nss, it \in ItemSet}

Fs0 == [files |-> [k \in FileKeys |-> [c |-> "missing", st |-> 0]],
        link |-> "d1",
        fl |-> [it \in ItemSet |-> [to |-> "d1", st |-> 0]],
        clock |-> 0]

\* write content c to the file (in place or by renaming a new file over it: both give a new stamp)
FsPut(f, d, n, it, c) ==
  [f EXCEPT !.files[<<d, n, it>>] = [c |-> c, st |-> f.clock + 1], !.clock = f.clock + 1]
\* NAMED DEVIATION ctx_meta_key: new content, same stamp (equal size, same inode, mtime restored)
FsPutSame(f, d, n, it, c) == [f EXCEPT !.files[<<d, n, it>>].c = c]
FsFlipL(f, d) == [f EXCEPT !.link = d]
\* the per-file link is replaced by a new link object (it has its own stamp)
FsFlipF(f, it, d) == [f EXCEPT !.fl[it] = [to |-> d, st |-> f.clock + 1], !.clock = f.clock + 1]

\* ---- designations -------------------------------------------------------------------
\* what the application said about one item: off (authentication / CRL checking disabled),
\* def (nothing: the XCM_TLS_CERT directory and the namespace naming apply), file in directory a,
\* val (the bytes of token a, by value), inh (accept map only: nothing said, the server socket's
\* word is inherited)
D(t, a) == [t |-> t, a |-> a]
DOff == D("off", "")
DDef == D("def", "")
DInh == D("inh", "")
DFile(d) == D("file", d)
DVal(c) == D("val", c)
Des4(c, k, t, r) == [cert |-> c, key |-> k, tc |-> t, crl |-> r]

\* a resolved designation names a concrete file: [t, a, n] with n the namespace infix
R3(t, a, n) == [t |-> t, a |-> a, n |-> n]
Resolve1(x, env, ns) == IF x.t = "def" THEN R3("file", env, ns) ELSE R3(x.t, x.a, "")
Resolve(des, env, ns) == [it \in ItemSet |-> Resolve1(des[it], env, ns)]
Unresolved(des) == [it \in ItemSet |-> R3(des[it].t, des[it].a, "")]

\* what an accepted connection is configured with: the accept map first, otherwise what the
\* server socket was configured with
Inherit(attrs, pdes) == [it \in ItemSet |-> IF attrs[it].t = "inh" THEN pdes[it]
                                            ELSE R3(attrs[it].t, attrs[it].a, "")]
ResolveR(rdes, env, ns) == [it \in ItemSet |-> IF rdes[it].t = "def" THEN R3("file", env, ns) ELSE rdes[it]]

RealOf(f, dn, it) == CASE dn = "L" -> f.link [] dn = "F" -> f.fl[it].to [] OTHER -> dn
Exists3(r) == r.a \in RealDirs \cup {"L"} \/ (r.a = "F" /\ r.n = "")
Cont(f, r, it) == IF Exists3(r) THEN f.files[<<RealOf(f, r.a, it), r.n, it>>].c ELSE "missing"
\* what lstat (+ stat through a symbolic link) shows of the file
Stamp(f, r, it) == IF ~Exists3(r) THEN <<0, 0>>
                   ELSE <<IF r.a = "F" THEN f.fl[it].st ELSE 0, f.files[<<RealOf(f, r.a, it), r.n, it>>].st>>

Mat1(f, r, it) == CASE r.t = "off" -> "" [] r.t = "val" -> r.a [] OTHER -> Cont(f, r, it)
Mat(f, res) == [it \in ItemSet |-> Mat1(f, res[it], it)]

\* ---- the cache key of ctx_store.c: designation + file metadata, or the value itself -------
Key1(f, r, it) == CASE r.t = "off" -> <<"off", "", "", 0, 0>>
                    [] r.t = "val" -> <<"val", r.a, "", 0, 0>>
                    [] OTHER -> <<"file", r.a, r.n, Stamp(f, r, it)[1], Stamp(f, r, it)[2]>>
KeyOf(f, res) == <<Key1(f, res.cert, "cert"), Key1(f, res.key, "key"), Key1(f, res.tc, "tc"), Key1(f, res.crl, "crl")>>
\* stat fails: the call fails before anything is loaded
HashFails(f, res) == \E it \in ItemSet : res[it].t = "file" /\ Cont(f, res[it], it) \in {"missing", "dangle"}
FileItems(res) == {it \in ItemSet : res[it].t = "file"}
\* NAMED DEVIATION value_concat: the real key is a digest over the items' bytes simply strung together; for
\* configurations given entirely by value that is the sequence of their parts
AllByValue(res) == \A it \in ItemSet : res[it].t \in {"val", "off"}
Flat1(r) == IF r.t = "val" THEN Parts(r.a) ELSE <<>>
Flat(res) == Flat1(res.cert) \o Flat1(res.key) \o Flat1(res.tc) \o Flat1(res.crl)
=============================================================================
