------------------------------- MODULE AttrPath -------------------------------
(***************************************************************************)
(* Attribute path names (property C19): the documented syntax as a         *)
(* deterministic automaton over character classes, the parsed component    *)
(* list, and the canonical printed form.                                   *)
(*                                                                         *)
(*   path  ::= key ( "." key | "[" digits "]" )...        (root = TRUE)    *)
(*   key   ::= one or more characters other than "." "[" "]"               *)
(*   at most NameMax (255) characters in total                             *)
(*                                                                         *)
(* Strings are sequences of character codes (1..255).  The automaton also  *)
(* recognises what strtol() tolerates inside brackets (blanks, then a      *)
(* sign, before the digits); such strings are classified "lenient": the    *)
(* property neither demands acceptance nor rejection of them (DESIGN 7.1). *)
(* The same holds for the empty string, for indices too large for a long   *)
(* ("bigidx") and for paths of more than CompMax components ("deep"; the   *)
(* limit is internal, not part of the documented syntax).  With            *)
(* root = FALSE (a path relative to a node: it starts with "." or "[") the *)
(* same automaton starts in its after-a-component state.                   *)
(*                                                                         *)
(* The bounded model generates every string over Alphabet up to MaxLen,    *)
(* checks the laws below on the specification itself and prints each       *)
(* string ("@S" lines) as a test vector for harness/maps_exec (mode path); *)
(* spec/AttrPathTrace.tla validates what the real parser answered.         *)
(***************************************************************************)
EXTENDS Integers, Sequences, FiniteSets, TLC, Json

CONSTANTS Alphabet,   \* character codes the generator appends
          MaxLen,     \* bound on the length of generated strings
          EmitVec     \* TRUE: print one "@S" line per generated string

NameMax == 255
CompMax == 64
IdxDigitsMax == 18    \* every index of at most 18 digits fits a 64-bit long

DOT == 46
LB == 91
RB == 93
IsDigit(c) == c \in 48..57
IsBlank(c) == c \in {9, 10, 11, 12, 13, 32}      \* isspace() in the C locale
IsSign(c) == c \in {43, 45}
Class(c) == CASE c = DOT -> "dot" [] c = LB -> "lb" [] c = RB -> "rb"
              [] IsDigit(c) -> "digit" [] IsSign(c) -> "sign" [] IsBlank(c) -> "blank"
              [] OTHER -> "other"            \* letters, "_", "%", bytes above 127, ...
IsKeyChar(c) == c \notin {DOT, LB, RB}

KEY == 0
IDX == 1

\* canonical digits of an index: leading zeros stripped
Canon(d) == LET nz == {i \in 1..Len(d) : d[i] # 48} IN
            IF nz = {} THEN <<48>>
            ELSE SubSeq(d, CHOOSE i \in nz : \A j \in nz : i <= j, Len(d))

\* ---- the automaton --------------------------------------------------------------
\* q: "key" in a key | "dot" after "." | "lb" after "[" (blanks allowed) | "sgn" after a sign |
\*    "idx" in the digits | "end" after a complete component (or at the start) | "start" | "dead"
Start(root) == [q |-> IF root THEN "start" ELSE "end", comps |-> <<>>, cur |-> <<>>, strict |-> TRUE]
Dead(st) == [st EXCEPT !.q = "dead", !.cur = <<>>]

Delta(st, c) ==
  CASE st.q \in {"start", "dot"} ->
         IF IsKeyChar(c) THEN [st EXCEPT !.q = "key", !.cur = <<c>>] ELSE Dead(st)
    [] st.q = "key" ->
         IF IsKeyChar(c) THEN [st EXCEPT !.cur = Append(@, c)]
         ELSE IF c = DOT THEN [st EXCEPT !.q = "dot", !.comps = Append(@, <<KEY, st.cur>>), !.cur = <<>>]
         ELSE IF c = LB THEN [st EXCEPT !.q = "lb", !.comps = Append(@, <<KEY, st.cur>>), !.cur = <<>>]
         ELSE Dead(st)
    [] st.q = "lb" ->
         IF IsDigit(c) THEN [st EXCEPT !.q = "idx", !.cur = <<c>>]
         ELSE IF IsBlank(c) THEN [st EXCEPT !.strict = FALSE]
         ELSE IF IsSign(c) THEN [st EXCEPT !.q = "sgn", !.strict = FALSE]
         ELSE Dead(st)
    [] st.q = "sgn" ->
         IF IsDigit(c) THEN [st EXCEPT !.q = "idx", !.cur = <<c>>] ELSE Dead(st)
    [] st.q = "idx" ->
         IF IsDigit(c) THEN [st EXCEPT !.cur = Append(@, c)]
         ELSE IF c = RB THEN [st EXCEPT !.q = "end", !.comps = Append(@, <<IDX, Canon(st.cur)>>), !.cur = <<>>]
         ELSE Dead(st)
    [] st.q = "end" ->
         IF c = DOT THEN [st EXCEPT !.q = "dot"]
         ELSE IF c = LB THEN [st EXCEPT !.q = "lb"]
         ELSE Dead(st)
    [] OTHER -> Dead(st)

\* the automaton run over s[i..j] from state st (split in halves: the recursion stays shallow
\* for strings of NameMax characters)
RECURSIVE RunOver(_, _, _, _)
RunOver(st, s, i, j) == IF i > j \/ st.q = "dead" THEN st
                        ELSE IF i = j THEN Delta(st, s[i])
                        ELSE LET mid == (i + j) \div 2 IN RunOver(RunOver(st, s, i, mid), s, mid + 1, j)
Run(s, root) == RunOver(Start(root), s, 1, Len(s))

Accepting(st) == st.q \in {"key", "end", "start"}
FinalComps(st) == IF st.q = "key" THEN Append(st.comps, <<KEY, st.cur>>) ELSE st.comps

\* ---- parse and print -----------------------------------------------------------------
\* cls: "valid"   inside the documented syntax: must be accepted, as exactly these components
\*      "invalid" outside the syntax, "long" over the length limit: must be rejected
\*      "lenient" | "empty" | "bigidx" | "deep": nothing demanded about acceptance
Parse(s, root) ==
  IF Len(s) > NameMax THEN [cls |-> "long", acc |-> FALSE, comps |-> <<>>]
  ELSE LET st == Run(s, root)
           cs == FinalComps(st)
       IN IF ~Accepting(st) THEN [cls |-> "invalid", acc |-> FALSE, comps |-> <<>>]
          ELSE [cls |-> IF s = <<>> THEN "empty"
                        ELSE IF ~st.strict THEN "lenient"
                        ELSE IF \E i \in 1..Len(cs) : cs[i][1] = IDX /\ Len(cs[i][2]) > IdxDigitsMax THEN "bigidx"
                        ELSE IF Len(cs) > CompMax THEN "deep"
                        ELSE "valid",
                acc |-> TRUE, comps |-> cs]

PrintComp(cs, i, root) == IF cs[i][1] = IDX THEN <<LB>> \o cs[i][2] \o <<RB>>
                          ELSE IF root /\ i = 1 THEN cs[i][2]
                          ELSE <<DOT>> \o cs[i][2]
RECURSIVE PrintOver(_, _, _, _)
PrintOver(cs, i, j, root) == IF i > j THEN <<>>
                             ELSE IF i = j THEN PrintComp(cs, i, root)
                             ELSE LET mid == (i + j) \div 2 IN
                                  PrintOver(cs, i, mid, root) \o PrintOver(cs, mid + 1, j, root)
PrintP(cs, root) == PrintOver(cs, 1, Len(cs), root)

\* a string is canonical iff it is accepted by the strict grammar and no index has a leading zero
Canonical(s, root) ==
  LET st == Run(s, root) IN
  /\ Len(s) <= NameMax /\ Accepting(st) /\ st.strict
  /\ \A i \in 1..Len(s) : (s[i] = LB /\ i + 1 < Len(s) /\ s[i + 1] = 48) => s[i + 2] = RB

\* ---- bounded generator ------------------------------------------------------------------
VARIABLES str,   \* the string generated so far
          aut    \* aut[r]: automaton state reached on str, maintained step by step (r = root)

pvars == <<str, aut>>

Init == /\ str = <<>>
        /\ aut = [r \in BOOLEAN |-> Start(r)]
Next == /\ Len(str) < MaxLen
        /\ \E c \in Alphabet :
             /\ str' = Append(str, c)
             /\ aut' = [r \in BOOLEAN |-> Delta(aut[r], c)]
Spec == Init /\ [][Next]_pvars

\* ---- laws, checked on every generated string ------------------------------------------------
\* the step-by-step automaton and the function used for trace validation are the same thing
LawFold == \A r \in BOOLEAN : LET st == Run(str, r) IN
             /\ st.q = aut[r].q
             /\ (st.q # "dead" => st = aut[r])

\* parsing a printed path gives an equal path; the printed form is in the strict syntax and not longer
LawRoundTrip == \A r \in BOOLEAN : LET p == Parse(str, r) IN
                  p.acc => LET t == PrintP(p.comps, r)
                               p2 == Parse(t, r)
                           IN /\ p2.acc /\ p2.comps = p.comps
                              /\ p2.cls \in {"valid", "empty", "bigidx", "deep"}
                              /\ Len(t) <= Len(str)
                              /\ PrintP(p2.comps, r) = t
                              /\ Canonical(t, r)

\* canonical strings are exactly the fixed points of print after parse
LawFixedPoint == \A r \in BOOLEAN : LET p == Parse(str, r) IN
                   /\ Canonical(str, r) => (p.acc /\ PrintP(p.comps, r) = str)
                   /\ (p.acc /\ PrintP(p.comps, r) = str) => Canonical(str, r)

\* shape of the result
LawShape == \A r \in BOOLEAN : LET p == Parse(str, r) IN
              /\ p.acc <=> (p.cls \notin {"invalid", "long"})
              /\ \A i \in 1..Len(p.comps) :
                   /\ p.comps[i][1] \in {KEY, IDX}
                   /\ Len(p.comps[i][2]) >= 1
                   /\ p.comps[i][1] = KEY => \A j \in 1..Len(p.comps[i][2]) : IsKeyChar(p.comps[i][2][j])
                   /\ p.comps[i][1] = IDX => (/\ \A j \in 1..Len(p.comps[i][2]) : IsDigit(p.comps[i][2][j])
                                              /\ (Len(p.comps[i][2]) > 1 => p.comps[i][2][1] # 48))
              /\ (r /\ p.acc /\ str # <<>>) => p.comps[1][1] = KEY
              /\ (p.cls = "valid") => Len(p.comps) >= 1

\* a rejected prefix is never repaired by more characters
DeadStaysDead == [][\A r \in BOOLEAN : aut[r].q = "dead" => aut'[r].q = "dead"]_pvars

\* ---- vector emission ---------------------------------------------------------------------------
EmitS == EmitVec => LET p == Parse(str, TRUE) IN
                    PrintT(<<"@S", ToJson([s |-> str, cls |-> p.cls, comps |-> p.comps, canon |-> PrintP(p.comps, TRUE)])>>)
=============================================================================
