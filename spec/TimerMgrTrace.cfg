SPECIFICATION TSpec
CONSTANTS
  MaxOps = 0
  MaxTime = 0
  Rels = {0}
  EmitPaths = "none"
  Broken = "none"
POSTCONDITION Accepted
CHECK_DEADLOCK FALSE
