----------------------------- MODULE RelayProps -----------------------------
(***************************************************************************)
(* C20 - the statements about what the two applications on either side of  *)
(* xcmrelay may observe, as constant-level operators on counts.  Relay.tla *)
(* states its invariants with them (on the model's ghost histories) and    *)
(* RelayTrace.tla applies the very same operators to histories recorded    *)
(* from the real tool: one source of truth for the property.               *)
(*                                                                         *)
(* Units: messages on a messaging service (index 1, 2, 3 ... of the        *)
(* sender's accepted messages), bytes on a byte-stream service (position   *)
(* 1, 2, 3 ... in the sender's accepted stream).                           *)
(***************************************************************************)
EXTENDS Integers

\* Transparent, incrementally: the receiver has so far been handed units 1..prev of the
\* sender's accepted sequence; it is now handed n units, the first of which the content
\* identifies as unit `first` of the sender; the sender has had `accepted` units accepted.
\* In order, no duplicate, no gap ...
InOrder(prev, first) == first = prev + 1
\* ... and nothing the sender was never told had been accepted.  slack = units the sender
\* offered in its latest send call when that call was refused (EAGAIN) and not repeated so
\* far: a transport may already have captured them (C02, btls: OpenSSL keeps the record of a
\* refused write), so they may or may not arrive; that is the sending endpoint's library,
\* nothing in between can cause or prevent it.  The model has no such transport: slack 0.
NotInventedSlack(prev, n, accepted, slack) == prev + n <= accepted + slack
NotInvented(prev, n, accepted) == NotInventedSlack(prev, n, accepted, 0)
DeliveredOK(prev, first, n, accepted) == InOrder(prev, first) /\ NotInvented(prev, n, accepted)

\* classification of an order mismatch (for the report only)
OrderTag(prev, first) == IF first <= prev THEN "C20.dup" ELSE "C20.loss"

\* CloseAfterData: a side that is shown the end of the connection because the other side
\* closed must have been handed everything the closing side had (successfully) sent.
CloseOKSlack(got, accepted, slack) == got >= accepted /\ got <= accepted + slack
CloseOK(got, accepted) == CloseOKSlack(got, accepted, 0)

\* something is owed to the receiver
Owed(got, accepted) == accepted > got

\* RelayAlive, connection level: the connection may end for a side only when the other
\* side (or that side itself) has closed.
EndAllowed(selfOpen, otherOpen) == ~selfOpen \/ ~otherOpen
=============================================================================
