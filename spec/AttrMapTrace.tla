----------------------------- MODULE AttrMapTrace -----------------------------
(***************************************************************************)
(* Trace specification for attribute maps (property C19): validates what   *)
(* harness/maps_exec (mode map) observed on the real xcm_attr_map_* API    *)
(* against the finite-map specification AttrMap.  Monitor style: every     *)
(* line names the operation and its arguments, the specification performs  *)
(* the SAME action (DoAdd, DoDel, DoCreate, DoClone, DoAddAll, DoDestroy   *)
(* of AttrMap), computes every observation from its own next state and     *)
(* compares.  It keeps stepping with its own state; mismatches are printed *)
(* as  @V <x> <n> <tag> <what> <expected - observed> <observed - expected>.*)
(* Only the first mismatch of an execution is printed.                     *)
(*                                                                         *)
(* A line carries, for each of the two maps: up, size, the foreach         *)
(* listing fe (<<key, type, token, length>>, any order) and the getter     *)
(* listing gv (<<key, exists, type, token, length, typed-getter mask>>     *)
(* from xcm_attr_map_get and the five typed getters).  With full = 1 the   *)
(* listings are complete (gv names every key of the universe); with        *)
(* full = 0 (large key universes) they name exactly the keys whose         *)
(* observation differs from the previous observation of that map, a        *)
(* vanished foreach entry being <<key, "", "", -1>>.                       *)
(***************************************************************************)
EXTENDS AttrMap, IOUtils

TraceLog == ndJsonDeserialize(IOEnv.TRACE)
NL == Len(TraceLog)

VARIABLES l,      \* next line
          mm,     \* a mismatch was already reported in this execution
          nv      \* mismatches reported so far

tvars == <<maps, up, path, l, mm, nv>>

ToSet(s) == {s[i] : i \in 1..Len(s)}
B2I(b) == IF b THEN 1 ELSE 0

\* ---- expected observations, from the specification's own state ---------------
FeEntry(f, k) == IF Exists(f, k) THEN <<k, Get(f, k).t, Get(f, k).v, Get(f, k).n>> ELSE <<k, "", "", -1>>
GvEntry(f, k) == <<k, B2I(Exists(f, k)), Get(f, k).t, Get(f, k).v, Get(f, k).n, TypedMask(f, k)>>

\* old = the state at the previous observation; full listings are differences from nothing
ExpFe(full, old, f) == IF full THEN Foreach(f)
                       ELSE {FeEntry(f, k) : k \in {j \in DOMAIN f : f[j] # old[j]}}
ExpGv(full, old, f) == {GvEntry(f, k) : k \in {j \in DOMAIN f : full \/ f[j] # old[j]}}
ExpSize(u, f) == IF u THEN Size(f) ELSE -1
ExpEq(ua, ub, fa, fb) == <<IF ua /\ ub THEN B2I(Equal(fa, fb)) ELSE -1,
                           IF ua /\ ub THEN B2I(Equal(fb, fa)) ELSE -1,
                           IF ua THEN B2I(Equal(fa, fa)) ELSE -1,
                           IF ub THEN B2I(Equal(fb, fb)) ELSE -1>>

\* ---- reporting -----------------------------------------------------------------
Chk(c, t, w, x, o) == [c |-> c, t |-> t, w |-> w, x |-> x, o |-> o]
Failed(cs) == SelectSeq(cs, LAMBDA r : ~r.c)
Report(ln, cs) ==
  LET f == Failed(cs) IN
  IF f = <<>> \/ mm THEN TRUE
  ELSE PrintT(<<"@V", ln.x, ln.n, f[1].t, f[1].w, f[1].x, f[1].o>>)

\* "?" = a name outside the universe / bytes that are no value ever supplied (string positions only)
UnknownFe(s) == \E i \in 1..Len(s) : s[i][1] = "?" \/ s[i][2] = "?" \/ s[i][3] = "?"
UnknownGv(s) == \E i \in 1..Len(s) : s[i][3] = "?" \/ s[i][4] = "?"

\* checks of one map's observation; tgt: the operation was aimed at this map
MapChecks(ln, obs, name, tgt, full, old, f, u) ==
  LET tag == IF UnknownFe(obs.fe) \/ UnknownGv(obs.gv) THEN "C19.bytes"
             ELSE IF tgt THEN "C19.map" ELSE "C19.alias"
      fe == ToSet(obs.fe)
      gv == ToSet(obs.gv)
      efe == ExpFe(full, old, f)
      egv == ExpGv(full, old, f)
  IN <<Chk(obs.up = B2I(u), tag, name \o ".up", B2I(u), obs.up),
       Chk(obs.sz = ExpSize(u, f), tag, name \o ".size", ExpSize(u, f), obs.sz),
       Chk(Len(obs.fe) = Cardinality(fe), tag, name \o ".foreach_dup", Cardinality(fe), Len(obs.fe)),
       Chk(fe = efe, tag, name \o ".foreach", efe \ fe, fe \ efe),
       Chk(Len(obs.gv) = Cardinality(gv), tag, name \o ".get_dup", Cardinality(gv), Len(obs.gv)),
       Chk(gv = egv, tag, name \o ".get", egv \ gv, gv \ egv)>>

AllChecks(ln, omaps, nmaps, nup) ==
  LET full == ln.full = 1
      \* create / clone / destroy act on b only; add / del / add_all on ln.m only: any other change is
      \* a loss of independence between the two maps
      tgtA == ln.op = "X" \/ ln.m = "a"
      tgtB == ln.op \in {"X", "clone", "create", "destroy"} \/ ln.m = "b"
      eeq == ExpEq(nup["a"], nup["b"], nmaps["a"], nmaps["b"])
  IN MapChecks(ln, ln.A, "a", tgtA, full, omaps["a"], nmaps["a"], nup["a"])
     \o MapChecks(ln, ln.B, "b", tgtB, full, omaps["b"], nmaps["b"], nup["b"])
     \o <<Chk(ln.eq = eeq, "C19.map", "equal", eeq, ln.eq),
          Chk(ln.al = 0, "C19.alias", "shared_pointers", 0, ln.al),
          Chk(ln.tb = 0, "C19.map", "typed_getter_value", 0, ln.tb),
          Chk(ln.bx = 0, "C19.bytes", "values_not_byte_exact", 0, ln.bx)>>

\* ---- steps ------------------------------------------------------------------------
Observe(ln, omaps) ==
  LET cs == AllChecks(ln, omaps, maps', up') IN
  /\ Report(ln, cs)
  /\ mm' = (mm \/ Failed(cs) # <<>>)
  /\ nv' = nv + (IF ~mm /\ Failed(cs) # <<>> THEN 1 ELSE 0)

Reset(ln) ==
  LET U == ToSet(ln.U)
      fresh == [m \in M |-> AllAbsent(U)]
      cs == AllChecks(ln, fresh, fresh, [m \in M |-> m = "a"])
  IN /\ maps' = fresh
     /\ up' = [m \in M |-> m = "a"]
     /\ IF Failed(cs) = <<>> THEN TRUE
        ELSE PrintT(<<"@V", ln.x, ln.n, Failed(cs)[1].t, Failed(cs)[1].w, Failed(cs)[1].x, Failed(cs)[1].o>>)
     /\ mm' = (Failed(cs) # <<>>)
     /\ nv' = nv + (IF Failed(cs) # <<>> THEN 1 ELSE 0)

Crash(ln) ==
  /\ IF mm THEN TRUE ELSE PrintT(<<"@V", ln.x, ln.n, "C19.crash", "crash", 0, ln.why>>)
  /\ mm' = TRUE
  /\ nv' = nv + (IF mm THEN 0 ELSE 1)
  /\ UNCHANGED <<maps, up>>

TNext ==
  /\ l <= NL
  /\ l' = l + 1
  /\ UNCHANGED path
  /\ LET ln == TraceLog[l] IN
     CASE ln.op = "X" -> Reset(ln)
       [] ln.op = "add" -> DoAdd(ln.m, ln.k, Val(ln.t, ln.v, ln.ln)) /\ Observe(ln, maps)
       [] ln.op = "del" -> DoDel(ln.m, ln.k) /\ Observe(ln, maps)
       [] ln.op = "create" -> DoCreate /\ Observe(ln, maps)
       [] ln.op = "clone" -> DoClone /\ Observe(ln, maps)
       [] ln.op = "addall" -> DoAddAll(ln.m, ln.s) /\ Observe(ln, maps)
       [] ln.op = "destroy" -> DoDestroy /\ Observe(ln, maps)
       [] ln.op = "crash" -> Crash(ln)

TInit == /\ maps = [m \in M |-> AllAbsent({})]
         /\ up = [m \in M |-> m = "a"]
         /\ path = <<>>
         /\ l = 1 /\ mm = FALSE /\ nv = 0

TSpec == TInit /\ [][TNext]_tvars

\* the whole trace was consumed (a line the specification cannot follow stops it early)
Accepted == TLCGet("stats").diameter = NL + 1
=============================================================================
