----------------------------- MODULE TlsPolicyMC -----------------------------
(***************************************************************************)
(* Bounded model over TlsPolicy: TLC enumerates the decision table           *)
(*   transports x TLS roles x policy placements x credential classes         *)
(* as a union of families (each a full product of its dimensions), runs      *)
(* ServerCreate -> Connect -> Accept -> Handshake on every cell, checks      *)
(* FailClosed and the consistency laws on every one of them, and prints the  *)
(* selected cells ("@C" lines: all of them, or a seeded sample plus the      *)
(* mandatory ones) so that the orchestrator replays them as real handshakes. *)
(***************************************************************************)
EXTENDS TlsPolicy, Json

CONSTANTS
  Families,     \* subset of {"K", "P", "N", "M", "E", "D", "L"}
  Transports,   \* subset of {"tls", "btls", "utls"}
  PTransports,  \* transports of the placement product (family P)
  EmitMode,     \* "all" | "sample" | "none"
  SeedA, SeedB, \* multiplier / offset of the sampling hash (from VERIF_SEED)
  ModK, ModP, ModN, ModM, ModE, ModD, ModL   \* per family: a cell is sampled when Hash(n) % Mod<family> = 0

VARIABLES cell, phase, srv, cli, acc, est
vars == <<cell, phase, srv, cli, acc, est>>

TpIdx(t) == CASE t = "tls" -> 0 [] t = "btls" -> 1 [] t = "utls" -> 2

\* ---- credential classes: what the peer presents, what the verifying side trusts, its CRL bundle ------
KClass(i) ==
  CASE i = 1  -> [k |-> "ok", p |-> "l_ok", tc |-> "tc_A", crl |-> "crl_full"]
    [] i = 2  -> [k |-> "via_sub_bundle", p |-> "l_sub_chain", tc |-> "tc_A", crl |-> "crl_full"]
    [] i = 3  -> [k |-> "via_sub_local", p |-> "l_sub", tc |-> "tc_A_subA", crl |-> "crl_full"]
    [] i = 4  -> [k |-> "via_sub_missing", p |-> "l_sub", tc |-> "tc_A", crl |-> "crl_full"]
    [] i = 5  -> [k |-> "partial", p |-> "l_sub_chain", tc |-> "tc_subA", crl |-> "crl_full"]
    [] i = 6  -> [k |-> "untrusted_root", p |-> "l_x", tc |-> "tc_A", crl |-> "crl_full"]
    [] i = 7  -> [k |-> "untrusted_root_sent", p |-> "l_x_chain", tc |-> "tc_A", crl |-> "crl_full"]
    [] i = 8  -> [k |-> "untrusted_sub", p |-> "l_subx_chain", tc |-> "tc_A", crl |-> "crl_full"]
    [] i = 9  -> [k |-> "self_signed", p |-> "l_self", tc |-> "tc_A", crl |-> "crl_full"]
    [] i = 10 -> [k |-> "forged", p |-> "l_forged", tc |-> "tc_A", crl |-> "crl_full"]
    [] i = 11 -> [k |-> "issuer_not_ca", p |-> "l_notca_chain", tc |-> "tc_A", crl |-> "crl_full"]
    [] i = 12 -> [k |-> "leaf_expired", p |-> "l_exp", tc |-> "tc_A", crl |-> "crl_full"]
    [] i = 13 -> [k |-> "leaf_future", p |-> "l_fut", tc |-> "tc_A", crl |-> "crl_full"]
    [] i = 14 -> [k |-> "ca_expired", p |-> "l_caexp", tc |-> "tc_exp", crl |-> "crl_full"]
    [] i = 15 -> [k |-> "ca_future", p |-> "l_cafut", tc |-> "tc_fut", crl |-> "crl_full"]
    [] i = 16 -> [k |-> "sub_expired", p |-> "l_subexp_chain", tc |-> "tc_A", crl |-> "crl_full"]
    [] i = 17 -> [k |-> "rev_leaf", p |-> "l_rev", tc |-> "tc_A", crl |-> "crl_full"]
    [] i = 18 -> [k |-> "rev_leaf_under_sub", p |-> "l_sub_rev_chain", tc |-> "tc_A", crl |-> "crl_full"]
    [] i = 19 -> [k |-> "rev_sub", p |-> "l_subr_chain", tc |-> "tc_A", crl |-> "crl_full"]
    [] i = 20 -> [k |-> "crl_none_revoked", p |-> "l_rev", tc |-> "tc_A", crl |-> "crl_norev"]
    [] i = 21 -> [k |-> "crl_incomplete", p |-> "l_sub_chain", tc |-> "tc_A", crl |-> "crl_rootonly"]
    [] i = 22 -> [k |-> "crl_stale", p |-> "l_ok", tc |-> "tc_A", crl |-> "crl_stale"]
    [] i = 23 -> [k |-> "crl_missing", p |-> "l_ok", tc |-> "tc_A", crl |-> "crl_missing"]
    [] i = 24 -> [k |-> "crl_empty", p |-> "l_ok", tc |-> "tc_A", crl |-> "crl_empty"]
    [] i = 25 -> [k |-> "crl_garbage", p |-> "l_ok", tc |-> "tc_A", crl |-> "crl_garbage"]
    [] i = 26 -> [k |-> "eku_server", p |-> "l_eku_server", tc |-> "tc_A", crl |-> "crl_full"]
    [] i = 27 -> [k |-> "eku_client", p |-> "l_eku_client", tc |-> "tc_A", crl |-> "crl_full"]
    [] i = 28 -> [k |-> "eku_both", p |-> "l_eku_both", tc |-> "tc_A", crl |-> "crl_full"]
    [] i = 29 -> [k |-> "eku_other", p |-> "l_eku_other", tc |-> "tc_A", crl |-> "crl_full"]
    [] i = 30 -> [k |-> "name_san", p |-> "l_name_san", tc |-> "tc_A", crl |-> "crl_full"]
    [] i = 31 -> [k |-> "name_cn", p |-> "l_name_cn", tc |-> "tc_A", crl |-> "crl_full"]
    [] i = 32 -> [k |-> "name_cnonly", p |-> "l_name_cnonly", tc |-> "tc_A", crl |-> "crl_full"]
    [] i = 33 -> [k |-> "name_none", p |-> "l_name_none", tc |-> "tc_A", crl |-> "crl_full"]
    [] i = 34 -> [k |-> "expired_and_revoked", p |-> "l_exp_rev", tc |-> "tc_A", crl |-> "crl_full"]
    [] i = 35 -> [k |-> "expired_and_untrusted", p |-> "l_exp_x", tc |-> "tc_A", crl |-> "crl_full"]
    [] i = 36 -> [k |-> "expired_and_unnamed", p |-> "l_exp_name_none", tc |-> "tc_A", crl |-> "crl_full"]
    [] i = 37 -> [k |-> "revoked_and_unnamed", p |-> "l_rev_name_none", tc |-> "tc_A", crl |-> "crl_full"]
    [] i = 38 -> [k |-> "tc_missing", p |-> "l_ok", tc |-> "tc_missing", crl |-> "crl_full"]
    [] i = 39 -> [k |-> "tc_empty", p |-> "l_ok", tc |-> "tc_empty", crl |-> "crl_full"]
    [] i = 40 -> [k |-> "tc_garbage", p |-> "l_ok", tc |-> "tc_garbage", crl |-> "crl_full"]
    [] i = 41 -> [k |-> "trust_all", p |-> "l_x", tc |-> "tc_all", crl |-> "crl_norev"]
    [] i = 42 -> [k |-> "name_w3", p |-> "l_name_w3", tc |-> "tc_A", crl |-> "crl_full"]
    [] i = 43 -> [k |-> "name_wild_san", p |-> "l_name_wild", tc |-> "tc_A", crl |-> "crl_full"]
    [] i = 44 -> [k |-> "name_wild_cn", p |-> "l_name_wcn", tc |-> "tc_A", crl |-> "crl_full"]
NK == 44
\* the classes that discriminate one policy attribute each (placement product)
KRel == {1, 6, 12, 17, 33}
\* absent files cannot be given by value
ByValueOk(i) == KClass(i).tc # "tc_missing" /\ KClass(i).crl # "crl_missing"

\* ---- effective policy vectors (auth, time, crl, vpn) ------------------------------------------------
Bit(n, k) == (n \div k) % 2 = 1
Vec(i) == [auth |-> Bit(i - 1, 8), time |-> Bit(i - 1, 4), crl |-> Bit(i - 1, 2), vpn |-> Bit(i - 1, 1)]   \* i in 1..16
TF(b) == IF b THEN "T" ELSE "F"
NotTF(b) == IF b THEN "F" ELSE "T"
Pol4 == [auth |-> "-", time |-> "-", crl |-> "-", vpn |-> "-"]
VecValid(v) == v.auth \/ (~v.crl /\ ~v.vpn)

\* ---- how a side's maps are written ---------------------------------------------------------------------
\* placement of a value v of one attribute on the accepting side: <<server map, accept map>>
Place(pl, b) ==
  CASE pl = "S" -> <<TF(b), "-">>
    [] pl = "A" -> <<"-", TF(b)>>
    [] pl = "O" -> <<NotTF(b), TF(b)>>          \* the accept map overrides the opposite value
    [] pl = "B" -> <<TF(b), TF(b)>>
Placements == <<"S", "A", "O", "B">>
PolS(pl, v) == [auth |-> Place(pl, v.auth)[1], time |-> Place(pl, v.time)[1], crl |-> Place(pl, v.crl)[1],
                vpn |-> Place(pl, v.vpn)[1]]
PolA(pl, v) == [auth |-> Place(pl, v.auth)[2], time |-> Place(pl, v.time)[2], crl |-> Place(pl, v.crl)[2],
                vpn |-> Place(pl, v.vpn)[2]]
PolC(v) == [auth |-> TF(v.auth), time |-> TF(v.time), crl |-> TF(v.crl), vpn |-> TF(v.vpn)]

Lvl(base, pol) == [auth |-> SetB(base.auth, pol.auth), time |-> SetB(base.time, pol.time),
                   crl |-> SetB(base.crl, pol.crl), vpn |-> SetB(base.vpn, pol.vpn)]
Dflt == [auth |-> TRUE, time |-> TRUE, crl |-> FALSE, vpn |-> FALSE]

WithPol(m, pol) == [m EXCEPT !.auth = pol.auth, !.time = pol.time, !.crl = pol.crl, !.vpn = pol.vpn]

\* roles: who writes tls.client where
RoleMaps(role) ==
  CASE role = "normal" -> [S |-> "-", A |-> "-", C |-> "-"]
    [] role = "revS"   -> [S |-> "T", A |-> "-", C |-> "F"]
    [] role = "revA"   -> [S |-> "-", A |-> "T", C |-> "F"]
    [] role = "cc"     -> [S |-> "T", A |-> "-", C |-> "-"]      \* two TLS clients
    [] role = "ss"     -> [S |-> "-", A |-> "-", C |-> "F"]      \* two TLS servers

\* The accepting side verifies (it is the subject): srvpol / accpol are its per-map policy values, kc the class the
\* client presents; mk = kind of its material ("f"/"v"); ovr = TRUE: the server map carries permissive material
\* (trust everything, nothing revoked) and the accept map the real one; nS/nA = tls.peer_names per map ("auto" =
\* "good" wherever that map switches name verification on and the names are not inherited).
\* The client is the other side: omode "open" (tls.auth off) or "strict" (defaults, trusts the server's issuer).
SubjectS(tp, role, srvpol, accpol, kc, mk, mkA, ovr, nS, nA, omode, n, fam, mand) ==
  LET K == KClass(kc)
      sl == Lvl(Dflt, srvpol)
      al == Lvl(sl, accpol)
      rm == RoleMaps(role)
      sNames == IF nS = "auto" THEN (IF sl.vpn THEN "good" ELSE "-") ELSE nS
      aNames == IF nA = "auto" THEN (IF al.vpn /\ ~sl.vpn THEN "good" ELSE "-") ELSE nA
      S == [WithPol(EmptyMap, srvpol) EXCEPT
             !.client = rm.S, !.cert = Ref(mk, "good_s"), !.names = sNames,
             !.tc = IF sl.auth THEN Ref(mk, IF ovr THEN "tc_all" ELSE K.tc) ELSE NoRef,
             !.crlm = IF sl.crl THEN Ref(mk, IF ovr THEN "crl_norev" ELSE K.crl) ELSE NoRef]
      A == [WithPol(EmptyMap, accpol) EXCEPT
             !.client = rm.A, !.names = aNames,
             !.tc = IF al.auth /\ (ovr \/ ~sl.auth) THEN Ref(mkA, K.tc) ELSE NoRef,
             !.crlm = IF al.crl /\ (ovr \/ ~sl.crl) THEN Ref(mkA, K.crl) ELSE NoRef]
      C == [EmptyMap EXCEPT !.client = rm.C, !.cert = Ref("f", K.p),
                            !.auth = IF omode = "open" THEN "F" ELSE "-",
                            !.tc = IF omode = "open" THEN NoRef ELSE Ref("f", "tc_O")]
  IN [n |-> n, fam |-> fam, mand |-> mand, tp |-> tp, host |-> "ip", S |-> S, L |-> EmptyMap, A |-> A, C |-> C]

\* The connecting side verifies: conpol its policy values, ks the class the server presents.
SubjectC(tp, role, conpol, ks, mk, nC, host, omode, n, fam, mand) ==
  LET K == KClass(ks)
      cl == Lvl(Dflt, conpol)
      rm == RoleMaps(role)
      cNames == IF nC = "auto" THEN (IF cl.vpn THEN "good" ELSE "-") ELSE nC
      S == [EmptyMap EXCEPT !.client = rm.S, !.cert = Ref("f", K.p),
                            !.auth = IF omode = "open" THEN "F" ELSE "-",
                            !.tc = IF omode = "open" THEN NoRef ELSE Ref("f", "tc_O")]
      A == [EmptyMap EXCEPT !.client = rm.A]
      C == [WithPol(EmptyMap, conpol) EXCEPT
             !.client = rm.C, !.cert = Ref(mk, "good_c"), !.names = cNames,
             !.tc = IF cl.auth THEN Ref(mk, K.tc) ELSE NoRef,
             !.crlm = IF cl.crl THEN Ref(mk, K.crl) ELSE NoRef]
  IN [n |-> n, fam |-> fam, mand |-> mand, tp |-> tp, host |-> host, S |-> S, L |-> EmptyMap, A |-> A, C |-> C]

\* ---- families: each a full product of its dimensions; n = family offset + mixed-radix index ------------
Roles3 == <<"normal", "revS", "revA">>
\* K: every credential class x every valid effective policy x who verifies and where it is written x role
\*    (+ the same with the material by value, + a strict other side)
\*    side/placement index: 1..4 = accepting side with Placements[i], 5 = connecting side
KCell(v, sp, k, tp, x) ==
  LET n == 1000000 + ((((v - 1) * 5 + (sp - 1)) * NK + (k - 1)) * 3 + TpIdx(tp)) * 5 + x
      role == IF x < 3 THEN Roles3[x + 1] ELSE "normal"
      mk == IF x = 3 THEN "v" ELSE "f"
      om == IF x = 4 THEN "strict" ELSE "open"
      \* always replayed (by file):
      \*  - every credential class against a side with everything switched on, written in the connect map, in the
      \*    server map (inherited by the accepted connection) and in the accept map overriding the opposite value of
      \*    the server map, for tls and btls;
      \*  - the extended-key-usage classes additionally with the TLS roles reversed;
      \*  - every valid effective policy against the five discriminating classes (tls).
      mand == \/ (x = 0 /\ tp \in {"tls", "btls"} /\ v = 16 /\ sp \in {1, 3, 5})
              \/ (x \in {1, 2} /\ tp \in {"tls", "btls"} /\ v = 16 /\ sp \in {1, 5} /\ k \in 26..29)
              \/ (x = 0 /\ tp = "tls" /\ sp \in {1, 5} /\ k \in KRel)
  IN IF sp <= 4
     THEN SubjectS(tp, role, PolS(Placements[sp], Vec(v)), PolA(Placements[sp], Vec(v)), k, mk, mk, FALSE, "auto", "auto", om, n, "K", mand)
     ELSE SubjectC(tp, role, PolC(Vec(v)), k, mk, "auto", "ip", om, n, "K", mand)
KVariants(sp, k) == {y \in 0..4 : (y = 3 => ByValueOk(k)) /\ (y \in {3, 4} => sp \in {1, 5})}
InitK(c) == \E v \in {i \in 1..16 : VecValid(Vec(i))}, sp \in 1..5, k \in 1..NK, tp \in Transports :
               \E x \in KVariants(sp, k) : c = KCell(v, sp, k, tp, x)

\* P: the full placement product on the accepting side: every attribute independently unset / T / F in the server
\*    map and in the accept map (9^4), against the five discriminating classes
B3Seq == <<"-", "T", "F">>
PCell(a1, a2, t1, t2, c1, c2, v1, v2, ki, tp) ==
  LET n == 2000000 + ((((((((a1 * 3 + a2) * 3 + t1) * 3 + t2) * 3 + c1) * 3 + c2) * 3 + v1) * 3 + v2) * 5 + ki) * 3 + TpIdx(tp)
      srvpol == [auth |-> B3Seq[a1 + 1], time |-> B3Seq[t1 + 1], crl |-> B3Seq[c1 + 1], vpn |-> B3Seq[v1 + 1]]
      accpol == [auth |-> B3Seq[a2 + 1], time |-> B3Seq[t2 + 1], crl |-> B3Seq[c2 + 1], vpn |-> B3Seq[v2 + 1]]
      k == CASE ki = 0 -> 1 [] ki = 1 -> 6 [] ki = 2 -> 12 [] ki = 3 -> 17 [] ki = 4 -> 33
  IN SubjectS(tp, "normal", srvpol, accpol, k, "f", "f", FALSE, "auto", "auto", "open", n, "P", FALSE)
InitP(c) == \E a1 \in 0..2, a2 \in 0..2, t1 \in 0..2, t2 \in 0..2, c1 \in 0..2, c2 \in 0..2, v1 \in 0..2, v2 \in 0..2,
               ki \in 0..4, tp \in PTransports : c = PCell(a1, a2, t1, t2, c1, c2, v1, v2, ki, tp)

\* N: subject names: where tls.peer_names is written and what it says, against every name class
NamePlansS == <<<<"good", "-">>, <<"bad", "-">>, <<"multi", "-">>, <<"-", "good">>, <<"-", "bad">>, <<"-", "multi">>,
                <<"bad", "good">>, <<"good", "bad">>, <<"-", "-">>, <<"empty", "-">>, <<"good", "empty">>, <<"w3", "-">>, <<"-", "w3">>>>
NamePlansC == <<<<"good", "ip">>, <<"bad", "ip">>, <<"multi", "ip">>, <<"-", "name">>, <<"good", "name">>,
                <<"bad", "name">>, <<"-", "ip">>, <<"empty", "ip">>, <<"empty", "name">>, <<"w3", "ip">>>>
KNames == <<1, 30, 31, 32, 33, 36, 37, 42, 43, 44>>
NKN == 10
VpnPlansS == <<<<"T", "-">>, <<"-", "T">>, <<"F", "T">>>>      \* tls.verify_peer_name in the server / accept map
NCellS(np, vp, ki, tp, r) ==
  LET n == 3000000 + ((((np - 1) * 3 + (vp - 1)) * NKN + (ki - 1)) * 3 + TpIdx(tp)) * 2 + r
      pl == NamePlansS[np]
      srvpol == [Pol4 EXCEPT !.vpn = VpnPlansS[vp][1]]
      accpol == [Pol4 EXCEPT !.vpn = VpnPlansS[vp][2]]
  IN SubjectS(tp, IF r = 0 THEN "normal" ELSE "revS", srvpol, accpol, KNames[ki], "f", "f", FALSE, pl[1], pl[2], "open", n, "N",
              tp = "tls" /\ r = 0 /\ vp = 1 /\ (ki \in {1, 5} \/ (pl[1] = "w3" /\ ki \in {8, 9, 10})))
NCellC(np, ki, tp, r) ==
  LET n == 3500000 + (((np - 1) * NKN + (ki - 1)) * 3 + TpIdx(tp)) * 2 + r
      pl == NamePlansC[np]
  IN SubjectC(tp, IF r = 0 THEN "normal" ELSE "revS", [Pol4 EXCEPT !.vpn = "T"], KNames[ki], "f", pl[1], pl[2], "open", n, "N",
              tp = "tls" /\ r = 0 /\ (ki \in {1, 5} \/ (pl[1] = "w3" /\ ki \in {8, 9, 10})))
InitN(c) == \/ \E np \in 1..Len(NamePlansS), vp \in 1..3, ki \in 1..NKN, tp \in Transports, r \in 0..1 : c = NCellS(np, vp, ki, tp, r)
            \/ \E np \in 1..Len(NamePlansC), ki \in 1..NKN, tp \in Transports, r \in 0..1 : c = NCellC(np, ki, tp, r)

\* M: material overridden by the accept map (by file over by file, by value over by file, ...): the server map
\*    trusts everything and revokes nothing, the accept map carries the real trust anchors and CRLs
MCell(v, pl, k, tp, m) ==
  LET n == 4000000 + ((((v - 1) * 3 + (pl - 1)) * NK + (k - 1)) * 3 + TpIdx(tp)) * 4 + m
      vec == Vec(v)
      \* the accept map must say auth / check_crl itself for its material to be legal there: placements A, O, B;
      \* m: kinds of the server map's and of the accept map's material (file over file, value over file, ...)
  IN SubjectS(tp, "normal", PolS(Placements[pl + 1], vec), PolA(Placements[pl + 1], vec), k,
              IF m < 2 THEN "f" ELSE "v", IF m % 2 = 0 THEN "f" ELSE "v", TRUE, "auto", "auto", "open", n, "M",
              tp = "tls" /\ v = 16 /\ pl = 1 /\ k \in {6, 17})
InitM(c) == \E v \in 9..16, pl \in 1..3, k \in 1..NK, tp \in Transports :
               \E m \in {y \in 0..3 : y > 0 => ByValueOk(k)} : c = MCell(v, pl, k, tp, m)

\* E: invalid combinations beyond those the placement product already contains: material or names written where the
\*    attribute that licenses them is off
ExtraPlans == <<"tc_noauth_S", "tc_noauth_A", "tc_noauth_C", "crl_nocheck_S", "crl_nocheck_A", "crl_nocheck_C",
                "names_novpn_S", "names_novpn_A", "names_novpn_C", "crl_noauth_S", "crl_noauth_A", "crl_noauth_C",
                "vpn_noauth_S", "vpn_noauth_A", "vpn_noauth_C", "tc_noauth_A_inherited", "crl_nocheck_explicit_F_S",
                "names_novpn_explicit_F_A">>
ECell(e, m, tp, ki) ==
  LET n == 5000000 + (((e - 1) * 2 + m) * 3 + TpIdx(tp)) * 2 + ki
       mk == IF m = 0 THEN "f" ELSE "v"
       k == IF ki = 0 THEN 1 ELSE 6
       plan == ExtraPlans[e]
       base == SubjectS(tp, "normal", Pol4, Pol4, k, mk, mk, FALSE, "auto", "auto", "strict", n, "E", tp = "tls")
       tc == Ref(mk, "tc_A")
       crl == Ref(mk, "crl_full")
  IN CASE plan = "tc_noauth_S" -> [base EXCEPT !.S.auth = "F"]                       \* tls.tc stays in the server map
        [] plan = "tc_noauth_A" -> [base EXCEPT !.S.auth = "F", !.S.tc = NoRef, !.A.tc = tc]
        [] plan = "tc_noauth_C" -> [base EXCEPT !.C.auth = "F"]
        [] plan = "crl_nocheck_S" -> [base EXCEPT !.S.crlm = crl]
        [] plan = "crl_nocheck_A" -> [base EXCEPT !.A.crlm = crl]
        [] plan = "crl_nocheck_C" -> [base EXCEPT !.C.crlm = crl]
        [] plan = "names_novpn_S" -> [base EXCEPT !.S.names = "good"]
        [] plan = "names_novpn_A" -> [base EXCEPT !.A.names = "good"]
        [] plan = "names_novpn_C" -> [base EXCEPT !.C.names = "good"]
        [] plan = "crl_noauth_S" -> [base EXCEPT !.S.auth = "F", !.S.tc = NoRef, !.S.crl = "T", !.S.crlm = crl]
        [] plan = "crl_noauth_A" -> [base EXCEPT !.S.crl = "T", !.S.crlm = crl, !.A.auth = "F"]
        [] plan = "crl_noauth_C" -> [base EXCEPT !.C.auth = "F", !.C.tc = NoRef, !.C.crl = "T", !.C.crlm = crl]
        [] plan = "vpn_noauth_S" -> [base EXCEPT !.S.auth = "F", !.S.tc = NoRef, !.S.vpn = "T", !.S.names = "good"]
        [] plan = "vpn_noauth_A" -> [base EXCEPT !.S.vpn = "T", !.S.names = "good", !.A.auth = "F"]
        [] plan = "vpn_noauth_C" -> [base EXCEPT !.C.auth = "F", !.C.tc = NoRef, !.C.vpn = "T", !.C.names = "good"]
        [] plan = "tc_noauth_A_inherited" -> [base EXCEPT !.A.auth = "F"]            \* legal: inherited anchors are dropped
        [] plan = "crl_nocheck_explicit_F_S" -> [base EXCEPT !.S.crl = "F", !.S.crlm = crl]
        [] plan = "names_novpn_explicit_F_A" -> [base EXCEPT !.S.vpn = "T", !.S.names = "good", !.A.vpn = "F", !.A.names = "good"]
InitE(c) == \E e \in 1..Len(ExtraPlans), m \in 0..1, tp \in Transports, ki \in 0..1 : c = ECell(e, m, tp, ki)

\* D: both sides verify at once (each faces a class), and conflicting TLS roles
KDual == <<1, 6, 12, 26, 27>>
AuthTime == <<<<"-", "-">>, <<"F", "-">>, <<"-", "F">>>>
DCell(kc, ks, pc, ps, tp, r) ==
  LET n == 6000000 + ((((((kc - 1) * 5 + (ks - 1)) * 3 + (pc - 1)) * 3 + (ps - 1)) * 3 + TpIdx(tp)) * 5 + r)
       Kc == KClass(KDual[kc])       \* presented by the client, verified by the accepting side
       Ks == KClass(KDual[ks])
       role == <<"normal", "revS", "revA", "cc", "ss">>[r + 1]
       rm == RoleMaps(role)
       sAuth == AuthTime[ps][1] # "F"
       cAuth == AuthTime[pc][1] # "F"
       S == [EmptyMap EXCEPT !.auth = AuthTime[ps][1], !.time = AuthTime[ps][2], !.client = rm.S, !.cert = Ref("f", Ks.p),
                             !.tc = IF sAuth THEN Ref("f", Kc.tc) ELSE NoRef]
       C == [EmptyMap EXCEPT !.auth = AuthTime[pc][1], !.time = AuthTime[pc][2], !.client = rm.C, !.cert = Ref("f", Kc.p),
                             !.tc = IF cAuth THEN Ref("f", Ks.tc) ELSE NoRef]
  IN [n |-> n, fam |-> "D", mand |-> FALSE, tp |-> tp, host |-> "ip", S |-> S, L |-> EmptyMap, A |-> [EmptyMap EXCEPT !.client = rm.A], C |-> C]
InitD(c) == \E kc \in 1..5, ks \in 1..5, pc \in 1..3, ps \in 1..3, tp \in Transports, r \in 0..4 : c = DCell(kc, ks, pc, ps, tp, r)

\* L: policy changed on the server socket after its creation (xcm_attr_set): the accepted connection follows the
\*    server socket's current values
LCell(a0, a1, t1, c1, v1, ki, tp) ==
  LET n == 7000000 + (((((a0 * 3 + a1) * 3 + t1) * 3 + c1) * 3 + v1) * 5 + ki) * 3 + TpIdx(tp)
       k == CASE ki = 0 -> 1 [] ki = 1 -> 6 [] ki = 2 -> 12 [] ki = 3 -> 17 [] ki = 4 -> 33
       srvpol == [Pol4 EXCEPT !.auth = B3Seq[a0 + 1]]
       base == SubjectS(tp, "normal", srvpol, Pol4, k, "f", "f", FALSE, "auto", "auto", "open", n, "L", FALSE)
       K == KClass(k)
       late == [EmptyMap EXCEPT !.auth = B3Seq[a1 + 1], !.time = B3Seq[t1 + 1], !.crl = B3Seq[c1 + 1], !.vpn = B3Seq[v1 + 1],
                                !.names = IF v1 = 1 THEN "good" ELSE "-",
                                !.crlm = IF c1 = 1 THEN Ref("f", K.crl) ELSE NoRef,
                                !.tc = IF a1 = 1 /\ a0 = 2 THEN Ref("f", K.tc) ELSE NoRef]
  IN [base EXCEPT !.L = late]
InitL(c) == \E a0 \in {0, 2}, a1 \in 0..2, t1 \in 0..2, c1 \in 0..2, v1 \in 0..2, ki \in 0..4, tp \in Transports : c = LCell(a0, a1, t1, c1, v1, ki, tp)

IsCell(c) ==
  \/ ("K" \in Families /\ InitK(c)) \/ ("P" \in Families /\ InitP(c)) \/ ("N" \in Families /\ InitN(c))
  \/ ("M" \in Families /\ InitM(c)) \/ ("E" \in Families /\ InitE(c)) \/ ("D" \in Families /\ InitD(c))
  \/ ("L" \in Families /\ InitL(c))

\* ---- the tables of the credential universe, printed once for the cross-check with the generated files -------
UsableTrust == TrustFiles \ UnusableTc
UsableCrls == CrlFiles \ UnusableCrl
Tables ==
  [certs |-> [p \in PresentFiles |->
                LET ci == CertInfo(p) IN [leaf |-> ci.leaf, path |-> ci.path, sent |-> ci.sent, time |-> TimeOf(ci.leaf),
                                          eku |-> EkuOf(ci.leaf), name |-> NameOf(ci.leaf)]],
   catime |-> [c \in AllCAs |-> TimeOf(c)],
   notca |-> NotCA,
   bundles |-> [t \in UsableTrust |-> Bundle(t)],
   anchors |-> [p \in PresentFiles |-> [t \in UsableTrust |-> Anchor(CertInfo(p), Bundle(t))]],
   crls |-> [c \in UsableCrls |-> CrlInfo(c)],
   unusable |-> UnusableTc \cup UnusableCrl,
   kclasses |-> [i \in 1..NK |-> KClass(i)]]
ASSUME PrintT("@T " \o ToJson(Tables))

\* ---- behaviour ------------------------------------------------------------------------------------------
NoEst == [c |-> FALSE, s |-> FALSE]
Init == /\ IsCell(cell)
        /\ phase = "start" /\ srv = NoOut /\ cli = NoOut /\ acc = NoOut /\ est = NoEst

ServerCreate == /\ phase = "start"
                /\ srv' = ServerOutcome(cell.S)
                /\ phase' = "server"
                /\ UNCHANGED <<cell, cli, acc, est>>
LateSet ==      /\ phase = "server" /\ srv.st = "ok"
                /\ srv' = [srv EXCEPT !.conf = ServerConfAfter(srv, cell.L)]
                /\ phase' = "listening"
                /\ UNCHANGED <<cell, cli, acc, est>>
Connect ==      /\ phase = "listening"
                /\ cli' = ConnOutcome(cell.C, cell.host)
                /\ phase' = "connected"
                /\ UNCHANGED <<cell, srv, acc, est>>
Accept ==       /\ phase = "connected" /\ cli.st = "ok"
                /\ acc' = AcceptOutcome(srv.conf, cell.A)
                /\ phase' = "accepted"
                /\ UNCHANGED <<cell, srv, cli, est>>
Handshake ==    /\ phase = "accepted" /\ acc.st = "ok"
                /\ est' = [c |-> MayEst(cli.conf, acc.conf, acc.conf.cert.n), s |-> MayEst(acc.conf, cli.conf, cli.conf.cert.n)]
                /\ phase' = "done"
                /\ UNCHANGED <<cell, srv, cli, acc>>
Next == ServerCreate \/ LateSet \/ Connect \/ Accept \/ Handshake
Spec == Init /\ [][Next]_vars

\* ---- emission -------------------------------------------------------------------------------------------
Hash(n) == ((n % 1000003) * SeedA + SeedB) % 1000003
ModOf(fam) == CASE fam = "K" -> ModK [] fam = "P" -> ModP [] fam = "N" -> ModN [] fam = "M" -> ModM
                [] fam = "E" -> ModE [] fam = "D" -> ModD [] fam = "L" -> ModL
Selected(c) == EmitMode = "all" \/ (EmitMode = "sample" /\ (c.mand \/ Hash(c.n) % ModOf(c.fam) = 0))
Summary(c, ev) == [so |-> ev.so.st, co |-> ev.co.st, ao |-> ev.ao.st, mrc |-> ev.mrc, mrs |-> ev.mrs,
                   predc |-> ev.predc, preds |-> ev.preds]
\* ---- properties -----------------------------------------------------------------------------------------
\* (the closed-form evaluation is computed once per cell, in its second state (explored by the parallel workers), and once more where the cell's
\* behaviour ends)
Terminal == \/ phase = "done"
            \/ (phase = "server" /\ srv.st # "ok") \/ (phase = "connected" /\ cli.st # "ok")
            \/ (phase = "accepted" /\ acc.st # "ok")
\* the step-wise behaviour and the closed-form evaluation used by the trace specification agree
InvEvalAgrees ==
  Terminal =>
    LET ev == Eval(cell) IN
    /\ srv.st = ev.so.st
    /\ (phase \in {"connected", "accepted", "done"} => cli = ev.co)
    /\ (phase \in {"accepted", "done"} => acc = ev.ao)
    /\ (phase = "done" => est.c = ev.mayc /\ est.s = ev.mays)
    /\ (phase # "done" => ~ev.mayc /\ ~ev.mays)
    \* C09 on the model: a side whose policy is not met is never usable
    /\ \A side \in {"c", "s"} : MustReject(ev, side) => ~est[side]
InvLaws ==
  phase = "server" =>
    LET ev == Eval(cell) IN
    /\ FailClosed(ev)
    /\ ConfigValidWellDefined(ev)
    /\ InheritOverrideLaw(cell, ev)
    /\ NoAuthNoDemand(ev)
    /\ cell.tp \in (Transports \cup PTransports) /\ cell.host \in {"ip", "name"}
    /\ (~Selected(cell) \/ PrintT("@C " \o ToJson([cell |-> cell, x |-> Summary(cell, ev)])))

=============================================================================
