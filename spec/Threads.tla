------------------------------- MODULE Threads -------------------------------
(***************************************************************************)
(* C15 - threads using different sockets do not interfere.                 *)
(*                                                                         *)
(* Model of the process-wide state of libxcm and of the code that touches  *)
(* it when threads create, use and close sockets of their own.  Processes  *)
(* are threads; every access to a shared variable is a step of its own     *)
(* (label), in the order of the C code:                                    *)
(*                                                                         *)
(*   Vl*  xcm.c:36 assure_library_version_logged  relaxed atomic flag      *)
(*   Id*  xcm_tp.c:33 get_next_sock_id             next_id_lock            *)
(*   Bp*  xcm_tp_btls.c:330 btcp_proto() and its siblings in xcm_tp_tcp.c, *)
(*        xcm_tp_tls.c, xcm_tp_utls.c              relaxed atomic pointer  *)
(*   Ag*  active_fd.c:67 active_fd_get             active_fd_lock          *)
(*   Cg*  ctx_store.c:494 ctx_store_get_ctx        cache.lock; hashing,    *)
(*        loading the files, re-hashing, SSL_CTX_new and the installation  *)
(*        all happen while the lock is held (there is no unlocked load)    *)
(*   (between Cg* and Cp* the socket works: its xpoll has the eventfd       *)
(*   registered, xpoll.c:332, and SSL_new() uses the SSL_CTX)              *)
(*   Cp*  ctx_store.c:585 ctx_store_put                                    *)
(*   Ap*  active_fd.c:84 active_fd_put                                     *)
(*                                                                         *)
(* Inventory of static mutable state of libxcm + common (grep of           *)
(* "static ... ;" / "static ... = " / function-level statics over          *)
(* libxcm/{core,ctl,tp/common,tp/tcp,tp/ux,tp/tls,tp/dns} and common/,      *)
(* sctp and dns_glibc are not built):                                      *)
(*  mutex-protected                                                        *)
(*   active_fd.c:30-31  active_fd_lock, active_fds (list, cnt per entry)   *)
(*   xcm_tp.c:30-31     next_id_lock, next_id                              *)
(*   ctx_store.c:170    cache (entries, use_cnt; lock initialised by the   *)
(*                      btls constructor through ctx_store_init)           *)
(*  relaxed atomics (idempotent)                                           *)
(*   xcm.c:32           version_logged                                     *)
(*   log.c:87           console_enabled (its only writer is the constructor *)
(*                      of xcm.c, XCM_DEBUG -> log_console_conf: in effect  *)
(*                      immutable once threads exist)                      *)
(*   xcm_tp_tcp.c:98, xcm_tp_tls.c:100, xcm_tp_btls.c:332,                 *)
(*   xcm_tp_utls.c:112,118   cached_proto pointers                         *)
(*  thread-local                                                           *)
(*   log_tp.c:16        static __thread char name[] (log_ip_str)           *)
(*  immutable after the constructors (single-threaded, before main)        *)
(*   xcm_tp.c:574-575   protos[], num_protos (xcm_tp_register)             *)
(*   xcm_tp_tcp.c:70, xcm_tp_btcp.c:107, xcm_tp_ux.c:68,86,                *)
(*   xcm_tp_utls.c:68   *_ops tables (tls/btls ones are const)             *)
(*   xcm_tp_btls.c:262  bio_btcp_method (reg_ssl_bio), OpenSSL initialised *)
(*                      by init_ssl, c-ares by xcm_dns_cares.c:393         *)
(*  unprotected: none found.  No libc function with static storage is used *)
(*  on a shared object (basename() gets a local copy, readdir() a private  *)
(*  DIR, getenv() is only read).                                           *)
(*                                                                         *)
(* Constant Broken selects a deliberately broken variant of the code; the  *)
(* check requires TLC to find a violation for each of them (guards against *)
(* a vacuous specification).  Constant Scope selects the subsystems the    *)
(* threads touch: they share no variable, so each is explored alone at     *)
(* 3-4 threads x 2 rounds, pool x cache at 3 x 2, and the full product     *)
(* (which shows that they do not interfere) at 3 x 1 and 2 x 2; the full   *)
(* product at 3 x 2 is beyond 10^8 states.                                 *)
(*                                                                         *)
(* The operators of the first section are also used by ThreadsTrace to     *)
(* validate executions recorded from the real library.                     *)
(***************************************************************************)
EXTENDS Integers, Sequences, FiniteSets, TLC

CONSTANTS Threads,    \* thread identities
          Rounds,     \* sockets created, used and closed per thread, one after the other
          MaxUsers,   \* MAX_USERS_PER_FD (100 in active_fd.c; 2 in the bounded model)
          Keys,       \* credential designations (hash values of ctx_store.c)
          Broken,     \* "none" or the name of a seeded defect
          Scope,      \* the subsystems the threads touch: subset of {"flags", "id", "afd", "ctx"} (they share no variable,
                      \* so each can also be explored alone with more threads and rounds)
          NoOne       \* "no thread" (model value)

BrokenKinds == {"none", "afd_no_lock", "afd_close_early", "ctx_double_dec", "ctx_no_lock", "id_no_lock"}
ASSUME Broken \in BrokenKinds
ASSUME Scope \subseteq {"flags", "id", "afd", "ctx"}

NoFd == 0 - 1
NoCtx == 0 - 1
NoKey == 0 - 1

(***************************************************************************)
(* Data operators (shared with ThreadsTrace)                               *)
(***************************************************************************)
Range(s) == {s[i] : i \in DOMAIN s}
MinOf(S) == CHOOSE x \in S : \A y \in S : x <= y
Remove(s, x) == SelectSeq(s, LAMBDA y : y # x)
NoDup(s) == Cardinality(Range(s)) = Len(s)
SumOver(S, f(_)) ==
  LET RECURSIVE Go(_)
      Go(T) == IF T = {} THEN 0 ELSE LET x == CHOOSE y \in T : TRUE IN f(x) + Go(T \ {x})
  IN Go(S)

\* fd_retrieve(): the first entry, newest first, that has room
FirstFree(p, c, max) ==
  LET I == {i \in DOMAIN p : c[p[i]] < max} IN IF I = {} THEN NoFd ELSE p[MinOf(I)]

\* cache_get(): the entry with this hash
Lookup(es, eh, k) ==
  LET I == {i \in DOMAIN es : eh[es[i]] = k} IN IF I = {} THEN NoCtx ELSE es[MinOf(I)]

\* an always-active descriptor is closed when its last user goes (and only then)
AfdCloseAt == IF Broken = "afd_close_early" THEN 1 ELSE 0

\* how many wake-up descriptors / TLS contexts a socket of a transport holds (xcm_tp_btcp.c:215 and
\* xcm_tp_btls.c:377 register a bell on the socket's xpoll, which takes one descriptor per xpoll;
\* ux has none; btls_connect/btls_server/btls_accept take one context)
HoldsAfd(tp, isConn) == IF isConn /\ tp \in {"tcp", "tls", "btcp", "btls"} THEN 1 ELSE 0
HoldsCtx(tp) == IF tp \in {"tls", "btls"} THEN 1 ELSE 0

(***************************************************************************
--algorithm Threads {
  variables
    \* the three mutexes
    afd_lock = NoOne, ctx_lock = NoOne, id_lock = NoOne,
    \* active_fd.c: list of entries (an entry is named by its descriptor; newest first), user counts,
    \* the eventfds that are open in the kernel
    pool = <<>>, cnt = <<>>, fdopen = {}, nextfd = 1,
    \* ctx_store.c: list of entries (named by their SSL_CTX), hash and use count of each, live SSL_CTXs
    entries = <<>>, ehash = <<>>, use = <<>>, ctxlive = {}, nextctx = 1,
    \* xcm_tp.c
    next_id = 0,
    \* idempotent flags
    version_logged = FALSE, cached_proto = "null",
    \* ghosts
    issued = <<>>,                              \* socket ids handed out
    nlogged = 0,                                \* version log entries written
    holds = [th \in Threads |-> NoFd],           \* descriptor registered in the thread's socket
    uses = [th \in Threads |-> NoCtx],           \* SSL_CTX the thread's socket works with
    afd_uaf = FALSE, ctx_uaf = FALSE,           \* a freed entry / closed descriptor / freed SSL_CTX was touched
    aborted = FALSE;                            \* ut_assert(0) reached

  macro Lock(m, on) { if (on) { await m = NoOne; m := self; } }
  macro Unlock(m, on) { if (on) { m := NoOne; } }

  process (thr \in Threads)
    variables round = 0, key = NoKey, myid = NoFd, myfd = NoFd, myctx = NoCtx, t = 0, e = NoFd, p = "null";
  {
  Round:
    while (round < Rounds) {
      round := round + 1; p := "null"; myid := NoFd;
      \* ---- assure_library_version_logged ------------------------------------------
      VlRead:  if ("flags" \in Scope) { t := IF version_logged THEN 1 ELSE 0; } else { goto IdLock; };
      VlLog:   if (t = 0) {
                 nlogged := nlogged + 1;
      VlWrite:   version_logged := TRUE;
               };
      \* ---- get_next_sock_id --------------------------------------------------------
      IdLock:  if ("id" \in Scope) { Lock(id_lock, Broken # "id_no_lock"); } else { goto BpRead; };
      IdRead:  t := next_id;
      IdWrite: next_id := t + 1; myid := t; issued := Append(issued, t);
      IdUnlock: Unlock(id_lock, Broken # "id_no_lock"); t := 0;
      \* ---- btcp_proto() ------------------------------------------------------------
      BpRead:  if ("flags" \in Scope) { p := cached_proto; } else { goto AgLock; };
      BpLook:  if (p = "null") {
                 p := "btcp";                   \* xcm_tp_proto_by_name on the immutable registry
      BpWrite:   cached_proto := p;
               };
      \* ---- active_fd_get -----------------------------------------------------------
      AgLock:  if ("afd" \in Scope) { Lock(afd_lock, Broken # "afd_no_lock"); } else { goto CgLock; };
      AgFind:  e := FirstFree(pool, cnt, MaxUsers);
               if (e # NoFd) {
      AgRead:    t := cnt[e];
                 if (e \notin Range(pool)) { afd_uaf := TRUE; };
      AgWrite:   cnt[e] := t + 1; myfd := e; holds[self] := e;
                 if (e \notin Range(pool)) { afd_uaf := TRUE; };
               } else {
      AgCreate:  e := nextfd; nextfd := nextfd + 1; fdopen := fdopen \cup {e};
      AgInsert:  pool := <<e>> \o pool; cnt := (e :> 1) @@ cnt; myfd := e; holds[self] := e;
               };
      AgUnlock: Unlock(afd_lock, Broken # "afd_no_lock"); t := 0; e := NoFd;
      \* ---- ctx_store_get_ctx -------------------------------------------------------
      CgLock:  if ("ctx" \in Scope) { Lock(ctx_lock, Broken # "ctx_no_lock"); } else { goto ApLock; };
      CgHash:  with (k \in Keys) { key := k; };
      CgLook:  e := Lookup(entries, ehash, key);
               if (e # NoCtx) {
      CgRead:    t := use[e];
                 if (e \notin Range(entries)) { ctx_uaf := TRUE; };
      CgWrite:   use[e] := t + 1; myctx := e; uses[self] := e;
                 if (e \notin Range(entries)) { ctx_uaf := TRUE; };
               } else {
      CgLoad:    skip;                          \* item_load x 4 and the second hash, lock held
      CgNew:     e := nextctx; nextctx := nextctx + 1; ctxlive := ctxlive \cup {e};
      CgInstall: entries := <<e>> \o entries; ehash := (e :> key) @@ ehash; use := (e :> 1) @@ use;
                 myctx := e; uses[self] := e;
               };
      CgUnlock: Unlock(ctx_lock, Broken # "ctx_no_lock"); t := 0; e := NoCtx;
      \* ---- the socket works with its descriptor and its SSL_CTX (invariants AfdNoUseAfterClose, CtxNoUseAfterFree) until it is closed
      \* ---- ctx_store_put -----------------------------------------------------------
      CpLock:  Lock(ctx_lock, Broken # "ctx_no_lock");
      CpFind:  if (myctx \in Range(entries)) { e := myctx; } else { aborted := TRUE; goto CpUnlock; };
      CpRead:  t := use[e];
      CpWrite: use[e] := t - 1; uses[self] := NoCtx;
      CpExtra: if (Broken = "ctx_double_dec" /\ use[e] > 0) { use[e] := use[e] - 1; };
      CpTest:  if (use[e] = 0) {
      CpRemove:  entries := Remove(entries, e);
      CpFree:    ctxlive := ctxlive \ {e};
               };
      CpUnlock: Unlock(ctx_lock, Broken # "ctx_no_lock"); t := 0; e := NoCtx; myctx := NoCtx; key := NoKey;
      \* ---- active_fd_put -----------------------------------------------------------
      ApLock:  if ("afd" \in Scope) { Lock(afd_lock, Broken # "afd_no_lock"); } else { goto Round; };
      ApFind:  if (myfd \in Range(pool)) { e := myfd; } else { aborted := TRUE; goto ApUnlock; };
      ApRead:  t := cnt[e];
      ApWrite: cnt[e] := t - 1; holds[self] := NoFd;
      ApTest:  if (cnt[e] = AfdCloseAt) {
      ApRemove:  pool := Remove(pool, e);
      ApClose:   fdopen := fdopen \ {e};
               };
      ApUnlock: Unlock(afd_lock, Broken # "afd_no_lock"); t := 0; e := NoFd; myfd := NoFd;
    }
  }
}
 ***************************************************************************)
\* BEGIN TRANSLATION
VARIABLES pc, afd_lock, ctx_lock, id_lock, pool, cnt, fdopen, nextfd, entries, 
          ehash, use, ctxlive, nextctx, next_id, version_logged, cached_proto, 
          issued, nlogged, holds, uses, afd_uaf, ctx_uaf, aborted, round, key, 
          myid, myfd, myctx, t, e, p

vars == << pc, afd_lock, ctx_lock, id_lock, pool, cnt, fdopen, nextfd, 
           entries, ehash, use, ctxlive, nextctx, next_id, version_logged, 
           cached_proto, issued, nlogged, holds, uses, afd_uaf, ctx_uaf, 
           aborted, round, key, myid, myfd, myctx, t, e, p >>

ProcSet == (Threads)

Init == (* Global variables *)
        /\ afd_lock = NoOne
        /\ ctx_lock = NoOne
        /\ id_lock = NoOne
        /\ pool = <<>>
        /\ cnt = <<>>
        /\ fdopen = {}
        /\ nextfd = 1
        /\ entries = <<>>
        /\ ehash = <<>>
        /\ use = <<>>
        /\ ctxlive = {}
        /\ nextctx = 1
        /\ next_id = 0
        /\ version_logged = FALSE
        /\ cached_proto = "null"
        /\ issued = <<>>
        /\ nlogged = 0
        /\ holds = [th \in Threads |-> NoFd]
        /\ uses = [th \in Threads |-> NoCtx]
        /\ afd_uaf = FALSE
        /\ ctx_uaf = FALSE
        /\ aborted = FALSE
        (* Process thr *)
        /\ round = [self \in Threads |-> 0]
        /\ key = [self \in Threads |-> NoKey]
        /\ myid = [self \in Threads |-> NoFd]
        /\ myfd = [self \in Threads |-> NoFd]
        /\ myctx = [self \in Threads |-> NoCtx]
        /\ t = [self \in Threads |-> 0]
        /\ e = [self \in Threads |-> NoFd]
        /\ p = [self \in Threads |-> "null"]
        /\ pc = [self \in ProcSet |-> "Round"]

Round(self) == /\ pc[self] = "Round"
               /\ IF round[self] < Rounds
                     THEN /\ round' = [round EXCEPT ![self] = round[self] + 1]
                          /\ p' = [p EXCEPT ![self] = "null"]
                          /\ myid' = [myid EXCEPT ![self] = NoFd]
                          /\ pc' = [pc EXCEPT ![self] = "VlRead"]
                     ELSE /\ pc' = [pc EXCEPT ![self] = "Done"]
                          /\ UNCHANGED << round, myid, p >>
               /\ UNCHANGED << afd_lock, ctx_lock, id_lock, pool, cnt, fdopen, 
                               nextfd, entries, ehash, use, ctxlive, nextctx, 
                               next_id, version_logged, cached_proto, issued, 
                               nlogged, holds, uses, afd_uaf, ctx_uaf, aborted, 
                               key, myfd, myctx, t, e >>

VlRead(self) == /\ pc[self] = "VlRead"
                /\ IF "flags" \in Scope
                      THEN /\ t' = [t EXCEPT ![self] = IF version_logged THEN 1 ELSE 0]
                           /\ pc' = [pc EXCEPT ![self] = "VlLog"]
                      ELSE /\ pc' = [pc EXCEPT ![self] = "IdLock"]
                           /\ t' = t
                /\ UNCHANGED << afd_lock, ctx_lock, id_lock, pool, cnt, fdopen, 
                                nextfd, entries, ehash, use, ctxlive, nextctx, 
                                next_id, version_logged, cached_proto, issued, 
                                nlogged, holds, uses, afd_uaf, ctx_uaf, 
                                aborted, round, key, myid, myfd, myctx, e, p >>

VlLog(self) == /\ pc[self] = "VlLog"
               /\ IF t[self] = 0
                     THEN /\ nlogged' = nlogged + 1
                          /\ pc' = [pc EXCEPT ![self] = "VlWrite"]
                     ELSE /\ pc' = [pc EXCEPT ![self] = "IdLock"]
                          /\ UNCHANGED nlogged
               /\ UNCHANGED << afd_lock, ctx_lock, id_lock, pool, cnt, fdopen, 
                               nextfd, entries, ehash, use, ctxlive, nextctx, 
                               next_id, version_logged, cached_proto, issued, 
                               holds, uses, afd_uaf, ctx_uaf, aborted, round, 
                               key, myid, myfd, myctx, t, e, p >>

VlWrite(self) == /\ pc[self] = "VlWrite"
                 /\ version_logged' = TRUE
                 /\ pc' = [pc EXCEPT ![self] = "IdLock"]
                 /\ UNCHANGED << afd_lock, ctx_lock, id_lock, pool, cnt, 
                                 fdopen, nextfd, entries, ehash, use, ctxlive, 
                                 nextctx, next_id, cached_proto, issued, 
                                 nlogged, holds, uses, afd_uaf, ctx_uaf, 
                                 aborted, round, key, myid, myfd, myctx, t, e, 
                                 p >>

IdLock(self) == /\ pc[self] = "IdLock"
                /\ IF "id" \in Scope
                      THEN /\ IF Broken # "id_no_lock"
                                 THEN /\ id_lock = NoOne
                                      /\ id_lock' = self
                                 ELSE /\ TRUE
                                      /\ UNCHANGED id_lock
                           /\ pc' = [pc EXCEPT ![self] = "IdRead"]
                      ELSE /\ pc' = [pc EXCEPT ![self] = "BpRead"]
                           /\ UNCHANGED id_lock
                /\ UNCHANGED << afd_lock, ctx_lock, pool, cnt, fdopen, nextfd, 
                                entries, ehash, use, ctxlive, nextctx, next_id, 
                                version_logged, cached_proto, issued, nlogged, 
                                holds, uses, afd_uaf, ctx_uaf, aborted, round, 
                                key, myid, myfd, myctx, t, e, p >>

IdRead(self) == /\ pc[self] = "IdRead"
                /\ t' = [t EXCEPT ![self] = next_id]
                /\ pc' = [pc EXCEPT ![self] = "IdWrite"]
                /\ UNCHANGED << afd_lock, ctx_lock, id_lock, pool, cnt, fdopen, 
                                nextfd, entries, ehash, use, ctxlive, nextctx, 
                                next_id, version_logged, cached_proto, issued, 
                                nlogged, holds, uses, afd_uaf, ctx_uaf, 
                                aborted, round, key, myid, myfd, myctx, e, p >>

IdWrite(self) == /\ pc[self] = "IdWrite"
                 /\ next_id' = t[self] + 1
                 /\ myid' = [myid EXCEPT ![self] = t[self]]
                 /\ issued' = Append(issued, t[self])
                 /\ pc' = [pc EXCEPT ![self] = "IdUnlock"]
                 /\ UNCHANGED << afd_lock, ctx_lock, id_lock, pool, cnt, 
                                 fdopen, nextfd, entries, ehash, use, ctxlive, 
                                 nextctx, version_logged, cached_proto, 
                                 nlogged, holds, uses, afd_uaf, ctx_uaf, 
                                 aborted, round, key, myfd, myctx, t, e, p >>

IdUnlock(self) == /\ pc[self] = "IdUnlock"
                  /\ IF Broken # "id_no_lock"
                        THEN /\ id_lock' = NoOne
                        ELSE /\ TRUE
                             /\ UNCHANGED id_lock
                  /\ t' = [t EXCEPT ![self] = 0]
                  /\ pc' = [pc EXCEPT ![self] = "BpRead"]
                  /\ UNCHANGED << afd_lock, ctx_lock, pool, cnt, fdopen, 
                                  nextfd, entries, ehash, use, ctxlive, 
                                  nextctx, next_id, version_logged, 
                                  cached_proto, issued, nlogged, holds, uses, 
                                  afd_uaf, ctx_uaf, aborted, round, key, myid, 
                                  myfd, myctx, e, p >>

BpRead(self) == /\ pc[self] = "BpRead"
                /\ IF "flags" \in Scope
                      THEN /\ p' = [p EXCEPT ![self] = cached_proto]
                           /\ pc' = [pc EXCEPT ![self] = "BpLook"]
                      ELSE /\ pc' = [pc EXCEPT ![self] = "AgLock"]
                           /\ p' = p
                /\ UNCHANGED << afd_lock, ctx_lock, id_lock, pool, cnt, fdopen, 
                                nextfd, entries, ehash, use, ctxlive, nextctx, 
                                next_id, version_logged, cached_proto, issued, 
                                nlogged, holds, uses, afd_uaf, ctx_uaf, 
                                aborted, round, key, myid, myfd, myctx, t, e >>

BpLook(self) == /\ pc[self] = "BpLook"
                /\ IF p[self] = "null"
                      THEN /\ p' = [p EXCEPT ![self] = "btcp"]
                           /\ pc' = [pc EXCEPT ![self] = "BpWrite"]
                      ELSE /\ pc' = [pc EXCEPT ![self] = "AgLock"]
                           /\ p' = p
                /\ UNCHANGED << afd_lock, ctx_lock, id_lock, pool, cnt, fdopen, 
                                nextfd, entries, ehash, use, ctxlive, nextctx, 
                                next_id, version_logged, cached_proto, issued, 
                                nlogged, holds, uses, afd_uaf, ctx_uaf, 
                                aborted, round, key, myid, myfd, myctx, t, e >>

BpWrite(self) == /\ pc[self] = "BpWrite"
                 /\ cached_proto' = p[self]
                 /\ pc' = [pc EXCEPT ![self] = "AgLock"]
                 /\ UNCHANGED << afd_lock, ctx_lock, id_lock, pool, cnt, 
                                 fdopen, nextfd, entries, ehash, use, ctxlive, 
                                 nextctx, next_id, version_logged, issued, 
                                 nlogged, holds, uses, afd_uaf, ctx_uaf, 
                                 aborted, round, key, myid, myfd, myctx, t, e, 
                                 p >>

AgLock(self) == /\ pc[self] = "AgLock"
                /\ IF "afd" \in Scope
                      THEN /\ IF Broken # "afd_no_lock"
                                 THEN /\ afd_lock = NoOne
                                      /\ afd_lock' = self
                                 ELSE /\ TRUE
                                      /\ UNCHANGED afd_lock
                           /\ pc' = [pc EXCEPT ![self] = "AgFind"]
                      ELSE /\ pc' = [pc EXCEPT ![self] = "CgLock"]
                           /\ UNCHANGED afd_lock
                /\ UNCHANGED << ctx_lock, id_lock, pool, cnt, fdopen, nextfd, 
                                entries, ehash, use, ctxlive, nextctx, next_id, 
                                version_logged, cached_proto, issued, nlogged, 
                                holds, uses, afd_uaf, ctx_uaf, aborted, round, 
                                key, myid, myfd, myctx, t, e, p >>

AgFind(self) == /\ pc[self] = "AgFind"
                /\ e' = [e EXCEPT ![self] = FirstFree(pool, cnt, MaxUsers)]
                /\ IF e'[self] # NoFd
                      THEN /\ pc' = [pc EXCEPT ![self] = "AgRead"]
                      ELSE /\ pc' = [pc EXCEPT ![self] = "AgCreate"]
                /\ UNCHANGED << afd_lock, ctx_lock, id_lock, pool, cnt, fdopen, 
                                nextfd, entries, ehash, use, ctxlive, nextctx, 
                                next_id, version_logged, cached_proto, issued, 
                                nlogged, holds, uses, afd_uaf, ctx_uaf, 
                                aborted, round, key, myid, myfd, myctx, t, p >>

AgRead(self) == /\ pc[self] = "AgRead"
                /\ t' = [t EXCEPT ![self] = cnt[e[self]]]
                /\ IF e[self] \notin Range(pool)
                      THEN /\ afd_uaf' = TRUE
                      ELSE /\ TRUE
                           /\ UNCHANGED afd_uaf
                /\ pc' = [pc EXCEPT ![self] = "AgWrite"]
                /\ UNCHANGED << afd_lock, ctx_lock, id_lock, pool, cnt, fdopen, 
                                nextfd, entries, ehash, use, ctxlive, nextctx, 
                                next_id, version_logged, cached_proto, issued, 
                                nlogged, holds, uses, ctx_uaf, aborted, round, 
                                key, myid, myfd, myctx, e, p >>

AgWrite(self) == /\ pc[self] = "AgWrite"
                 /\ cnt' = [cnt EXCEPT ![e[self]] = t[self] + 1]
                 /\ myfd' = [myfd EXCEPT ![self] = e[self]]
                 /\ holds' = [holds EXCEPT ![self] = e[self]]
                 /\ IF e[self] \notin Range(pool)
                       THEN /\ afd_uaf' = TRUE
                       ELSE /\ TRUE
                            /\ UNCHANGED afd_uaf
                 /\ pc' = [pc EXCEPT ![self] = "AgUnlock"]
                 /\ UNCHANGED << afd_lock, ctx_lock, id_lock, pool, fdopen, 
                                 nextfd, entries, ehash, use, ctxlive, nextctx, 
                                 next_id, version_logged, cached_proto, issued, 
                                 nlogged, uses, ctx_uaf, aborted, round, key, 
                                 myid, myctx, t, e, p >>

AgCreate(self) == /\ pc[self] = "AgCreate"
                  /\ e' = [e EXCEPT ![self] = nextfd]
                  /\ nextfd' = nextfd + 1
                  /\ fdopen' = (fdopen \cup {e'[self]})
                  /\ pc' = [pc EXCEPT ![self] = "AgInsert"]
                  /\ UNCHANGED << afd_lock, ctx_lock, id_lock, pool, cnt, 
                                  entries, ehash, use, ctxlive, nextctx, 
                                  next_id, version_logged, cached_proto, 
                                  issued, nlogged, holds, uses, afd_uaf, 
                                  ctx_uaf, aborted, round, key, myid, myfd, 
                                  myctx, t, p >>

AgInsert(self) == /\ pc[self] = "AgInsert"
                  /\ pool' = <<e[self]>> \o pool
                  /\ cnt' = (e[self] :> 1) @@ cnt
                  /\ myfd' = [myfd EXCEPT ![self] = e[self]]
                  /\ holds' = [holds EXCEPT ![self] = e[self]]
                  /\ pc' = [pc EXCEPT ![self] = "AgUnlock"]
                  /\ UNCHANGED << afd_lock, ctx_lock, id_lock, fdopen, nextfd, 
                                  entries, ehash, use, ctxlive, nextctx, 
                                  next_id, version_logged, cached_proto, 
                                  issued, nlogged, uses, afd_uaf, ctx_uaf, 
                                  aborted, round, key, myid, myctx, t, e, p >>

AgUnlock(self) == /\ pc[self] = "AgUnlock"
                  /\ IF Broken # "afd_no_lock"
                        THEN /\ afd_lock' = NoOne
                        ELSE /\ TRUE
                             /\ UNCHANGED afd_lock
                  /\ t' = [t EXCEPT ![self] = 0]
                  /\ e' = [e EXCEPT ![self] = NoFd]
                  /\ pc' = [pc EXCEPT ![self] = "CgLock"]
                  /\ UNCHANGED << ctx_lock, id_lock, pool, cnt, fdopen, nextfd, 
                                  entries, ehash, use, ctxlive, nextctx, 
                                  next_id, version_logged, cached_proto, 
                                  issued, nlogged, holds, uses, afd_uaf, 
                                  ctx_uaf, aborted, round, key, myid, myfd, 
                                  myctx, p >>

CgLock(self) == /\ pc[self] = "CgLock"
                /\ IF "ctx" \in Scope
                      THEN /\ IF Broken # "ctx_no_lock"
                                 THEN /\ ctx_lock = NoOne
                                      /\ ctx_lock' = self
                                 ELSE /\ TRUE
                                      /\ UNCHANGED ctx_lock
                           /\ pc' = [pc EXCEPT ![self] = "CgHash"]
                      ELSE /\ pc' = [pc EXCEPT ![self] = "ApLock"]
                           /\ UNCHANGED ctx_lock
                /\ UNCHANGED << afd_lock, id_lock, pool, cnt, fdopen, nextfd, 
                                entries, ehash, use, ctxlive, nextctx, next_id, 
                                version_logged, cached_proto, issued, nlogged, 
                                holds, uses, afd_uaf, ctx_uaf, aborted, round, 
                                key, myid, myfd, myctx, t, e, p >>

CgHash(self) == /\ pc[self] = "CgHash"
                /\ \E k \in Keys:
                     key' = [key EXCEPT ![self] = k]
                /\ pc' = [pc EXCEPT ![self] = "CgLook"]
                /\ UNCHANGED << afd_lock, ctx_lock, id_lock, pool, cnt, fdopen, 
                                nextfd, entries, ehash, use, ctxlive, nextctx, 
                                next_id, version_logged, cached_proto, issued, 
                                nlogged, holds, uses, afd_uaf, ctx_uaf, 
                                aborted, round, myid, myfd, myctx, t, e, p >>

CgLook(self) == /\ pc[self] = "CgLook"
                /\ e' = [e EXCEPT ![self] = Lookup(entries, ehash, key[self])]
                /\ IF e'[self] # NoCtx
                      THEN /\ pc' = [pc EXCEPT ![self] = "CgRead"]
                      ELSE /\ pc' = [pc EXCEPT ![self] = "CgLoad"]
                /\ UNCHANGED << afd_lock, ctx_lock, id_lock, pool, cnt, fdopen, 
                                nextfd, entries, ehash, use, ctxlive, nextctx, 
                                next_id, version_logged, cached_proto, issued, 
                                nlogged, holds, uses, afd_uaf, ctx_uaf, 
                                aborted, round, key, myid, myfd, myctx, t, p >>

CgRead(self) == /\ pc[self] = "CgRead"
                /\ t' = [t EXCEPT ![self] = use[e[self]]]
                /\ IF e[self] \notin Range(entries)
                      THEN /\ ctx_uaf' = TRUE
                      ELSE /\ TRUE
                           /\ UNCHANGED ctx_uaf
                /\ pc' = [pc EXCEPT ![self] = "CgWrite"]
                /\ UNCHANGED << afd_lock, ctx_lock, id_lock, pool, cnt, fdopen, 
                                nextfd, entries, ehash, use, ctxlive, nextctx, 
                                next_id, version_logged, cached_proto, issued, 
                                nlogged, holds, uses, afd_uaf, aborted, round, 
                                key, myid, myfd, myctx, e, p >>

CgWrite(self) == /\ pc[self] = "CgWrite"
                 /\ use' = [use EXCEPT ![e[self]] = t[self] + 1]
                 /\ myctx' = [myctx EXCEPT ![self] = e[self]]
                 /\ uses' = [uses EXCEPT ![self] = e[self]]
                 /\ IF e[self] \notin Range(entries)
                       THEN /\ ctx_uaf' = TRUE
                       ELSE /\ TRUE
                            /\ UNCHANGED ctx_uaf
                 /\ pc' = [pc EXCEPT ![self] = "CgUnlock"]
                 /\ UNCHANGED << afd_lock, ctx_lock, id_lock, pool, cnt, 
                                 fdopen, nextfd, entries, ehash, ctxlive, 
                                 nextctx, next_id, version_logged, 
                                 cached_proto, issued, nlogged, holds, afd_uaf, 
                                 aborted, round, key, myid, myfd, t, e, p >>

CgLoad(self) == /\ pc[self] = "CgLoad"
                /\ TRUE
                /\ pc' = [pc EXCEPT ![self] = "CgNew"]
                /\ UNCHANGED << afd_lock, ctx_lock, id_lock, pool, cnt, fdopen, 
                                nextfd, entries, ehash, use, ctxlive, nextctx, 
                                next_id, version_logged, cached_proto, issued, 
                                nlogged, holds, uses, afd_uaf, ctx_uaf, 
                                aborted, round, key, myid, myfd, myctx, t, e, 
                                p >>

CgNew(self) == /\ pc[self] = "CgNew"
               /\ e' = [e EXCEPT ![self] = nextctx]
               /\ nextctx' = nextctx + 1
               /\ ctxlive' = (ctxlive \cup {e'[self]})
               /\ pc' = [pc EXCEPT ![self] = "CgInstall"]
               /\ UNCHANGED << afd_lock, ctx_lock, id_lock, pool, cnt, fdopen, 
                               nextfd, entries, ehash, use, next_id, 
                               version_logged, cached_proto, issued, nlogged, 
                               holds, uses, afd_uaf, ctx_uaf, aborted, round, 
                               key, myid, myfd, myctx, t, p >>

CgInstall(self) == /\ pc[self] = "CgInstall"
                   /\ entries' = <<e[self]>> \o entries
                   /\ ehash' = (e[self] :> key[self]) @@ ehash
                   /\ use' = (e[self] :> 1) @@ use
                   /\ myctx' = [myctx EXCEPT ![self] = e[self]]
                   /\ uses' = [uses EXCEPT ![self] = e[self]]
                   /\ pc' = [pc EXCEPT ![self] = "CgUnlock"]
                   /\ UNCHANGED << afd_lock, ctx_lock, id_lock, pool, cnt, 
                                   fdopen, nextfd, ctxlive, nextctx, next_id, 
                                   version_logged, cached_proto, issued, 
                                   nlogged, holds, afd_uaf, ctx_uaf, aborted, 
                                   round, key, myid, myfd, t, e, p >>

CgUnlock(self) == /\ pc[self] = "CgUnlock"
                  /\ IF Broken # "ctx_no_lock"
                        THEN /\ ctx_lock' = NoOne
                        ELSE /\ TRUE
                             /\ UNCHANGED ctx_lock
                  /\ t' = [t EXCEPT ![self] = 0]
                  /\ e' = [e EXCEPT ![self] = NoCtx]
                  /\ pc' = [pc EXCEPT ![self] = "CpLock"]
                  /\ UNCHANGED << afd_lock, id_lock, pool, cnt, fdopen, nextfd, 
                                  entries, ehash, use, ctxlive, nextctx, 
                                  next_id, version_logged, cached_proto, 
                                  issued, nlogged, holds, uses, afd_uaf, 
                                  ctx_uaf, aborted, round, key, myid, myfd, 
                                  myctx, p >>

CpLock(self) == /\ pc[self] = "CpLock"
                /\ IF Broken # "ctx_no_lock"
                      THEN /\ ctx_lock = NoOne
                           /\ ctx_lock' = self
                      ELSE /\ TRUE
                           /\ UNCHANGED ctx_lock
                /\ pc' = [pc EXCEPT ![self] = "CpFind"]
                /\ UNCHANGED << afd_lock, id_lock, pool, cnt, fdopen, nextfd, 
                                entries, ehash, use, ctxlive, nextctx, next_id, 
                                version_logged, cached_proto, issued, nlogged, 
                                holds, uses, afd_uaf, ctx_uaf, aborted, round, 
                                key, myid, myfd, myctx, t, e, p >>

CpFind(self) == /\ pc[self] = "CpFind"
                /\ IF myctx[self] \in Range(entries)
                      THEN /\ e' = [e EXCEPT ![self] = myctx[self]]
                           /\ pc' = [pc EXCEPT ![self] = "CpRead"]
                           /\ UNCHANGED aborted
                      ELSE /\ aborted' = TRUE
                           /\ pc' = [pc EXCEPT ![self] = "CpUnlock"]
                           /\ e' = e
                /\ UNCHANGED << afd_lock, ctx_lock, id_lock, pool, cnt, fdopen, 
                                nextfd, entries, ehash, use, ctxlive, nextctx, 
                                next_id, version_logged, cached_proto, issued, 
                                nlogged, holds, uses, afd_uaf, ctx_uaf, round, 
                                key, myid, myfd, myctx, t, p >>

CpRead(self) == /\ pc[self] = "CpRead"
                /\ t' = [t EXCEPT ![self] = use[e[self]]]
                /\ pc' = [pc EXCEPT ![self] = "CpWrite"]
                /\ UNCHANGED << afd_lock, ctx_lock, id_lock, pool, cnt, fdopen, 
                                nextfd, entries, ehash, use, ctxlive, nextctx, 
                                next_id, version_logged, cached_proto, issued, 
                                nlogged, holds, uses, afd_uaf, ctx_uaf, 
                                aborted, round, key, myid, myfd, myctx, e, p >>

CpWrite(self) == /\ pc[self] = "CpWrite"
                 /\ use' = [use EXCEPT ![e[self]] = t[self] - 1]
                 /\ uses' = [uses EXCEPT ![self] = NoCtx]
                 /\ pc' = [pc EXCEPT ![self] = "CpExtra"]
                 /\ UNCHANGED << afd_lock, ctx_lock, id_lock, pool, cnt, 
                                 fdopen, nextfd, entries, ehash, ctxlive, 
                                 nextctx, next_id, version_logged, 
                                 cached_proto, issued, nlogged, holds, afd_uaf, 
                                 ctx_uaf, aborted, round, key, myid, myfd, 
                                 myctx, t, e, p >>

CpExtra(self) == /\ pc[self] = "CpExtra"
                 /\ IF Broken = "ctx_double_dec" /\ use[e[self]] > 0
                       THEN /\ use' = [use EXCEPT ![e[self]] = use[e[self]] - 1]
                       ELSE /\ TRUE
                            /\ use' = use
                 /\ pc' = [pc EXCEPT ![self] = "CpTest"]
                 /\ UNCHANGED << afd_lock, ctx_lock, id_lock, pool, cnt, 
                                 fdopen, nextfd, entries, ehash, ctxlive, 
                                 nextctx, next_id, version_logged, 
                                 cached_proto, issued, nlogged, holds, uses, 
                                 afd_uaf, ctx_uaf, aborted, round, key, myid, 
                                 myfd, myctx, t, e, p >>

CpTest(self) == /\ pc[self] = "CpTest"
                /\ IF use[e[self]] = 0
                      THEN /\ pc' = [pc EXCEPT ![self] = "CpRemove"]
                      ELSE /\ pc' = [pc EXCEPT ![self] = "CpUnlock"]
                /\ UNCHANGED << afd_lock, ctx_lock, id_lock, pool, cnt, fdopen, 
                                nextfd, entries, ehash, use, ctxlive, nextctx, 
                                next_id, version_logged, cached_proto, issued, 
                                nlogged, holds, uses, afd_uaf, ctx_uaf, 
                                aborted, round, key, myid, myfd, myctx, t, e, 
                                p >>

CpRemove(self) == /\ pc[self] = "CpRemove"
                  /\ entries' = Remove(entries, e[self])
                  /\ pc' = [pc EXCEPT ![self] = "CpFree"]
                  /\ UNCHANGED << afd_lock, ctx_lock, id_lock, pool, cnt, 
                                  fdopen, nextfd, ehash, use, ctxlive, nextctx, 
                                  next_id, version_logged, cached_proto, 
                                  issued, nlogged, holds, uses, afd_uaf, 
                                  ctx_uaf, aborted, round, key, myid, myfd, 
                                  myctx, t, e, p >>

CpFree(self) == /\ pc[self] = "CpFree"
                /\ ctxlive' = ctxlive \ {e[self]}
                /\ pc' = [pc EXCEPT ![self] = "CpUnlock"]
                /\ UNCHANGED << afd_lock, ctx_lock, id_lock, pool, cnt, fdopen, 
                                nextfd, entries, ehash, use, nextctx, next_id, 
                                version_logged, cached_proto, issued, nlogged, 
                                holds, uses, afd_uaf, ctx_uaf, aborted, round, 
                                key, myid, myfd, myctx, t, e, p >>

CpUnlock(self) == /\ pc[self] = "CpUnlock"
                  /\ IF Broken # "ctx_no_lock"
                        THEN /\ ctx_lock' = NoOne
                        ELSE /\ TRUE
                             /\ UNCHANGED ctx_lock
                  /\ t' = [t EXCEPT ![self] = 0]
                  /\ e' = [e EXCEPT ![self] = NoCtx]
                  /\ myctx' = [myctx EXCEPT ![self] = NoCtx]
                  /\ key' = [key EXCEPT ![self] = NoKey]
                  /\ pc' = [pc EXCEPT ![self] = "ApLock"]
                  /\ UNCHANGED << afd_lock, id_lock, pool, cnt, fdopen, nextfd, 
                                  entries, ehash, use, ctxlive, nextctx, 
                                  next_id, version_logged, cached_proto, 
                                  issued, nlogged, holds, uses, afd_uaf, 
                                  ctx_uaf, aborted, round, myid, myfd, p >>

ApLock(self) == /\ pc[self] = "ApLock"
                /\ IF "afd" \in Scope
                      THEN /\ IF Broken # "afd_no_lock"
                                 THEN /\ afd_lock = NoOne
                                      /\ afd_lock' = self
                                 ELSE /\ TRUE
                                      /\ UNCHANGED afd_lock
                           /\ pc' = [pc EXCEPT ![self] = "ApFind"]
                      ELSE /\ pc' = [pc EXCEPT ![self] = "Round"]
                           /\ UNCHANGED afd_lock
                /\ UNCHANGED << ctx_lock, id_lock, pool, cnt, fdopen, nextfd, 
                                entries, ehash, use, ctxlive, nextctx, next_id, 
                                version_logged, cached_proto, issued, nlogged, 
                                holds, uses, afd_uaf, ctx_uaf, aborted, round, 
                                key, myid, myfd, myctx, t, e, p >>

ApFind(self) == /\ pc[self] = "ApFind"
                /\ IF myfd[self] \in Range(pool)
                      THEN /\ e' = [e EXCEPT ![self] = myfd[self]]
                           /\ pc' = [pc EXCEPT ![self] = "ApRead"]
                           /\ UNCHANGED aborted
                      ELSE /\ aborted' = TRUE
                           /\ pc' = [pc EXCEPT ![self] = "ApUnlock"]
                           /\ e' = e
                /\ UNCHANGED << afd_lock, ctx_lock, id_lock, pool, cnt, fdopen, 
                                nextfd, entries, ehash, use, ctxlive, nextctx, 
                                next_id, version_logged, cached_proto, issued, 
                                nlogged, holds, uses, afd_uaf, ctx_uaf, round, 
                                key, myid, myfd, myctx, t, p >>

ApRead(self) == /\ pc[self] = "ApRead"
                /\ t' = [t EXCEPT ![self] = cnt[e[self]]]
                /\ pc' = [pc EXCEPT ![self] = "ApWrite"]
                /\ UNCHANGED << afd_lock, ctx_lock, id_lock, pool, cnt, fdopen, 
                                nextfd, entries, ehash, use, ctxlive, nextctx, 
                                next_id, version_logged, cached_proto, issued, 
                                nlogged, holds, uses, afd_uaf, ctx_uaf, 
                                aborted, round, key, myid, myfd, myctx, e, p >>

ApWrite(self) == /\ pc[self] = "ApWrite"
                 /\ cnt' = [cnt EXCEPT ![e[self]] = t[self] - 1]
                 /\ holds' = [holds EXCEPT ![self] = NoFd]
                 /\ pc' = [pc EXCEPT ![self] = "ApTest"]
                 /\ UNCHANGED << afd_lock, ctx_lock, id_lock, pool, fdopen, 
                                 nextfd, entries, ehash, use, ctxlive, nextctx, 
                                 next_id, version_logged, cached_proto, issued, 
                                 nlogged, uses, afd_uaf, ctx_uaf, aborted, 
                                 round, key, myid, myfd, myctx, t, e, p >>

ApTest(self) == /\ pc[self] = "ApTest"
                /\ IF cnt[e[self]] = AfdCloseAt
                      THEN /\ pc' = [pc EXCEPT ![self] = "ApRemove"]
                      ELSE /\ pc' = [pc EXCEPT ![self] = "ApUnlock"]
                /\ UNCHANGED << afd_lock, ctx_lock, id_lock, pool, cnt, fdopen, 
                                nextfd, entries, ehash, use, ctxlive, nextctx, 
                                next_id, version_logged, cached_proto, issued, 
                                nlogged, holds, uses, afd_uaf, ctx_uaf, 
                                aborted, round, key, myid, myfd, myctx, t, e, 
                                p >>

ApRemove(self) == /\ pc[self] = "ApRemove"
                  /\ pool' = Remove(pool, e[self])
                  /\ pc' = [pc EXCEPT ![self] = "ApClose"]
                  /\ UNCHANGED << afd_lock, ctx_lock, id_lock, cnt, fdopen, 
                                  nextfd, entries, ehash, use, ctxlive, 
                                  nextctx, next_id, version_logged, 
                                  cached_proto, issued, nlogged, holds, uses, 
                                  afd_uaf, ctx_uaf, aborted, round, key, myid, 
                                  myfd, myctx, t, e, p >>

ApClose(self) == /\ pc[self] = "ApClose"
                 /\ fdopen' = fdopen \ {e[self]}
                 /\ pc' = [pc EXCEPT ![self] = "ApUnlock"]
                 /\ UNCHANGED << afd_lock, ctx_lock, id_lock, pool, cnt, 
                                 nextfd, entries, ehash, use, ctxlive, nextctx, 
                                 next_id, version_logged, cached_proto, issued, 
                                 nlogged, holds, uses, afd_uaf, ctx_uaf, 
                                 aborted, round, key, myid, myfd, myctx, t, e, 
                                 p >>

ApUnlock(self) == /\ pc[self] = "ApUnlock"
                  /\ IF Broken # "afd_no_lock"
                        THEN /\ afd_lock' = NoOne
                        ELSE /\ TRUE
                             /\ UNCHANGED afd_lock
                  /\ t' = [t EXCEPT ![self] = 0]
                  /\ e' = [e EXCEPT ![self] = NoFd]
                  /\ myfd' = [myfd EXCEPT ![self] = NoFd]
                  /\ pc' = [pc EXCEPT ![self] = "Round"]
                  /\ UNCHANGED << ctx_lock, id_lock, pool, cnt, fdopen, nextfd, 
                                  entries, ehash, use, ctxlive, nextctx, 
                                  next_id, version_logged, cached_proto, 
                                  issued, nlogged, holds, uses, afd_uaf, 
                                  ctx_uaf, aborted, round, key, myid, myctx, p >>

thr(self) == Round(self) \/ VlRead(self) \/ VlLog(self) \/ VlWrite(self)
                \/ IdLock(self) \/ IdRead(self) \/ IdWrite(self)
                \/ IdUnlock(self) \/ BpRead(self) \/ BpLook(self)
                \/ BpWrite(self) \/ AgLock(self) \/ AgFind(self)
                \/ AgRead(self) \/ AgWrite(self) \/ AgCreate(self)
                \/ AgInsert(self) \/ AgUnlock(self) \/ CgLock(self)
                \/ CgHash(self) \/ CgLook(self) \/ CgRead(self)
                \/ CgWrite(self) \/ CgLoad(self) \/ CgNew(self)
                \/ CgInstall(self) \/ CgUnlock(self) \/ CpLock(self)
                \/ CpFind(self) \/ CpRead(self) \/ CpWrite(self)
                \/ CpExtra(self) \/ CpTest(self) \/ CpRemove(self)
                \/ CpFree(self) \/ CpUnlock(self) \/ ApLock(self)
                \/ ApFind(self) \/ ApRead(self) \/ ApWrite(self)
                \/ ApTest(self) \/ ApRemove(self) \/ ApClose(self)
                \/ ApUnlock(self)

(* Allow infinite stuttering to prevent deadlock on termination. *)
Terminating == /\ \A self \in ProcSet: pc[self] = "Done"
               /\ UNCHANGED vars

Next == (\E self \in Threads: thr(self))
           \/ Terminating

Spec == Init /\ [][Next]_vars

Termination == <>(\A self \in ProcSet: pc[self] = "Done")

\* END TRANSLATION

(***************************************************************************)
(* Properties                                                              *)
(***************************************************************************)
IdCS  == {"IdRead", "IdWrite", "IdUnlock"}
AfdCS == {"AgFind", "AgRead", "AgWrite", "AgCreate", "AgInsert", "AgUnlock",
          "ApFind", "ApRead", "ApWrite", "ApTest", "ApRemove", "ApClose", "ApUnlock"}
CtxCS == {"CgHash", "CgLook", "CgRead", "CgWrite", "CgLoad", "CgNew", "CgInstall", "CgUnlock",
          "CpFind", "CpRead", "CpWrite", "CpExtra", "CpTest", "CpRemove", "CpFree", "CpUnlock"}

In(cs) == {th \in Threads : pc[th] \in cs}
Quiet(cs) == In(cs) = {}

\* mutual exclusion of the critical sections, and the lock variable names the thread inside
Mutex == /\ Cardinality(In(IdCS)) <= 1 /\ Cardinality(In(AfdCS)) <= 1 /\ Cardinality(In(CtxCS)) <= 1
         /\ \A th \in In(IdCS) : id_lock = th
         /\ \A th \in In(AfdCS) : afd_lock = th
         /\ \A th \in In(CtxCS) : ctx_lock = th

\* cnt[fd] = number of holders, at every instant (the count and the hand-over change in one step)
AfdCount == \A fd \in Range(pool) : cnt[fd] = Cardinality({th \in Threads : holds[th] = fd})
\* an eventfd is open exactly while it is listed, listed exactly while it is counted
AfdClosedAtZero == /\ Range(pool) \subseteq fdopen
                   /\ NoDup(pool)
                   /\ Quiet(AfdCS) => (fdopen = Range(pool) /\ \A fd \in Range(pool) : cnt[fd] >= 1)
\* never handed out or used after it was closed
AfdNoUseAfterClose == ~afd_uaf /\ \A th \in Threads : holds[th] # NoFd => holds[th] \in fdopen
AfdBounded == \A fd \in Range(pool) : cnt[fd] <= MaxUsers

CtxCount == \A c \in Range(entries) : use[c] = Cardinality({th \in Threads : uses[th] = c})
CtxFreedAtZero == /\ Range(entries) \subseteq ctxlive
                  /\ NoDup(entries)
                  /\ Quiet(CtxCS) => (/\ ctxlive = Range(entries)
                                      /\ \A c \in Range(entries) : use[c] >= 1
                                      \* one entry per designation
                                      /\ \A c, d \in Range(entries) : ehash[c] = ehash[d] => c = d)
CtxNoUseAfterFree == ~ctx_uaf /\ \A th \in Threads : uses[th] # NoCtx => uses[th] \in ctxlive
\* a thread gets the context of the credentials it designated
CtxRight == \A th \in Threads : uses[th] # NoCtx => ehash[uses[th]] = key[th]

IdsUnique == NoDup(issued) /\ (Quiet(IdCS) => next_id = Len(issued))

FlagsSane == /\ cached_proto \in {"null", "btcp"}
             /\ "flags" \in Scope => \A th \in Threads : pc[th] \in (AfdCS \cup CtxCS \cup {"AgLock", "CgLock", "CpLock", "ApLock"}) => p[th] = "btcp"
             /\ nlogged <= Cardinality(Threads)
             /\ version_logged => nlogged >= 1
             /\ "flags" \in Scope => \A th \in Threads : (round[th] > 1 \/ pc[th] \notin {"Round", "VlRead", "VlLog", "VlWrite"}) => version_logged
FlagsIdempotent == [][/\ version_logged => version_logged'
                      /\ cached_proto # "null" => cached_proto' = cached_proto]_vars

NoAbort == ~aborted

AllDone == \A th \in Threads : pc[th] = "Done"
\* when every socket is closed nothing is left behind
Released == AllDone => /\ pool = <<>> /\ fdopen = {} /\ entries = <<>> /\ ctxlive = {}
                       /\ afd_lock = NoOne /\ ctx_lock = NoOne /\ id_lock = NoOne
                       /\ "id" \in Scope => Len(issued) = Cardinality(Threads) * Rounds

\* ghost counters for the vacuity check: the interesting situations are reached
SeenTwoFds == Len(pool) >= 2
SeenShared == \E c \in Range(entries) : use[c] >= 2
SeenTwoCtx == Len(entries) >= 2

\* refuted on purpose by the vacuity run: all three situations are reachable, even at once
NeverRich == ~(SeenTwoFds /\ SeenShared /\ SeenTwoCtx)

Symm == Permutations(Threads)
=============================================================================
