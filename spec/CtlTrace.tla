------------------------------ MODULE CtlTrace ------------------------------
(***************************************************************************)
(* Trace specification for C14: validates executions recorded by           *)
(* harness/ctl_exec on the real library against spec/Ctl.tla.  Monitor     *)
(* style: one line per step; the model state st is driven by the very      *)
(* operators of Ctl (Connect, Send, CP = one ctl_process round, Recv,      *)
(* Drop, Close, AppSend/AppRecv, Settled) from what the log says the       *)
(* clients, the application and the server did; what the model then says   *)
(* about every reply is compared with what was recorded.  Mismatches are   *)
(* printed as   "@V [x, n, tag, expected, observed]".                      *)
(*                                                                         *)
(* Tags C14.* are violations of the property statement:                    *)
(*   C14.crash          the owning process died (signal, assertion,        *)
(*                      sanitizer report)                                  *)
(*   C14.reply          a reply to a well-formed request differs from the  *)
(*                      in-process answer (type, length, value, errno,     *)
(*                      attribute set), is unsolicited / duplicated / of   *)
(*                      the wrong size, or never comes although the        *)
(*                      session is served                                  *)
(*   C14.first_request  the answer depends on what preceded the request on *)
(*                      the session (get-all as the first request)         *)
(*   C14.key            fragments of the private key in reply bytes, or    *)
(*                      tls.key answered / listed                          *)
(*   C14.files          control files left behind after xcm_close          *)
(*   C14.passive        the data path lost, reordered or damaged a         *)
(*                      message, or an API call reported something else    *)
(*                      than it does without control clients               *)
(* NOTE.* are things the model predicts but the statement does not demand  *)
(* (cadence, when exactly a reply is available, the two-session limit, the *)
(* reply type of get-all as such, time-outs of the client library).        *)
(***************************************************************************)
EXTENDS Ctl, IOUtils

Trace == ndJsonDeserialize(IOEnv.TRACE)
NL == Len(Trace)

\* wire facts of common/ctl_proto.h (enum ctl_proto_type)
TyGetCfm == 1
TyGetRej == 2
TyAllCfm == 4
EAGAIN == 11
EACCES == 13

KeyName == "tls.key"
\* values the kernel updates on its own: only type and length are compared
Volatile == {"tcp.rtt", "tcp.total_retrans", "tcp.segs_in", "tcp.segs_out"}
\* values that change with application traffic: compared exactly when the in-process answer was
\* taken at the quiescent point where the server read the request, or when no application
\* traffic happened since the request was sent
Counters == {"xcm.to_app_msgs", "xcm.to_app_bytes", "xcm.from_app_msgs", "xcm.from_app_bytes",
             "xcm.to_lower_msgs", "xcm.to_lower_bytes", "xcm.from_lower_msgs", "xcm.from_lower_bytes"}

VARIABLES l,      \* next line
          m,      \* monitor state of the current execution
          g,      \* facts kept across executions
          nv      \* mismatches reported so far
tvars == <<st, hist, l, m, g, nv>>

NoO == <<0, -1, -1, -1, -1, -1, -1>>
M0 == [tgt |-> "-", tp |-> "-", msgsz |-> 0, valmax |-> 512, maxattrs |-> 64,
       reqs |-> [s \in Sess |-> <<>>],      \* per session: what was sent (concrete), with the in-process sample
       nans |-> [s \in Sess |-> 0],         \* replies seen per session
       lib |-> [s \in Sess |-> FALSE], unsync |-> [s \in Sess |-> FALSE],
       eofs |-> [s \in Sess |-> FALSE],    \* the client has seen the server close the session
       apc |-> 0, dead |-> FALSE, over |-> FALSE]
G0 == [gam |-> -1, rep |-> 0, cfm |-> 0, rej |-> 0, all |-> 0, lrep |-> 0, eof |-> 0, crash |-> 0, app |-> 0,
       close |-> 0, third |-> 0, midx |-> 0, firstall |-> 0, big |-> 0, many |-> 0, key |-> 0, odd |-> 0, bad |-> 0,
       x |-> 0, srv |-> 0, timeout |-> 0, orc |-> 0]

TInit == st = St0 /\ hist = <<>> /\ l = 1 /\ m = M0 /\ g = G0 /\ nv = 0

\* ---- reporting ---------------------------------------------------------------
Chk(c, t, x, o) == [c |-> c, t |-> t, x |-> x, o |-> o]
Failed(cs) == SelectSeq(cs, LAMBDA r : ~r.c)
Report(ln, cs) ==
  LET f == Failed(cs) IN
  IF f = <<>> THEN TRUE
  ELSE \A i \in 1..Len(f) : PrintT("@V " \o ToJson(<<ln.x, ln.n, f[i].t, f[i].x, f[i].o>>))

\* ---- request kinds ------------------------------------------------------------
\* concrete kind (as sent by the harness) -> kind of the model
AK(k, nm) ==
  CASE k \in {"get", "g"} -> IF nm = KeyName THEN "key" ELSE "get"
    [] k \in {"all", "a"} -> "all"
    [] k \in {"short", "unk", "s", "u"} -> "bad"
    [] OTHER -> "odd"
Letter(k) == CASE k = "get" -> "g" [] k = "all" -> "a" [] k = "short" -> "s" [] k = "long" -> "l"
               [] k = "unk" -> "u" [] k = "unterm" -> "t" [] OTHER -> k

\* The statement says nothing about what a malformed message is answered with (ctl.c closes the session;
\* answering it, or keeping the session, would be just as safe): from the first malformed request of a
\* session on, its replies are only scanned for the key, and what the model derives from "the server
\* closes that session" is demanded only once the client has really seen it closed.
FirstBad(s) == LET b == {j \in 1..Len(m.reqs[s]) : AK(m.reqs[s][j].k, m.reqs[s][j].nm) = "bad"}
               IN IF b = {} THEN 1000000 ELSE CHOOSE j \in b : \A h \in b : j <= h
ClosuresSeen == \A t \in Sess : (FirstBad(t) < 1000000 /\ st.cl[t] = "open") => m.eofs[t]

\* ---- the model catches up with the server -----------------------------------------
\* The log tells when the server ran (srv lines); should an observation be ahead of the model
\* (activity the shim did not show), further rounds are granted before judging.
RECURSIVE CatchUp(_, _, _)
CatchUp(S, s, n) == IF n = 0 \/ RecvObs(S, s) # "none" THEN S ELSE CatchUp(CP(S), s, n - 1)

\* ---- comparing a reply with the in-process answer ---------------------------------
\* o = <<have, rc, errno, type, hash, rc with a large buffer, quiescent>>
ValueFree(nm, rq, quiescent) ==
  \/ nm \in Volatile
  \/ (nm \in Counters /\ ~quiescent /\ rq.ap # m.apc)

\* reply to a get-like request: r = <<sz, mt, at, vl, vh, er, na, key>>
GetChecks(rq, r, o, quiescent) ==
  LET nm == rq.nm
  IN
  IF nm = KeyName THEN      \* however the request was dressed up (plain, over-long message)
    <<Chk(r[2] = TyGetRej, "C14.key", <<"rejection of", nm>>, <<"type", r[2], "len", r[4]>>)>>
  ELSE IF o[1] = 0 THEN <<Chk(~st.open, "INTERNAL", "in-process sample", "missing")>>   \* owner already closed: not judged
  ELSE IF rq.k = "unterm" /\ o[2] < 0 THEN
    \* the field holds no terminated name: any rejection will do
    <<Chk(r[2] = TyGetRej, "C14.reply", <<"rejection of an unterminated name">>, <<"type", r[2], "len", r[4]>>)>>
  ELSE IF o[2] >= 0 THEN
    <<Chk(r[2] = TyGetCfm, "C14.reply", <<nm, "confirm">>, <<"type", r[2], "errno", r[6]>>),
      Chk(r[2] # TyGetCfm \/ (r[3] = o[4] /\ r[4] = o[2]), "C14.reply", <<nm, "type", o[4], "len", o[2]>>,
          <<"type", r[3], "len", r[4]>>),
      Chk(r[2] # TyGetCfm \/ r[4] # o[2] \/ ValueFree(nm, rq, quiescent) \/ r[5] = o[5], "C14.reply",
          <<nm, "value hash", o[5]>>, <<"value hash", r[5]>>)>>
  ELSE
    <<Chk(r[2] = TyGetRej, "C14.reply", <<nm, "rejection", o[3]>>, <<"type", r[2], "len", r[4]>>),
      Chk(r[2] # TyGetRej \/ r[6] = o[3], "C14.reply", <<nm, "errno", o[3]>>, <<"errno", r[6]>>)>>

\* attribute lists: sequences of <<name, type, len, hash>>
Names(a) == {a[i][1] : i \in 1..Len(a)}
Entry(a, nm) == a[CHOOSE i \in 1..Len(a) : a[i][1] = nm]
Dups(a) == {a[i][1] : i \in {j \in 1..Len(a) : \E h \in 1..(j - 1) : a[h][1] = a[j][1]}}

AllChecks(rq, al, na, oal, quiescent) ==
  LET want == {nm \in Names(oal) : nm # KeyName}
      fits == {nm \in want : Entry(oal, nm)[3] <= m.valmax}
      seen == Names(al)
      wrong == {nm \in seen \cap want :
                  LET e == Entry(al, nm) o == Entry(oal, nm) IN
                  \/ e[2] # o[2]
                  \/ (o[3] <= m.valmax /\ e[3] # o[3])
                  \/ (o[3] <= m.valmax /\ e[3] = o[3] /\ ~ValueFree(nm, rq, quiescent) /\ e[4] # o[4])
                  \/ (o[3] > m.valmax /\ e[3] > m.valmax)}
      cut == {nm \in seen \cap want : Entry(oal, nm)[3] > m.valmax /\ Entry(al, nm)[3] <= m.valmax}
      missing == fits \ seen
      room == Cardinality(fits) <= m.maxattrs
  IN
  <<Chk(na >= 0 /\ na <= m.maxattrs /\ na = Len(al), "C14.reply", <<"attribute count within", m.maxattrs>>, <<na, Len(al)>>),
    Chk(KeyName \notin seen, "C14.key", <<KeyName, "not listed">>, "listed"),
    Chk(seen \subseteq Names(oal), "C14.reply", "only attributes the socket has", seen \ Names(oal)),
    Chk(Dups(al) = {}, "C14.reply", "no attribute twice", Dups(al)),
    Chk(wrong = {}, "C14.reply", <<"same type, length and value as xcm_attr_get_all", Cardinality(want)>>, wrong),
    Chk(~room \/ missing = {}, "C14.reply", <<"every attribute that fits", Cardinality(fits)>>, <<"missing", missing>>),
    Chk(room \/ Cardinality(seen) >= m.maxattrs - 1, "NOTE.list_short", m.maxattrs, Cardinality(seen)),
    Chk(cut = {}, "NOTE.truncated_values", "", cut)>>

\* ---- steps ------------------------------------------------------------------------------
Req(ln, k, isLib) == [k |-> k, nm |-> ln.nm, lib |-> isLib, ap |-> m.apc, has |-> FALSE, o |-> NoO, oal |-> <<>>]

\* the sample to judge request rq by: the one taken where the server read it, else the one in the line
SampleO(rq, ln) == IF rq.has THEN rq.o ELSE ln.o
SampleAL(rq, ln) == IF rq.has THEN rq.oal ELSE ln.oal

Served(S, s) == S.cl[s] = "open" /\ Settled(S).sv[s] = "acc"

StepX(ln) ==
  /\ st' = St0
  /\ m' = [M0 EXCEPT !.tgt = ln.k, !.tp = ln.nm, !.msgsz = ln.sv[3], !.valmax = ln.sv[4], !.maxattrs = ln.sv[5],
                     !.dead = (ln.k = "dead")]
  /\ g' = [g EXCEPT !.x = @ + 1,
                    !.big = @ + (IF \E i \in 1..Len(ln.oal) : ln.oal[i][3] > ln.sv[4] THEN 1 ELSE 0),
                    !.many = @ + (IF Len(ln.oal) > ln.sv[5] THEN 1 ELSE 0)]
  /\ Report(ln, <<Chk(ln.a = 0, "INTERNAL", "socket set-up", ln.a),
                  Chk(ln.a # 0 \/ ln.sv[1] >= 1, "INTERNAL", "control file of the owner", ln.sv),
                  Chk(ln.a # 0 \/ ln.sv[2] >= 1, "NOTE.no_server_view", "listening descriptor of the control socket", ln.sv)>>)
  /\ nv' = nv + (IF ln.a = 0 THEN 0 ELSE 1)

StepConn(ln) ==
  LET s == ln.s
      ok == ln.ap[1] = 0
      S1 == Connect(st, s)
      \* follow what the kernel did
      S2 == IF ok = (S1.cl[s] = "open") THEN S1
            ELSE IF ok THEN [st EXCEPT !.cl[s] = "open", !.sv[s] = "blog", !.blog = Append(@, s), !.ord = Append(@, s)]
            ELSE [st EXCEPT !.cl[s] = "refused"]
      cs == <<Chk(ok = (S1.cl[s] = "open"), "NOTE.backlog", S1.cl[s], ln.ap)>>
  IN /\ st' = S2
     /\ m' = [m EXCEPT !.lib[s] = (ln.k = "lib")]
     /\ g' = [g EXCEPT !.third = @ + (IF Len(st.ord) >= MaxClients THEN 1 ELSE 0)]
     /\ Report(ln, cs) /\ nv' = nv + Len(Failed(cs))

StepReq(ln) ==
  LET s == ln.s
      sent == ln.ap[1] >= 0
      isLib == ln.a = 2 /\ m.lib[s]
      k == AK(ln.k, ln.nm)
  IN /\ st' = IF sent /\ st.cl[s] = "open" THEN Send(st, s, k) ELSE st
     /\ m' = IF sent THEN [m EXCEPT !.reqs[s] = Append(@, Req(ln, ln.k, isLib))] ELSE m
     /\ g' = [g EXCEPT !.firstall = @ + (IF sent /\ k = "all" /\ m.reqs[s] = <<>> THEN 1 ELSE 0),
                       !.key = @ + (IF k = "key" THEN 1 ELSE 0), !.odd = @ + (IF k = "odd" THEN 1 ELSE 0),
                       !.bad = @ + (IF k = "bad" THEN 1 ELSE 0)]
     /\ nv' = nv

StepSrv(ln) ==
  LET active == ln.sv[2] + ln.sv[3] + ln.sv[4] + ln.sv[5] > 0
      cs == <<Chk(ln.sv[1] <= MaxClients, "NOTE.sessions", MaxClients, ln.sv[1])>>
  IN /\ st' = IF active /\ st.open THEN CP(st) ELSE st
     /\ m' = m /\ g' = [g EXCEPT !.srv = @ + 1]
     /\ Report(ln, cs) /\ nv' = nv + Len(Failed(cs))

StepOrc(ln) ==
  LET s == ln.s
      i == ln.a
      \* the sample belongs to the request only if it was taken for the name that request asked for
      ok == i >= 1 /\ i <= Len(m.reqs[s]) /\ m.reqs[s][i].nm = ln.nm
  IN /\ st' = st
     /\ m' = IF ok THEN [m EXCEPT !.reqs[s][i].has = TRUE, !.reqs[s][i].o = ln.o, !.reqs[s][i].oal = ln.oal] ELSE m
     /\ g' = [g EXCEPT !.orc = @ + 1] /\ nv' = nv

\* a reply read by the raw client
StepRep(ln) ==
  LET s == ln.s
      r == ln.r
      i == m.nans[s] + 1
      T == CatchUp(st, s, 8)
      obs == RecvObs(T, s)
  IN
  IF ln.k \in {"none", "err", "nofd"} THEN
    /\ st' = st /\ m' = m /\ g' = g
    /\ Report(ln, <<Chk(ln.k # "none" \/ RecvObs(st, s) # "reply" \/ m.dead, "NOTE.late", RecvObs(st, s), ln.k)>>)
    /\ nv' = nv + (IF ln.k # "none" \/ RecvObs(st, s) # "reply" \/ m.dead THEN 0 ELSE 1)
  ELSE IF ln.k = "eof" THEN
    LET lenient == \/ ~st.open
                   \/ \E j \in 1..Len(st.sent[s]) : ~WellFormed(st.sent[s][j].k)
        cs == <<Chk(obs = "eof" \/ lenient, "C14.reply", <<"session kept: only well-formed requests", Len(st.sent[s])>>,
                    "closed by the server")>>
    IN /\ st' = IF obs = "eof" THEN T ELSE [st EXCEPT !.sv[s] = "rm", !.pend[s] = NoRep, !.inq[s] = <<>>,
                                                       !.tbl = SelectSeq(st.tbl, LAMBDA c : c # s),
                                                       !.blog = SelectSeq(st.blog, LAMBDA c : c # s)]
       /\ m' = [m EXCEPT !.eofs[s] = TRUE] /\ g' = [g EXCEPT !.eof = @ + 1]
       /\ Report(ln, cs) /\ nv' = nv + Len(Failed(cs))
  ELSE
    LET have == i <= Len(m.reqs[s])
        rq == IF have THEN m.reqs[s][i] ELSE Req(ln, "get", FALSE)
        ans == AnsPrefix(st.sent[s])
        after == i >= FirstBad(s)          \* at or behind the first malformed request: not judged
        solicited == after \/ (have /\ i <= Len(ans))
        quiescent == rq.has
        o == SampleO(rq, ln)
        oal == SampleAL(rq, ln)
        isAll == AK(rq.k, rq.nm) = "all"
        base == <<Chk(solicited, "C14.reply", <<"a reply per answerable request", Len(ans)>>, <<"reply number", i>>),
                  Chk(after \/ r[1] = m.msgsz, "C14.reply", <<"reply size", m.msgsz>>, r[1]),
                  Chk(r[8] = 0, "C14.key", "no fragment of the private key in the reply", <<"fragments", r[8]>>)>>
        \* a reply read after xcm_close for which no in-process answer could be taken is not judged
        body == IF after THEN <<Chk(FALSE, "NOTE.reply_after_malformed", "session closed", <<"type", r[2]>>)>>
                ELSE IF ~solicited \/ r[1] # m.msgsz \/ ~(rq.has \/ st.open) THEN <<>>
                ELSE IF isAll THEN
                  AllChecks(rq, ln.al, r[7], oal, quiescent)
                  \o <<Chk(g.gam = -1 \/ g.gam = r[2], "C14.first_request",
                           <<"reply type of get-all whatever preceded it", g.gam>>, r[2]),
                       Chk(r[2] = TyAllCfm, "NOTE.getall_type", TyAllCfm, r[2])>>
                ELSE GetChecks(rq, r, o, quiescent)
        cs == base \o body
        hard == SelectSeq(Failed(cs), LAMBDA c : c.t # "NOTE.getall_type")
    IN /\ st' = IF obs = "reply" THEN Recv(T, s) ELSE st
       /\ m' = [m EXCEPT !.nans[s] = i]
       /\ g' = [g EXCEPT !.rep = @ + 1,
                         !.gam = IF isAll /\ solicited /\ ~after /\ @ = -1 THEN r[2] ELSE @,
                         !.all = @ + (IF isAll THEN 1 ELSE 0),
                         !.cfm = @ + (IF ~isAll /\ r[2] = TyGetCfm THEN 1 ELSE 0),
                         !.rej = @ + (IF ~isAll /\ r[2] = TyGetRej THEN 1 ELSE 0)]
       /\ Report(ln, cs) /\ nv' = nv + Len(hard)

\* the result of a libxcmctl call: r[1] = return value, r[6] = errno
StepLrep(ln) ==
  LET s == ln.s
      r == ln.r
      i == m.nans[s] + 1
      have == i <= Len(m.reqs[s])
      rq == IF have THEN m.reqs[s][i] ELSE Req(ln, "get", TRUE)
      T == CatchUp(st, s, 12)
      obs == RecvObs(T, s)
      isAll == AK(rq.k, rq.nm) = "all"
      isKey == rq.nm = KeyName
      o == SampleO(rq, ln)
      oal == SampleAL(rq, ln)
      quiescent == rq.has
      timeout == r[1] < 0 /\ r[6] = EAGAIN
      judged == have /\ ~m.unsync[s] /\ ln.k # "nofd" /\ (st.open \/ rq.has)
      tag == IF isAll THEN "C14.first_request" ELSE "C14.reply"
      cs ==
        IF ~judged THEN <<>>
        ELSE IF timeout THEN
          \* not served within the client library's own time limit: expected when the session waits in
          \* the backlog or the owner makes no successful calls; otherwise machine load, never a verdict
          <<Chk(~Served(st, s) \/ m.dead, "NOTE.timeout", "served", <<"calls", ln.ap[1]>>)>>
        ELSE
          <<Chk(r[8] = 0, "C14.key", "no fragment of the private key in the reply", <<"fragments", r[8]>>)>> \o
          (IF isKey THEN <<Chk(r[1] < 0, "C14.key", <<"rejection of", rq.nm>>, <<"length", r[1]>>)>>
           ELSE IF isAll THEN
             IF r[1] < 0 THEN <<Chk(FALSE, tag, <<"xcmc_attr_get_all succeeds", i>>, <<"errno", r[6]>>)>>
             ELSE AllChecks(rq, ln.al, r[7], oal, quiescent)
           ELSE IF o[1] = 0 THEN <<Chk(FALSE, "INTERNAL", "in-process sample", "missing")>>
           ELSE IF o[2] >= 0 THEN
             <<Chk(r[1] >= 0, tag, <<rq.nm, "len", o[2]>>, <<"errno", r[6]>>),
               Chk(r[1] < 0 \/ (r[3] = o[4] /\ r[4] = o[2]), tag, <<rq.nm, "type", o[4], "len", o[2]>>, <<"type", r[3], "len", r[4]>>),
               Chk(r[1] < 0 \/ r[4] # o[2] \/ ValueFree(rq.nm, rq, quiescent) \/ r[5] = o[5], tag,
                   <<rq.nm, "value hash", o[5]>>, <<"value hash", r[5]>>)>>
           ELSE
             <<Chk(r[1] < 0, tag, <<rq.nm, "rejection", o[3]>>, <<"length", r[1]>>),
               Chk(r[1] >= 0 \/ r[6] = o[3], tag, <<rq.nm, "errno", o[3]>>, <<"errno", r[6]>>)>>)
  IN /\ st' = IF obs = "reply" /\ ~timeout THEN Recv(T, s) ELSE st
     /\ m' = [m EXCEPT !.nans[s] = i, !.unsync[s] = @ \/ timeout]
     /\ g' = [g EXCEPT !.lrep = @ + (IF judged /\ ~timeout THEN 1 ELSE 0), !.timeout = @ + (IF timeout THEN 1 ELSE 0)]
     /\ Report(ln, cs) /\ nv' = nv + Len(Failed(cs))

StepDrop(ln) ==
  LET s == ln.s
      mid == st.cl[s] = "open" /\ (st.pend[s] # NoRep \/ st.outq[s] # <<>> \/ st.inq[s] # <<>>)
  IN /\ st' = IF st.cl[s] = "open" THEN Drop(st, s) ELSE st
     /\ m' = m /\ g' = [g EXCEPT !.midx = @ + (IF mid THEN 1 ELSE 0)] /\ nv' = nv

RECURSIVE AppN(_, _)
AppN(S, n) == IF n = 0 THEN S ELSE AppN(AppRecv(AppSend(S)), n - 1)

\* ap = <<sent, received intact and in order, bad, rc, errno>> for the two directions
StepApp(ln) ==
  LET n == ln.a
      has == m.tgt \in {"cli", "acc", "srv"}
      S1 == IF has /\ st.open THEN AppN(st, n) ELSE st
      want == Len(S1.arcvd) - Len(st.arcvd)
      cs == IF has THEN
              <<Chk(ln.ap[1] = want /\ ln.ap[2] = want /\ ln.ap[3] = 0, "C14.passive",
                    <<"owner to peer: sent, delivered in order, damaged", want, want, 0>>,
                    <<ln.ap[1], ln.ap[2], ln.ap[3], "rc", ln.ap[4], "errno", ln.ap[5]>>),
                Chk(ln.ap[6] = want /\ ln.ap[7] = want /\ ln.ap[8] = 0, "C14.passive",
                    <<"peer to owner: sent, delivered in order, damaged", want, want, 0>>,
                    <<ln.ap[6], ln.ap[7], ln.ap[8], "rc", ln.ap[9], "errno", ln.ap[10]>>)>>
            ELSE IF m.tgt = "dead" THEN
              <<Chk(ln.ap[3] = 0, "C14.passive", "no data on a closed connection", <<"rc", ln.ap[4]>>)>>
            ELSE <<>>
  IN /\ st' = S1
     /\ m' = [m EXCEPT !.apc = @ + 1] /\ g' = [g EXCEPT !.app = @ + 1]
     /\ Report(ln, cs) /\ nv' = nv + Len(Failed(cs))

\* ap = <<calls, last rc, last errno, calls with another result than the idle socket gives, rounds seen>>
StepPump(ln) ==
  LET cs == <<Chk(ln.ap[4] = 0 \/ m.dead, "C14.passive",
                  "the API call on the idle socket reports what it reports without control clients",
                  <<"calls", ln.ap[4], "last rc", ln.ap[2], "errno", ln.ap[3]>>),
              Chk(ln.ap[5] > 0 \/ m.dead, "NOTE.cadence", "a server round", <<"calls", ln.ap[1]>>)>>
  IN /\ st' = st /\ m' = m /\ g' = g
     /\ Report(ln, cs) /\ nv' = nv + Len(Failed(cs))

\* end of the behaviour: the harness has driven the owner until nothing moved any more
StepFin(ln) ==
  LET T == Settled(st)
      due(s) == Len(T.got[s]) + Len(T.outq[s])
      cs == [i \in 1..Len(ln.svs) |->
               LET s == ln.svs[i][2] IN
               Chk(~(st.cl[s] = "open" /\ ~m.lib[s]) \/ m.dead \/ ~st.open \/ ~ClosuresSeen \/ m.nans[s] >= due(s), "C14.reply",
                   <<"session", s, "replies due once the server has settled", due(s)>>, <<"replies read", m.nans[s]>>)]
      notes == <<Chk(ln.sv[2] <= MaxClients, "NOTE.sessions", MaxClients, ln.sv[2])>>
  IN /\ st' = T
     /\ m' = m /\ g' = g
     /\ Report(ln, cs \o notes) /\ nv' = nv + Len(Failed(cs \o notes))

StepClose(ln) ==
  LET cs == <<Chk(ln.fl = <<>>, "C14.files", "no control file of the closed socket", ln.fl)>>
  IN /\ st' = Close(st)
     /\ m' = m /\ g' = [g EXCEPT !.close = @ + 1]
     /\ Report(ln, cs) /\ nv' = nv + Len(Failed(cs))

StepEnd(ln) ==
  LET cs == <<Chk(ln.fl = <<>>, "C14.files", "no control file of any socket of the execution", ln.fl)>>
  IN /\ st' = st /\ m' = [m EXCEPT !.over = TRUE] /\ g' = g
     /\ Report(ln, cs) /\ nv' = nv + Len(Failed(cs))

StepCrash(ln) ==
  /\ st' = st /\ m' = [m EXCEPT !.over = TRUE] /\ g' = [g EXCEPT !.crash = @ + 1]
  /\ Report(ln, <<Chk(FALSE, "C14.crash", "the owning application survives", ln.tx)>>)
  /\ nv' = nv + 1

TNext ==
  /\ l <= NL
  /\ l' = l + 1
  /\ hist' = hist
  /\ LET ln == Trace[l] IN
     /\ CASE ln.ev = "x" -> StepX(ln)
          [] ln.ev = "conn" -> StepConn(ln)
          [] ln.ev = "req" -> StepReq(ln)
          [] ln.ev = "srv" -> StepSrv(ln)
          [] ln.ev = "orc" -> StepOrc(ln)
          [] ln.ev = "rep" -> StepRep(ln)
          [] ln.ev = "lrep" -> StepLrep(ln)
          [] ln.ev = "drop" -> StepDrop(ln)
          [] ln.ev = "app" -> StepApp(ln)
          [] ln.ev = "pump" -> StepPump(ln)
          [] ln.ev = "fin" -> StepFin(ln)
          [] ln.ev = "close" -> StepClose(ln)
          [] ln.ev = "end" -> StepEnd(ln)
          [] ln.ev = "crash" -> StepCrash(ln)
          [] OTHER -> /\ UNCHANGED <<st, m, g>>
                      /\ PrintT("@V " \o ToJson(<<ln.x, ln.n, "INTERNAL", "known event", ln.ev>>))
                      /\ nv' = nv + 1
     /\ (l < NL \/ PrintT("@STAT " \o ToJson(g')))

TSpec == TInit /\ [][TNext]_tvars

\* the invariants of the design hold along every recorded execution as the model follows it
FifoModel == \A c \in Sess : Len(st.got[c]) <= Len(AnsPrefix(st.sent[c]))
TraceInv == BoundedSessions /\ Passive /\ FifoModel

\* the whole trace was consumed (a line the specification cannot process stops it early)
Accepted == TLCGet("stats").diameter = NL + 1
=============================================================================
