---------------------------- MODULE AttrPathTrace ----------------------------
(***************************************************************************)
(* Trace specification for attribute path names (property C19): validates  *)
(* what harness/maps_exec (mode path) got from attr_path_parse /           *)
(* attr_path_to_str / attr_path_equal / attr_path_equal_str /              *)
(* attr_path_len for every vector against Parse and PrintP of AttrPath.    *)
(*                                                                         *)
(* One line per vector: the string s (character codes), root flag r, and   *)
(* the observations: ok (parse returned a path), the components cs         *)
(* (<<0, key codes>> | <<1, digits of the index>>), the printed form t,    *)
(* attr_path_len pl, and rt = <<parse(t) succeeded, parse(t) equals the    *)
(* path (both ways), print(parse(t)) = t, equal_str(path, s),              *)
(* equal_str(path, t), equal_str(path, t + "q") is false>>.                *)
(*                                                                         *)
(* Demanded (violations): a string of the documented syntax is accepted    *)
(* with exactly the specified components (C19.path_accepts); a string      *)
(* outside it or over the length limit is rejected (C19.path_rejects);     *)
(* for EVERY accepted string printing and re-parsing gives an equal path   *)
(* and the printed form is the canonical one (C19.path_roundtrip); no      *)
(* vector crashes (C19.crash).  Not demanded (counted as notes): the       *)
(* verdict on lenient index syntax, the empty string, huge indices, more   *)
(* than CompMax components, and on relative paths (r = 0).                 *)
(* Mismatches are printed as @V <vector> <0> <tag> <what> <exp> <obs>.     *)
(***************************************************************************)
EXTENDS AttrPath, IOUtils

TraceLog == ndJsonDeserialize(IOEnv.TRACE)
NL == Len(TraceLog)

VARIABLES l,       \* next line
          nv,      \* mismatches reported
          notes    \* counters: classes seen and things noted

tpvars == <<str, aut, l, nv, notes>>

Counters == {"valid", "invalid", "long", "lenient", "empty", "bigidx", "deep", "relative",
             "accepted", "rejected", "crashed",
             "note_lenient_accepted", "note_empty_accepted", "note_bigidx_accepted", "note_bigidx_rejected",
             "note_deep_accepted", "note_deep_rejected", "note_lenient_components", "note_relative_verdict"}

Chk(c, t, w, x, o) == [c |-> c, t |-> t, w |-> w, x |-> x, o |-> o]
Failed(cs) == SelectSeq(cs, LAMBDA r : ~r.c)

Bump(f, S) == [k \in DOMAIN f |-> IF k \in S THEN f[k] + 1 ELSE f[k]]

VecChecks(ln, p, root) ==
  LET demand == root      \* DESIGN 7.1 fixes the reading for full (rooted) names only
  IN
  <<Chk(~(demand /\ p.cls = "valid") \/ ln.ok = 1, "C19.path_accepts", "rejected", p.cls, ln.ok),
    Chk(~(demand /\ p.cls \in {"invalid", "long"}) \/ ln.ok = 0, "C19.path_rejects", "accepted", p.cls, ln.cs)>>
  \o (IF ln.ok # 1 THEN <<>> ELSE
      <<Chk(~(demand /\ p.cls = "valid") \/ ln.cs = p.comps, "C19.path_accepts", "components", p.comps, ln.cs),
        Chk(ln.nc = Len(ln.cs), "C19.path_roundtrip", "num_comps", Len(ln.cs), ln.nc),
        \* the printed form is the canonical form of the components the parser reported ...
        Chk(ln.t = PrintP(ln.cs, root), "C19.path_roundtrip", "print", PrintP(ln.cs, root), ln.t),
        Chk(ln.pl = Len(ln.t), "C19.path_roundtrip", "len", Len(ln.t), ln.pl),
        \* ... which, by the specification, parses back to the same components ...
        Chk(Len(ln.t) > NameMax \/ Parse(ln.t, root).comps = ln.cs, "C19.path_roundtrip", "spec_reparse",
            ln.cs, Parse(ln.t, root).comps),
        \* ... and so it does in the implementation
        Chk(ln.rt = <<1, 1, 1, 1, 1, 1>>, "C19.path_roundtrip", "reparse_equal_fix_eqs_eqt_neq", <<1, 1, 1, 1, 1, 1>>, ln.rt)>>)

NoteSet(ln, p, root) ==
  {p.cls} \cup (IF root THEN {} ELSE {"relative"})
  \cup (IF ln.ok = 1 THEN {"accepted"} ELSE {"rejected"})
  \cup (IF root /\ ln.ok = 1 /\ p.cls \in {"lenient", "empty", "bigidx", "deep"} THEN {"note_" \o p.cls \o "_accepted"} ELSE {})
  \cup (IF root /\ ln.ok = 0 /\ p.cls \in {"bigidx", "deep"} THEN {"note_" \o p.cls \o "_rejected"} ELSE {})
  \cup (IF ln.ok = 1 /\ p.cls = "lenient" /\ ln.cs # p.comps THEN {"note_lenient_components"} ELSE {})
  \cup (IF ~root /\ ((p.cls = "valid" /\ ln.ok = 0) \/ (p.cls \in {"invalid", "long"} /\ ln.ok = 1)) THEN {"note_relative_verdict"} ELSE {})

Vec(ln) ==
  LET root == ln.r = 1
      p == Parse(ln.s, root)
      f == Failed(VecChecks(ln, p, root))
  IN /\ IF f = <<>> THEN TRUE ELSE PrintT(<<"@V", ln.i, 0, f[1].t, f[1].w, f[1].x, f[1].o>>)
     /\ nv' = nv + (IF f = <<>> THEN 0 ELSE 1)
     /\ notes' = Bump(notes, NoteSet(ln, p, root))

Crash(ln) ==
  /\ PrintT(<<"@V", ln.i, ln.nc, "C19.crash", "crash", Parse(ln.s, ln.r = 1).cls, ln.why>>)
  /\ nv' = nv + 1
  /\ notes' = Bump(notes, {"crashed"})

TNext ==
  /\ l <= NL
  /\ l' = l + 1
  /\ UNCHANGED <<str, aut>>
  /\ LET ln == TraceLog[l] IN
     CASE ln.op = "v" -> Vec(ln)
       [] ln.op = "crash" -> Crash(ln)
  /\ (l = NL) => PrintT(<<"@N", notes'>>)

TInit == /\ str = <<>>
         /\ aut = [r \in BOOLEAN |-> Start(r)]
         /\ l = 1 /\ nv = 0
         /\ notes = [k \in Counters |-> 0]

TSpec == TInit /\ [][TNext]_tpvars

Accepted == TLCGet("stats").diameter = NL + 1
=============================================================================
